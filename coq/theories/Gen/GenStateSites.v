(* Inventory of memoisation and mutable process state in src/nunavut (C10): vocabulary, admissibility predicate and the
   committed inventory.  The table itself (Generated/Gen_Sites.v: g_sites, g_uniq_filters) is regenerated from /repo on every
   check run by tools/translators/gen_c10.py (generator 'sites').  Executable definitions only. *)
From Verif Require Export Str.
Open Scope N_scope.

Inductive skind :=
| KLruMethod        (* functools.lru_cache/cache on a method: key = (self, arguments) *)
| KLruFunction      (* functools.lru_cache/cache on a module-level function, staticmethod or classmethod: key = arguments *)
| KCachedProp       (* cached_property: one value per instance *)
| KInstanceMemo     (* self.<..cache/memo..> = container created in a method: one table per instance *)
| KInstanceLazy     (* if self.x is None: self.x = ...  : one value per instance *)
| KClassSingleton   (* cls.x = ... : one object per interpreter *)
| KClassContainer   (* mutable display as a class attribute *)
| KModuleContainer  (* mutable display at module level *)
| KModuleGlobal.    (* 'global x' inside a function *)

Inductive pkind :=
| PSelfIdentity     (* self of a class without __eq__/__hash__: compared by identity *)
| PSelfByEq         (* self of a class that defines __eq__/__hash__ *)
| PValue            (* str/int/bool/float/bytes (or Optional of these): compared by value, immutable *)
| PObject.          (* anything else: compared through a user-defined __eq__/__hash__, which may see less than the function reads *)

Record site := { s_file : str; s_name : str; s_kind : skind; s_params : list (str * pkind); s_flag : bool; s_key : str;
                 s_value_mutable : bool;    (* the memoised VALUE is not a str/int/bool/float/bytes: every caller gets the same object *)
                 s_value_mutated : bool }.  (* some code stores into / calls a mutator on / setattr's an object obtained from it *)
(* s_flag: KLruFunction -> the body reads only its parameters and module-level imports/definitions/constants;
           KClassContainer/KModuleContainer -> some code of the module stores into the container;
           KClassSingleton -> _generate_code replaces the object at the start of every file *)

Inductive freg := RVolatile | RContext | REnvironment | RLanguage | RPlain.
Record uniq_filter := { f_lang : str; f_filter : str; f_key : str; f_prefix : str; f_suffix : str; f_reg : freg }.

Definition pkind_eqb (a b : pkind) : bool :=
  match a, b with PSelfIdentity, PSelfIdentity | PSelfByEq, PSelfByEq | PValue, PValue | PObject, PObject => true | _, _ => false end.
Definition is_value (p : str * pkind) : bool := pkind_eqb (snd p) PValue.

(* the kinds the transparency lemmas cover: the memo key determines everything the memoised computation reads
   (lru_call_transparent / proj_cache_transparent: identity of self + arguments compared by value), or the state is per
   instance (a function of the instance), or it is never written, or it is re-created for every file *)
Definition site_ok (s : site) : bool :=
  negb (s_value_mutated s) &&       (* a memoised object that a caller modifies carries state from one caller to the next *)
  match s_kind s with
  | KLruMethod => match s_params s with
                  | (_, PSelfIdentity) :: rest => forallb is_value rest
                  | _ => false
                  end
  | KLruFunction => forallb is_value (s_params s) && s_flag s
  | KCachedProp | KInstanceMemo | KInstanceLazy => true
  | KClassSingleton => s_flag s
  | KClassContainer | KModuleContainer => negb (s_flag s)
  | KModuleGlobal => false
  end.

Definition skind_eqb (a b : skind) : bool :=
  match a, b with
  | KLruMethod, KLruMethod | KLruFunction, KLruFunction | KCachedProp, KCachedProp | KInstanceMemo, KInstanceMemo
  | KInstanceLazy, KInstanceLazy | KClassSingleton, KClassSingleton | KClassContainer, KClassContainer
  | KModuleContainer, KModuleContainer | KModuleGlobal, KModuleGlobal => true
  | _, _ => false
  end.

(* sites known NOT to be admissible, each tied to a listed finding that the check probes at run time *)
Definition known_inadmissible : list (str * str) := [].     (* none at present (F-DEPBUILDER-STALE was fixed in f1abaa9: the memo is gone) *)

Definition is_known_inadmissible (s : site) : bool :=
  existsb (fun e => str_eqb (fst e) (s_file s) && str_eqb (snd e) (s_name s)) known_inadmissible.

(* unique-name filters: a plain filter is evaluated by Jinja at template COMPILE time when its argument is a literal *)
Definition filter_ok (f : uniq_filter) : bool := match f_reg f with RVolatile | RContext => true | _ => false end.
Definition known_foldable_langs : list str := [[99; 112; 112]].     (* cpp: F-CPP-UNIQ-FOLD *)

(* the committed inventory: (file, name, kind) of every site reviewed so far.  A site of the regenerated table that is not
   in this list (a new cache, a cache moved to another module or level, a changed kind) breaks sites_in_inventory until it
   has been reviewed and added here; sites that disappear do not. *)
Definition expected_sites : list (str * str * skind) :=
  [
   ([106; 105; 110; 106; 97; 47; 101; 110; 118; 105; 114; 111; 110; 109; 101; 110; 116; 46; 112; 121], [67; 111; 100; 101; 71; 101; 110; 69; 110; 118; 105; 114; 111; 110; 109; 101; 110; 116; 66; 117; 105; 108; 100; 101; 114; 46; 95; 97; 100; 100; 105; 116; 105; 111; 110; 97; 108; 95; 102; 105; 108; 116; 101; 114; 115], KInstanceLazy) (* jinja/environment.py CodeGenEnvironmentBuilder._additional_filters *);
   ([106; 105; 110; 106; 97; 47; 101; 110; 118; 105; 114; 111; 110; 109; 101; 110; 116; 46; 112; 121], [67; 111; 100; 101; 71; 101; 110; 69; 110; 118; 105; 114; 111; 110; 109; 101; 110; 116; 66; 117; 105; 108; 100; 101; 114; 46; 95; 97; 100; 100; 105; 116; 105; 111; 110; 97; 108; 95; 116; 101; 115; 116; 115], KInstanceLazy) (* jinja/environment.py CodeGenEnvironmentBuilder._additional_tests *);
   ([106; 105; 110; 106; 97; 47; 101; 110; 118; 105; 114; 111; 110; 109; 101; 110; 116; 46; 112; 121], [67; 111; 100; 101; 71; 101; 110; 69; 110; 118; 105; 114; 111; 110; 109; 101; 110; 116; 66; 117; 105; 108; 100; 101; 114; 46; 95; 97; 100; 100; 105; 116; 105; 111; 110; 97; 108; 95; 103; 108; 111; 98; 97; 108; 115], KInstanceLazy) (* jinja/environment.py CodeGenEnvironmentBuilder._additional_globals *);
   ([106; 105; 110; 106; 97; 47; 101; 110; 118; 105; 114; 111; 110; 109; 101; 110; 116; 46; 112; 121], [67; 111; 100; 101; 71; 101; 110; 69; 110; 118; 105; 114; 111; 110; 109; 101; 110; 116; 66; 117; 105; 108; 100; 101; 114; 46; 68; 69; 70; 65; 85; 76; 84; 95; 74; 73; 78; 74; 65; 95; 69; 88; 84; 69; 78; 83; 73; 79; 78; 83], KClassContainer) (* jinja/environment.py CodeGenEnvironmentBuilder.DEFAULT_JINJA_EXTENSIONS *);
   ([106; 105; 110; 106; 97; 47; 101; 110; 118; 105; 114; 111; 110; 109; 101; 110; 116; 46; 112; 121], [67; 111; 100; 101; 71; 101; 110; 69; 110; 118; 105; 114; 111; 110; 109; 101; 110; 116; 46; 82; 69; 83; 69; 82; 86; 69; 68; 95; 71; 76; 79; 66; 65; 76; 95; 78; 65; 77; 69; 83; 80; 65; 67; 69; 83], KClassContainer) (* jinja/environment.py CodeGenEnvironment.RESERVED_GLOBAL_NAMESPACES *);
   ([106; 105; 110; 106; 97; 47; 101; 110; 118; 105; 114; 111; 110; 109; 101; 110; 116; 46; 112; 121], [67; 111; 100; 101; 71; 101; 110; 69; 110; 118; 105; 114; 111; 110; 109; 101; 110; 116; 46; 82; 69; 83; 69; 82; 86; 69; 68; 95; 71; 76; 79; 66; 65; 76; 95; 78; 65; 77; 69; 83], KClassContainer) (* jinja/environment.py CodeGenEnvironment.RESERVED_GLOBAL_NAMES *);
   ([106; 105; 110; 106; 97; 47; 101; 120; 116; 101; 110; 115; 105; 111; 110; 115; 46; 112; 121], [74; 105; 110; 106; 97; 65; 115; 115; 101; 114; 116; 46; 116; 97; 103; 115], KClassContainer) (* jinja/extensions.py JinjaAssert.tags *);
   ([106; 105; 110; 106; 97; 47; 101; 120; 116; 101; 110; 115; 105; 111; 110; 115; 46; 112; 121], [85; 115; 101; 81; 117; 101; 114; 121; 46; 116; 97; 103; 115], KClassContainer) (* jinja/extensions.py UseQuery.tags *);
   ([106; 105; 110; 106; 97; 47; 108; 111; 97; 100; 101; 114; 115; 46; 112; 121], [68; 83; 68; 76; 84; 101; 109; 112; 108; 97; 116; 101; 76; 111; 97; 100; 101; 114; 46; 95; 116; 121; 112; 101; 95; 116; 111; 95; 116; 101; 109; 112; 108; 97; 116; 101; 95; 108; 111; 111; 107; 117; 112; 95; 99; 97; 99; 104; 101], KInstanceMemo) (* jinja/loaders.py DSDLTemplateLoader._type_to_template_lookup_cache *);
   ([108; 97; 110; 103; 47; 95; 95; 105; 110; 105; 116; 95; 95; 46; 112; 121], [76; 97; 110; 103; 117; 97; 103; 101; 67; 111; 110; 116; 101; 120; 116; 46; 95; 97; 108; 108; 95; 115; 117; 112; 112; 111; 114; 116; 101; 100; 95; 108; 97; 110; 103; 117; 97; 103; 101; 115], KInstanceLazy) (* lang/__init__.py LanguageContext._all_supported_languages *);
   ([108; 97; 110; 103; 47; 95; 99; 111; 109; 109; 111; 110; 46; 112; 121], [85; 110; 105; 113; 117; 101; 78; 97; 109; 101; 71; 101; 110; 101; 114; 97; 116; 111; 114; 46; 95; 115; 105; 110; 103; 108; 101; 116; 111; 110], KClassSingleton) (* lang/_common.py UniqueNameGenerator._singleton *);
   ([108; 97; 110; 103; 47; 95; 99; 111; 109; 109; 111; 110; 46; 112; 121], [84; 111; 107; 101; 110; 69; 110; 99; 111; 100; 101; 114; 46; 115; 116; 114; 111; 112], KLruMethod) (* lang/_common.py TokenEncoder.strop *);
   ([108; 97; 110; 103; 47; 95; 99; 111; 110; 102; 105; 103; 46; 112; 121], [86; 101; 114; 115; 105; 111; 110; 82; 101; 97; 100; 101; 114; 46; 95; 99; 97; 99; 104; 101; 100], KInstanceLazy) (* lang/_config.py VersionReader._cached *);
   ([108; 97; 110; 103; 47; 95; 108; 97; 110; 103; 117; 97; 103; 101; 46; 112; 121], [76; 97; 110; 103; 117; 97; 103; 101; 46; 95; 103; 108; 111; 98; 97; 108; 115], KInstanceLazy) (* lang/_language.py Language._globals *);
   ([108; 97; 110; 103; 47; 95; 108; 97; 110; 103; 117; 97; 103; 101; 46; 112; 121], [76; 97; 110; 103; 117; 97; 103; 101; 67; 108; 97; 115; 115; 76; 111; 97; 100; 101; 114; 46; 95; 99; 111; 110; 102; 105; 103], KInstanceLazy) (* lang/_language.py LanguageClassLoader._config *);
   ([108; 97; 110; 103; 47; 95; 108; 97; 110; 103; 117; 97; 103; 101; 46; 112; 121], [76; 97; 110; 103; 117; 97; 103; 101; 67; 108; 97; 115; 115; 76; 111; 97; 100; 101; 114; 46; 108; 111; 97; 100; 95; 108; 97; 110; 103; 117; 97; 103; 101; 95; 99; 108; 97; 115; 115], KLruMethod) (* lang/_language.py LanguageClassLoader.load_language_class *);
   ([108; 97; 110; 103; 47; 99; 47; 95; 95; 105; 110; 105; 116; 95; 95; 46; 112; 121], [76; 97; 110; 103; 117; 97; 103; 101; 46; 95; 116; 111; 107; 101; 110; 95; 101; 110; 99; 111; 100; 101; 114], KCachedProp) (* lang/c/__init__.py Language._token_encoder *);
   ([108; 97; 110; 103; 47; 99; 112; 112; 47; 95; 95; 105; 110; 105; 116; 95; 95; 46; 112; 121], [76; 97; 110; 103; 117; 97; 103; 101; 46; 95; 116; 111; 107; 101; 110; 95; 101; 110; 99; 111; 100; 101; 114], KCachedProp) (* lang/cpp/__init__.py Language._token_encoder *);
   ([108; 97; 110; 103; 47; 99; 112; 112; 47; 95; 95; 105; 110; 105; 116; 95; 95; 46; 112; 121], [95; 109; 97; 107; 101; 95; 116; 101; 120; 116; 119; 114; 97; 112], KLruFunction) (* lang/cpp/__init__.py _make_textwrap *);
   ([108; 97; 110; 103; 47; 112; 121; 47; 95; 95; 105; 110; 105; 116; 95; 95; 46; 112; 121], [76; 97; 110; 103; 117; 97; 103; 101; 46; 95; 116; 111; 107; 101; 110; 95; 101; 110; 99; 111; 100; 101; 114], KCachedProp) (* lang/py/__init__.py Language._token_encoder *)
  ].

Definition in_inventory (s : site) : bool :=
  existsb (fun e => str_eqb (fst (fst e)) (s_file s) && str_eqb (snd (fst e)) (s_name s) && skind_eqb (snd e) (s_kind s)) expected_sites.
