(* Inventory of memoisation and mutable process state in src/nunavut (C10): vocabulary, admissibility predicate and the
   committed inventory.  The table itself (Generated/Gen_Sites.v: g_sites, g_uniq_filters) is regenerated from /repo on every
   check run by tools/translators/gen_c10.py (generator 'sites').  Executable definitions only. *)
From Verif Require Export Str.
Open Scope N_scope.

Inductive skind :=
| KLruMethod        (* functools.lru_cache/cache on a method: key = (self, arguments) *)
| KLruFunction      (* functools.lru_cache/cache on a module-level function, staticmethod or classmethod: key = arguments *)
| KCachedProp       (* cached_property: one value per instance *)
| KInstanceMemo     (* self.<..cache/memo..> = container created in a method: one table per instance *)
| KInstanceLazy     (* if self.x is None: self.x = ...  : one value per instance *)
| KClassSingleton   (* cls.x = ... : one object per interpreter *)
| KClassContainer   (* mutable display as a class attribute *)
| KModuleContainer  (* mutable display at module level *)
| KModuleGlobal.    (* 'global x' inside a function *)

Inductive pkind :=
| PSelfIdentity     (* self of a class without __eq__/__hash__: compared by identity *)
| PSelfByEq         (* self of a class that defines __eq__/__hash__ *)
| PValue            (* str/int/bool/float/bytes (or Optional of these): compared by value, immutable *)
| PObject.          (* anything else: compared through a user-defined __eq__/__hash__, which may see less than the function reads *)

Record site := { s_file : str; s_name : str; s_kind : skind; s_params : list (str * pkind); s_flag : bool; s_key : str;
                 s_value_mutable : bool;    (* the memoised VALUE is not a str/int/bool/float/bytes: every caller gets the same object *)
                 s_value_mutated : bool }.  (* some code stores into / calls a mutator on / setattr's an object obtained from it *)
(* s_flag: KLruFunction -> the body reads only its parameters and module-level imports/definitions/constants;
           KClassContainer/KModuleContainer -> some code of the module stores into the container;
           KClassSingleton -> _generate_code replaces the object at the start of every file *)

Inductive freg := RVolatile | RContext | REnvironment | RLanguage | RPlain.
Record uniq_filter := { f_lang : str; f_filter : str; f_key : str; f_prefix : str; f_suffix : str; f_reg : freg }.

Definition pkind_eqb (a b : pkind) : bool :=
  match a, b with PSelfIdentity, PSelfIdentity | PSelfByEq, PSelfByEq | PValue, PValue | PObject, PObject => true | _, _ => false end.
Definition is_value (p : str * pkind) : bool := pkind_eqb (snd p) PValue.

(* the kinds the transparency lemmas cover: the memo key determines everything the memoised computation reads
   (lru_call_transparent / proj_cache_transparent: identity of self + arguments compared by value), or the state is per
   instance (a function of the instance), or it is never written, or it is re-created for every file *)
Definition site_ok (s : site) : bool :=
  negb (s_value_mutated s) &&       (* a memoised object that a caller modifies carries state from one caller to the next *)
  match s_kind s with
  | KLruMethod => match s_params s with
                  | (_, PSelfIdentity) :: rest => forallb is_value rest
                  | _ => false
                  end
  | KLruFunction => forallb is_value (s_params s) && s_flag s
  | KCachedProp | KInstanceMemo | KInstanceLazy => true
  | KClassSingleton => s_flag s
  | KClassContainer | KModuleContainer => negb (s_flag s)
  | KModuleGlobal => false
  end.

Definition skind_eqb (a b : skind) : bool :=
  match a, b with
  | KLruMethod, KLruMethod | KLruFunction, KLruFunction | KCachedProp, KCachedProp | KInstanceMemo, KInstanceMemo
  | KInstanceLazy, KInstanceLazy | KClassSingleton, KClassSingleton | KClassContainer, KClassContainer
  | KModuleContainer, KModuleContainer | KModuleGlobal, KModuleGlobal => true
  | _, _ => false
  end.

(* sites known NOT to be admissible, each tied to a listed finding that the check probes at run time *)
Definition known_inadmissible : list (str * str) := [].     (* none at present (F-DEPBUILDER-STALE was fixed in f1abaa9: the memo is gone) *)

Definition is_known_inadmissible (s : site) : bool :=
  existsb (fun e => str_eqb (fst e) (s_file s) && str_eqb (snd e) (s_name s)) known_inadmissible.

(* unique-name filters: a plain filter is evaluated by Jinja at template COMPILE time when its argument is a literal *)
Definition filter_ok (f : uniq_filter) : bool := match f_reg f with RVolatile | RContext => true | _ => false end.
(* (no exception list: F-CPP-UNIQ-FOLD was fixed in 2c24c86 by re-binding the filter through template_volatile_filter at module
   level, a form the scanner reads) *)

(* the committed inventory: (file, name, kind) of every site reviewed so far.  A site of the regenerated table that is not
   in this list (a new cache, a cache moved to another module or level, a changed kind) breaks sites_in_inventory until it
   has been reviewed and added here; sites that disappear do not. *)
Definition expected_sites : list (str * str * skind) :=
  [
   ([106; 105; 110; 106; 97; 47; 101; 110; 118; 105; 114; 111; 110; 109; 101; 110; 116; 46; 112; 121], [67; 111; 100; 101; 71; 101; 110; 69; 110; 118; 105; 114; 111; 110; 109; 101; 110; 116; 66; 117; 105; 108; 100; 101; 114; 46; 95; 97; 100; 100; 105; 116; 105; 111; 110; 97; 108; 95; 102; 105; 108; 116; 101; 114; 115], KInstanceLazy) (* jinja/environment.py CodeGenEnvironmentBuilder._additional_filters *);
   ([106; 105; 110; 106; 97; 47; 101; 110; 118; 105; 114; 111; 110; 109; 101; 110; 116; 46; 112; 121], [67; 111; 100; 101; 71; 101; 110; 69; 110; 118; 105; 114; 111; 110; 109; 101; 110; 116; 66; 117; 105; 108; 100; 101; 114; 46; 95; 97; 100; 100; 105; 116; 105; 111; 110; 97; 108; 95; 116; 101; 115; 116; 115], KInstanceLazy) (* jinja/environment.py CodeGenEnvironmentBuilder._additional_tests *);
   ([106; 105; 110; 106; 97; 47; 101; 110; 118; 105; 114; 111; 110; 109; 101; 110; 116; 46; 112; 121], [67; 111; 100; 101; 71; 101; 110; 69; 110; 118; 105; 114; 111; 110; 109; 101; 110; 116; 66; 117; 105; 108; 100; 101; 114; 46; 95; 97; 100; 100; 105; 116; 105; 111; 110; 97; 108; 95; 103; 108; 111; 98; 97; 108; 115], KInstanceLazy) (* jinja/environment.py CodeGenEnvironmentBuilder._additional_globals *);
   ([106; 105; 110; 106; 97; 47; 101; 110; 118; 105; 114; 111; 110; 109; 101; 110; 116; 46; 112; 121], [67; 111; 100; 101; 71; 101; 110; 69; 110; 118; 105; 114; 111; 110; 109; 101; 110; 116; 66; 117; 105; 108; 100; 101; 114; 46; 68; 69; 70; 65; 85; 76; 84; 95; 74; 73; 78; 74; 65; 95; 69; 88; 84; 69; 78; 83; 73; 79; 78; 83], KClassContainer) (* jinja/environment.py CodeGenEnvironmentBuilder.DEFAULT_JINJA_EXTENSIONS *);
   ([106; 105; 110; 106; 97; 47; 101; 110; 118; 105; 114; 111; 110; 109; 101; 110; 116; 46; 112; 121], [67; 111; 100; 101; 71; 101; 110; 69; 110; 118; 105; 114; 111; 110; 109; 101; 110; 116; 46; 82; 69; 83; 69; 82; 86; 69; 68; 95; 71; 76; 79; 66; 65; 76; 95; 78; 65; 77; 69; 83; 80; 65; 67; 69; 83], KClassContainer) (* jinja/environment.py CodeGenEnvironment.RESERVED_GLOBAL_NAMESPACES *);
   ([106; 105; 110; 106; 97; 47; 101; 110; 118; 105; 114; 111; 110; 109; 101; 110; 116; 46; 112; 121], [67; 111; 100; 101; 71; 101; 110; 69; 110; 118; 105; 114; 111; 110; 109; 101; 110; 116; 46; 82; 69; 83; 69; 82; 86; 69; 68; 95; 71; 76; 79; 66; 65; 76; 95; 78; 65; 77; 69; 83], KClassContainer) (* jinja/environment.py CodeGenEnvironment.RESERVED_GLOBAL_NAMES *);
   ([106; 105; 110; 106; 97; 47; 101; 120; 116; 101; 110; 115; 105; 111; 110; 115; 46; 112; 121], [74; 105; 110; 106; 97; 65; 115; 115; 101; 114; 116; 46; 116; 97; 103; 115], KClassContainer) (* jinja/extensions.py JinjaAssert.tags *);
   ([106; 105; 110; 106; 97; 47; 101; 120; 116; 101; 110; 115; 105; 111; 110; 115; 46; 112; 121], [85; 115; 101; 81; 117; 101; 114; 121; 46; 116; 97; 103; 115], KClassContainer) (* jinja/extensions.py UseQuery.tags *);
   ([106; 105; 110; 106; 97; 47; 108; 111; 97; 100; 101; 114; 115; 46; 112; 121], [68; 83; 68; 76; 84; 101; 109; 112; 108; 97; 116; 101; 76; 111; 97; 100; 101; 114; 46; 95; 116; 121; 112; 101; 95; 116; 111; 95; 116; 101; 109; 112; 108; 97; 116; 101; 95; 108; 111; 111; 107; 117; 112; 95; 99; 97; 99; 104; 101], KInstanceMemo) (* jinja/loaders.py DSDLTemplateLoader._type_to_template_lookup_cache *);
   ([108; 97; 110; 103; 47; 95; 95; 105; 110; 105; 116; 95; 95; 46; 112; 121], [76; 97; 110; 103; 117; 97; 103; 101; 67; 111; 110; 116; 101; 120; 116; 46; 95; 97; 108; 108; 95; 115; 117; 112; 112; 111; 114; 116; 101; 100; 95; 108; 97; 110; 103; 117; 97; 103; 101; 115], KInstanceLazy) (* lang/__init__.py LanguageContext._all_supported_languages *);
   ([108; 97; 110; 103; 47; 95; 99; 111; 109; 109; 111; 110; 46; 112; 121], [85; 110; 105; 113; 117; 101; 78; 97; 109; 101; 71; 101; 110; 101; 114; 97; 116; 111; 114; 46; 95; 115; 105; 110; 103; 108; 101; 116; 111; 110], KClassSingleton) (* lang/_common.py UniqueNameGenerator._singleton *);
   ([108; 97; 110; 103; 47; 95; 99; 111; 109; 109; 111; 110; 46; 112; 121], [84; 111; 107; 101; 110; 69; 110; 99; 111; 100; 101; 114; 46; 115; 116; 114; 111; 112], KLruMethod) (* lang/_common.py TokenEncoder.strop *);
   ([108; 97; 110; 103; 47; 95; 99; 111; 110; 102; 105; 103; 46; 112; 121], [86; 101; 114; 115; 105; 111; 110; 82; 101; 97; 100; 101; 114; 46; 95; 99; 97; 99; 104; 101; 100], KInstanceLazy) (* lang/_config.py VersionReader._cached *);
   ([108; 97; 110; 103; 47; 95; 108; 97; 110; 103; 117; 97; 103; 101; 46; 112; 121], [76; 97; 110; 103; 117; 97; 103; 101; 46; 95; 103; 108; 111; 98; 97; 108; 115], KInstanceLazy) (* lang/_language.py Language._globals *);
   ([108; 97; 110; 103; 47; 95; 108; 97; 110; 103; 117; 97; 103; 101; 46; 112; 121], [76; 97; 110; 103; 117; 97; 103; 101; 67; 108; 97; 115; 115; 76; 111; 97; 100; 101; 114; 46; 95; 99; 111; 110; 102; 105; 103], KInstanceLazy) (* lang/_language.py LanguageClassLoader._config *);
   ([108; 97; 110; 103; 47; 95; 108; 97; 110; 103; 117; 97; 103; 101; 46; 112; 121], [76; 97; 110; 103; 117; 97; 103; 101; 67; 108; 97; 115; 115; 76; 111; 97; 100; 101; 114; 46; 108; 111; 97; 100; 95; 108; 97; 110; 103; 117; 97; 103; 101; 95; 99; 108; 97; 115; 115], KLruMethod) (* lang/_language.py LanguageClassLoader.load_language_class *);
   ([108; 97; 110; 103; 47; 99; 47; 95; 95; 105; 110; 105; 116; 95; 95; 46; 112; 121], [76; 97; 110; 103; 117; 97; 103; 101; 46; 95; 116; 111; 107; 101; 110; 95; 101; 110; 99; 111; 100; 101; 114], KCachedProp) (* lang/c/__init__.py Language._token_encoder *);
   ([108; 97; 110; 103; 47; 99; 112; 112; 47; 95; 95; 105; 110; 105; 116; 95; 95; 46; 112; 121], [76; 97; 110; 103; 117; 97; 103; 101; 46; 95; 116; 111; 107; 101; 110; 95; 101; 110; 99; 111; 100; 101; 114], KCachedProp) (* lang/cpp/__init__.py Language._token_encoder *);
   ([108; 97; 110; 103; 47; 99; 112; 112; 47; 95; 95; 105; 110; 105; 116; 95; 95; 46; 112; 121], [95; 109; 97; 107; 101; 95; 116; 101; 120; 116; 119; 114; 97; 112], KLruFunction) (* lang/cpp/__init__.py _make_textwrap *);
   ([108; 97; 110; 103; 47; 112; 121; 47; 95; 95; 105; 110; 105; 116; 95; 95; 46; 112; 121], [76; 97; 110; 103; 117; 97; 103; 101; 46; 95; 116; 111; 107; 101; 110; 95; 101; 110; 99; 111; 100; 101; 114], KCachedProp) (* lang/py/__init__.py Language._token_encoder *)
  ].

Definition in_inventory (s : site) : bool :=
  existsb (fun e => str_eqb (fst (fst e)) (s_file s) && str_eqb (snd (fst e)) (s_name s) && skind_eqb (snd e) (s_kind s)) expected_sites.

(* ================= inventory BY EFFECT: stores on objects that outlive a file ================= *)
(* Every attribute store, item store, augmented assignment, del, setattr/delattr and mutating method call on self / cls / a
   module global / a closed-over variable (or a local alias of something reached from them), outside __init__, in every module
   of src/nunavut (bundled jinja2/markupsafe excluded); regenerated as Gen_Sites.g_stores.  st_phase = SRender when the function
   is reachable -- name-based, over-approximate call graph -- from generate_all, a post-processor's __call__, or any template
   filter / test / uses-query; SSetup otherwise (namespace tree, language context and environment construction). *)
Inductive sroot := RSelf | RCls | RGlobal | RClosure | RParam.   (* RParam: an object the CALLER owns, mutated in place (any function, __init__ included) *)
Inductive sphase := SRender | SSetup.
Record store := { st_file : str; st_fn : str; st_target : str; st_root : sroot; st_phase : sphase }.

Inductive sclass :=
| CResetPerFile    (* the stored-to state is re-created / overwritten by _generate_code before the template of every file runs
                      (UniqueNameGenerator singleton, LimitEmptyLines counter, now_utc): needs the translated reset facts *)
| CPerCall         (* overwritten unconditionally by every generate_all() with values computed from that call's arguments
                      (update_nunavut_globals): part of the model's effective configuration ecfg *)
| CMemo            (* memo / lazily computed constant of a pure function of the object's construction inputs; key completeness:
                      C10_all_caches_keyed_by_identity_or_value, C16_cache_transparent for the loader memo *)
| CPerFileLocal    (* in-place change of an object the caller created for this one file / call and does not keep *)
| CReviewedSetup.  (* in the render phase only through a name collision of the over-approximate call graph (LanguageConfig.set /
                      update_section vs. dict.update / set): written while the LanguageContext is built, reviewed by hand *)

(* the reviewed classification of every render-phase store.  A store of the regenerated table that is in the render phase and
   not listed here makes stores_classified false: it has to be reviewed and classified (or removed). *)
Definition store_classes : list (str * str * str * sclass) :=
  [
   ([95; 112; 111; 115; 116; 112; 114; 111; 99; 101; 115; 115; 111; 114; 115; 46; 112; 121], [76; 105; 109; 105; 116; 69; 109; 112; 116; 121; 76; 105; 110; 101; 115; 46; 114; 101; 115; 101; 116], [115; 101; 108; 102; 46; 95; 101; 109; 112; 116; 121; 95; 108; 105; 110; 101; 95; 99; 111; 117; 110; 116], CResetPerFile) (* _postprocessors.py LimitEmptyLines.reset : self._empty_line_count *);
   ([95; 112; 111; 115; 116; 112; 114; 111; 99; 101; 115; 115; 111; 114; 115; 46; 112; 121], [76; 105; 109; 105; 116; 69; 109; 112; 116; 121; 76; 105; 110; 101; 115; 46; 95; 95; 99; 97; 108; 108; 95; 95], [115; 101; 108; 102; 46; 95; 101; 109; 112; 116; 121; 95; 108; 105; 110; 101; 95; 99; 111; 117; 110; 116], CResetPerFile) (* _postprocessors.py LimitEmptyLines.__call__ : self._empty_line_count *);
   ([106; 105; 110; 106; 97; 47; 95; 95; 105; 110; 105; 116; 95; 95; 46; 112; 121], [67; 111; 100; 101; 71; 101; 110; 101; 114; 97; 116; 111; 114; 46; 95; 103; 101; 110; 101; 114; 97; 116; 101; 95; 99; 111; 100; 101], [115; 101; 108; 102; 46; 95; 101; 110; 118; 46; 110; 111; 119; 95; 117; 116; 99], CResetPerFile) (* jinja/__init__.py CodeGenerator._generate_code : self._env.now_utc *);
   ([106; 105; 110; 106; 97; 47; 101; 110; 118; 105; 114; 111; 110; 109; 101; 110; 116; 46; 112; 121], [76; 97; 110; 103; 117; 97; 103; 101; 84; 101; 109; 112; 108; 97; 116; 101; 78; 97; 109; 101; 115; 112; 97; 99; 101; 46; 117; 112; 100; 97; 116; 101], [115; 101; 108; 102; 46; 60; 115; 101; 116; 97; 116; 116; 114; 32; 42; 62], CPerCall) (* jinja/environment.py LanguageTemplateNamespace.update : self.<setattr *> *);
   ([106; 105; 110; 106; 97; 47; 101; 110; 118; 105; 114; 111; 110; 109; 101; 110; 116; 46; 112; 121], [67; 111; 100; 101; 71; 101; 110; 69; 110; 118; 105; 114; 111; 110; 109; 101; 110; 116; 46; 117; 112; 100; 97; 116; 101; 95; 110; 117; 110; 97; 118; 117; 116; 95; 103; 108; 111; 98; 97; 108; 115], [115; 101; 108; 102; 46; 110; 117; 110; 97; 118; 117; 116; 95; 103; 108; 111; 98; 97; 108; 46; 60; 115; 101; 116; 97; 116; 116; 114; 32; 101; 109; 98; 101; 100; 95; 97; 117; 100; 105; 116; 105; 110; 103; 95; 105; 110; 102; 111; 62], CPerCall) (* jinja/environment.py CodeGenEnvironment.update_nunavut_globals : self.nunavut_global.<setattr embed_auditing_info> *);
   ([106; 105; 110; 106; 97; 47; 101; 110; 118; 105; 114; 111; 110; 109; 101; 110; 116; 46; 112; 121], [67; 111; 100; 101; 71; 101; 110; 69; 110; 118; 105; 114; 111; 110; 109; 101; 110; 116; 46; 117; 112; 100; 97; 116; 101; 95; 110; 117; 110; 97; 118; 117; 116; 95; 103; 108; 111; 98; 97; 108; 115], [115; 101; 108; 102; 46; 110; 117; 110; 97; 118; 117; 116; 95; 103; 108; 111; 98; 97; 108; 46; 60; 115; 101; 116; 97; 116; 116; 114; 32; 112; 108; 97; 116; 102; 111; 114; 109; 95; 118; 101; 114; 115; 105; 111; 110; 62], CPerCall) (* jinja/environment.py CodeGenEnvironment.update_nunavut_globals : self.nunavut_global.<setattr platform_version> *);
   ([106; 105; 110; 106; 97; 47; 101; 110; 118; 105; 114; 111; 110; 109; 101; 110; 116; 46; 112; 121], [67; 111; 100; 101; 71; 101; 110; 69; 110; 118; 105; 114; 111; 110; 109; 101; 110; 116; 46; 117; 112; 100; 97; 116; 101; 95; 110; 117; 110; 97; 118; 117; 116; 95; 103; 108; 111; 98; 97; 108; 115], [115; 101; 108; 102; 46; 110; 117; 110; 97; 118; 117; 116; 95; 103; 108; 111; 98; 97; 108; 46; 60; 115; 101; 116; 97; 116; 116; 114; 32; 115; 117; 112; 112; 111; 114; 116; 62], CPerCall) (* jinja/environment.py CodeGenEnvironment.update_nunavut_globals : self.nunavut_global.<setattr support> *);
   ([106; 105; 110; 106; 97; 47; 101; 110; 118; 105; 114; 111; 110; 109; 101; 110; 116; 46; 112; 121], [67; 111; 100; 101; 71; 101; 110; 69; 110; 118; 105; 114; 111; 110; 109; 101; 110; 116; 46; 117; 112; 100; 97; 116; 101; 95; 110; 117; 110; 97; 118; 117; 116; 95; 103; 108; 111; 98; 97; 108; 115], [115; 101; 108; 102; 46; 110; 117; 110; 97; 118; 117; 116; 95; 103; 108; 111; 98; 97; 108; 46; 60; 115; 101; 116; 97; 116; 116; 114; 32; 118; 101; 114; 115; 105; 111; 110; 62], CMemo) (* jinja/environment.py CodeGenEnvironment.update_nunavut_globals : self.nunavut_global.<setattr version> *);
   ([106; 105; 110; 106; 97; 47; 101; 110; 118; 105; 114; 111; 110; 109; 101; 110; 116; 46; 112; 121], [67; 111; 100; 101; 71; 101; 110; 69; 110; 118; 105; 114; 111; 110; 109; 101; 110; 116; 46; 117; 112; 100; 97; 116; 101; 95; 110; 117; 110; 97; 118; 117; 116; 95; 103; 108; 111; 98; 97; 108; 115], [115; 101; 108; 102; 46; 110; 117; 110; 97; 118; 117; 116; 95; 103; 108; 111; 98; 97; 108; 46; 60; 115; 101; 116; 97; 116; 116; 114; 32; 116; 101; 109; 112; 108; 97; 116; 101; 95; 115; 101; 116; 115; 62], CMemo) (* jinja/environment.py CodeGenEnvironment.update_nunavut_globals : self.nunavut_global.<setattr template_sets> *);
   ([106; 105; 110; 106; 97; 47; 101; 110; 118; 105; 114; 111; 110; 109; 101; 110; 116; 46; 112; 121], [67; 111; 100; 101; 71; 101; 110; 69; 110; 118; 105; 114; 111; 110; 109; 101; 110; 116; 46; 110; 111; 119; 95; 117; 116; 99], [115; 101; 108; 102; 46; 103; 108; 111; 98; 97; 108; 115; 91; 93], CResetPerFile) (* jinja/environment.py CodeGenEnvironment.now_utc : self.globals[] *);
   ([106; 105; 110; 106; 97; 47; 108; 111; 97; 100; 101; 114; 115; 46; 112; 121], [68; 83; 68; 76; 84; 101; 109; 112; 108; 97; 116; 101; 76; 111; 97; 100; 101; 114; 46; 95; 116; 121; 112; 101; 95; 116; 111; 95; 116; 101; 109; 112; 108; 97; 116; 101; 95; 105; 110; 116; 101; 114; 110; 97; 108], [115; 101; 108; 102; 46; 95; 116; 121; 112; 101; 95; 116; 111; 95; 116; 101; 109; 112; 108; 97; 116; 101; 95; 108; 111; 111; 107; 117; 112; 95; 99; 97; 99; 104; 101; 91; 93], CMemo) (* jinja/loaders.py DSDLTemplateLoader._type_to_template_internal : self._type_to_template_lookup_cache[] *);
   ([108; 97; 110; 103; 47; 95; 99; 111; 109; 109; 111; 110; 46; 112; 121], [85; 110; 105; 113; 117; 101; 78; 97; 109; 101; 71; 101; 110; 101; 114; 97; 116; 111; 114; 46; 114; 101; 115; 101; 116], [99; 108; 115; 46; 95; 115; 105; 110; 103; 108; 101; 116; 111; 110], CResetPerFile) (* lang/_common.py UniqueNameGenerator.reset : cls._singleton *);
   ([108; 97; 110; 103; 47; 95; 99; 111; 109; 109; 111; 110; 46; 112; 121], [85; 110; 105; 113; 117; 101; 78; 97; 109; 101; 71; 101; 110; 101; 114; 97; 116; 111; 114; 46; 95; 95; 99; 97; 108; 108; 95; 95], [115; 101; 108; 102; 46; 95; 105; 110; 100; 101; 120; 95; 109; 97; 112; 91; 93; 91; 93], CResetPerFile) (* lang/_common.py UniqueNameGenerator.__call__ : self._index_map[][] *);
   ([108; 97; 110; 103; 47; 95; 99; 111; 109; 109; 111; 110; 46; 112; 121], [85; 110; 105; 113; 117; 101; 78; 97; 109; 101; 71; 101; 110; 101; 114; 97; 116; 111; 114; 46; 95; 95; 99; 97; 108; 108; 95; 95], [115; 101; 108; 102; 46; 95; 105; 110; 100; 101; 120; 95; 109; 97; 112; 91; 93], CResetPerFile) (* lang/_common.py UniqueNameGenerator.__call__ : self._index_map[] *);
   ([108; 97; 110; 103; 47; 95; 99; 111; 110; 102; 105; 103; 46; 112; 121], [76; 97; 110; 103; 117; 97; 103; 101; 67; 111; 110; 102; 105; 103; 46; 117; 112; 100; 97; 116; 101; 95; 115; 101; 99; 116; 105; 111; 110], [115; 101; 108; 102; 46; 95; 115; 101; 99; 116; 105; 111; 110; 115; 91; 93], CReviewedSetup) (* lang/_config.py LanguageConfig.update_section : self._sections[] *);
   ([108; 97; 110; 103; 47; 95; 99; 111; 110; 102; 105; 103; 46; 112; 121], [76; 97; 110; 103; 117; 97; 103; 101; 67; 111; 110; 102; 105; 103; 46; 115; 101; 116], [115; 101; 108; 102; 46; 95; 115; 101; 99; 116; 105; 111; 110; 115; 91; 93; 91; 93], CReviewedSetup) (* lang/_config.py LanguageConfig.set : self._sections[][] *);
   ([108; 97; 110; 103; 47; 95; 99; 111; 110; 102; 105; 103; 46; 112; 121], [86; 101; 114; 115; 105; 111; 110; 82; 101; 97; 100; 101; 114; 46; 118; 101; 114; 115; 105; 111; 110], [115; 101; 108; 102; 46; 95; 99; 97; 99; 104; 101; 100], CMemo) (* lang/_config.py VersionReader.version : self._cached *)
;
   (* ---- in-place mutations of caller-owned objects (parameters, aliases of parameters, self attributes bound to them) ---- *)
   ([95; 100; 101; 112; 101; 110; 100; 101; 110; 99; 105; 101; 115; 46; 112; 121], [68; 101; 112; 101; 110; 100; 101; 110; 99; 121; 66; 117; 105; 108; 100; 101; 114; 46; 95; 101; 120; 116; 114; 97; 99; 116; 95; 100; 101; 112; 101; 110; 100; 101; 110; 116; 95; 116; 121; 112; 101; 115; 95; 104; 97; 110; 100; 108; 101; 95; 97; 114; 114; 97; 121; 95; 116; 121; 112; 101], [60; 112; 97; 114; 97; 109; 32; 105; 110; 111; 117; 116; 95; 100; 101; 112; 101; 110; 100; 101; 110; 99; 105; 101; 115; 62; 32; 118; 105; 97; 32; 105; 110; 111; 117; 116; 95; 100; 101; 112; 101; 110; 100; 101; 110; 99; 105; 101; 115; 46; 117; 115; 101; 115; 95; 118; 97; 114; 105; 97; 98; 108; 101; 95; 108; 101; 110; 103; 116; 104; 95; 97; 114; 114; 97; 121], CPerFileLocal) (* _dependencies.py DependencyBuilder._extract_dependent_types_handle_array_type : <param inout_dependencies> via inout_dependencies.uses_variable_length_array -- a Dependencies object created by the caller for this one call chain *);
   ([95; 100; 101; 112; 101; 110; 100; 101; 110; 99; 105; 101; 115; 46; 112; 121], [68; 101; 112; 101; 110; 100; 101; 110; 99; 121; 66; 117; 105; 108; 100; 101; 114; 46; 95; 101; 120; 116; 114; 97; 99; 116; 95; 100; 101; 112; 101; 110; 100; 101; 110; 116; 95; 116; 121; 112; 101; 115; 95; 104; 97; 110; 100; 108; 101; 95; 97; 114; 114; 97; 121; 95; 116; 121; 112; 101], [60; 112; 97; 114; 97; 109; 32; 105; 110; 111; 117; 116; 95; 100; 101; 112; 101; 110; 100; 101; 110; 99; 105; 101; 115; 62; 32; 118; 105; 97; 32; 105; 110; 111; 117; 116; 95; 100; 101; 112; 101; 110; 100; 101; 110; 99; 105; 101; 115; 46; 117; 115; 101; 115; 95; 98; 111; 111; 108; 101; 97; 110; 95; 115; 116; 97; 116; 105; 99; 95; 97; 114; 114; 97; 121], CPerFileLocal) (* _dependencies.py DependencyBuilder._extract_dependent_types_handle_array_type : <param inout_dependencies> via inout_dependencies.uses_boolean_static_array -- a Dependencies object created by the caller for this one call chain *);
   ([95; 100; 101; 112; 101; 110; 100; 101; 110; 99; 105; 101; 115; 46; 112; 121], [68; 101; 112; 101; 110; 100; 101; 110; 99; 121; 66; 117; 105; 108; 100; 101; 114; 46; 95; 101; 120; 116; 114; 97; 99; 116; 95; 100; 101; 112; 101; 110; 100; 101; 110; 116; 95; 116; 121; 112; 101; 115; 95; 104; 97; 110; 100; 108; 101; 95; 97; 114; 114; 97; 121; 95; 116; 121; 112; 101], [60; 112; 97; 114; 97; 109; 32; 105; 110; 111; 117; 116; 95; 100; 101; 112; 101; 110; 100; 101; 110; 99; 105; 101; 115; 62; 32; 118; 105; 97; 32; 105; 110; 111; 117; 116; 95; 100; 101; 112; 101; 110; 100; 101; 110; 99; 105; 101; 115; 46; 117; 115; 101; 115; 95; 112; 114; 105; 109; 105; 116; 105; 118; 101; 95; 115; 116; 97; 116; 105; 99; 95; 97; 114; 114; 97; 121], CPerFileLocal) (* _dependencies.py DependencyBuilder._extract_dependent_types_handle_array_type : <param inout_dependencies> via inout_dependencies.uses_primitive_static_array -- a Dependencies object created by the caller for this one call chain *);
   ([95; 100; 101; 112; 101; 110; 100; 101; 110; 99; 105; 101; 115; 46; 112; 121], [68; 101; 112; 101; 110; 100; 101; 110; 99; 121; 66; 117; 105; 108; 100; 101; 114; 46; 95; 101; 120; 116; 114; 97; 99; 116; 95; 100; 101; 112; 101; 110; 100; 101; 110; 116; 95; 116; 121; 112; 101; 115; 95; 104; 97; 110; 100; 108; 101; 95; 97; 114; 114; 97; 121; 95; 116; 121; 112; 101], [60; 112; 97; 114; 97; 109; 32; 105; 110; 111; 117; 116; 95; 100; 101; 112; 101; 110; 100; 101; 110; 99; 105; 101; 115; 62; 32; 118; 105; 97; 32; 105; 110; 111; 117; 116; 95; 100; 101; 112; 101; 110; 100; 101; 110; 99; 105; 101; 115; 46; 117; 115; 101; 115; 95; 97; 114; 114; 97; 121], CPerFileLocal) (* _dependencies.py DependencyBuilder._extract_dependent_types_handle_array_type : <param inout_dependencies> via inout_dependencies.uses_array -- a Dependencies object created by the caller for this one call chain *);
   ([95; 100; 101; 112; 101; 110; 100; 101; 110; 99; 105; 101; 115; 46; 112; 121], [68; 101; 112; 101; 110; 100; 101; 110; 99; 121; 66; 117; 105; 108; 100; 101; 114; 46; 95; 101; 120; 116; 114; 97; 99; 116; 95; 100; 101; 112; 101; 110; 100; 101; 110; 116; 95; 116; 121; 112; 101; 115], [60; 112; 97; 114; 97; 109; 32; 105; 110; 111; 117; 116; 95; 100; 101; 112; 101; 110; 100; 101; 110; 99; 105; 101; 115; 62; 32; 118; 105; 97; 32; 105; 110; 111; 117; 116; 95; 100; 101; 112; 101; 110; 100; 101; 110; 99; 105; 101; 115; 46; 117; 115; 101; 115; 95; 105; 110; 116; 101; 103; 101; 114], CPerFileLocal) (* _dependencies.py DependencyBuilder._extract_dependent_types : <param inout_dependencies> via inout_dependencies.uses_integer -- a Dependencies object created by the caller for this one call chain *);
   ([95; 100; 101; 112; 101; 110; 100; 101; 110; 99; 105; 101; 115; 46; 112; 121], [68; 101; 112; 101; 110; 100; 101; 110; 99; 121; 66; 117; 105; 108; 100; 101; 114; 46; 95; 101; 120; 116; 114; 97; 99; 116; 95; 100; 101; 112; 101; 110; 100; 101; 110; 116; 95; 116; 121; 112; 101; 115], [60; 112; 97; 114; 97; 109; 32; 105; 110; 111; 117; 116; 95; 100; 101; 112; 101; 110; 100; 101; 110; 99; 105; 101; 115; 62; 32; 118; 105; 97; 32; 105; 110; 111; 117; 116; 95; 100; 101; 112; 101; 110; 100; 101; 110; 99; 105; 101; 115; 46; 117; 115; 101; 115; 95; 102; 108; 111; 97; 116], CPerFileLocal) (* _dependencies.py DependencyBuilder._extract_dependent_types : <param inout_dependencies> via inout_dependencies.uses_float -- a Dependencies object created by the caller for this one call chain *);
   ([95; 100; 101; 112; 101; 110; 100; 101; 110; 99; 105; 101; 115; 46; 112; 121], [68; 101; 112; 101; 110; 100; 101; 110; 99; 121; 66; 117; 105; 108; 100; 101; 114; 46; 95; 101; 120; 116; 114; 97; 99; 116; 95; 100; 101; 112; 101; 110; 100; 101; 110; 116; 95; 116; 121; 112; 101; 115], [60; 112; 97; 114; 97; 109; 32; 105; 110; 111; 117; 116; 95; 100; 101; 112; 101; 110; 100; 101; 110; 99; 105; 101; 115; 62; 32; 118; 105; 97; 32; 105; 110; 111; 117; 116; 95; 100; 101; 112; 101; 110; 100; 101; 110; 99; 105; 101; 115; 46; 117; 115; 101; 115; 95; 98; 111; 111; 108], CPerFileLocal) (* _dependencies.py DependencyBuilder._extract_dependent_types : <param inout_dependencies> via inout_dependencies.uses_bool -- a Dependencies object created by the caller for this one call chain *);
   ([95; 110; 97; 109; 101; 115; 112; 97; 99; 101; 46; 112; 121], [78; 97; 109; 101; 115; 112; 97; 99; 101; 46; 95; 97; 100; 100; 95; 110; 101; 115; 116; 101; 100; 95; 110; 97; 109; 101; 115; 112; 97; 99; 101], [60; 112; 97; 114; 97; 109; 32; 110; 101; 115; 116; 101; 100; 62; 32; 118; 105; 97; 32; 110; 101; 115; 116; 101; 100; 46; 95; 112; 97; 114; 101; 110; 116], CReviewedSetup) (* _namespace.py Namespace._add_nested_namespace : <param nested> via nested._parent -- runs while the namespace tree / language context / environment / generator is constructed; the caller hands over an object it built for that purpose *);
   ([95; 117; 116; 105; 108; 105; 116; 105; 101; 115; 46; 112; 121], [68; 101; 102; 97; 117; 108; 116; 86; 97; 108; 117; 101; 46; 97; 115; 115; 105; 103; 110; 95; 116; 111; 95; 105; 102; 95; 110; 111; 116; 95; 100; 101; 102; 97; 117; 108; 116], [60; 112; 97; 114; 97; 109; 32; 116; 97; 114; 103; 101; 116; 62; 32; 118; 105; 97; 32; 116; 97; 114; 103; 101; 116; 91; 93], CReviewedSetup) (* _utilities.py DefaultValue.assign_to_if_not_default : <param target> via target[] -- runs while the namespace tree / language context / environment / generator is constructed; the caller hands over an object it built for that purpose *);
   ([95; 117; 116; 105; 108; 105; 116; 105; 101; 115; 46; 112; 121], [100; 101; 101; 112; 95; 117; 112; 100; 97; 116; 101], [60; 112; 97; 114; 97; 109; 32; 116; 97; 114; 103; 101; 116; 62; 32; 118; 105; 97; 32; 116; 97; 114; 103; 101; 116; 91; 93], CReviewedSetup) (* _utilities.py deep_update : <param target> via target[] -- runs while the namespace tree / language context / environment / generator is constructed; the caller hands over an object it built for that purpose *);
   ([106; 105; 110; 106; 97; 47; 95; 95; 105; 110; 105; 116; 95; 95; 46; 112; 121], [67; 111; 100; 101; 71; 101; 110; 101; 114; 97; 116; 111; 114; 46; 95; 102; 105; 108; 116; 101; 114; 95; 97; 110; 100; 95; 119; 114; 105; 116; 101; 95; 108; 105; 110; 101], [60; 112; 97; 114; 97; 109; 32; 111; 117; 116; 112; 117; 116; 95; 102; 105; 108; 101; 62; 32; 118; 105; 97; 32; 111; 117; 116; 112; 117; 116; 95; 102; 105; 108; 101; 46; 119; 114; 105; 116; 101; 40; 41], CPerFileLocal) (* jinja/__init__.py CodeGenerator._filter_and_write_line : <param output_file> via output_file.write() -- the file being written *);
   ([106; 105; 110; 106; 97; 47; 95; 95; 105; 110; 105; 116; 95; 95; 46; 112; 121], [83; 117; 112; 112; 111; 114; 116; 71; 101; 110; 101; 114; 97; 116; 111; 114; 46; 95; 95; 105; 110; 105; 116; 95; 95], [60; 112; 97; 114; 97; 109; 32; 107; 119; 97; 114; 103; 115; 62; 32; 118; 105; 97; 32; 107; 119; 97; 114; 103; 115; 46; 117; 112; 100; 97; 116; 101; 40; 41], CPerFileLocal) (* jinja/__init__.py SupportGenerator.__init__ : <param kwargs> via kwargs.update() -- the ** dictionary packed for this call *);
   ([106; 105; 110; 106; 97; 47; 101; 110; 118; 105; 114; 111; 110; 109; 101; 110; 116; 46; 112; 121], [67; 111; 100; 101; 71; 101; 110; 69; 110; 118; 105; 114; 111; 110; 109; 101; 110; 116; 66; 117; 105; 108; 100; 101; 114; 46; 97; 100; 100; 95; 102; 105; 108; 116; 101; 114; 115], [60; 112; 97; 114; 97; 109; 32; 97; 100; 100; 105; 116; 105; 111; 110; 97; 108; 95; 102; 105; 108; 116; 101; 114; 115; 62; 32; 118; 105; 97; 32; 115; 101; 108; 102; 46; 95; 97; 100; 100; 105; 116; 105; 111; 110; 97; 108; 95; 102; 105; 108; 116; 101; 114; 115; 46; 117; 112; 100; 97; 116; 101; 40; 41], CReviewedSetup) (* jinja/environment.py CodeGenEnvironmentBuilder.add_filters : <param additional_filters> via self._additional_filters.update() -- runs while the namespace tree / language context / environment / generator is constructed; the caller hands over an object it built for that purpose *);
   ([106; 105; 110; 106; 97; 47; 101; 110; 118; 105; 114; 111; 110; 109; 101; 110; 116; 46; 112; 121], [67; 111; 100; 101; 71; 101; 110; 69; 110; 118; 105; 114; 111; 110; 109; 101; 110; 116; 66; 117; 105; 108; 100; 101; 114; 46; 97; 100; 100; 95; 116; 101; 115; 116; 115], [60; 112; 97; 114; 97; 109; 32; 97; 100; 100; 105; 116; 105; 111; 110; 97; 108; 95; 116; 101; 115; 116; 115; 62; 32; 118; 105; 97; 32; 115; 101; 108; 102; 46; 95; 97; 100; 100; 105; 116; 105; 111; 110; 97; 108; 95; 116; 101; 115; 116; 115; 46; 117; 112; 100; 97; 116; 101; 40; 41], CReviewedSetup) (* jinja/environment.py CodeGenEnvironmentBuilder.add_tests : <param additional_tests> via self._additional_tests.update() -- runs while the namespace tree / language context / environment / generator is constructed; the caller hands over an object it built for that purpose *);
   ([106; 105; 110; 106; 97; 47; 101; 110; 118; 105; 114; 111; 110; 109; 101; 110; 116; 46; 112; 121], [67; 111; 100; 101; 71; 101; 110; 69; 110; 118; 105; 114; 111; 110; 109; 101; 110; 116; 66; 117; 105; 108; 100; 101; 114; 46; 97; 100; 100; 95; 103; 108; 111; 98; 97; 108; 115], [60; 112; 97; 114; 97; 109; 32; 97; 100; 100; 105; 116; 105; 111; 110; 97; 108; 95; 103; 108; 111; 98; 97; 108; 115; 62; 32; 118; 105; 97; 32; 115; 101; 108; 102; 46; 95; 97; 100; 100; 105; 116; 105; 111; 110; 97; 108; 95; 103; 108; 111; 98; 97; 108; 115; 46; 117; 112; 100; 97; 116; 101; 40; 41], CReviewedSetup) (* jinja/environment.py CodeGenEnvironmentBuilder.add_globals : <param additional_globals> via self._additional_globals.update() -- runs while the namespace tree / language context / environment / generator is constructed; the caller hands over an object it built for that purpose *);
   ([106; 105; 110; 106; 97; 47; 101; 110; 118; 105; 114; 111; 110; 109; 101; 110; 116; 46; 112; 121], [67; 111; 100; 101; 71; 101; 110; 69; 110; 118; 105; 114; 111; 110; 109; 101; 110; 116; 46; 95; 97; 100; 100; 95; 116; 111; 95; 101; 110; 118; 105; 114; 111; 110; 109; 101; 110; 116], [60; 112; 97; 114; 97; 109; 32; 99; 111; 108; 108; 101; 99; 116; 105; 111; 110; 62; 32; 118; 105; 97; 32; 99; 111; 108; 108; 101; 99; 116; 105; 111; 110; 91; 93], CReviewedSetup) (* jinja/environment.py CodeGenEnvironment._add_to_environment : <param collection> via collection[] -- runs while the namespace tree / language context / environment / generator is constructed; the caller hands over an object it built for that purpose *);
   ([108; 97; 110; 103; 47; 99; 112; 112; 47; 95; 95; 105; 110; 105; 116; 95; 95; 46; 112; 121], [76; 97; 110; 103; 117; 97; 103; 101; 46; 95; 118; 97; 108; 105; 100; 97; 116; 101; 95; 108; 97; 110; 103; 117; 97; 103; 101; 95; 111; 112; 116; 105; 111; 110; 115], [60; 112; 97; 114; 97; 109; 32; 111; 112; 116; 105; 111; 110; 115; 62; 32; 118; 105; 97; 32; 111; 112; 116; 105; 111; 110; 115; 46; 117; 112; 100; 97; 116; 101; 40; 41], CReviewedSetup) (* lang/cpp/__init__.py Language._validate_language_options : <param options> via options.update() -- runs while the namespace tree / language context / environment / generator is constructed; the caller hands over an object it built for that purpose *);
   ([108; 97; 110; 103; 47; 99; 112; 112; 47; 95; 95; 105; 110; 105; 116; 95; 95; 46; 112; 121], [76; 97; 110; 103; 117; 97; 103; 101; 46; 95; 118; 97; 108; 105; 100; 97; 116; 101; 95; 103; 108; 111; 98; 97; 108; 115], [60; 112; 97; 114; 97; 109; 32; 103; 108; 111; 98; 97; 108; 115; 95; 109; 97; 112; 62; 32; 118; 105; 97; 32; 103; 108; 111; 98; 97; 108; 115; 95; 109; 97; 112; 91; 93], CReviewedSetup) (* lang/cpp/__init__.py Language._validate_globals : <param globals_map> via globals_map[] -- runs while the namespace tree / language context / environment / generator is constructed; the caller hands over an object it built for that purpose *);
   ([108; 97; 110; 103; 47; 112; 121; 47; 95; 95; 105; 110; 105; 116; 95; 95; 46; 112; 121], [76; 97; 110; 103; 117; 97; 103; 101; 46; 95; 118; 97; 108; 105; 100; 97; 116; 101; 95; 108; 97; 110; 103; 117; 97; 103; 101; 95; 111; 112; 116; 105; 111; 110; 115], [60; 112; 97; 114; 97; 109; 32; 111; 112; 116; 105; 111; 110; 115; 62; 32; 118; 105; 97; 32; 111; 112; 116; 105; 111; 110; 115; 91; 93], CReviewedSetup) (* lang/py/__init__.py Language._validate_language_options : <param options> via options[] -- runs while the namespace tree / language context / environment / generator is constructed; the caller hands over an object it built for that purpose *);
   (* ---- public methods of template-reachable classes (render roots since audit 2) ---- *)
   ([108; 97; 110; 103; 47; 95; 95; 105; 110; 105; 116; 95; 95; 46; 112; 121], [76; 97; 110; 103; 117; 97; 103; 101; 67; 111; 110; 116; 101; 120; 116; 46; 103; 101; 116; 95; 115; 117; 112; 112; 111; 114; 116; 101; 100; 95; 108; 97; 110; 103; 117; 97; 103; 101; 115], [115; 101; 108; 102; 46; 95; 97; 108; 108; 95; 115; 117; 112; 112; 111; 114; 116; 101; 100; 95; 108; 97; 110; 103; 117; 97; 103; 101; 115], CMemo) (* lang/__init__.py LanguageContext.get_supported_languages : self._all_supported_languages -- lazily built table of language objects: function of the context construction inputs *);
   ([108; 97; 110; 103; 47; 95; 99; 111; 110; 102; 105; 103; 46; 112; 121], [76; 97; 110; 103; 117; 97; 103; 101; 67; 111; 110; 102; 105; 103; 46; 117; 112; 100; 97; 116; 101; 95; 102; 114; 111; 109; 95; 121; 97; 109; 108; 95; 115; 116; 114; 105; 110; 103], [115; 101; 108; 102; 46; 117; 112; 100; 97; 116; 101; 40; 41], CReviewedSetup) (* lang/_config.py LanguageConfig.update_from_yaml_string : self.update() -- configuration loading; public method of a template-reachable class, no template calls it *);
   ([108; 97; 110; 103; 47; 95; 99; 111; 110; 102; 105; 103; 46; 112; 121], [76; 97; 110; 103; 117; 97; 103; 101; 67; 111; 110; 102; 105; 103; 46; 117; 112; 100; 97; 116; 101; 95; 102; 114; 111; 109; 95; 121; 97; 109; 108; 95; 102; 105; 108; 101], [115; 101; 108; 102; 46; 117; 112; 100; 97; 116; 101; 40; 41], CReviewedSetup) (* lang/_config.py LanguageConfig.update_from_yaml_file : self.update() -- configuration loading; public method of a template-reachable class, no template calls it *);
   ([108; 97; 110; 103; 47; 95; 99; 111; 110; 102; 105; 103; 46; 112; 121], [76; 97; 110; 103; 117; 97; 103; 101; 67; 111; 110; 102; 105; 103; 46; 97; 100; 100; 95; 115; 101; 99; 116; 105; 111; 110], [115; 101; 108; 102; 46; 95; 115; 101; 99; 116; 105; 111; 110; 115; 91; 93], CReviewedSetup) (* lang/_config.py LanguageConfig.add_section : self._sections[] -- configuration loading; public method of a template-reachable class, no template calls it *);
   ([108; 97; 110; 103; 47; 95; 108; 97; 110; 103; 117; 97; 103; 101; 46; 112; 121], [76; 97; 110; 103; 117; 97; 103; 101; 46; 103; 101; 116; 95; 103; 108; 111; 98; 97; 108; 115], [115; 101; 108; 102; 46; 95; 103; 108; 111; 98; 97; 108; 115], CMemo) (* lang/_language.py Language.get_globals : self._globals -- lazily computed globals of the language: function of the language configuration *)
  ].

Definition class_of (s : store) : option sclass :=
  match find (fun e => str_eqb (fst (fst (fst e))) (st_file s) && str_eqb (snd (fst (fst e))) (st_fn s)
                       && str_eqb (snd (fst e)) (st_target s)) store_classes with
  | Some e => Some (snd e)
  | None => None
  end.

(* resets = the translated facts "_generate_code replaces the unique-name singleton and resets every line processor before the
   template generator is consumed" *)
Definition store_ok (resets : bool) (s : store) : bool :=
  match st_phase s with
  | SSetup => true
  | SRender => match class_of s with
               | Some CResetPerFile => resets
               | Some _ => true
               | None => false
               end
  end.

(* what survives from one file to the next through stores that are not admissible: nothing iff all are admissible *)
Definition stores_leak (resets : bool) (stores : list store) : bool := negb (forallb (store_ok resets) stores).

(* ================= module-level and class-level objects; arguments of the template engine's constructor ================= *)
(* Gen_Sites.g_modobjs: every name bound at module or class scope of src/nunavut to a dict/list/set literal or comprehension, to
   the result of a container constructor, or to the result of ANY other call that is not an evidently immutable constructor
   (so: an instance of any class, a cache object, a store of compiled templates ...), with what ANY function -- __init__ included --
   does with it: mo_mutated (stored into / mutator called), mo_escapes (passed to a callee outside the read-only allow-list,
   returned, stored into an attribute, aliased).  An object that escapes may be mutated by the callee on nunavut's behalf (the
   bundled jinja2 is not scanned): it must be reviewed. *)
Inductive mokind := VLiteral | VContainerCall | VInstance.
Record modobj := { mo_file : str; mo_name : str; mo_kind : mokind; mo_made_by : str; mo_mutated : bool; mo_escapes : list str }.

(* reviewed objects: (file, name, constructor, the one escape).  Any change of constructor or escape needs a new review. *)
Definition modobj_reviewed : list (str * str * str * str) :=
  [
   ([108; 97; 110; 103; 47; 99; 112; 112; 47; 95; 95; 105; 110; 105; 116; 95; 95; 46; 112; 121], [102; 105; 108; 116; 101; 114; 95; 116; 111; 95; 116; 101; 109; 112; 108; 97; 116; 101; 95; 117; 110; 105; 113; 117; 101; 95; 110; 97; 109; 101], [116; 101; 109; 112; 108; 97; 116; 101; 95; 118; 111; 108; 97; 116; 105; 108; 101; 95; 102; 105; 108; 116; 101; 114], [97; 114; 103; 32; 111; 102; 32; 116; 101; 109; 112; 108; 97; 116; 101; 95; 118; 111; 108; 97; 116; 105; 108; 101; 95; 102; 105; 108; 116; 101; 114])
   (* lang/cpp/__init__.py filter_to_template_unique_name made by template_volatile_filter; escapes: arg of template_volatile_filter -- the filter function itself, re-bound after template_volatile_filter set an attribute on it at import time (fix 2c24c86) *);
   ([108; 97; 110; 103; 47; 112; 121; 47; 95; 95; 105; 110; 105; 116; 95; 95; 46; 112; 121], [76; 97; 110; 103; 117; 97; 103; 101; 46; 80; 89; 84; 72; 79; 78; 95; 82; 69; 83; 69; 82; 86; 69; 68; 95; 73; 68; 69; 78; 84; 73; 70; 73; 69; 82; 83], [115; 111; 114; 116; 101; 100], [97; 100; 100; 105; 116; 105; 111; 110; 97; 108; 95; 114; 101; 115; 101; 114; 118; 101; 100; 95; 105; 100; 101; 110; 116; 105; 102; 105; 101; 114; 115; 61; 32; 111; 102; 32; 84; 111; 107; 101; 110; 69; 110; 99; 111; 100; 101; 114])
   (* lang/py/__init__.py Language.PYTHON_RESERVED_IDENTIFIERS made by sorted; escapes: additional_reserved_identifiers= of TokenEncoder -- list of keywords/builtins; TokenEncoder.__init__ concatenates it into a new list and keeps no reference *)
  ].

Definition is_reviewed (o : modobj) : bool :=
  existsb (fun e => str_eqb (fst (fst (fst e))) (mo_file o) && str_eqb (snd (fst (fst e))) (mo_name o)
                    && str_eqb (snd (fst e)) (mo_made_by o)
                    && match mo_escapes o with [x] => str_eqb (snd e) x | _ => false end) modobj_reviewed.

(* a constant table: a literal or container never written and never handed to anyone who could keep it; everything else --
   in particular any instance of a class living at module level -- has to be reviewed *)
Definition modobj_ok (o : modobj) : bool :=
  negb (mo_mutated o) &&
  (match mo_kind o, mo_escapes o with
   | VLiteral, [] | VContainerCall, [] => true
   | _, _ => is_reviewed o
   end).

(* Gen_Sites.g_env_kwargs: every keyword argument src/nunavut hands to the bundled jinja2 Environment constructor, with where the
   value comes from.  Admissible: a keyword of the allow-list (none of which lets two environments share state: no
   bytecode_cache, no shared cache object) whose value is a parameter of the constructor, a literal, an imported class/function
   or a freshly constructed object -- never a module-level object. *)
Inductive ekind := EConst | EParam | EImported | EFresh | EGlobal | EOther.
Record envkw := { ek_file : str; ek_where : str; ek_kw : str; ek_vkind : ekind }.

Definition env_kwargs_allowed : list str :=
  [ [108; 111; 97; 100; 101; 114] (* loader *);
    [101; 120; 116; 101; 110; 115; 105; 111; 110; 115] (* extensions *);
    [97; 117; 116; 111; 101; 115; 99; 97; 112; 101] (* autoescape *);
    [117; 110; 100; 101; 102; 105; 110; 101; 100] (* undefined *);
    [107; 101; 101; 112; 95; 116; 114; 97; 105; 108; 105; 110; 103; 95; 110; 101; 119; 108; 105; 110; 101] (* keep_trailing_newline *);
    [108; 115; 116; 114; 105; 112; 95; 98; 108; 111; 99; 107; 115] (* lstrip_blocks *);
    [116; 114; 105; 109; 95; 98; 108; 111; 99; 107; 115] (* trim_blocks *);
    [97; 117; 116; 111; 95; 114; 101; 108; 111; 97; 100] (* auto_reload *);
    [99; 97; 99; 104; 101; 95; 115; 105; 122; 101] (* cache_size *) ].

Definition envkw_ok (k : envkw) : bool :=
  str_in (ek_kw k) env_kwargs_allowed &&
  match ek_vkind k with EConst | EParam | EImported | EFresh => true | EGlobal | EOther => false end.

(* the bundled engine's process-wide lexer cache: every attribute of the environment that Lexer.__init__ reads is a component of
   the cache key, so two environments can share a Lexer only if they agree on everything the Lexer depends on *)
Definition lexer_key_complete (key reads : list str) : bool := forallb (fun a => str_in a key) reads && negb (length reads =? 0)%nat.

(* ================= reads that span more than a type and its dependency closure (the sibling clause) ================= *)
(* Gen_Sites.g_wide_reads: every use of the Namespace API (its public names, regenerated, minus the names every pydsdl composite type
   has too) and of the other handles on the whole run (the generator's namespace attribute, environment globals, language context,
   get_includes / get_dependency_builder) in render-phase Python code and in every template.  Templates are split by the
   include/import/extends graph: WTemplateType = reachable from a template the lookup can select for a TYPE; WTemplateNamespaceOnly
   = reachable only from Namespace.j2 (namespace files legitimately list their types). *)
Inductive wkind := WPython | WTemplateType | WTemplateNamespaceOnly.
Record wread := { w_file : str; w_where : str; w_name : str; w_kind : wkind }.

Inductive wclass :=
| WImpl                 (* the Namespace API's own implementation *)
| WDriver               (* generate_all: decides which files are written, not their content *)
| WByReferencedType     (* the result depends on the type passed in (path of a referenced type, includes of T's dependencies) *)
| WRunConstant          (* the same value for every type of a run, carrying no type map *)
| WNamespaceFilesOnly.  (* Python code used by namespace-file templates only *)

Definition read_classes : list (str * str * str * wclass) :=
  [
   ([95; 103; 101; 110; 101; 114; 97; 116; 111; 114; 115; 46; 112; 121], [65; 98; 115; 116; 114; 97; 99; 116; 71; 101; 110; 101; 114; 97; 116; 111; 114; 46; 110; 97; 109; 101; 115; 112; 97; 99; 101], [95; 110; 97; 109; 101; 115; 112; 97; 99; 101], WImpl) (* _generators.py AbstractGenerator.namespace : _namespace -- implementation of the Namespace API / the accessor itself *);
   ([95; 110; 97; 109; 101; 115; 112; 97; 99; 101; 46; 112; 121], [78; 97; 109; 101; 115; 112; 97; 99; 101; 46; 103; 101; 116; 95; 114; 111; 111; 116; 95; 110; 97; 109; 101; 115; 112; 97; 99; 101], [95; 112; 97; 114; 101; 110; 116], WImpl) (* _namespace.py Namespace.get_root_namespace : _parent -- implementation of the Namespace API / the accessor itself *);
   ([95; 110; 97; 109; 101; 115; 112; 97; 99; 101; 46; 112; 121], [78; 97; 109; 101; 115; 112; 97; 99; 101; 46; 103; 101; 116; 95; 110; 101; 115; 116; 101; 100; 95; 110; 97; 109; 101; 115; 112; 97; 99; 101; 115], [95; 110; 101; 115; 116; 101; 100; 95; 110; 97; 109; 101; 115; 112; 97; 99; 101; 115], WImpl) (* _namespace.py Namespace.get_nested_namespaces : _nested_namespaces -- implementation of the Namespace API / the accessor itself *);
   ([95; 110; 97; 109; 101; 115; 112; 97; 99; 101; 46; 112; 121], [78; 97; 109; 101; 115; 112; 97; 99; 101; 46; 103; 101; 116; 95; 110; 101; 115; 116; 101; 100; 95; 116; 121; 112; 101; 115], [95; 100; 97; 116; 97; 95; 116; 121; 112; 101; 95; 116; 111; 95; 111; 117; 116; 112; 117; 116; 115], WImpl) (* _namespace.py Namespace.get_nested_types : _data_type_to_outputs -- implementation of the Namespace API / the accessor itself *);
   ([95; 110; 97; 109; 101; 115; 112; 97; 99; 101; 46; 112; 121], [78; 97; 109; 101; 115; 112; 97; 99; 101; 46; 102; 105; 110; 100; 95; 111; 117; 116; 112; 117; 116; 95; 112; 97; 116; 104; 95; 102; 111; 114; 95; 116; 121; 112; 101], [95; 100; 97; 116; 97; 95; 116; 121; 112; 101; 95; 116; 111; 95; 111; 117; 116; 112; 117; 116; 115], WImpl) (* _namespace.py Namespace.find_output_path_for_type : _data_type_to_outputs -- implementation of the Namespace API / the accessor itself *);
   ([95; 110; 97; 109; 101; 115; 112; 97; 99; 101; 46; 112; 121], [78; 97; 109; 101; 115; 112; 97; 99; 101; 46; 102; 105; 110; 100; 95; 111; 117; 116; 112; 117; 116; 95; 112; 97; 116; 104; 95; 102; 111; 114; 95; 116; 121; 112; 101], [103; 101; 116; 95; 114; 111; 111; 116; 95; 110; 97; 109; 101; 115; 112; 97; 99; 101], WImpl) (* _namespace.py Namespace.find_output_path_for_type : get_root_namespace -- implementation of the Namespace API / the accessor itself *);
   ([95; 110; 97; 109; 101; 115; 112; 97; 99; 101; 46; 112; 121], [78; 97; 109; 101; 115; 112; 97; 99; 101; 46; 100; 97; 116; 97; 95; 116; 121; 112; 101; 115], [95; 100; 97; 116; 97; 95; 116; 121; 112; 101; 95; 116; 111; 95; 111; 117; 116; 112; 117; 116; 115], WImpl) (* _namespace.py Namespace.data_types : _data_type_to_outputs -- implementation of the Namespace API / the accessor itself *);
   ([95; 110; 97; 109; 101; 115; 112; 97; 99; 101; 46; 112; 121], [78; 97; 109; 101; 115; 112; 97; 99; 101; 46; 95; 98; 102; 115; 95; 115; 101; 97; 114; 99; 104; 95; 102; 111; 114; 95; 111; 117; 116; 112; 117; 116; 95; 112; 97; 116; 104], [103; 101; 116; 95; 110; 101; 115; 116; 101; 100; 95; 110; 97; 109; 101; 115; 112; 97; 99; 101; 115], WImpl) (* _namespace.py Namespace._bfs_search_for_output_path : get_nested_namespaces -- implementation of the Namespace API / the accessor itself *);
   ([95; 110; 97; 109; 101; 115; 112; 97; 99; 101; 46; 112; 121], [78; 97; 109; 101; 115; 112; 97; 99; 101; 46; 95; 98; 102; 115; 95; 115; 101; 97; 114; 99; 104; 95; 102; 111; 114; 95; 111; 117; 116; 112; 117; 116; 95; 112; 97; 116; 104], [95; 100; 97; 116; 97; 95; 116; 121; 112; 101; 95; 116; 111; 95; 111; 117; 116; 112; 117; 116; 115], WImpl) (* _namespace.py Namespace._bfs_search_for_output_path : _data_type_to_outputs -- implementation of the Namespace API / the accessor itself *);
   ([95; 110; 97; 109; 101; 115; 112; 97; 99; 101; 46; 112; 121], [78; 97; 109; 101; 115; 112; 97; 99; 101; 46; 95; 114; 101; 99; 117; 114; 115; 105; 118; 101; 95; 100; 97; 116; 97; 95; 116; 121; 112; 101; 95; 103; 101; 110; 101; 114; 97; 116; 111; 114], [103; 101; 116; 95; 110; 101; 115; 116; 101; 100; 95; 116; 121; 112; 101; 115], WImpl) (* _namespace.py Namespace._recursive_data_type_generator : get_nested_types -- implementation of the Namespace API / the accessor itself *);
   ([95; 110; 97; 109; 101; 115; 112; 97; 99; 101; 46; 112; 121], [78; 97; 109; 101; 115; 112; 97; 99; 101; 46; 95; 114; 101; 99; 117; 114; 115; 105; 118; 101; 95; 100; 97; 116; 97; 95; 116; 121; 112; 101; 95; 103; 101; 110; 101; 114; 97; 116; 111; 114], [103; 101; 116; 95; 110; 101; 115; 116; 101; 100; 95; 110; 97; 109; 101; 115; 112; 97; 99; 101; 115], WImpl) (* _namespace.py Namespace._recursive_data_type_generator : get_nested_namespaces -- implementation of the Namespace API / the accessor itself *);
   ([95; 110; 97; 109; 101; 115; 112; 97; 99; 101; 46; 112; 121], [78; 97; 109; 101; 115; 112; 97; 99; 101; 46; 95; 114; 101; 99; 117; 114; 115; 105; 118; 101; 95; 110; 97; 109; 101; 115; 112; 97; 99; 101; 95; 103; 101; 110; 101; 114; 97; 116; 111; 114], [103; 101; 116; 95; 110; 101; 115; 116; 101; 100; 95; 110; 97; 109; 101; 115; 112; 97; 99; 101; 115], WImpl) (* _namespace.py Namespace._recursive_namespace_generator : get_nested_namespaces -- implementation of the Namespace API / the accessor itself *);
   ([95; 110; 97; 109; 101; 115; 112; 97; 99; 101; 46; 112; 121], [78; 97; 109; 101; 115; 112; 97; 99; 101; 46; 95; 114; 101; 99; 117; 114; 115; 105; 118; 101; 95; 100; 97; 116; 97; 95; 116; 121; 112; 101; 95; 97; 110; 100; 95; 110; 97; 109; 101; 115; 112; 97; 99; 101; 95; 103; 101; 110; 101; 114; 97; 116; 111; 114], [103; 101; 116; 95; 110; 101; 115; 116; 101; 100; 95; 116; 121; 112; 101; 115], WImpl) (* _namespace.py Namespace._recursive_data_type_and_namespace_generator : get_nested_types -- implementation of the Namespace API / the accessor itself *);
   ([95; 110; 97; 109; 101; 115; 112; 97; 99; 101; 46; 112; 121], [78; 97; 109; 101; 115; 112; 97; 99; 101; 46; 95; 114; 101; 99; 117; 114; 115; 105; 118; 101; 95; 100; 97; 116; 97; 95; 116; 121; 112; 101; 95; 97; 110; 100; 95; 110; 97; 109; 101; 115; 112; 97; 99; 101; 95; 103; 101; 110; 101; 114; 97; 116; 111; 114], [103; 101; 116; 95; 110; 101; 115; 116; 101; 100; 95; 110; 97; 109; 101; 115; 112; 97; 99; 101; 115], WImpl) (* _namespace.py Namespace._recursive_data_type_and_namespace_generator : get_nested_namespaces -- implementation of the Namespace API / the accessor itself *);
   ([106; 105; 110; 106; 97; 47; 95; 95; 105; 110; 105; 116; 95; 95; 46; 112; 121], [67; 111; 100; 101; 71; 101; 110; 101; 114; 97; 116; 111; 114; 46; 108; 97; 110; 103; 117; 97; 103; 101; 95; 99; 111; 110; 116; 101; 120; 116], [103; 101; 116; 95; 108; 97; 110; 103; 117; 97; 103; 101; 95; 99; 111; 110; 116; 101; 120; 116], WRunConstant) (* jinja/__init__.py CodeGenerator.language_context : get_language_context -- the language context / environment globals (options, nunavut namespace): the same for every type of a run, no type map in them *);
   ([106; 105; 110; 106; 97; 47; 95; 95; 105; 110; 105; 116; 95; 95; 46; 112; 121], [67; 111; 100; 101; 71; 101; 110; 101; 114; 97; 116; 111; 114; 46; 108; 97; 110; 103; 117; 97; 103; 101; 95; 99; 111; 110; 116; 101; 120; 116], [95; 110; 97; 109; 101; 115; 112; 97; 99; 101], WRunConstant) (* jinja/__init__.py CodeGenerator.language_context : _namespace -- the language context / environment globals (options, nunavut namespace): the same for every type of a run, no type map in them *);
   ([106; 105; 110; 106; 97; 47; 95; 95; 105; 110; 105; 116; 95; 95; 46; 112; 121], [68; 83; 68; 76; 67; 111; 100; 101; 71; 101; 110; 101; 114; 97; 116; 111; 114; 46; 102; 105; 108; 116; 101; 114; 95; 116; 121; 112; 101; 95; 116; 111; 95; 105; 110; 99; 108; 117; 100; 101; 95; 112; 97; 116; 104], [102; 105; 110; 100; 95; 111; 117; 116; 112; 117; 116; 95; 112; 97; 116; 104; 95; 102; 111; 114; 95; 116; 121; 112; 101], WByReferencedType) (* jinja/__init__.py DSDLCodeGenerator.filter_type_to_include_path : find_output_path_for_type -- path lookup of the type passed as argument (find_output_path_for_type(t), relative to output_folder) *);
   ([106; 105; 110; 106; 97; 47; 95; 95; 105; 110; 105; 116; 95; 95; 46; 112; 121], [68; 83; 68; 76; 67; 111; 100; 101; 71; 101; 110; 101; 114; 97; 116; 111; 114; 46; 102; 105; 108; 116; 101; 114; 95; 116; 121; 112; 101; 95; 116; 111; 95; 105; 110; 99; 108; 117; 100; 101; 95; 112; 97; 116; 104], [110; 97; 109; 101; 115; 112; 97; 99; 101], WByReferencedType) (* jinja/__init__.py DSDLCodeGenerator.filter_type_to_include_path : namespace -- path lookup of the type passed as argument (find_output_path_for_type(t), relative to output_folder) *);
   ([106; 105; 110; 106; 97; 47; 95; 95; 105; 110; 105; 116; 95; 95; 46; 112; 121], [68; 83; 68; 76; 67; 111; 100; 101; 71; 101; 110; 101; 114; 97; 116; 111; 114; 46; 102; 105; 108; 116; 101; 114; 95; 116; 121; 112; 101; 95; 116; 111; 95; 105; 110; 99; 108; 117; 100; 101; 95; 112; 97; 116; 104], [111; 117; 116; 112; 117; 116; 95; 102; 111; 108; 100; 101; 114], WByReferencedType) (* jinja/__init__.py DSDLCodeGenerator.filter_type_to_include_path : output_folder -- path lookup of the type passed as argument (find_output_path_for_type(t), relative to output_folder) *);
   ([106; 105; 110; 106; 97; 47; 95; 95; 105; 110; 105; 116; 95; 95; 46; 112; 121], [68; 83; 68; 76; 67; 111; 100; 101; 71; 101; 110; 101; 114; 97; 116; 111; 114; 46; 103; 101; 110; 101; 114; 97; 116; 101; 95; 97; 108; 108], [103; 101; 116; 95; 97; 108; 108; 95; 116; 121; 112; 101; 115], WDriver) (* jinja/__init__.py DSDLCodeGenerator.generate_all : get_all_types -- decides WHICH files a run writes, not what is in a type file *);
   ([106; 105; 110; 106; 97; 47; 95; 95; 105; 110; 105; 116; 95; 95; 46; 112; 121], [68; 83; 68; 76; 67; 111; 100; 101; 71; 101; 110; 101; 114; 97; 116; 111; 114; 46; 103; 101; 110; 101; 114; 97; 116; 101; 95; 97; 108; 108], [103; 101; 116; 95; 97; 108; 108; 95; 100; 97; 116; 97; 116; 121; 112; 101; 115], WDriver) (* jinja/__init__.py DSDLCodeGenerator.generate_all : get_all_datatypes -- decides WHICH files a run writes, not what is in a type file *);
   ([106; 105; 110; 106; 97; 47; 95; 95; 105; 110; 105; 116; 95; 95; 46; 112; 121], [68; 83; 68; 76; 67; 111; 100; 101; 71; 101; 110; 101; 114; 97; 116; 111; 114; 46; 103; 101; 110; 101; 114; 97; 116; 101; 95; 97; 108; 108], [110; 97; 109; 101; 115; 112; 97; 99; 101], WDriver) (* jinja/__init__.py DSDLCodeGenerator.generate_all : namespace -- decides WHICH files a run writes, not what is in a type file *);
   ([106; 105; 110; 106; 97; 47; 95; 95; 105; 110; 105; 116; 95; 95; 46; 112; 121], [68; 83; 68; 76; 67; 111; 100; 101; 71; 101; 110; 101; 114; 97; 116; 111; 114; 46; 103; 101; 110; 101; 114; 97; 116; 101; 95; 97; 108; 108], [108; 97; 110; 103; 117; 97; 103; 101; 95; 99; 111; 110; 116; 101; 120; 116], WDriver) (* jinja/__init__.py DSDLCodeGenerator.generate_all : language_context -- decides WHICH files a run writes, not what is in a type file *);
   ([106; 105; 110; 106; 97; 47; 95; 95; 105; 110; 105; 116; 95; 95; 46; 112; 121], [83; 117; 112; 112; 111; 114; 116; 71; 101; 110; 101; 114; 97; 116; 111; 114; 46; 103; 101; 110; 101; 114; 97; 116; 101; 95; 97; 108; 108], [108; 97; 110; 103; 117; 97; 103; 101; 95; 99; 111; 110; 116; 101; 120; 116], WDriver) (* jinja/__init__.py SupportGenerator.generate_all : language_context -- decides WHICH files a run writes, not what is in a type file *);
   ([106; 105; 110; 106; 97; 47; 95; 95; 105; 110; 105; 116; 95; 95; 46; 112; 121], [83; 117; 112; 112; 111; 114; 116; 71; 101; 110; 101; 114; 97; 116; 111; 114; 46; 103; 101; 110; 101; 114; 97; 116; 101; 95; 97; 108; 108], [103; 101; 116; 95; 115; 117; 112; 112; 111; 114; 116; 95; 111; 117; 116; 112; 117; 116; 95; 102; 111; 108; 100; 101; 114], WDriver) (* jinja/__init__.py SupportGenerator.generate_all : get_support_output_folder -- decides WHICH files a run writes, not what is in a type file *);
   ([106; 105; 110; 106; 97; 47; 95; 95; 105; 110; 105; 116; 95; 95; 46; 112; 121], [83; 117; 112; 112; 111; 114; 116; 71; 101; 110; 101; 114; 97; 116; 111; 114; 46; 103; 101; 110; 101; 114; 97; 116; 101; 95; 97; 108; 108], [110; 97; 109; 101; 115; 112; 97; 99; 101], WDriver) (* jinja/__init__.py SupportGenerator.generate_all : namespace -- decides WHICH files a run writes, not what is in a type file *);
   ([106; 105; 110; 106; 97; 47; 95; 95; 105; 110; 105; 116; 95; 95; 46; 112; 121], [83; 117; 112; 112; 111; 114; 116; 71; 101; 110; 101; 114; 97; 116; 111; 114; 46; 95; 103; 101; 116; 95; 116; 101; 109; 112; 108; 97; 116; 101; 115; 95; 98; 121; 95; 115; 117; 112; 112; 111; 114; 116; 95; 116; 121; 112; 101], [108; 97; 110; 103; 117; 97; 103; 101; 95; 99; 111; 110; 116; 101; 120; 116], WDriver) (* jinja/__init__.py SupportGenerator._get_templates_by_support_type : language_context -- decides WHICH files a run writes, not what is in a type file *);
   ([106; 105; 110; 106; 97; 47; 101; 110; 118; 105; 114; 111; 110; 109; 101; 110; 116; 46; 112; 121], [67; 111; 100; 101; 71; 101; 110; 69; 110; 118; 105; 114; 111; 110; 109; 101; 110; 116; 46; 110; 117; 110; 97; 118; 117; 116; 95; 103; 108; 111; 98; 97; 108], [103; 108; 111; 98; 97; 108; 115], WRunConstant) (* jinja/environment.py CodeGenEnvironment.nunavut_global : globals -- the language context / environment globals (options, nunavut namespace): the same for every type of a run, no type map in them *);
   ([106; 105; 110; 106; 97; 47; 101; 110; 118; 105; 114; 111; 110; 109; 101; 110; 116; 46; 112; 121], [67; 111; 100; 101; 71; 101; 110; 69; 110; 118; 105; 114; 111; 110; 109; 101; 110; 116; 46; 110; 111; 119; 95; 117; 116; 99], [103; 108; 111; 98; 97; 108; 115], WRunConstant) (* jinja/environment.py CodeGenEnvironment.now_utc : globals -- the language context / environment globals (options, nunavut namespace): the same for every type of a run, no type map in them *);
   ([108; 97; 110; 103; 47; 95; 95; 105; 110; 105; 116; 95; 95; 46; 112; 121], [76; 97; 110; 103; 117; 97; 103; 101; 67; 111; 110; 116; 101; 120; 116; 46; 103; 101; 116; 95; 108; 97; 110; 103; 117; 97; 103; 101], [103; 101; 116; 95; 115; 117; 112; 112; 111; 114; 116; 101; 100; 95; 108; 97; 110; 103; 117; 97; 103; 101; 115], WRunConstant) (* lang/__init__.py LanguageContext.get_language : get_supported_languages -- the language context / environment globals (options, nunavut namespace): the same for every type of a run, no type map in them *);
   ([108; 97; 110; 103; 47; 95; 99; 111; 109; 109; 111; 110; 46; 112; 121], [73; 110; 99; 108; 117; 100; 101; 71; 101; 110; 101; 114; 97; 116; 111; 114; 46; 103; 101; 110; 101; 114; 97; 116; 101; 95; 105; 110; 99; 108; 117; 100; 101; 95; 102; 105; 108; 101; 112; 97; 114; 116; 95; 108; 105; 115; 116], [103; 101; 116; 95; 105; 110; 99; 108; 117; 100; 101; 115], WByReferencedType) (* lang/_common.py IncludeGenerator.generate_include_filepart_list : get_includes -- includes of the dependencies of the type being rendered *);
   ([108; 97; 110; 103; 47; 95; 99; 111; 109; 109; 111; 110; 46; 112; 121], [73; 110; 99; 108; 117; 100; 101; 71; 101; 110; 101; 114; 97; 116; 111; 114; 46; 103; 101; 110; 101; 114; 97; 116; 101; 95; 105; 110; 99; 108; 117; 100; 101; 95; 102; 105; 108; 101; 112; 97; 114; 116; 95; 108; 105; 115; 116], [103; 101; 116; 95; 100; 101; 112; 101; 110; 100; 101; 110; 99; 121; 95; 98; 117; 105; 108; 100; 101; 114], WByReferencedType) (* lang/_common.py IncludeGenerator.generate_include_filepart_list : get_dependency_builder -- includes of the dependencies of the type being rendered *);
   ([108; 97; 110; 103; 47; 99; 47; 95; 95; 105; 110; 105; 116; 95; 95; 46; 112; 121], [102; 105; 108; 116; 101; 114; 95; 105; 110; 99; 108; 117; 100; 101; 115], [103; 108; 111; 98; 97; 108; 115], WRunConstant) (* lang/c/__init__.py filter_includes : globals -- the language context / environment globals (options, nunavut namespace): the same for every type of a run, no type map in them *);
   ([108; 97; 110; 103; 47; 99; 112; 112; 47; 95; 95; 105; 110; 105; 116; 95; 95; 46; 112; 121], [102; 105; 108; 116; 101; 114; 95; 105; 110; 99; 108; 117; 100; 101; 115], [103; 108; 111; 98; 97; 108; 115], WRunConstant) (* lang/cpp/__init__.py filter_includes : globals -- the language context / environment globals (options, nunavut namespace): the same for every type of a run, no type map in them *);
   ([108; 97; 110; 103; 47; 104; 116; 109; 108; 47; 95; 95; 105; 110; 105; 116; 95; 95; 46; 112; 121], [102; 105; 108; 116; 101; 114; 95; 110; 97; 109; 101; 115; 112; 97; 99; 101; 95; 100; 111; 99], [103; 101; 116; 95; 110; 101; 115; 116; 101; 100; 95; 116; 121; 112; 101; 115], WNamespaceFilesOnly) (* lang/html/__init__.py filter_namespace_doc : get_nested_types -- html filter applied to Namespace objects; used by namespace_info.j2 only *);
   ([108; 97; 110; 103; 47; 99; 112; 112; 47; 116; 101; 109; 112; 108; 97; 116; 101; 115; 47; 98; 97; 115; 101; 46; 106; 50], [116; 101; 109; 112; 108; 97; 116; 101; 32; 111; 102; 32; 116; 121; 112; 101; 32; 102; 105; 108; 101; 115], [110; 97; 109; 101; 115; 112; 97; 99; 101], WRunConstant) (* lang/cpp/templates/base.j2 template of type files : namespace -- nunavut.support.namespace: a dictionary key of the per-call globals, not the Namespace object *)
  ].

Definition read_ok (r : wread) : bool :=
  match w_kind r with
  | WTemplateNamespaceOnly => true
  | _ => existsb (fun e => str_eqb (fst (fst (fst e))) (w_file r) && str_eqb (snd (fst (fst e))) (w_where r)
                           && str_eqb (snd (fst e)) (w_name r)) read_classes
  end.

(* a type's rendering can see the INPUT SET of the run exactly when some wide read is not accounted for *)
Definition reads_leak (reads : list wread) : bool := negb (forallb read_ok reads).

(* a classification / review row that no scanned item matches any more is stale (the code it excused is gone or has changed):
   it must be removed, so that it cannot excuse something else later *)
Definition store_class_used (stores : list store) (e : str * str * str * sclass) : bool :=
  existsb (fun s => str_eqb (fst (fst (fst e))) (st_file s) && str_eqb (snd (fst (fst e))) (st_fn s) && str_eqb (snd (fst e)) (st_target s)) stores.
Definition read_class_used (reads : list wread) (e : str * str * str * wclass) : bool :=
  existsb (fun r => str_eqb (fst (fst (fst e))) (w_file r) && str_eqb (snd (fst (fst e))) (w_where r) && str_eqb (snd (fst e)) (w_name r)) reads.
Definition modobj_review_used (objs : list modobj) (e : str * str * str * str) : bool :=
  existsb (fun o => str_eqb (fst (fst (fst e))) (mo_file o) && str_eqb (snd (fst (fst e))) (mo_name o)) objs.

