(* Object identity in nunavut's configuration merge (C13: "the source documents are left unmodified").
   Two executable models of the SAME code (deep_update, src/nunavut/_utilities.py), no proofs here:

   1. ownership model `tdu`: Config.du on trees whose dict nodes carry the flag "this dict object
      belongs to a source document".  In-place updates keep the target's objects, `target.get(key, {})`
      creates a fresh object, `copy.copy(source)` creates a fresh OUTER object whose values (the inner
      dict objects of the source) are shared.  All mutation done by a merge goes through objects
      reachable from the target, so a source document can only ever be modified by a later merge if the
      target reaches one of its dict objects: `has_src`.
   2. heap model `hdu`: dict objects live in a heap (location = index), values are leaves or references,
      deep_update mutates the heap exactly as the Python code mutates its arguments.  Used for the
      concrete refutation witness and for the correspondence run (value result AND aliasing/mutation
      of the source documents are compared with the real code). *)
From Verif Require Export Config.
Open Scope N_scope.

(* ---- 1. ownership model ------------------------------------------------------------------------ *)
Inductive tcv :=
| TLeaf (dflt : bool) (a : atom)
| TNode (src : bool) (kvs : list (list N * tcv)).

Fixpoint erase (v : tcv) : cv :=
  match v with
  | TLeaf d a => Leaf d a
  | TNode _ m => Node (map (fun kv => (fst kv, erase (snd kv))) m)
  end.

(* a freshly parsed document: every dict object tagged `b` *)
Fixpoint tag_all (b : bool) (v : cv) : tcv :=
  match v with
  | Leaf d a => TLeaf d a
  | Node m => TNode b (map (fun kv => (fst kv, tag_all b (snd kv))) m)
  end.

Definition t_is_default (v : tcv) : bool := match v with TLeaf d _ => d | TNode _ _ => false end.

Definition t_leaf_set (tm : list (key * tcv)) (k : key) (v : tcv) : list (key * tcv) :=
  match dget k tm with
  | Some c => if t_is_default v && negb (t_is_default c) then tm else dset k v tm
  | None => dset k v tm
  end.

Definition tdu_item (rec : tcv -> tcv -> tcv) (tm : list (key * tcv)) (k : key) (v : tcv) : list (key * tcv) :=
  match v with
  | TNode _ _ => dset k (rec (match dget k tm with Some x => x | None => TNode false [] end) v) tm
  | TLeaf _ _ => t_leaf_set tm k v
  end.

Fixpoint tdu_fold (rec : tcv -> tcv -> tcv) (sm tm : list (key * tcv)) {struct sm} : list (key * tcv) :=
  match sm with
  | [] => tm
  | (k, v) :: sm' => tdu_fold rec sm' (tdu_item rec tm k v)
  end.

(* copy.deepcopy: every dict object of the copy is new *)
Fixpoint retag (b : bool) (v : tcv) : tcv :=
  match v with
  | TLeaf d a => TLeaf d a
  | TNode _ m => TNode b (map (fun kv => (fst kv, retag b (snd kv))) m)
  end.

(* deep = Gen_C13.deep_update_copies_deeply: which copy function the code uses *)
Fixpoint tdu (deep : bool) (t s : tcv) {struct s} : tcv :=
  match t with
  | TLeaf _ _ => match s with
                 | TNode _ sm => if deep then retag false s     (* copy.deepcopy(source) *)
                                 else TNode false sm            (* copy.copy(source): new outer dict, shared values *)
                 | TLeaf _ _ => s
                 end
  | TNode o tm =>
      match s with
      | TLeaf _ _ => t
      | TNode _ sm =>
          TNode o ((fix go (sm : list (list N * tcv)) (tm : list (list N * tcv)) {struct sm} : list (list N * tcv) :=
                      match sm with
                      | [] => tm
                      | (k, v) :: sm' =>
                          go sm'
                             (match v with
                              | TNode _ _ => dset k (tdu deep (match dget k tm with Some x => x | None => TNode false [] end) v) tm
                              | TLeaf _ _ => t_leaf_set tm k v
                              end)
                      end) sm tm)
      end
  end.

(* the value reaches a dict object owned by a source document *)
Fixpoint has_src (v : tcv) : bool :=
  match v with
  | TLeaf _ _ => false
  | TNode o m => o || (fix go (m : list (list N * tcv)) : bool :=
                         match m with [] => false | (_, x) :: m' => has_src x || go m' end) m
  end.

Definition has_src_children (m : list (key * tcv)) : bool := existsb (fun kv => has_src (snd kv)) m.

(* ---- 2. heap model ----------------------------------------------------------------------------- *)
Inductive hv :=
| HL (dflt : bool) (a : atom)
| HR (loc : nat).

Definition heap := list (list (key * hv)).

Definition hget (h : heap) (l : nat) : list (key * hv) := nth l h [].
Definition hset (h : heap) (l : nat) (d : list (key * hv)) : heap := upd_nth l (fun _ => d) h.
Definition halloc (h : heap) (d : list (key * hv)) : heap * nat := (h ++ [d], length h).

(* load a document into fresh objects (a parsed YAML file / a literal dict) *)
Fixpoint hload (h : heap) (v : cv) {struct v} : heap * hv :=
  match v with
  | Leaf d a => (h, HL d a)
  | Node m =>
      let '(h1, items) :=
        (fix go (h : heap) (m : list (list N * cv)) {struct m} : heap * list (list N * hv) :=
           match m with
           | [] => (h, [])
           | (k, x) :: m' => let '(h1, r) := hload h x in
                             let '(h2, rest) := go h1 m' in (h2, (k, r) :: rest)
           end) h m in
      let '(h2, l) := halloc h1 items in (h2, HR l)
  end.

(* read a value back as a tree (fuel bounds the depth; heaps built by hload/hdu are acyclic) *)
Fixpoint hreify (fuel : nat) (h : heap) (v : hv) : cv :=
  match v with
  | HL d a => Leaf d a
  | HR l => match fuel with
            | O => Node []
            | S f => Node (map (fun kv => (fst kv, hreify f h (snd kv))) (hget h l))
            end
  end.

Definition h_is_default (v : hv) : bool := match v with HL d _ => d | HR _ => false end.

Definition h_leaf_set (tm : list (key * hv)) (k : key) (v : hv) : list (key * hv) :=
  match dget k tm with
  | Some c => if h_is_default v && negb (h_is_default c) then tm else dset k v tm
  | None => dset k v tm
  end.

(* copy.deepcopy(v) with its memo: a dict object that is reachable twice is copied ONCE (the copy keeps the internal sharing
   of the original); the new dict is memoised before it is filled, as copy._deepcopy_dict does *)
Fixpoint memo_get (l : nat) (memo : list (nat * nat)) : option nat :=
  match memo with
  | [] => None
  | (a, b) :: r => if Nat.eqb l a then Some b else memo_get l r
  end.

Fixpoint hdeepcopy (fuel : nat) (h : heap) (memo : list (nat * nat)) (v : hv) {struct fuel}
  : heap * list (nat * nat) * hv :=
  match v with
  | HL _ _ => (h, memo, v)
  | HR l =>
      match fuel with
      | O => (h, memo, v)
      | S f =>
          match memo_get l memo with
          | Some l' => (h, memo, HR l')
          | None =>
              let '(h1, l') := halloc h [] in
              let '(h2, memo2, items) :=
                fold_left (fun (st : heap * list (nat * nat) * list (list N * hv)) (kv : list N * hv) =>
                             let '(h', m', acc) := st in
                             let '(h'', m'', r) := hdeepcopy f h' m' (snd kv) in
                             (h'', m'', acc ++ [(fst kv, r)]))
                          (hget h l) (h1, (l, l') :: memo, []) in
              (hset h2 l' items, memo2, HR l')
          end
      end
  end.

(* deep_update(target, source) on the heap: returns the heap afterwards and the returned reference *)
Fixpoint hdu (deep rebuild : bool) (fuel : nat) (h : heap) (t s : hv) {struct fuel} : heap * hv :=
  match fuel with
  | O => (h, t)
  | S f =>
      match t with
      | HL _ _ =>
          match s with
          | HR sl => if deep
                     then let '(h1, _, c) := hdeepcopy f h [] s in             (* copy.deepcopy(source) *)
                          if rebuild
                          then let '(h2, e) := halloc h1 [] in hdu deep rebuild f h2 (HR e) c   (* deep_update({}, <the copy>) *)
                          else (h1, c)
                     else let '(h', l) := halloc h (hget h sl) in (h', HR l)     (* copy.copy(source) *)
          | HL _ _ => (h, s)
          end
      | HR tl =>
          match s with
          | HL _ _ => (h, t)
          | HR sl =>
              (fold_left
                 (fun (h : heap) (kv : list N * hv) =>
                    let k := fst kv in
                    match snd kv with
                    | HR vl =>
                        let '(h1, cur) := match dget k (hget h tl) with
                                          | Some x => (h, x)
                                          | None => let '(h', l) := halloc h [] in (h', HR l)    (* target.get(key, {}) *)
                                          end in
                        let '(h2, r) := hdu deep rebuild f h1 cur (HR vl) in
                        hset h2 tl (dset k r (hget h2 tl))                                     (* target[key] = ... *)
                    | HL d a => hset h tl (h_leaf_set (hget h tl) k (HL d a))
                    end)
                 (hget h sl) h, t)
          end
      end
  end.

Definition hfuel : nat := 64.

(* scenario used by the refutation and by the correspondence run: load `base` and the sources, merge the
   sources in order into base; report the merged value and every source document as it reads afterwards *)
Fixpoint hload_all (h : heap) (docs : list cv) : heap * list hv :=
  match docs with
  | [] => (h, [])
  | d :: r => let '(h1, x) := hload h d in let '(h2, xs) := hload_all h1 r in (h2, x :: xs)
  end.

Definition hmerge_scenario (deep : bool) (base : cv) (srcs : list cv) : cv * list cv :=
  let '(h0, b) := hload [] base in
  let '(h1, ss) := hload_all h0 srcs in
  let '(h2, r) := fold_left (fun (st : heap * hv) s => hdu deep false hfuel (fst st) (snd st) s) ss (h1, b) in
  (hreify hfuel h2 r, map (hreify hfuel h2) ss).

(* some source document reads differently after the merges *)
Definition sources_modified (deep : bool) (base : cv) (srcs : list cv) : bool :=
  negb (forallb (fun p => cv_eqb (fst p) (snd p)) (combine srcs (snd (hmerge_scenario deep base srcs)))).

(* the ownership model on the same scenario *)
Definition tmerge_all (deep : bool) (base : cv) (srcs : list cv) : tcv :=
  fold_left (fun t s => tdu deep t (tag_all true s)) srcs (tag_all false base).

(* ---- documents whose sub-maps may be ONE object (YAML anchors/aliases, one dict under two keys) ---------------------- *)
Inductive dcv :=
| DLeaf (dflt : bool) (a : atom)
| DNode (label : N) (kvs : list (list N * dcv))      (* label 0: no other reference to this dict; label n > 0: defines object n *)
| DRef (label : N).                                  (* the dict object defined earlier (in document order) under this label *)

Fixpoint label_get (n : N) (m : list (N * nat)) : option nat :=
  match m with [] => None | (a, b) :: r => if N.eqb n a then Some b else label_get n r end.

Fixpoint hload_dag (h : heap) (labels : list (N * nat)) (v : dcv) {struct v} : heap * list (N * nat) * hv :=
  match v with
  | DLeaf d a => (h, labels, HL d a)
  | DRef n => (h, labels, match label_get n labels with Some l => HR l | None => HL false ANone end)
  | DNode n m =>
      let '(h1, labels1, items) :=
        (fix go (h : heap) (labels : list (N * nat)) (m : list (list N * dcv)) {struct m} : heap * list (N * nat) * list (list N * hv) :=
           match m with
           | [] => (h, labels, [])
           | (k, x) :: m' => let '(h1, l1, r) := hload_dag h labels x in
                             let '(h2, l2, rest) := go h1 l1 m' in (h2, l2, (k, r) :: rest)
           end) h labels m in
      let '(h2, l) := halloc h1 items in
      (h2, (if N.eqb n 0 then labels1 else (n, l) :: labels1), HR l)
  end.

(* the tree a document denotes value-wise (references expanded; fuel bounds depth + reference chains) *)
Fixpoint def_get (n : N) (ds : list (N * dcv)) : option dcv :=
  match ds with [] => None | (a, b) :: r => if N.eqb n a then Some b else def_get n r end.

Fixpoint dag_expand (fuel : nat) (defs : list (N * dcv)) (v : dcv) {struct fuel} : cv :=
  match fuel with
  | O => Node []
  | S f =>
      match v with
      | DLeaf d a => Leaf d a
      | DNode _ m => Node (map (fun kv => (fst kv, dag_expand f defs (snd kv))) m)
      | DRef n => match def_get n defs with Some d => dag_expand f defs d | None => Leaf false ANone end
      end
  end.

(* merge scenario with shared sub-maps: load base and sources (each with its own labels), merge in order, read everything back *)
Fixpoint hload_dag_all (h : heap) (docs : list dcv) : heap * list hv :=
  match docs with
  | [] => (h, [])
  | d :: r => let '(h1, _, x) := hload_dag h [] d in let '(h2, xs) := hload_dag_all h1 r in (h2, x :: xs)
  end.

Definition hmerge_dag_scenario (deep rebuild : bool) (base : dcv) (srcs : list dcv) : cv * list cv :=
  let '(h0, _, b) := hload_dag [] [] base in
  let '(h1, ss) := hload_dag_all h0 srcs in
  let '(h2, r) := fold_left (fun (st : heap * hv) s => hdu deep rebuild hfuel (fst st) (snd st) s) ss (h1, b) in
  (hreify hfuel h2 r, map (hreify hfuel h2) ss).
