(* C20 -- type links: hrefs and ids agree, URL resolution, where links resolve and where they do not. *)
From Verif Require Import HtmlModel HtmlThm HtmlThmTree.
Open Scope N_scope.

(* the id inside the URL is the id filter_tag_id gives to the element (both translated from the source) *)
Theorem url_targets_tag_id t :
  ti_is_array t = false -> ti_has_parent t = false ->
  filter_url_from_type t = s_up ++ ti_root_ns t ++ s_slash_hash ++ filter_tag_id t.
Proof.
  intros H Hp. unfold filter_url_from_type, filter_tag_id. rewrite H, ?Hp. cbv zeta. cbn [concat app s_up s_slash_hash].
  rewrite ?app_nil_r, <- ?app_assoc. reflexivity.
Qed.

(* ---------- concrete sites: where links resolve, in either state of the working tree ---------- *)
(* nested-namespace pages: without the depth prefix the links of rega/sub/index.html dangle (F-HTML-LINK-SUBNS), with it they
   resolve; what the working tree does is lk_up faithful_cfg (regenerated from the templates) *)
Theorem links_subns_by_state :
  page_links_ok (set_lk_up faithful_cfg false) [w_site_subns] w_sub = false
  /\ page_links_ok (set_lk_up faithful_cfg true) [w_site_subns] w_sub = true
  /\ page_links_ok faithful_cfg [w_site_subns] w_site_subns = true
  /\ page_links_ok faithful_cfg [w_site_subns] w_sub = lk_up faithful_cfg.
Proof. repeat split; vm_compute; reflexivity. Qed.

(* service halves: the links of a service's request/response resolve iff the translated filter_url_from_type sends them to
   the service's own anchor (F-HTML-LINK-SVC otherwise) *)
Theorem links_svc_by_state : page_links_ok faithful_cfg [w_site_svc] w_site_svc = url_links_service.
Proof. vm_compute. reflexivity. Qed.

Theorem links_ok_witness : forallb (page_links_ok faithful_cfg w_site_ok) (site_pages w_site_ok) = true.
Proof. vm_compute. reflexivity. Qed.

(* ---------- URL algebra ---------- *)
Lemma ident_not c k : ident_chr c = true -> is_alpha k = false -> is_digit k = false -> k <> 95 -> (c =? k) = false.
Proof.
  intros Hc Ha Hd Hk. destruct (N.eqb_spec c k) as [->|]; [|reflexivity]. unfold ident_chr in Hc. rewrite Ha, Hd in Hc.
  cbn in Hc. destruct (N.eqb_spec k 95); [contradiction|discriminate].
Qed.

Lemma take_drop_hash R rest : forallb ident_chr R = true ->
  take_while (fun c => negb (c =? 35)) (R ++ 47 :: 35 :: rest) = R ++ [47]
  /\ drop_while (fun c => negb (c =? 35)) (R ++ 47 :: 35 :: rest) = 35 :: rest.
Proof.
  induction R as [|c R IH]; intros H; [split; reflexivity|]. cbn [forallb] in H. apply andb_prop in H as [Hc HR].
  destruct (IH HR) as [A B]. cbn [app take_while drop_while]. rewrite (ident_not c 35 Hc) by (reflexivity || discriminate).
  cbn [negb]. rewrite A, B. split; reflexivity.
Qed.

Lemma split_on_seg R : forall cur rest, forallb ident_chr R = true ->
  split_on 47 cur (R ++ 47 :: rest) = (rev cur ++ R) :: split_on 47 [] rest.
Proof.
  induction R as [|c R IH]; intros cur rest H.
  - cbn. rewrite app_nil_r. reflexivity.
  - cbn [forallb] in H. apply andb_prop in H as [Hc HR]. cbn [app split_on].
    rewrite (ident_not c 47 Hc) by (reflexivity || discriminate). rewrite (IH (c :: cur) rest HR). cbn [rev].
    rewrite <- app_assoc. reflexivity.
Qed.

Lemma seg_not_special R : seg_ok R = true -> str_eqb R s_dotdot = false /\ str_eqb R [] = false /\ str_eqb R s_dot = false
                                           /\ forallb ident_chr R = true.
Proof.
  destruct R as [|c R]; [discriminate|]. cbn [seg_ok]. intros H. pose proof H as H'. cbn [forallb] in H'.
  apply andb_prop in H' as [Hc _]. assert (E : (c =? 46) = false) by (apply (ident_not c 46 Hc); reflexivity || discriminate).
  repeat split; try exact H; cbn [str_eqb s_dotdot s_dot]; rewrite ?E; reflexivity.
Qed.

(* a type link written on the index page of a ROOT namespace resolves to the directory of the type's root namespace *)
Theorem resolve_type_url root R a : seg_ok R = true ->
  resolve [root] (s_up ++ R ++ s_slash_hash ++ a) = TDir [R] a.
Proof.
  intros HR. destruct (seg_not_special R HR) as (N1 & N2 & N3 & Hid).
  unfold resolve. replace (is_type_link (s_up ++ R ++ s_slash_hash ++ a)) with true by reflexivity. cbn [negb].
  cbn [s_up app]. unfold split_frag. cbn [fst snd]. change (s_slash_hash ++ a) with (47 :: 35 :: a).
  assert (T : take_while (fun c : N => negb (c =? 35)) (46 :: 46 :: 47 :: R ++ 47 :: 35 :: a) = 46 :: 46 :: 47 :: R ++ [47]).
  { cbn [take_while]. change (negb (46 =? 35)) with true. change (negb (47 =? 35)) with true. cbv iota.
    rewrite (proj1 (take_drop_hash R a Hid)). reflexivity. }
  assert (D : drop_while (fun c : N => negb (c =? 35)) (46 :: 46 :: 47 :: R ++ 47 :: 35 :: a) = 35 :: a).
  { cbn [drop_while]. change (negb (46 =? 35)) with true. change (negb (47 =? 35)) with true. cbv iota.
    exact (proj2 (take_drop_hash R a Hid)). }
  rewrite T, D. unfold split_slash.
  assert (S : split_on 47 [] (46 :: 46 :: 47 :: R ++ [47]) = [s_dotdot; R; []]).
  { cbn [split_on]. change (46 =? 47) with false. change (47 =? 47) with true. cbv iota.
    rewrite (split_on_seg R [] [] Hid). reflexivity. }
  rewrite S. cbn [rev app apply_segments]. change (str_eqb s_dotdot s_dotdot) with true. cbv iota.
  rewrite N1, N2, N3. change (str_eqb [] s_dotdot) with false. change (str_eqb [] []) with true. cbv iota.
  reflexivity.
Qed.

(* ---------- the ids a page produces ---------- *)
Lemma vals_of_app k a b : vals_of k (a ++ b) = vals_of k a ++ vals_of k b.
Proof. unfold vals_of. apply flat_map_app. Qed.

Lemma vals_of_elem k n at_ body : vals_of k (elem n at_ body) = attr_vals k at_ ++ vals_of k body.
Proof. unfold elem. change (POpen n at_ :: body ++ [PClose n]) with ([POpen n at_] ++ body ++ [PClose n]).
  rewrite !vals_of_app. cbn [vals_of flat_map]. rewrite !app_nil_r. reflexivity. Qed.

Lemma emit_comp_id cf up st c a nm :
  In (tx (ae_ti cf) (filter_tag_id (ci_t c))) (vals_of k_id (snd (emit_ty cf up st (Comp c a) nm false))).
Proof.
  cbn [emit_ty]. cbv zeta. cbn [snd]. rewrite vals_of_app. apply in_or_app. right.
  rewrite vals_of_elem. apply in_or_app. left.
  match goal with |- In ?v (attr_vals k_id [(k_class, ?x); (k_id, ?v)]) =>
    change (attr_vals k_id [(k_class, x); (k_id, v)]) with [v] end.
  left. reflexivity.
Qed.

Lemma comp_info_some t c : comp_info t = Some c -> exists a, t = Comp c a.
Proof. destruct t; cbn; intros H; try discriminate. injection H as ->. eexists; reflexivity. Qed.

Lemma emit_types_ids cf up c ts : In c (listed ts) ->
  forall st, In (tx (ae_ti cf) (filter_tag_id (ci_t c))) (vals_of k_id (snd (emit_types cf up st ts))).
Proof.
  induction ts as [|[sn t] r IH]; intros H st; [destruct H|].
  unfold listed in H. cbn [flat_map fst snd] in H. fold (listed r) in H. cbn [emit_types].
  destruct (str_eqb sn namespace_doc_key); [apply IH; exact H|].
  cbv zeta. cbn [snd]. rewrite vals_of_app. apply in_or_app. apply in_app_or in H as [H|H].
  - left. destruct (comp_info t) as [c0|] eqn:E; [|destruct H]. destruct H as [<-|[]].
    destruct (comp_info_some t c0 E) as (a & ->). apply emit_comp_id.
  - right. apply IH. exact H.
Qed.

Lemma emit_ns_ids cf up c :
  (forall n, In c (all_listed n) -> forall st, In (tx (ae_ti cf) (filter_tag_id (ci_t c))) (vals_of k_id (snd (emit_ns cf up st n))))
  /\ (forall l, In c (all_listed_l l) -> forall st, In (tx (ae_ti cf) (filter_tag_id (ci_t c))) (vals_of k_id (snd (emit_nsl cf up st l)))).
Proof.
  apply nst_nsl_ind.
  - intros name docs types subs IH H st. cbn [all_listed] in H. cbn [emit_ns]. cbv zeta. cbn [snd].
    rewrite vals_of_app. apply in_or_app. right. rewrite vals_of_elem. apply in_or_app. right.
    rewrite !vals_of_app. apply in_or_app. right. apply in_or_app. apply in_app_or in H as [H|H].
    + left. apply emit_types_ids. exact H.
    + right. apply IH. exact H.
  - intros [].
  - intros n IHn r IHr H st. cbn [all_listed_l] in H. cbn [emit_nsl]. cbv zeta. cbn [snd].
    rewrite vals_of_app. apply in_or_app. apply in_app_or in H as [H|H]; [left; apply IHn|right; apply IHr]; exact H.
Qed.

(* every type listed at or below a namespace has its tag id among the ids of that namespace's page *)
Theorem listed_ids_on_page cf n c : In c (all_listed n) -> In (tx (ae_ti cf) (filter_tag_id (ci_t c))) (page_ids cf n).
Proof.
  intros H. unfold page_ids, ns_page, ns_page_main. rewrite !vals_of_app. apply in_or_app. right. apply in_or_app. right.
  rewrite vals_of_elem. apply in_or_app. right. apply (proj1 (emit_ns_ids cf _ c)). exact H.
Qed.

Lemma split_on_no_sep s : forall cur, forallb ident_chr s = true -> split_on 46 cur s = [rev cur ++ s].
Proof.
  induction s as [|c s IH]; intros cur H; [cbn; rewrite app_nil_r; reflexivity|].
  cbn [forallb] in H. apply andb_prop in H as [Hc Hs]. cbn [split_on].
  rewrite (ident_not c 46 Hc) by (reflexivity || discriminate). rewrite (IH (c :: cur) Hs). cbn [rev]. rewrite <- app_assoc. reflexivity.
Qed.

Lemma root_dir n : seg_ok (ns_name n) = true -> ns_dir n = [ns_name n].
Proof. intros H. unfold ns_dir, split_dots. apply (split_on_no_sep (ns_name n) []). apply seg_not_special, H. Qed.

Lemma list_str_eqb_refl l : list_str_eqb l l = true.
Proof. induction l as [|x l IH]; [reflexivity|]. cbn. rewrite str_eqb_refl, IH. reflexivity. Qed.

Lemma root_is_page roots r : In r roots -> In r (site_pages roots).
Proof. intros H. unfold site_pages. apply in_flat_map. exists r. split; [exact H|]. destruct r; left; reflexivity. Qed.

(* links_resolve (the part that holds): on the index page of a root namespace, the link written for a reference to a
   composite type resolves to a generated page and to an id on that page -- for every site in which the type's root
   namespace is generated too and lists the type (pydsdl guarantees the latter for every non-service-half type) *)
Theorem links_resolve_partial cf roots r c r' c' :
  ae_ti cf = false ->
  seg_ok (ns_name r) = true ->
  ti_is_array (ci_t c) = false -> ti_has_parent (ci_t c) = false ->
  In r' roots -> ns_name r' = ti_root_ns (ci_t c) -> seg_ok (ns_name r') = true ->
  In c' (all_listed r') -> filter_tag_id (ci_t c') = filter_tag_id (ci_t c) ->
  link_ok cf roots r (filter_url_from_type (ci_t c)) = true.
Proof.
  intros Hae Hr Harr Hpar Hin Hname Hseg Hl Hid. unfold link_ok. rewrite (root_dir r Hr), (url_targets_tag_id _ Harr Hpar).
  rewrite <- Hname. rewrite (resolve_type_url (ns_name r) (ns_name r') _ Hseg). cbn [target_ok].
  apply existsb_exists. exists r'. split; [apply root_is_page, Hin|].
  rewrite (root_dir r' Hseg), list_str_eqb_refl. cbn [andb]. apply str_in_spec.
  pose proof (listed_ids_on_page cf r' c' Hl) as H. rewrite Hae in H. cbn [tx] in H. rewrite Hid in H. exact H.
Qed.
