(* The generator run as a state machine with EXPLICIT process-wide mutable state (C10, shared with C07).

   What is modelled (src/nunavut/jinja/__init__.py, lang/_common.py, _postprocessors.py, lang/_language.py,
   jinja/loaders.py):

     gstate        everything that survives from one generated file to the next inside one interpreter:
                     g_uniq   the UniqueNameGenerator singleton (translated: Generated/Gen_Uniq.v)
                     g_pps    the line post-processor OBJECTS of the generator (self._post_processors); the
                              LimitEmptyLines state record is the translated one (Generated/Gen_LinePP.v)
                     g_cache  a memo table (functools.lru_cache on Language.get_dependency_builder /
                              TokenEncoder.strop, DSDLTemplateLoader._type_to_template_lookup_cache)
     prog          what rendering one template can do: emit text chunks, ask the unique-name generator
                   (any number of times, adaptively), call a memoised pure function.  `render` maps
                   (configuration, type object) to such a program -- that SIGNATURE is the assumption about
                   the template engine: a template sees the type it is given (a pydsdl object carries the
                   types it refers to by reference) and the process state only through these two operations.
     gen_file      CodeGenerator._generate_code: reset the unique-name generator (iff the source does so before
                   the lazy template generator is consumed: translated fact generate_code_resets_uniq), run
                   the template, push the chunks through the line buffer and the SHARED processor objects
                   (Gen/LinePP.v, LinePPInst.v), or write them verbatim when there is no line processor.
     run           generate_all: a fold over the types in processing order.

   `lel_shared` selects the behaviour of the line post-processor objects between files: true = the code as it
   is (one LimitEmptyLines object for all files of a generator, never reset: known finding F-LEL-LEAK),
   false = counters start at zero for every file.  The check instantiates it from a probe of the real code.

   Executable definitions only (extracted by coq/extraction/ExtractC10.v); proofs are in GenStateThm.v. *)
From Verif Require Export GenStateDict LinePPInst Gen_Uniq.
Open Scope N_scope.

(* ---------------- memoisation: functools.lru_cache(maxsize) / a plain dict memo ---------------- *)
Definition cache := list (str * str).          (* most recently used first *)

Fixpoint cache_remove (c : cache) (k : str) : cache :=
  match c with
  | [] => []
  | (k', v) :: c' => if str_eqb k k' then c' else (k', v) :: cache_remove c' k
  end.

Definition cache_trim (maxsize : option nat) (c : cache) : cache :=
  match maxsize with Some n => firstn n c | None => c end.

(* a call of the wrapped function f through the cache: hit -> stored value, entry becomes most recent;
   miss -> compute, store, evict the least recently used entries beyond maxsize *)
Definition lru_call (f : str -> str) (maxsize : option nat) (c : cache) (k : str) : cache * str :=
  match dict_get c k with
  | Some v => ((k, v) :: cache_remove c k, v)
  | None => let v := f k in (cache_trim maxsize ((k, v) :: c), v)
  end.

(* ---------------- what a template can do ---------------- *)
Inductive prog :=
| PDone
| PEmit (chunk : str) (k : prog)
| PUniq (key base_token prefix suffix : str) (k : str -> prog)   (* UniqueNameGenerator.get_instance()(...) *)
| PMemo (q : str) (k : str -> prog).                              (* a call of an lru_cache'd pure function *)

Section Run.
  Variable cfun : str -> str.             (* the memoised pure function *)
  Variable maxsize : option nat.

  Fixpoint run_prog (p : prog) (u : UniqueNameGenerator_state) (c : cache)
    : UniqueNameGenerator_state * cache * list str :=
    match p with
    | PDone => (u, c, [])
    | PEmit s k => let '(u', c', out) := run_prog k u c in (u', c', s :: out)
    | PUniq key base pre suf k =>
        let '(u1, name) := UniqueNameGenerator_call u key base pre suf in run_prog (k name) u1 c
    | PMemo q k =>
        let '(c1, v) := lru_call cfun maxsize c q in run_prog (k v) u c1
    end.

  (* ---------------- process state ---------------- *)
  Record gstate := { g_uniq : UniqueNameGenerator_state; g_pps : list pp; g_cache : cache }.

  Definition pp_fresh (p : pp) : pp :=
    match p with
    | PTrim => PTrim
    | PLimit s => PLimit (LimitEmptyLines_init (LimitEmptyLines_max_empty_lines s))
    end.

  Variable ty : Type.                     (* a type object together with everything reachable from it *)
  Variable render : ty -> prog.           (* configuration and templates are fixed for a generator *)
  Variable resets : bool.                 (* generate_code_resets_uniq *)
  Variable lel_shared : bool.

  Definition write_file (ps : list pp) (chunks : list str) : list pp * str :=
    match ps with
    | [] => ([], concat chunks)           (* `for part in template_gen: output_file.write(part)` *)
    | _ => write_builtin ps chunks        (* _generate_with_line_buffer *)
    end.

  Definition gen_file (g : gstate) (T : ty) : gstate * str :=
    let u0 := if resets then UniqueNameGenerator_init else g_uniq g in
    let '(u1, c1, chunks) := run_prog (render T) u0 (g_cache g) in
    let ps0 := if lel_shared then g_pps g else map pp_fresh (g_pps g) in
    let '(ps1, text) := write_file ps0 chunks in
    ({| g_uniq := u1; g_pps := ps1; g_cache := c1 |}, text).

  Fixpoint run (g : gstate) (I : list ty) : gstate * list (ty * str) :=
    match I with
    | [] => (g, [])
    | T :: I' =>
        let '(g1, text) := gen_file g T in
        let '(g2, fs) := run g1 I' in
        (g2, (T, text) :: fs)
    end.

  (* a new interpreter, a new generator with the configured pipeline *)
  Definition g_init (pps : list pp) : gstate :=
    {| g_uniq := UniqueNameGenerator_init; g_pps := pps; g_cache := [] |}.

  (* the file of T when T is generated alone by a fresh process *)
  Definition alone (pps : list pp) (T : ty) : str := snd (gen_file (g_init pps) T).

  (* the chunk stream of T's template in a fresh process *)
  Definition file_chunks (T : ty) : list str := snd (run_prog (render T) UniqueNameGenerator_init []).
End Run.

Arguments g_uniq {_}. Arguments g_pps {_}. Arguments g_cache {_}.

(* ---------------- predicates used in the statements ---------------- *)
Definition pp_clean (p : pp) : bool :=
  match p with PTrim => true | PLimit s => (LimitEmptyLines_empty_line_count s =? 0)%Z end.
Definition pps_clean (ps : list pp) : bool := forallb pp_clean ps.

Definition pp_wf (p : pp) : bool :=
  match p with PTrim => true | PLimit s => (0 <=? LimitEmptyLines_max_empty_lines s)%Z end.
Definition pps_wf (ps : list pp) : bool := forallb pp_wf ps.

Definition has_limiter (ps : list pp) : bool :=
  existsb (fun p => match p with PLimit _ => true | PTrim => false end) ps.

(* the lines the line buffer hands to the processors, in order (pure counterpart of LinePP.feed) *)
Fixpoint feed_lines (part lb : str) {struct part} : str * list line :=
  match part with
  | [] => (lb, [])
  | c :: rest =>
      if c =? LF then
        let '(lb', ls) := feed_lines rest [] in (lb', (lb, [LF]) :: ls)
      else
        match rest with
        | d :: rest' =>
            if (c =? CR) && (d =? LF) then
              let '(lb', ls) := feed_lines rest' [] in (lb', (lb, [CR; LF]) :: ls)
            else feed_lines rest (lb ++ [c])
        | [] => feed_lines rest (lb ++ [c])
        end
  end.

Fixpoint feed_all_lines (chunks : list str) (lb : str) : str * list line :=
  match chunks with
  | [] => (lb, [])
  | p :: ps =>
      let '(lb1, l1) := feed_lines p lb in
      let '(lb2, l2) := feed_all_lines ps lb1 in
      (lb2, l1 ++ l2)
  end.

Definition chunk_lines (chunks : list str) : list line :=
  let '(lb, ls) := feed_all_lines chunks [] in
  match lb with [] => ls | _ => ls ++ [(lb, [])] end.

(* a line whose content has a non-whitespace character: survives trimming non-empty, resets every limiter *)
Definition ws_char (c : chr) : bool := in_ranges (u_space py_uni) c.      (* Python's \s *)
Definition solid (l : line) : bool := existsb (fun c => negb (ws_char c)) (fst l).

(* the last line of a file is solid, or the file has no line at all (then the processors are not called) *)
Definition ends_solid (chunks : list str) : bool :=
  match rev (chunk_lines chunks) with
  | [] => true
  | l :: _ => solid l
  end.

(* scripts: non-adaptive programs given as data (used by the correspondence run and the witnesses) *)
Inductive item := IText (s : str) | IUniq (key base_token prefix suffix : str) | IMemo (q : str).

Fixpoint prog_of_script (s : list item) : prog :=
  match s with
  | [] => PDone
  | IText t :: s' => PEmit t (prog_of_script s')
  | IUniq k b p x :: s' => PUniq k b p x (fun name => PEmit name (prog_of_script s'))
  | IMemo q :: s' => PMemo q (fun v => PEmit v (prog_of_script s'))
  end.
