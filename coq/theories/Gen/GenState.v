(* The generator process as a state machine with EXPLICIT process-wide mutable state (C10).

   What is modelled (src/nunavut/jinja/__init__.py, lang/_common.py, _postprocessors.py, lang/_language.py,
   jinja/loaders.py, _namespace.py):

     pstate        everything that survives from one generated file to the next inside one interpreter:
                     p_uniq   the UniqueNameGenerator singleton (class attribute; translated: Generated/Gen_Uniq.v)
                     p_cache  one memo table standing for functools.lru_cache on Language.get_dependency_builder /
                              TokenEncoder.strop / _make_textwrap and DSDLTemplateLoader._type_to_template_lookup_cache;
                              a key is (identity of the object the method is bound to, arguments)
                     p_gens   the live generator objects; each owns its line post-processor OBJECTS
                              (CodeGenerator.__init__: self._post_processors, one LimitEmptyLines object per generator;
                              the LimitEmptyLines state record is the translated one, Generated/Gen_LinePP.v), its
                              configuration (language options + templates, an id) and the types of its namespace
     select        DSDLCodeGenerator.filter_type_to_template -> DSDLTemplateLoader.type_to_template: the breadth-first walk over
                   the pydsdl class hierarchy with the loader's memo (Gen/Lookup.v `bfs`, the C16 model, imported); the memo is
                   per generator object (go_memo) and survives from file to file and from generate_all to generate_all.  A
                   DSDLCodeGenerator has ONE listing (user directory if given, else the package: FIND_FIRST).
     tyobj         a pydsdl type object (with its pydsdl class) with the objects it refers to (the dependency closure as a tree); `resolve`
                   builds it from the namespace the generator was given, and fails unless the closure is inside it
     prog          what rendering one template can do: emit text chunks, ask the unique-name generator (any number of
                   times, adaptively), call a memoised pure function.  `render` maps (configuration, type object) to
                   such a program -- that SIGNATURE is the assumption about the template engine: a template sees the
                   type it is given (with what it refers to) and the process state only through these two operations.
     gen_file      CodeGenerator._generate_code: reset the unique-name generator (iff the source does so before the
                   lazy template generator is consumed: translated fact generate_code_resets_uniq), run the template,
                   push the chunks through the line buffer and the generator's processor objects (Gen/LinePP.v,
                   LinePPInst.v), or write them verbatim when there is no line processor.
     run_types     DSDLCodeGenerator.generate_all: a fold over the types in processing order (any list: the order
                   comes from dict/set iteration of the namespace tree).
     exec          a history: generator constructions and generate_all calls in one interpreter, in any interleaving.

   `lel_shared` selects the behaviour of the line post-processor objects between files: true = the code as it is (the
   objects live as long as the generator, LimitEmptyLines._empty_line_count is never reset: known finding F-LEL-LEAK),
   false = counters start at zero for every file.  The check instantiates it from a probe of the real code.

   Executable definitions only (extracted by coq/extraction/ExtractC10.v); proofs are in GenStateThm*.v. *)
From Verif Require Export GenStateDict LinePPInst Gen_Uniq GenStateSites.
From Verif Require Import Lookup.
Open Scope N_scope.

Notation tmemo := Lookup.cache (only parsing).        (* DSDLTemplateLoader._type_to_template_lookup_cache of one walk *)
Notation tlist := (list (list N * list N)) (only parsing).   (* listing of a loader: (stem, template path) *)

(* ---------------- memoisation: functools.lru_cache(maxsize) / a plain dict memo ---------------- *)
Definition ckey := (N * str)%type.            (* (id(self), arguments) *)
Definition ckey_eqb (a b : ckey) : bool := (fst a =? fst b) && str_eqb (snd a) (snd b).
Definition cache := list (ckey * str).        (* most recently used first *)

Fixpoint cache_get (c : cache) (k : ckey) : option str :=
  match c with
  | [] => None
  | (k', v) :: c' => if ckey_eqb k k' then Some v else cache_get c' k
  end.

Fixpoint cache_remove (c : cache) (k : ckey) : cache :=
  match c with
  | [] => []
  | (k', v) :: c' => if ckey_eqb k k' then c' else (k', v) :: cache_remove c' k
  end.

Definition cache_trim (maxsize : option nat) (c : cache) : cache :=
  match maxsize with Some n => firstn n c | None => c end.

(* a call of the wrapped function f through the cache: hit -> stored value, entry becomes most recent;
   miss -> compute, store, evict the least recently used entries beyond maxsize *)
Definition lru_call (f : ckey -> str) (maxsize : option nat) (c : cache) (k : ckey) : cache * str :=
  match cache_get c k with
  | Some v => ((k, v) :: cache_remove c k, v)
  | None => let v := f k in (cache_trim maxsize ((k, v) :: c), v)
  end.

(* the same table looked up through a projection of the call's arguments: what a memo does whose key keeps less than the
   function reads (an argument whose __eq__/__hash__ ignore part of it, a key without `self`) *)
Definition proj_call (proj : ckey -> ckey) (f : ckey -> str) (maxsize : option nat) (c : cache) (k : ckey) : cache * str :=
  match cache_get c (proj k) with
  | Some v => ((proj k, v) :: cache_remove c (proj k), v)
  | None => let v := f k in (cache_trim maxsize ((proj k, v) :: c), v)
  end.

(* the key a memoisation SITE of the scanned inventory uses for a call (self, q): the whole call if the site is admissible
   (keyed by the identity of self and by-value arguments, value not modified by callers), a key that has lost the call
   otherwise.  A call that names no site of the table is not memoised at all. *)
Definition memo_proj (sites : list site) (i : nat) (k : ckey) : ckey :=
  match nth_error sites i with
  | Some st => if site_ok st then k else (0, [])
  | None => k
  end.

(* ---------------- type objects and the dependency closure ---------------- *)
Notation tkey := (list N) (only parsing).                 (* full name + version *)
Record decl := { d_cls : N; d_body : str; d_deps : list tkey }.     (* d_cls: the pydsdl class of the object *)
Definition universe := dict decl.                        (* the DSDL sources: what each definition says *)

Inductive tyobj := TyObj (k : tkey) (c : N) (body : str) (deps : list tyobj).
Definition obj_cls (o : tyobj) : N := match o with TyObj _ c _ _ => c end.

Fixpoint map_opt {A B : Type} (f : A -> option B) (l : list A) : option (list B) :=
  match l with
  | [] => Some []
  | a :: l' => match f a, map_opt f l' with Some b, Some bs => Some (b :: bs) | _, _ => None end
  end.

(* the object the front end builds for k when it is given the definitions I: exists iff the dependency closure
   of k lies inside I (pydsdl refuses a namespace with an unresolved reference) *)
Fixpoint resolve (fuel : nat) (U : universe) (I : list tkey) (k : tkey) : option tyobj :=
  match fuel with
  | O => None
  | S f =>
      if str_in k I then
        match dict_get U k with
        | Some d =>
            match map_opt (resolve f U I) (d_deps d) with
            | Some os => Some (TyObj k (d_cls d) (d_body d) os)
            | None => None
            end
        | None => None
        end
      else None
  end.

Definition resolve_in (U : universe) (I : list tkey) (k : tkey) : option tyobj := resolve (S (length U)) U I k.

(* ---------------- what a template can do ---------------- *)
Inductive prog :=
| PDone
| PEmit (chunk : str) (k : prog)
| PUniq (key base_token prefix suffix : str) (k : str -> prog)   (* UniqueNameGenerator.get_instance()(...) *)
| PMemo (site : nat) (q : str) (k : str -> prog)                  (* a call of the memoised callable at site `site` of the inventory *)
| PPeek (k : list str -> prog).                                   (* read whatever earlier files left in long-lived objects through
                                                                     stores the inventory does not show to be harmless *)

Definition pp_fresh (p : pp) : pp :=
  match p with
  | PTrim => PTrim
  | PLimit s => PLimit (LimitEmptyLines_init (LimitEmptyLines_max_empty_lines s))
  end.

Definition pp_clean (p : pp) : bool :=
  match p with PTrim => true | PLimit s => (LimitEmptyLines_empty_line_count s =? 0)%Z end.
Definition pps_clean (ps : list pp) : bool := forallb pp_clean ps.

Record genobj := { go_cfg : N; go_tset : tlist; go_memo : tmemo; go_pps : list pp; go_inputs : list tkey }.
Record pstate := { p_uniq : UniqueNameGenerator_state; p_cache : cache; p_gens : list genobj;
                   p_scratch : list str }.    (* one mark per file written so far: stands for every attribute of a long-lived
                                                 object that some render-phase code stores to *)

(* everything mutable the process holds at the moment a file is rendered; `render` receives it so that "rendering consults
   process state only through unique names, memoised callables and inventoried stores" is a PREMISE (render_pure), not the
   type of a parameter *)
Definition ambient := (UniqueNameGenerator_state * cache * tmemo * list pp * list str)%type.

(* one generated file, as the check observes it *)
Record entry := {
  e_cfg : N;              (* configuration (options + templates) of the generator that wrote it *)
  e_tset : tlist;         (* that generator's template listing *)
  e_pps0 : list pp;       (* that generator's line processors as constructed *)
  e_key : tkey;
  e_obj : tyobj;
  e_tmpl : option str;    (* the template selected for it *)
  e_clean : bool;         (* every LimitEmptyLines counter of the generator was 0 when the file was started *)
  e_text : str }.

Inductive op :=
| ONew (c : N) (ts : tlist) (pps : list pp) (I : list tkey)   (* DSDLCodeGenerator(namespace built from I, options c, templates ts) *)
| ORun (gid : nat) (args : N) (dry : bool) (order : list tkey)
    (* generate_all(is_dryrun=dry, omit_serialization_support=.., embed_auditing_info=..) of generator gid, visiting the types
       in this order; args numbers the combination of the per-call flags (update_nunavut_globals: what templates see as
       nunavut.support.omit / nunavut.embed_auditing_info) *)
| OClear.                                        (* cache_clear() of every memo table *)

Section Run.
  Variable U : universe.
  Variable bases : N -> list N.           (* pydsdl class -> __bases__ without object *)
  Variable cname : N -> str.              (* pydsdl class -> __name__ *)
  Variable fuel : nat.                    (* bound of the lookup loop: more than the depth of the class forest *)
  Variable sites : list site.             (* the inventory of memoisation sites (Generated/Gen_Sites.g_sites) *)
  Variable stores : list store.           (* the inventory of stores on long-lived objects (Gen_Sites.g_stores) *)
  Variable rfacts : bool.                 (* the translated reset facts the class CResetPerFile relies on *)
  Variable reads : list wread.            (* the inventory of reads beyond a type's closure (Gen_Sites.g_wide_reads) *)
  (* process state, the INPUT SET of the run as far as the read inventory lets a type see it, configuration, selected template,
     type object *)
  Variable render : ambient -> list tkey -> N -> option str -> tyobj -> prog.
  Variable cfun : ckey -> str.            (* the memoised pure methods *)
  Variable maxsize : option nat.
  Variable resets : bool.                 (* generate_code_resets_uniq *)
  Variable lel_shared : bool.

  (* vis: what PPeek sees during this file *)
  Fixpoint run_prog (vis : list str) (self : N) (p : prog) (u : UniqueNameGenerator_state) (c : cache)
    : UniqueNameGenerator_state * cache * list str :=
    match p with
    | PDone => (u, c, [])
    | PEmit s k => let '(u', c', out) := run_prog vis self k u c in (u', c', s :: out)
    | PUniq key base pre suf k =>
        let '(u1, name) := UniqueNameGenerator_call u key base pre suf in run_prog vis self (k name) u1 c
    | PMemo i q k =>
        let '(c1, v) := proj_call (memo_proj sites i) cfun maxsize c (self, q) in run_prog vis self (k v) u c1
    | PPeek k => run_prog vis self (k vis) u c
    end.

  Definition write_file (ps : list pp) (chunks : list str) : list pp * str :=
    match ps with
    | [] => ([], concat chunks)           (* `for part in template_gen: output_file.write(part)` *)
    | _ => write_builtin ps chunks        (* _generate_with_line_buffer *)
    end.

  (* filter_type_to_template(T): type_to_template(type(T)) with the loader's memo *)
  Definition select (ts : tlist) (memo : tmemo) (cl : N) : tmemo * option str :=
    Lookup.bfs bases (tmap cname ts) Lookup.W_FS fuel [cl] [] memo.   (* one listing, one walk *)

  (* _generate_type + _generate_code for the type object o under configuration cf with template listing ts *)
  Definition gen_file (cf : N) (ts : tlist) (I : list tkey) (memo : tmemo) (u : UniqueNameGenerator_state) (c : cache) (ps : list pp)
             (sc : list str) (o : tyobj)
    : tmemo * UniqueNameGenerator_state * cache * list pp * (option str * str) :=
    let '(memo1, tmpl) := select ts memo (obj_cls o) in
    let u0 := if resets then UniqueNameGenerator_init else u in
    let vis := if stores_leak rfacts stores then sc else [] in      (* the per-file step consults the store inventory *)
    let visI := if reads_leak reads then I else [] in                (* ... and the read inventory *)
    let '(u1, c1, chunks) := run_prog vis cf (render (u, c, memo, ps, sc) visI cf tmpl o) u0 c in
    let ps0 := if lel_shared then ps else map pp_fresh ps in
    let '(ps1, text) := write_file ps0 chunks in
    (memo1, u1, c1, ps1, (tmpl, text)).

  (* generate_all of one generator *)
  Fixpoint run_types (cf : N) (ts : tlist) (I : list tkey) (memo : tmemo) (u : UniqueNameGenerator_state) (c : cache)
           (ps : list pp) (sc : list str) (order : list tkey)
    : tmemo * UniqueNameGenerator_state * cache * list pp * list str * list entry :=
    match order with
    | [] => (memo, u, c, ps, sc, [])
    | k :: order' =>
        match resolve_in U I k with
        | None => run_types cf ts I memo u c ps sc order'            (* not a type of this namespace *)
        | Some o =>
            let '(m1, u1, c1, ps1, res) := gen_file cf ts I memo u c ps sc o in
            let '(m2, u2, c2, ps2, sc2, es) := run_types cf ts I m1 u1 c1 ps1 (sc ++ [k]) order' in
            (m2, u2, c2, ps2, sc2,
             {| e_cfg := cf; e_tset := ts; e_pps0 := map pp_fresh ps; e_key := k; e_obj := o; e_tmpl := fst res;
                e_clean := pps_clean ps; e_text := snd res |} :: es)
        end
    end.

  (* what rendering sees as "the options": the generator's configuration together with the per-call arguments *)
  Definition ecfg (cf args : N) : N := cf * 16 + args.

  (* generate_all(is_dryrun=True): templates are looked up (the loader memo fills), nothing is rendered or written *)
  Fixpoint dry_types (ts : tlist) (I : list tkey) (memo : tmemo) (order : list tkey) : tmemo :=
    match order with
    | [] => memo
    | k :: order' =>
        match resolve_in U I k with
        | None => dry_types ts I memo order'
        | Some o => dry_types ts I (fst (select ts memo (obj_cls o))) order'
        end
    end.

  Fixpoint set_nth {A : Type} (n : nat) (x : A) (l : list A) : list A :=
    match l, n with
    | [], _ => []
    | _ :: l', O => x :: l'
    | y :: l', S n' => y :: set_nth n' x l'
    end.

  Definition op_step (s : pstate) (o : op) : pstate * list entry :=
    match o with
    | ONew cf ts pps ins =>
        ({| p_uniq := p_uniq s; p_cache := p_cache s;
            p_gens := p_gens s ++ [{| go_cfg := cf; go_tset := ts; go_memo := []; go_pps := pps; go_inputs := ins |}];
            p_scratch := p_scratch s |}, [])
    | OClear => ({| p_uniq := p_uniq s; p_cache := []; p_gens := p_gens s; p_scratch := p_scratch s |}, [])
    | ORun gid args dry order =>
        match nth_error (p_gens s) gid with
        | None => (s, [])
        | Some g =>
            if dry then
              ({| p_uniq := p_uniq s; p_cache := p_cache s;
                  p_gens := set_nth gid {| go_cfg := go_cfg g; go_tset := go_tset g;
                                           go_memo := dry_types (go_tset g) (go_inputs g) (go_memo g) order;
                                           go_pps := go_pps g; go_inputs := go_inputs g |} (p_gens s);
                  p_scratch := p_scratch s |}, [])
            else
            let '(m1, u1, c1, ps1, sc1, es) :=
              run_types (ecfg (go_cfg g) args) (go_tset g) (go_inputs g) (go_memo g) (p_uniq s) (p_cache s) (go_pps g)
                        (p_scratch s) order in
            ({| p_uniq := u1; p_cache := c1;
                p_gens := set_nth gid {| go_cfg := go_cfg g; go_tset := go_tset g; go_memo := m1; go_pps := ps1;
                                         go_inputs := go_inputs g |} (p_gens s);
                p_scratch := sc1 |},
             es)
        end
    end.

  Fixpoint exec (s : pstate) (h : list op) : pstate * list entry :=
    match h with
    | [] => (s, [])
    | o :: h' =>
        let '(s1, es1) := op_step s o in
        let '(s2, es2) := exec s1 h' in
        (s2, es1 ++ es2)
    end.

  (* a new interpreter *)
  Definition p_init : pstate := {| p_uniq := UniqueNameGenerator_init; p_cache := []; p_gens := []; p_scratch := [] |}.

  (* everything written by a history that starts in a new interpreter *)
  Definition log (h : list op) : list entry := snd (exec p_init h).

  (* the file of o when it is the first and only file a new interpreter writes, with newly constructed processors *)
  Definition alone (cf : N) (ts : tlist) (pps0 : list pp) (o : tyobj) : option str * str :=
    snd (gen_file cf ts [] [] UniqueNameGenerator_init [] pps0 [] o).

End Run.

(* ---------------- predicates used in the statements ---------------- *)

(* the lines the line buffer hands to the processors, in order (pure counterpart of LinePP.feed) *)
Fixpoint feed_lines (part lb : str) {struct part} : str * list line :=
  match part with
  | [] => (lb, [])
  | c :: rest =>
      if c =? LF then
        let '(lb', ls) := feed_lines rest [] in (lb', (lb, [LF]) :: ls)
      else
        match rest with
        | d :: rest' =>
            if (c =? CR) && (d =? LF) then
              let '(lb', ls) := feed_lines rest' [] in (lb', (lb, [CR; LF]) :: ls)
            else feed_lines rest (lb ++ [c])
        | [] => feed_lines rest (lb ++ [c])
        end
  end.

Fixpoint feed_all_lines (chunks : list str) (lb : str) : str * list line :=
  match chunks with
  | [] => (lb, [])
  | p :: ps =>
      let '(lb1, l1) := feed_lines p lb in
      let '(lb2, l2) := feed_all_lines ps lb1 in
      (lb2, l1 ++ l2)
  end.

Definition chunk_lines (chunks : list str) : list line :=
  let '(lb, ls) := feed_all_lines chunks [] in
  match lb with [] => ls | _ => ls ++ [(lb, [])] end.

(* a line whose content has a non-whitespace character: survives trimming non-empty, resets every limiter *)
Definition ws_char (c : chr) : bool := in_ranges (u_space py_uni) c.      (* Python's \s *)
Definition solid (l : line) : bool := existsb (fun c => negb (ws_char c)) (fst l).

(* the last line of a file is solid, or the file has no line at all (then the processors are not called) *)
Definition ends_solid (chunks : list str) : bool :=
  match rev (chunk_lines chunks) with
  | [] => true
  | l :: _ => solid l
  end.



(* scripts: non-adaptive programs given as data (used by the correspondence run and the witnesses) *)
Inductive item := IText (s : str) | IUniq (key base_token prefix suffix : str) | IMemo (q : str)
                | IMark.                     (* "<path of the template file that is being rendered>" *)

Definition mark_of (tmpl : option str) : str := match tmpl with Some p => [60] ++ p ++ [62] | None => [60; 62] end.

Fixpoint prog_of_script (tmpl : option str) (s : list item) : prog :=
  match s with
  | [] => PDone
  | IText t :: s' => PEmit t (prog_of_script tmpl s')
  | IUniq k b p x :: s' => PUniq k b p x (fun name => PEmit name (prog_of_script tmpl s'))
  | IMemo q :: s' => PMemo 0 q (fun v => PEmit v (prog_of_script tmpl s'))
  | IMark :: s' => PEmit (mark_of tmpl) (prog_of_script tmpl s')
  end.

(* rendering given as a table (configuration, type key) -> script; the type object's body and its dependencies' bodies
   are appended as a comment so that the content depends on the closure *)
Fixpoint obj_sig (fuel : nat) (o : tyobj) : str :=
  match fuel, o with
  | O, _ => []
  | S f, TyObj k _ b deps => k ++ [58] ++ b ++ [40] ++ concat (map (obj_sig f) deps) ++ [41]
  end.

Fixpoint obj_depth (o : tyobj) : nat :=
  match o with TyObj _ _ _ deps => S (fold_right (fun d m => Nat.max (obj_depth d) m) O deps) end.

(* markers = true: every file additionally STARTS with the marker *)
Definition tmpl_marker (markers : bool) (tmpl : option str) : str := if markers then mark_of tmpl else [].

Definition table_render (markers : bool) (tab : list (ckey * list item)) (_ : ambient) (_ : list tkey) (cf : N) (tmpl : option str)
           (o : tyobj) : prog :=
  PEmit (tmpl_marker markers tmpl)
  match o with
  | TyObj k _ _ _ =>
      match find (fun e => ckey_eqb (fst e) (cf, k)) tab with
      | Some e => prog_of_script tmpl (snd e)
      | None => PEmit (obj_sig (obj_depth o) o) PDone
      end
  end.

(* the pydsdl class forest as a table: (id, (name, bases)) *)
Definition ctable := list (N * (str * list N)).
Fixpoint ct_get (t : ctable) (c : N) : option (str * list N) :=
  match t with [] => None | (c', v) :: t' => if c' =? c then Some v else ct_get t' c end.
Definition ct_bases (t : ctable) (c : N) : list N := match ct_get t c with Some (_, b) => b | None => [] end.
Definition ct_name (t : ctable) (c : N) : str := match ct_get t c with Some (n, _) => n | None => [] end.

(* the memoised function used by table-driven runs: depends on the object it is bound to and on the argument *)
Definition table_cfun (k : ckey) : str := snd k ++ [64] ++ dec_of_N (fst k).

Definition exec_table (ct : ctable) (U : universe) (markers : bool) (tab : list (ckey * list item)) (maxsize : option nat)
           (resets lel_shared : bool) (h : list op) : list entry :=
  log U (ct_bases ct) (ct_name ct) (S (length ct)) [] [] true [] (table_render markers tab) table_cfun maxsize resets lel_shared h.
