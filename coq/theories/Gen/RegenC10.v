(* C12 x C10 -- where the premise [render_independent] of the content theorems comes from.

   C10's model (Gen/GenState.v) produces, for a whole process history, a log of generated files [entry] carrying the actual
   text; C10_file_indep_real (Properties/C10.v) says: two entries of ANY two histories with the same generator configuration,
   template listing, line processors and type key have the same template and the same text.  C10's render has no file-system
   argument at all (no output file is read back: the C12 translator fails closed on read_text/open(..,"r") of output paths).

   Below: C12's [render] instantiated with "the text of the log entry for (class, path) in the run whose ambient is a", and
   [render_independent] proved from exactly the statement of C10_file_indep_real (hypothesis c10_file_indep, to be discharged by
   `exact (C10_file_indep_real U render Hr cfun m1 m2 h1 h2)` after unfolding [log_of]) PLUS

     c10_generated : existence of the entry (Prop) -- C10 HAS it for the runs C12 uses: GenStateThmSubset.single_run_entry;
     matches_dec   : decidability of "this entry is the file of (class, path)" -- trivial but not stated in C10 (needs a boolean
                     equality on LinePPInst.pp);
   and, outside Coq, the correspondence between C12's opaque class/path ids and C10's (cfg, templates, processors)/type keys,
   which only the harness fixes.  What is still missing for a hypothesis-free instantiation is therefore: matches_dec, and either
   totality for pairs that are not targets or a domain-restricted render_independent.  Until then the C12 content theorems rest
   on render_independent as a named premise. *)
From Coq Require Import NArith List Bool.
From Verif Require Import GenState RegenBase Gen_Regen Regen RegenThm.
Import ListNotations.

Section BridgeC10.
  Variable log_of : N -> list entry.                       (* C10's log of the run (process history) whose ambient is a *)
  Variable cls_of : N -> N * tlist * list pp.               (* C12's configuration class as C10's (e_cfg, e_tset, e_pps0) *)
  Variable key_of : RegenBase.path -> tkey.                 (* C12's opaque path as C10's type key *)
  Variable cid_of : Str.str -> N.                           (* content id of a text (any function: equal texts, equal ids) *)

  Definition matches (e : entry) (cl : N) (p : RegenBase.path) : Prop :=
    (e_cfg e, e_tset e, e_pps0 e) = cls_of cl /\ e_key e = key_of p.

  (* = C10_file_indep_real, with the two logs named *)
  Hypothesis c10_file_indep : forall a1 a2 e1 e2, In e1 (log_of a1) -> In e2 (log_of a2) ->
    e_cfg e1 = e_cfg e2 -> e_tset e1 = e_tset e2 -> e_pps0 e1 = e_pps0 e2 -> e_key e1 = e_key e2 ->
    e_tmpl e1 = e_tmpl e2 /\ e_text e1 = e_text e2.

  (* totality of generation, as C10 states it: Prop-level existence.  For the runs C12 uses (one nnvg invocation = one process
     = GenStateThmSubset.single_run cf ts pps ins ord args) this is GenStateThmSubset.single_run_entry, under its premises
     In (key_of p) ord and resolve_in U ins (key_of p) = Some o, i.e. for the (class, path) pairs that ARE targets of the class.
     render_independent quantifies over all pairs, so the hypothesis is stated for all of them (for a pair that is not generated
     the content id is never looked at by any C12 theorem; a domain-restricted render_independent would remove the overshoot). *)
  Hypothesis c10_generated : forall a cl p, exists e : entry, In e (log_of a) /\ matches e cl p.

  (* to pick THE entry out of the finite log: matching is decidable (equality of numbers, strings, lists of those) *)
  Hypothesis matches_dec : forall e cl p, {matches e cl p} + {~ matches e cl p}.

  Lemma pick : forall (l : list entry) cl p, (exists e, In e l /\ matches e cl p) -> { e : entry | In e l /\ matches e cl p }.
  Proof.
    induction l as [|x r IH]; intros cl p H.
    - exfalso. destruct H as [e [[] _]].
    - destruct (matches_dec x cl p) as [M|N].
      + exists x. split; [now left | exact M].
      + destruct (IH cl p) as [e [I M]].
        * destruct H as [e [[->|I] M]]; [contradiction | eauto].
        * exists e. split; [now right | exact M].
  Qed.

  Definition render_c10 (_ : fs) (a cl : N) (p : RegenBase.path) : N :=
    cid_of (e_text (proj1_sig (pick (log_of a) cl p (c10_generated a cl p)))).

  Theorem render_c10_independent : render_independent render_c10.
  Proof.
    intros s a s' a' cl p. unfold render_c10.
    destruct (pick (log_of a) cl p (c10_generated a cl p)) as [e1 [I1 [M1 K1]]],
             (pick (log_of a') cl p (c10_generated a' cl p)) as [e2 [I2 [M2 K2]]]. cbn [proj1_sig].
    f_equal. rewrite <- M2 in M1. injection M1 as C T P.
    apply (c10_file_indep a a' e1 e2 I1 I2 C T P). congruence.
  Qed.
End BridgeC10.
