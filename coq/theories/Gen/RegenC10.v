(* C12 x C10 -- where the content premise of C12 comes from.

   C10's model (Gen/GenState.v) produces, for a whole process history, a log of generated files [entry] carrying the actual
   text; C10_file_indep_real says: two entries of ANY two histories with the same generator configuration, template listing,
   line processors and type key have the same template and the same text.  C10's render has no file-system argument at all.

   This file: C12's [render] instantiated with "the text of the log entry for (class, path) in the run of that class whose
   ambient is a" (found by a decidable search in the finite log; content id 0 when the run has no such entry), and
   independence ON TARGETS proved from (1) the statement of C10_file_indep_real and (2) existence of the entry for targets.
   Decidability of matching is proved here.  Gen/RegenC10Inst.v instantiates (1) and (2) with C10's theorems. *)
From Coq Require Import NArith ZArith List Bool.
From Verif Require Import GenState RegenBase Gen_Regen Regen RegenThm RegenTargets.
Import ListNotations.

Lemma pp_eq_dec : forall a b : LinePPInst.pp, {a = b} + {a <> b}.
Proof. decide equality. decide equality; apply Z.eq_dec. Qed.

Lemma cls_eq_dec : forall a b : N * tlist * list LinePPInst.pp, {a = b} + {a <> b}.
Proof.
  decide equality; [apply (list_eq_dec pp_eq_dec)|]. decide equality; [|apply N.eq_dec].
  apply list_eq_dec. decide equality; apply (list_eq_dec N.eq_dec).
Qed.

Section BridgeC10.
  Variable log_of : N -> N -> list entry.                   (* C10's log of the run of class cl whose ambient is a *)
  Variable cls_of : N -> N * tlist * list LinePPInst.pp.    (* C12's configuration class as C10's (e_cfg, e_tset, e_pps0) *)
  Variable key_of : RegenBase.path -> tkey.                 (* C12's opaque path as C10's type key *)
  Variable cid_of : Str.str -> N.                           (* content id of a text (any function: equal texts, equal ids) *)

  Definition matches (e : entry) (cl : N) (p : RegenBase.path) : Prop :=
    (e_cfg e, e_tset e, e_pps0 e) = cls_of cl /\ e_key e = key_of p.

  (* (1) of the lead's list: decidable, no hypothesis *)
  Lemma matches_dec : forall e cl p, {matches e cl p} + {~ matches e cl p}.
  Proof.
    intros e cl p. unfold matches.
    destruct (cls_eq_dec (e_cfg e, e_tset e, e_pps0 e) (cls_of cl)) as [A|A]; [|right; tauto].
    destruct (list_eq_dec N.eq_dec (e_key e) (key_of p)) as [B|B]; [left; auto | right; tauto].
  Qed.

  Definition matchb (cl : N) (p : RegenBase.path) (e : entry) : bool := if matches_dec e cl p then true else false.

  Definition render_c10 (_ : fs) (a cl : N) (p : RegenBase.path) : N :=
    match find (matchb cl p) (log_of a cl) with Some e => cid_of (e_text e) | None => 0%N end.

  Variable D : N -> RegenBase.path -> Prop.                 (* the (class, path) pairs that are rendered: targets *)

  (* = C10_file_indep_real, with the two logs named *)
  Hypothesis c10_file_indep : forall a1 a2 cl e1 e2, In e1 (log_of a1 cl) -> In e2 (log_of a2 cl) ->
    e_cfg e1 = e_cfg e2 -> e_tset e1 = e_tset e2 -> e_pps0 e1 = e_pps0 e2 -> e_key e1 = e_key e2 ->
    e_tmpl e1 = e_tmpl e2 /\ e_text e1 = e_text e2.

  (* existence of the entry, for rendered pairs only: C10's single_run_entry *)
  Hypothesis c10_generated : forall a cl p, D cl p -> exists e : entry, In e (log_of a cl) /\ matches e cl p.

  Lemma find_match : forall a cl p, D cl p -> exists e, find (matchb cl p) (log_of a cl) = Some e /\ In e (log_of a cl) /\ matches e cl p.
  Proof.
    intros a cl p Hd. destruct (c10_generated a cl p Hd) as [e0 [I0 M0]].
    destruct (find (matchb cl p) (log_of a cl)) as [e|] eqn:F.
    - exists e. split; [reflexivity|]. apply find_some in F. destruct F as [I M]. split; [exact I|].
      unfold matchb in M. destruct (matches_dec e cl p); [assumption | discriminate].
    - exfalso. pose proof (find_none _ _ F e0 I0) as X. unfold matchb in X. destruct (matches_dec e0 cl p); [discriminate | contradiction].
  Qed.

  Theorem render_c10_independent_on : render_independent_on D render_c10.
  Proof.
    intros s a s' a' cl p Hd. unfold render_c10.
    destruct (find_match a cl p Hd) as [e1 [F1 [I1 [M1 K1]]]], (find_match a' cl p Hd) as [e2 [F2 [I2 [M2 K2]]]].
    rewrite F1, F2. f_equal. rewrite <- M2 in M1. injection M1 as C T P.
    apply (c10_file_indep a a' cl e1 e2 I1 I2 C T P). congruence.
  Qed.
End BridgeC10.
