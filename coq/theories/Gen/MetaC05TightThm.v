(* C05: TIGHTNESS of the advertised serialization buffer size.  bmax is not merely an upper bound: for every well-formed type whose
   nested delimited types have no slack (extent = maximum body length; `noslack`) the value `max_val t` serializes to exactly bmax t
   bits.  (With slack the bound of the OUTER type counts the nested extent, which no value of the nested type as defined today can
   fill: that is the reserve DSDL asks for, not an over-approximation of this model.) *)
From Coq Require Import List NArith ZArith Bool Lia.
From Verif Require Import Wire WireThm WireThmValid.
Import ListNotations.
Local Open Scope nat_scope.

Definition max_prim (p : prim) : val :=
  match p with PBool => VBool true | PU _ _ | PS _ _ => VInt 0 | PF _ _ => VFlt 0 | PVoid _ => VVoid end.

(* index of a field of maximal size *)
Fixpoint argmax (B : ty -> nat) (fs : list ty) : nat :=
  match fs with
  | [] => 0
  | f :: r => match r with [] => 0 | _ => if fields_max B r <=? B f then 0 else S (argmax B r) end
  end.

Fixpoint max_val (t : ty) : val :=
  match t with
  | TPrim p => max_prim p
  | TFix e n => VArr (repeat (max_val e) n)
  | TVar e cap => VArr (repeat (max_val e) cap)
  | TComp false fs _ => VStruct (map max_val fs)
  | TComp true fs _ => let k := argmax (as_field_max bmax) fs in VUnion k (nth k (map max_val fs) VVoid)
  end.

Fixpoint noslack (t : ty) : bool :=
  match t with
  | TPrim _ => true
  | TFix e _ | TVar e _ => noslack e
  | TComp u fs ext =>
      forallb noslack fs &&
      match ext with
      | None => true
      | Some x => x =? (if u then let o := tag_bits (length fs) + fields_max (as_field_max bmax) fs in o + pad8 o
                        else fields_sum (as_field_max bmax) fs 0)
      end
  end.

Definition P_tight (t : ty) : Prop :=
  wf_ty t = true -> noslack t = true -> exists b, enc_body t (max_val t) = Ok b /\ length b = bmax t.
Definition P_tightf (t : ty) : Prop := exists b, enc_field t (max_val t) = Ok b /\ length b = fmax t.

Lemma tight_body_to_field t : wf_ty t = true -> noslack t = true -> P_tight t -> P_tightf t.
Proof.
  intros Hwf Hns HP. destruct (HP Hwf Hns) as [b [Hb Hl]]. unfold P_tightf, enc_field, fmax.
  destruct t as [p|e n|e c|u fs [x|]]; try (exists b; split; assumption).
  cbn [as_field_enc as_field_max]. rewrite Hb. cbn [bind]. eexists. split; [reflexivity|].
  rewrite app_length, bits_of_N_length, Hl.
  cbn [noslack] in Hns. apply andb_true_iff in Hns. destruct Hns as [_ Hx]. apply Nat.eqb_eq in Hx.
  cbn [bmax]. destruct u; rewrite Hx; reflexivity.
Qed.

Lemma enc_list_repeat Ee v b : Ee v = Ok b -> forall n, exists bs, enc_list Ee (repeat v n) = Ok bs /\ length bs = n * length b.
Proof.
  intros He n. induction n as [|n [bs [Hbs Hl]]]; cbn [repeat enc_list].
  - exists []. split; reflexivity.
  - rewrite He, Hbs. cbn [bind]. eexists. split; [reflexivity|]. rewrite app_length, Hl. lia.
Qed.

Lemma enc_fields_tight fs : Forall P_tightf fs -> forall off,
  exists b, enc_fields enc_field fs (map max_val fs) off = Ok b /\ off + length b = fields_sum fmax fs off.
Proof.
  induction 1 as [|f r [b0 [Hb0 Hl0]] _ IH]; intro off; cbn [map enc_fields fields_sum].
  - eexists. split; [reflexivity|]. rewrite repeat_length. reflexivity.
  - rewrite Hb0. cbn [bind]. destruct (IH (off + padn off (align f) + length b0)) as [br [Hbr Hlr]]. rewrite Hbr. cbn [bind].
    eexists. split; [reflexivity|]. rewrite !app_length, repeat_length. rewrite <- Hl0. lia.
Qed.

Lemma argmax_spec B fs : fs <> [] -> exists f, nth_error fs (argmax B fs) = Some f /\ B f = fields_max B fs.
Proof.
  induction fs as [|f r IH]; intro Hne; [congruence|]. destruct r as [|g r'].
  - exists f. cbn. split; [reflexivity|lia].
  - cbn [argmax]. cbn [fields_max] in *. destruct (Nat.leb_spec (Nat.max (B g) (fields_max B r')) (B f)).
    + exists f. split; [reflexivity|]. lia.
    + destruct (IH ltac:(discriminate)) as [h [Hh Hm]]. exists h. split; [exact Hh|]. lia.
Qed.

Lemma enc_sel_nth E fs : forall k f v, nth_error fs k = Some f -> enc_sel E fs k v = E f v.
Proof.
  induction fs as [|g r IH]; intros [|k] f v H; cbn in H; try discriminate; cbn [enc_sel].
  - injection H as ->. reflexivity.
  - apply IH. exact H.
Qed.

Lemma nth_map_max fs : forall k f, nth_error fs k = Some f -> nth k (map max_val fs) VVoid = max_val f.
Proof.
  induction fs as [|g r IH]; intros [|k] f H; cbn in H; try discriminate; cbn [map nth].
  - injection H as ->. reflexivity.
  - apply IH. exact H.
Qed.

Lemma comp_fields_tight u fs ext : Forall P_tight fs -> wf_ty (TComp u fs ext) = true -> noslack (TComp u fs ext) = true ->
  Forall P_tightf fs.
Proof.
  intros HF Hwf Hns. cbn [wf_ty] in Hwf. apply andb_true_iff in Hwf. destruct Hwf as [Hwf _]. apply andb_true_iff in Hwf. destruct Hwf as [Hwf _].
  cbn [noslack] in Hns. apply andb_true_iff in Hns. destruct Hns as [Hns _].
  rewrite forallb_forall in Hwf, Hns. rewrite Forall_forall in HF |- *. intros f Hin.
  apply tight_body_to_field; auto.
Qed.

Theorem bmax_tight_all : forall t, P_tight t.
Proof.
  induction t as [p|e n IH|e c IH|u fs ext IH] using ty_nested_ind; intros Hwf Hns.
  - destruct p; cbn [max_val max_prim enc_body enc_prim bmax prim_bits]; eexists; (split; [reflexivity|]);
      rewrite ?bits_of_N_length, ?repeat_length; reflexivity.
  - cbn [wf_ty noslack] in Hwf, Hns. destruct (tight_body_to_field e Hwf Hns IH) as [b [Hb Hl]].
    cbn [max_val enc_body]. rewrite repeat_length, Nat.eqb_refl.
    destruct (enc_list_repeat _ _ _ Hb n) as [bs [Hbs Hls]]. exists bs. split; [exact Hbs|]. cbn [bmax]. rewrite Hls, Hl. reflexivity.
  - cbn [wf_ty noslack] in Hwf, Hns. apply andb_true_iff in Hwf. destruct Hwf as [Hwf _].
    destruct (tight_body_to_field e Hwf Hns IH) as [b [Hb Hl]].
    cbn [max_val enc_body]. rewrite repeat_length, Nat.ltb_irrefl.
    destruct (enc_list_repeat _ _ _ Hb c) as [bs [Hbs Hls]]. unfold enc_field in Hbs. rewrite Hbs. cbn [bind]. eexists. split; [reflexivity|].
    rewrite app_length, bits_of_N_length, Hls, Hl. cbn [bmax]. reflexivity.
  - pose proof (comp_fields_tight u fs ext IH Hwf Hns) as HF. destruct u.
    + assert (Hne : fs <> []).
      { cbn [wf_ty] in Hwf. apply andb_true_iff in Hwf. destruct Hwf as [Hwf _]. apply andb_true_iff in Hwf. destruct Hwf as [_ Hu].
        apply andb_true_iff in Hu. destruct Hu as [Hu _]. apply Nat.leb_le in Hu. destruct fs; [cbn in Hu; lia|discriminate]. }
      destruct (argmax_spec fmax fs Hne) as [f [Hnth Hmax]].
      assert (Hin : In f fs) by (eapply nth_error_In; exact Hnth).
      rewrite Forall_forall in HF. destruct (HF f Hin) as [b [Hb Hl]].
      cbn [max_val enc_body]. fold fmax. rewrite (nth_map_max fs _ f Hnth).
      rewrite (enc_sel_nth _ fs _ f _ Hnth). unfold enc_field in Hb. rewrite Hb. cbn [bind]. eexists. split; [reflexivity|].
      rewrite !app_length, bits_of_N_length, repeat_length, Hl, Hmax. cbn [bmax]. unfold fmax. lia.
    + destruct (enc_fields_tight fs HF 0) as [b [Hb Hl]]. cbn [max_val enc_body]. exists b. split; [exact Hb|].
      cbn [bmax]. cbn in Hl. exact Hl.
Qed.

(* the advertised bound is attained *)
Theorem bmax_tight : forall t, wf_ty t = true -> noslack t = true ->
  exists v b, enc_body t v = Ok b /\ length b = bmax t /\ valid_val t v = true.
Proof.
  intros t Hwf Hns. destruct (bmax_tight_all t Hwf Hns) as [b [Hb Hl]]. exists (max_val t), b. split; [exact Hb|]. split; [exact Hl|].
  apply enc_ok_iff_valid. exists b. exact Hb.
Qed.

(* ================================================================================================================================
   The companion for the MINIMUM: bmin is attained.  `min_val t` (empty variable-length arrays, a union option of minimal size) serializes
   to exactly bmin t bits for every well-formed type whose nested delimited types have an empty minimal body (`nominslack`: as a field
   a delimited type counts only its 32-bit header towards the minimum, because a future version may be empty). *)
Fixpoint argmin (B : ty -> nat) (fs : list ty) : nat :=
  match fs with
  | [] => 0
  | f :: r => match r with [] => 0 | _ => if B f <=? fields_min B r then 0 else S (argmin B r) end
  end.

Fixpoint min_val (t : ty) : val :=
  match t with
  | TPrim p => max_prim p
  | TFix e n => VArr (repeat (min_val e) n)
  | TVar e cap => VArr []
  | TComp false fs _ => VStruct (map min_val fs)
  | TComp true fs _ => let k := argmin (as_field_min bmin) fs in VUnion k (nth k (map min_val fs) VVoid)
  end.

Fixpoint nominslack (t : ty) : bool :=
  match t with
  | TPrim _ => true
  | TFix e _ | TVar e _ => nominslack e
  | TComp u fs ext =>
      forallb nominslack fs &&
      match ext with
      | None => true
      | Some _ => (if u then let o := tag_bits (length fs) + fields_min (as_field_min bmin) fs in o + pad8 o
                   else fields_sum (as_field_min bmin) fs 0) =? 0
      end
  end.

Definition P_mtight (t : ty) : Prop :=
  wf_ty t = true -> nominslack t = true -> exists b, enc_body t (min_val t) = Ok b /\ length b = bmin t.
Definition P_mtightf (t : ty) : Prop := exists b, enc_field t (min_val t) = Ok b /\ length b = fmin t.

Lemma mtight_body_to_field t : wf_ty t = true -> nominslack t = true -> P_mtight t -> P_mtightf t.
Proof.
  intros Hwf Hns HP. destruct (HP Hwf Hns) as [b [Hb Hl]]. unfold P_mtightf, enc_field, fmin.
  destruct t as [p|e n|e c|u fs [x|]]; try (exists b; split; assumption).
  cbn [as_field_enc as_field_min]. rewrite Hb. cbn [bind]. eexists. split; [reflexivity|].
  rewrite app_length, bits_of_N_length, Hl.
  cbn [nominslack] in Hns. apply andb_true_iff in Hns. destruct Hns as [_ Hx]. apply Nat.eqb_eq in Hx.
  cbn [bmin]. destruct u; rewrite Hx; lia.
Qed.

Lemma enc_fields_mtight fs : Forall P_mtightf fs -> forall off,
  exists b, enc_fields enc_field fs (map min_val fs) off = Ok b /\ off + length b = fields_sum fmin fs off.
Proof.
  induction 1 as [|f r [b0 [Hb0 Hl0]] _ IH]; intro off; cbn [map enc_fields fields_sum].
  - eexists. split; [reflexivity|]. rewrite repeat_length. reflexivity.
  - rewrite Hb0. cbn [bind]. destruct (IH (off + padn off (align f) + length b0)) as [br [Hbr Hlr]]. rewrite Hbr. cbn [bind].
    eexists. split; [reflexivity|]. rewrite !app_length, repeat_length. rewrite <- Hl0. lia.
Qed.

Lemma argmin_spec B fs : fs <> [] -> exists f, nth_error fs (argmin B fs) = Some f /\ B f = fields_min B fs.
Proof.
  induction fs as [|f r IH]; intro Hne; [congruence|]. destruct r as [|g r'].
  - exists f. cbn. split; reflexivity.
  - cbn [argmin]. change (fields_min B (f :: g :: r')) with (Nat.min (B f) (fields_min B (g :: r'))).
    destruct (Nat.leb_spec (B f) (fields_min B (g :: r'))).
    + exists f. split; [reflexivity|]. lia.
    + destruct (IH ltac:(discriminate)) as [h [Hh Hm]]. exists h. split; [exact Hh|]. lia.
Qed.

Lemma nth_map_min fs : forall k f, nth_error fs k = Some f -> nth k (map min_val fs) VVoid = min_val f.
Proof.
  induction fs as [|g r IH]; intros [|k] f H; cbn in H; try discriminate; cbn [map nth].
  - injection H as ->. reflexivity.
  - apply IH. exact H.
Qed.

Lemma comp_fields_mtight u fs ext : Forall P_mtight fs -> wf_ty (TComp u fs ext) = true -> nominslack (TComp u fs ext) = true ->
  Forall P_mtightf fs.
Proof.
  intros HF Hwf Hns. cbn [wf_ty] in Hwf. apply andb_true_iff in Hwf. destruct Hwf as [Hwf _]. apply andb_true_iff in Hwf. destruct Hwf as [Hwf _].
  cbn [nominslack] in Hns. apply andb_true_iff in Hns. destruct Hns as [Hns _].
  rewrite forallb_forall in Hwf, Hns. rewrite Forall_forall in HF |- *. intros f Hin.
  apply mtight_body_to_field; auto.
Qed.

Theorem bmin_tight_all : forall t, P_mtight t.
Proof.
  induction t as [p|e n IH|e c IH|u fs ext IH] using ty_nested_ind; intros Hwf Hns.
  - destruct p; cbn [min_val max_prim enc_body enc_prim bmin prim_bits]; eexists; (split; [reflexivity|]);
      rewrite ?bits_of_N_length, ?repeat_length; reflexivity.
  - cbn [wf_ty nominslack] in Hwf, Hns. destruct (mtight_body_to_field e Hwf Hns IH) as [b [Hb Hl]].
    cbn [min_val enc_body]. rewrite repeat_length, Nat.eqb_refl.
    destruct (enc_list_repeat _ _ _ Hb n) as [bs [Hbs Hls]]. exists bs. split; [exact Hbs|]. cbn [bmin]. rewrite Hls, Hl. reflexivity.
  - cbn [min_val enc_body length enc_list bind]. destruct (Nat.ltb_spec c 0); [lia|]. eexists. split; [reflexivity|].
    rewrite app_nil_r, bits_of_N_length. reflexivity.
  - pose proof (comp_fields_mtight u fs ext IH Hwf Hns) as HF. destruct u.
    + assert (Hne : fs <> []).
      { cbn [wf_ty] in Hwf. apply andb_true_iff in Hwf. destruct Hwf as [Hwf _]. apply andb_true_iff in Hwf. destruct Hwf as [_ Hu].
        apply andb_true_iff in Hu. destruct Hu as [Hu _]. apply Nat.leb_le in Hu. destruct fs; [cbn in Hu; lia|discriminate]. }
      destruct (argmin_spec fmin fs Hne) as [f [Hnth Hmin]].
      assert (Hin : In f fs) by (eapply nth_error_In; exact Hnth).
      rewrite Forall_forall in HF. destruct (HF f Hin) as [b [Hb Hl]].
      cbn [min_val enc_body]. fold fmin. rewrite (nth_map_min fs _ f Hnth).
      rewrite (enc_sel_nth _ fs _ f _ Hnth). unfold enc_field in Hb. rewrite Hb. cbn [bind]. eexists. split; [reflexivity|].
      rewrite !app_length, bits_of_N_length, repeat_length, Hl, Hmin. cbn [bmin]. unfold fmin. lia.
    + destruct (enc_fields_mtight fs HF 0) as [b [Hb Hl]]. cbn [min_val enc_body]. exists b. split; [exact Hb|].
      cbn [bmin]. cbn in Hl. exact Hl.
Qed.

Theorem bmin_tight : forall t, wf_ty t = true -> nominslack t = true ->
  exists v b, enc_body t v = Ok b /\ length b = bmin t /\ valid_val t v = true.
Proof.
  intros t Hwf Hns. destruct (bmin_tight_all t Hwf Hns) as [b [Hb Hl]]. exists (min_val t), b. split; [exact Hb|]. split; [exact Hl|].
  apply enc_ok_iff_valid. exists b. exact Hb.
Qed.
