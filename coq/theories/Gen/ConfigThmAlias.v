(* C13 proofs, part 3: object identity — the merged configuration never reaches a dict object of a source
   document (so no later merge can modify a source), given that deep_update copies deeply; refutation
   witnesses for the shallow copy the code used before (F-CFG-ALIAS, fixed). *)
From Verif Require Import Config ConfigAlias ConfigThm.
Require Import Lia Bool List.
Import ListNotations.
Open Scope N_scope.

Fixpoint tcv_ind' (P : tcv -> Prop)
  (HL : forall d a, P (TLeaf d a))
  (HN : forall o m, Forall (fun kv => P (snd kv)) m -> P (TNode o m))
  (v : tcv) {struct v} : P v :=
  match v with
  | TLeaf d a => HL d a
  | TNode o m =>
      HN o m ((fix go (m : list (list N * tcv)) : Forall (fun kv => P (snd kv)) m :=
                 match m with
                 | [] => Forall_nil _
                 | kv :: m' => Forall_cons kv (tcv_ind' P HL HN (snd kv)) (go m')
                 end) m)
  end.

Lemma has_src_node o m : has_src (TNode o m) = o || has_src_children m.
Proof.
  cbn [has_src]. f_equal. unfold has_src_children.
  induction m as [|[k x] m IH]; [reflexivity|]. cbn [existsb snd]. rewrite <- IH. reflexivity.
Qed.

Lemma tdu_node deep o tm o' sm : tdu deep (TNode o tm) (TNode o' sm) = TNode o (tdu_fold (tdu deep) sm tm).
Proof.
  cbn [tdu]. f_equal. revert tm.
  induction sm as [|[k v] sm IH]; intro tm; [reflexivity|].
  cbn [tdu_fold]. rewrite <- IH. unfold tdu_item. reflexivity.
Qed.

Lemma children_dget m k x : has_src_children m = false -> dget k m = Some x -> has_src x = false.
Proof.
  unfold has_src_children. induction m as [|[k' v'] m IH]; cbn [existsb dget snd]; intros H G; [discriminate|].
  apply orb_false_iff in H as [H1 H2].
  destruct (str_eqb k k'); [inversion G; subst; exact H1 | exact (IH H2 G)].
Qed.

Lemma children_dset m k x : has_src_children m = false -> has_src x = false -> has_src_children (dset k x m) = false.
Proof.
  unfold has_src_children. induction m as [|[k' v'] m IH]; cbn [existsb dset snd]; intros H G.
  - rewrite G. reflexivity.
  - apply orb_false_iff in H as [H1 H2].
    destruct (str_eqb k k'); cbn [existsb snd]; [rewrite G, H2 | rewrite H1, (IH H2 G)]; reflexivity.
Qed.

Lemma retag_clean v : has_src (retag false v) = false.
Proof.
  induction v as [d a|o m IH] using tcv_ind'; [reflexivity|].
  cbn [retag]. rewrite has_src_node. cbn [orb]. unfold has_src_children.
  induction m as [|[k x] m IHm]; [reflexivity|].
  inversion IH as [|? ? H1 H2]; subst. cbn [map existsb snd fst] in *. rewrite H1. cbn [orb]. exact (IHm H2).
Qed.

(* one merge: the target stays separated from every source object, whatever the shapes *)
Theorem tdu_deep_separated s : forall t, has_src t = false -> has_src (tdu true t s) = false.
Proof.
  induction s as [d a|o' sm IH] using tcv_ind'; intros t Ht.
  - destruct t; [reflexivity | exact Ht].
  - destruct t as [d a|o tm].
    + cbn [tdu]. apply retag_clean.
    + rewrite tdu_node. rewrite has_src_node in *. apply orb_false_iff in Ht as [Ho Hc]. rewrite Ho. cbn [orb].
      clear Ho. revert tm Hc.
      induction sm as [|[k v] sm IHsm]; intros tm Hc; [exact Hc|].
      inversion IH as [|? ? Hv Hrest]; subst. cbn [tdu_fold snd] in *.
      apply (IHsm Hrest).
      unfold tdu_item. destruct v as [d a|ov vm].
      * unfold t_leaf_set.
        destruct (dget k tm) as [c|]; [destruct (t_is_default (TLeaf d a) && negb (t_is_default c)); [exact Hc|]|];
          apply children_dset; auto.
      * apply children_dset; [exact Hc|]. apply Hv.
        destruct (dget k tm) as [x|] eqn:G; [exact (children_dget _ _ _ Hc G) | reflexivity].
Qed.

(* any number of merges of any documents into a configuration that owns all its dict objects *)
Theorem sources_never_reached srcs : forall t, has_src t = false ->
  has_src (fold_left (fun t s => tdu true t s) srcs t) = false.
Proof.
  induction srcs as [|s srcs IH]; intros t Ht; [exact Ht|].
  cbn [fold_left]. apply IH, tdu_deep_separated, Ht.
Qed.

Lemma tag_all_false_clean v : has_src (tag_all false v) = false.
Proof.
  induction v as [d a|m IH] using cv_ind'; [reflexivity|].
  cbn [tag_all]. rewrite has_src_node. cbn [orb]. unfold has_src_children.
  induction m as [|[k x] m IHm]; [reflexivity|].
  inversion IH as [|? ? H1 H2]; subst. cbn [map existsb snd fst] in *. rewrite H1. cbn [orb]. exact (IHm H2).
Qed.

Theorem sources_unmodified_ownership base srcs :
  deep_update_copies_deeply = true ->
  has_src (tmerge_all deep_update_copies_deeply base srcs) = false.
Proof.
  intros ->. unfold tmerge_all.
  generalize (tag_all false base) (tag_all_false_clean base).
  induction srcs as [|s srcs IH]; intros t Ht; [exact Ht|].
  cbn [fold_left]. apply IH, tdu_deep_separated, Ht.
Qed.

(* ---- the ownership model computes the same values as Config.du ------------------------------------ *)
Lemma dget_map_erase k m : dget k (map (fun kv => (fst kv, erase (snd kv))) m) = option_map erase (dget k m).
Proof.
  induction m as [|[k' v'] m IH]; [reflexivity|]. cbn [map dget fst snd].
  destruct (str_eqb k k'); [reflexivity | exact IH].
Qed.

Lemma dset_map_erase k x m :
  dset k (erase x) (map (fun kv => (fst kv, erase (snd kv))) m) = map (fun kv => (fst kv, erase (snd kv))) (dset k x m).
Proof.
  induction m as [|[k' v'] m IH]; [reflexivity|]. cbn [map dset fst snd].
  destruct (str_eqb k k'); cbn [map fst snd]; [reflexivity | rewrite IH; reflexivity].
Qed.

Lemma erase_retag b v : erase (retag b v) = erase v.
Proof.
  induction v as [d a|o m IH] using tcv_ind'; [reflexivity|].
  cbn [retag erase]. f_equal. rewrite map_map. cbn [fst snd].
  induction m as [|[k x] m IHm]; [reflexivity|].
  inversion IH as [|? ? H1 H2]; subst. cbn [map fst snd] in *. rewrite H1, (IHm H2). reflexivity.
Qed.

Theorem tdu_erase deep s : forall t, erase (tdu deep t s) = du (erase t) (erase s).
Proof.
  induction s as [d a|o' sm IH] using tcv_ind'; intros t.
  - destruct t; reflexivity.
  - destruct t as [d a|o tm].
    + cbn [tdu]. destruct deep; [rewrite erase_retag|]; reflexivity.
    + rewrite tdu_node. cbn [erase]. rewrite du_node. f_equal.
      revert tm. induction sm as [|[k v] sm IHsm]; intro tm; [reflexivity|].
      inversion IH as [|? ? Hv Hrest]; subst. cbn [tdu_fold map du_fold fst snd] in *.
      rewrite (IHsm Hrest). f_equal.
      unfold tdu_item, du_item. destruct v as [d a|ov vm]; cbn [erase].
      * rewrite assign_spec. cbn [cv_items]. unfold t_leaf_set. rewrite dget_map_erase.
        destruct (dget k tm) as [c|]; cbn [option_map].
        -- replace (is_default (erase c)) with (t_is_default c) by (destruct c; reflexivity).
           cbn [is_default t_is_default].
           destruct (d && negb (t_is_default c)); [reflexivity|]. symmetry. apply (dset_map_erase k (TLeaf d a)).
        -- symmetry. apply (dset_map_erase k (TLeaf d a)).
      * rewrite dget_map_erase.
        rewrite <- dset_map_erase. f_equal.
        rewrite Hv. f_equal. destruct (dget k tm); reflexivity.
Qed.

(* ---- what the shallow copy did (documentation of the repaired defect F-CFG-ALIAS) ----------------- *)
Definition alias_base : cv := Node [([97], Leaf false (AInt 1))].                                         (* {a: 1} *)
Definition alias_src1 : cv := Node [([97], Node [([120], Node [([121], Leaf false (AInt 1))])])].      (* {a: {x: {y: 1}}} *)
Definition alias_src2 : cv := Node [([97], Node [([120], Node [([121], Leaf false (AInt 2))])])].      (* {a: {x: {y: 2}}} *)

Theorem shallow_copy_reaches_source :
  exists base srcs, is_doc base = true /\ forallb is_doc srcs = true /\ has_src (tmerge_all false base srcs) = true.
Proof. exists alias_base, [alias_src1]. vm_compute. auto. Qed.

Theorem shallow_copy_modifies_source :
  exists base srcs, is_doc base = true /\ forallb is_doc srcs = true /\ sources_modified false base srcs = true.
Proof. exists alias_base, [alias_src1; alias_src2]. vm_compute. auto. Qed.

(* the same scenario with the deep copy the code uses now *)
Theorem deep_copy_witness_unmodified : sources_modified true alias_base [alias_src1; alias_src2] = false.
Proof. vm_compute. reflexivity. Qed.

(* ---- sub-maps that are ONE object inside a source (YAML anchors / one dict under two keys), F-CFG-ALIASMAP ---- *)
Definition am_base : dcv := DNode 0 [([101], DLeaf false (AStr [46; 104]))].                                (* {e: ".h"} *)
Definition am_src1 : dcv :=                                                                             (* {e: {a: &x {k: 1}, b: *x}} *)
  DNode 0 [([101], DNode 0 [([97], DNode 1 [([107], DLeaf false (AInt 1))]); ([98], DRef 1)])].
Definition am_src2 : dcv := DNode 0 [([101], DNode 0 [([97], DNode 0 [([107], DLeaf false (AInt 2))])])].   (* {e: {a: {k: 2}}} *)

(* with the plain deepcopy the copy keeps the internal sharing: the later source, which does not mention e.b, changes e.b.k *)
Theorem aliased_submap_changes_unmentioned_key :
  untouched [[101]; [98]; [107]] (dag_expand 8 [] am_src2) = true
  /\ lookup [[101]; [98]; [107]] (fst (hmerge_dag_scenario true false am_base [am_src1])) = Some (Leaf false (AInt 1))
  /\ lookup [[101]; [98]; [107]] (fst (hmerge_dag_scenario true false am_base [am_src1; am_src2])) = Some (Leaf false (AInt 2)).
Proof. vm_compute. auto. Qed.

(* with the copy rebuilt key by key the same scenario keeps the unmentioned key, and the sources read as before *)
Theorem rebuilt_copy_keeps_unmentioned_key :
  lookup [[101]; [98]; [107]] (fst (hmerge_dag_scenario true true am_base [am_src1; am_src2])) = Some (Leaf false (AInt 1))
  /\ lookup [[101]; [97]; [107]] (fst (hmerge_dag_scenario true true am_base [am_src1; am_src2])) = Some (Leaf false (AInt 2))
  /\ snd (hmerge_dag_scenario true true am_base [am_src1; am_src2])
     = [dag_expand 8 [(1, DNode 1 [([107], DLeaf false (AInt 1))])] am_src1; dag_expand 8 [] am_src2].
Proof. vm_compute. auto. Qed.

(* on documents without shared sub-maps the heap model with either copy computes Config.du (checked on the witness family
   here; for all inputs by the correspondence run) *)
Example heap_model_agrees_on_trees :
  fst (hmerge_dag_scenario true true am_base [am_src2]) = du_all (dag_expand 8 [] am_base) [dag_expand 8 [] am_src2]
  /\ fst (hmerge_dag_scenario true false am_base [am_src2]) = du_all (dag_expand 8 [] am_base) [dag_expand 8 [] am_src2].
Proof. vm_compute. auto. Qed.
