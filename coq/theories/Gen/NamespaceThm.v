(* C11: the theorems about `build` (= build_namespace_tree) obtained by composing
   NamespaceBuildThm (the two loops establish the tree) with NamespaceTreeThm (what holds of such a tree).
   Everything is for EVERY list of types, EVERY iteration order `perm` of the namespace index and
   EVERY iteration order `cperm` of the child sets. *)
From Verif Require Import NamespaceBase NamespaceBuildThm NamespaceTreeThm NamespacePathThm NamespaceSortThm.
From Coq Require Import Sorted.
Open Scope N_scope.

Section THM.
  Variable strop : str -> str.
  Variable ek : str -> str.       (* eqkey of Namespace.__eq__; the current code is ek = same (corollaries below) *)
  Variable es : bool.
  Variable ext stem : str.
  Variable outdir : path.
  Variable perm cperm : list key -> list key.
  Hypothesis perm_perm : forall l, Permutation (perm l) l.
  Hypothesis cperm_perm : forall l, Permutation (cperm l) l.
  Variable types : list ty.
  Variable r : str.
  Hypothesis Hnd : NoDup types.
  Hypothesis Hroot : one_root r types.
  Hypothesis Hne : types <> [].

  Notation B := (build strop ek es ext outdir perm types).
  Notation L := (linked strop ek es ext outdir perm types).

  Lemma build_is : B = (L, [r]).
  Proof.
    destruct (build_eq strop ek es ext outdir perm perm_perm types r Hnd Hroot Hne) as (k & Hk & E).
    rewrite E. f_equal.
    apply (root_reached strop es ext outdir types L r); [|assumption|assumption].
    apply (linked_tree_ok strop ek es ext outdir perm perm_perm types r); assumption.
  Qed.

  Lemma ok : tree_ok strop es ext outdir types (fst B).
  Proof. rewrite build_is. apply (linked_tree_ok strop ek es ext outdir perm perm_perm types r); assumption. Qed.

  Lemma full : ns_fold ek types = false -> tree_full strop es ext outdir types (fst B).
  Proof.
    intros H. rewrite build_is.
    apply (linked_tree_full strop ek es ext outdir perm perm_perm types r); try assumption.
    apply ns_fold_false_inj; assumption.
  Qed.

  Theorem ns_each_once :
    NoDup (keys (fst B)) /\ forall k, In k (keys (fst B)) <-> In k (nodes_of types).
  Proof. destruct ok as [A B0 _ _ _]. split; assumption. Qed.

  Theorem types_stored_once :
    forall k n, get (fst B) k = Some n ->
      n_types n = map (fun t => (t, out_path strop es ext outdir t)) (filter (fun t => key_eqb (t_ns t) k) types).
  Proof. destruct ok as [_ _ _ A _]. exact A. Qed.

  Theorem links_sound :
    forall k n, get (fst B) k = Some n ->
      n_parent n = parent_of k /\
      forall c, In c (n_children n) -> In c (keys (fst B)) /\ parent_of c = Some k.
  Proof.
    destruct ok as [_ _ A _ C]. intros k n Hg. split; [apply A; assumption | intros c Hc; eapply C; eassumption].
  Qed.

  Theorem links_consistent_partial :
    ns_fold ek types = false ->
    forall k n, get (fst B) k = Some n ->
      n_parent n = parent_of k /\ NoDup (n_children n) /\
      forall c, In c (n_children n) <-> (In c (keys (fst B)) /\ parent_of c = Some k).
  Proof.
    intros Hf k n Hg. destruct (full Hf) as [[_ _ A _ C] D E].
    split; [apply A; assumption|]. split; [eapply E; eassumption|].
    intros c; split; [intros Hc; eapply C; eassumption | intros [H1 H2]; eapply D; eassumption].
  Qed.

  Theorem tree_shape :
    snd B = [r] /\
    (forall k, In k (keys (fst B)) -> get_root_namespace (fst B) k = [r]) /\
    (forall k n, get (fst B) k = Some n -> (n_parent n = None <-> k = [r])) /\
    (forall k n p, get (fst B) k = Some n -> n_parent n = Some p ->
        In p (keys (fst B)) /\ length k = S (length p) /\ firstn (length p) k = p).
  Proof.
    split; [rewrite build_is; reflexivity|]. split; [|split].
    - apply (root_reached strop es ext outdir types (fst B) r ok Hroot).
    - apply (single_root strop es ext outdir types (fst B) r ok Hroot).
    - apply (parent_shorter strop es ext outdir types (fst B) ok).
  Qed.

  Theorem types_each_once_partial :
    ns_fold ek types = false ->
    Permutation (get_all_types strop ext stem outdir cperm (fst B) (snd B))
                (map (ns_item strop ext stem outdir) (keys (fst B)) ++ map (ty_item strop es ext outdir) types) /\
    Permutation (get_all_datatypes cperm (fst B) (snd B))
                (map (fun t => (t, out_path strop es ext outdir t)) types) /\
    Permutation (get_all_namespaces strop ext stem outdir cperm (fst B) (snd B))
                (map (fun k => (k, ns_path strop ext stem outdir k)) (keys (fst B))).
  Proof.
    intros Hf. pose proof (full Hf) as F. replace (snd B) with [r] by (rewrite build_is; reflexivity).
    split; [|split].
    - apply (all_types_once strop es ext stem outdir cperm cperm_perm types (fst B) r); assumption.
    - apply (all_datatypes_once strop es ext outdir cperm cperm_perm types (fst B) r); assumption.
    - apply (all_namespaces_once strop es ext stem outdir cperm cperm_perm types (fst B) r); assumption.
  Qed.

  Theorem lookup_total_partial :
    ns_fold ek types = false ->
    forall self t, In self (keys (fst B)) -> In t types ->
      find_output_path ek cperm (fst B) self t = Some (out_path strop es ext outdir t).
  Proof.
    intros Hf. apply (lookup_total strop es ext outdir cperm cperm_perm types (fst B) r ek); try assumption.
    - apply full; assumption.
    - apply ns_fold_false_inj; assumption.
  Qed.
End THM.

(* ---- the current code: Namespace.__eq__ compares the unstropped components (ek = same): NO exclusion ------------------ *)
Lemma ns_fold_same types : ns_fold same types = false.
Proof.
  apply ns_inj_fold_false. intros k1 k2 _ _ H.
  replace (map same k1) with k1 in H by (symmetry; apply map_id).
  replace (map same k2) with k2 in H by (symmetry; apply map_id). exact H.
Qed.

Section NOW.
  Variable strop : str -> str.
  Variable es : bool.
  Variable ext stem : str.
  Variable outdir : path.
  Variable perm cperm : list key -> list key.
  Hypothesis perm_perm : forall l, Permutation (perm l) l.
  Hypothesis cperm_perm : forall l, Permutation (cperm l) l.
  Variable types : list ty.
  Variable r : str.
  Hypothesis Hnd : NoDup types.
  Hypothesis Hroot : one_root r types.
  Hypothesis Hne : types <> [].
  Notation B := (build strop same es ext outdir perm types).

  Theorem links_consistent :
    forall k n, get (fst B) k = Some n ->
      n_parent n = parent_of k /\ NoDup (n_children n) /\
      forall c, In c (n_children n) <-> (In c (keys (fst B)) /\ parent_of c = Some k).
  Proof.
    apply (links_consistent_partial strop same es ext outdir perm perm_perm types r Hnd Hroot Hne (ns_fold_same types)).
  Qed.

  Theorem types_each_once :
    Permutation (get_all_types strop ext stem outdir cperm (fst B) (snd B))
                (map (ns_item strop ext stem outdir) (keys (fst B)) ++ map (ty_item strop es ext outdir) types) /\
    Permutation (get_all_datatypes cperm (fst B) (snd B))
                (map (fun t => (t, out_path strop es ext outdir t)) types) /\
    Permutation (get_all_namespaces strop ext stem outdir cperm (fst B) (snd B))
                (map (fun k => (k, ns_path strop ext stem outdir k)) (keys (fst B))).
  Proof.
    apply (types_each_once_partial strop same es ext stem outdir perm cperm perm_perm cperm_perm types r Hnd Hroot Hne
             (ns_fold_same types)).
  Qed.

  Theorem lookup_total_now :
    forall self t, In self (keys (fst B)) -> In t types ->
      find_output_path same cperm (fst B) self t = Some (out_path strop es ext outdir t).
  Proof.
    apply (lookup_total_partial strop same es ext outdir perm cperm perm_perm cperm_perm types r Hnd Hroot Hne
             (ns_fold_same types)).
  Qed.

  (* Namespace.get_nested_namespaces since fix 9b93945: the children in the order of their unstropped names *)
  Theorem children_in_name_order :
    forall k n, get (fst B) k = Some n ->
      Sorted key_le (sort_keys (n_children n)) /\ NoDup (sort_keys (n_children n)) /\
      forall c, In c (sort_keys (n_children n)) <-> (In c (keys (fst B)) /\ parent_of c = Some k).
  Proof.
    intros k n Hg. destruct (links_consistent k n Hg) as (_ & Hnd' & Hc).
    split; [apply sort_keys_sorted|]. split.
    - eapply Permutation_NoDup; [apply Permutation_sym, sort_keys_perm | exact Hnd'].
    - intros c. rewrite <- Hc. split; apply Permutation_in; [apply sort_keys_perm | apply Permutation_sym, sort_keys_perm].
  Qed.
End NOW.

(* the type file lies in the output folder of its namespace's Namespace object (stropping enabled) *)
Lemma removelast_app_one {A} (l : list A) x : removelast (l ++ [x]) = l.
Proof. apply removelast_last. Qed.

Theorem type_file_in_namespace_folder strop ext stem outdir t :
  stem_valid stem = true ->
  removelast (out_path strop true ext outdir t) = outdir ++ map strop (t_ns t) /\
  removelast (ns_path strop ext stem outdir (t_ns t)) = outdir ++ map strop (t_ns t).
Proof.
  intros V. rewrite (ns_path_valid strop ext stem outdir (t_ns t) V).
  unfold out_path, make_path, pstrop. rewrite !app_assoc, !removelast_last. split; reflexivity.
Qed.

(* ---- fold witness (class -> _class): the pre-fix behaviour is documented in History/C11_history.v ---------- *)
Definition w_class : str := [99; 108; 97; 115; 115].                  (* "class" *)
Definition w_strop (x : str) : str := if str_eqb x w_class then 95 :: w_class else x.   (* class -> _class *)
Definition w_ns : str := [110; 115].                                   (* "ns" *)
Definition w_Q : ty := mkTy [w_ns; w_class] [81] 1 0.                  (* ns.class.Q.1.0 *)
Definition w_R : ty := mkTy [w_ns; 95 :: w_class] [82] 1 0.            (* ns._class.R.1.0 *)
Definition w_ext : str := [46; 104].                                   (* ".h" *)
Definition w_out : path := [[111; 117; 116]].                          (* "out" *)
Definition w_id (l : list key) : list key := l.

Lemma w_premises : NoDup [w_Q; w_R] /\ one_root w_ns [w_Q; w_R] /\ [w_Q; w_R] <> [] /\ (forall l, Permutation (w_id l) l).
Proof.
  split; [|split; [|split]].
  - constructor; [intros [H|[]]; discriminate | constructor; [intros [] | constructor]].
  - intros t [<-|[<-|[]]]; eexists; reflexivity.
  - discriminate.
  - intros l; apply Permutation_refl.
Qed.

(* the same input under the current code: both types are enumerated and found *)
Lemma w_kept_now :
  let b := build w_strop same true w_ext w_out w_id [w_Q; w_R] in
  existsb (fun tp => ty_eqb (fst tp) w_R) (get_all_datatypes w_id (fst b) (snd b)) = true /\
  existsb (fun tp => ty_eqb (fst tp) w_Q) (get_all_datatypes w_id (fst b) (snd b)) = true /\
  find_output_path same w_id (fst b) [w_ns] w_R <> None.
Proof. vm_compute. split; [reflexivity | split; [reflexivity | discriminate]]. Qed.
