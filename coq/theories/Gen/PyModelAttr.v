(* C18, the `_MODEL_` class attribute: the template emits
       _MODEL_ = _restore_constant_( "seg1" "seg2" ... )          with   segs = filter_pickle(model)
   where  filter_pickle x   = segments of 100 characters of  base64.b85encode(gzip.compress(pickle.dumps(x))).decode().strip()
          _restore_constant_ s = pickle.loads(gzip.decompress(base64.b85decode(s)))       (adjacent literals concatenate).
   Self-contained: the three library round trips are explicit hypotheses of the Section (they show up as premises of the theorem);
   the segmenting is modelled concretely and its law is proved. *)
From Coq Require Import List NArith Arith Lia.
Import ListNotations.

(* itertools.zip_longest over n copies of one iterator of s: consecutive segments of n characters, the last one shorter *)
Fixpoint chunks_aux (fuel n : nat) (s : list N) : list (list N) :=
  match fuel with
  | O => []
  | S fuel' => match s with [] => [] | _ :: _ => firstn n s :: chunks_aux fuel' n (skipn n s) end
  end.
Definition chunks (n : nat) (s : list N) : list (list N) := chunks_aux (length s) n s.

Lemma concat_chunks_aux : forall n, (0 < n)%nat -> forall fuel s, (length s <= fuel)%nat -> concat (chunks_aux fuel n s) = s.
Proof.
  intros n Hn. induction fuel as [|fuel IH]; intros s Hs.
  - destruct s; [reflexivity|cbn in Hs; lia].
  - destruct s as [|a r]; [reflexivity|]. cbn [chunks_aux concat]. rewrite IH; [apply firstn_skipn|].
    rewrite skipn_length. cbn [length] in *. lia.
Qed.

Theorem concat_chunks : forall n s, (0 < n)%nat -> concat (chunks n s) = s.
Proof. intros n s Hn. apply concat_chunks_aux; auto. Qed.

Lemma chunks_length : forall n, (0 < n)%nat -> forall s seg, In seg (chunks n s) -> (0 < length seg <= n)%nat.
Proof.
  intros n Hn s seg. unfold chunks. generalize (length s) as fuel. intros fuel. revert s.
  induction fuel as [|fuel IH]; intros s H; [destruct H|]. destruct s as [|a r]; [destruct H|].
  cbn [chunks_aux] in H. destruct H as [<-|H]; [|eapply IH; eauto].
  rewrite firstn_length. cbn [length]. lia.
Qed.

Section ModelAttr.
  Variables model bytes : Type.
  Variable pickle : model -> bytes.               (* pickle.dumps *)
  Variable unpickle : bytes -> model.             (* pickle.loads *)
  Variables gz gunz : bytes -> bytes.             (* gzip.compress / gzip.decompress *)
  Variable b85enc : bytes -> list N.              (* base64.b85encode(..).decode() *)
  Variable b85dec : list N -> bytes.              (* base64.b85decode *)
  Variable strip : list N -> list N.              (* str.strip *)
  Hypothesis unpickle_pickle : forall m, unpickle (pickle m) = m.
  Hypothesis gunz_gz : forall b, gunz (gz b) = b.
  Hypothesis b85dec_enc : forall b, b85dec (b85enc b) = b.
  Hypothesis strip_b85 : forall b, strip (b85enc b) = b85enc b.     (* the base85 alphabet has no white space *)

  Definition filter_pickle (m : model) : list (list N) := chunks 100 (strip (b85enc (gz (pickle m)))).
  Definition restore (segs : list (list N)) : model := unpickle (gunz (b85dec (concat segs))).

  Theorem restore_filter_pickle : forall m, restore (filter_pickle m) = m.
  Proof.
    intros m. unfold restore, filter_pickle. rewrite concat_chunks by lia.
    rewrite strip_b85, b85dec_enc, gunz_gz. apply unpickle_pickle.
  Qed.

  (* every emitted literal has between 1 and 100 characters *)
  Theorem filter_pickle_segments : forall m seg, In seg (filter_pickle m) -> (0 < length seg <= 100)%nat.
  Proof. intros m seg H. eapply chunks_length; [|exact H]. lia. Qed.
End ModelAttr.
