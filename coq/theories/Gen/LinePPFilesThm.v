(* Every file a generator writes is processed as if the line processors were freshly constructed: its content is the
   line-by-line application of the pipeline in its constructed state to the file's complete text, whatever files were
   written before it and however each was chunked. *)
From Verif Require Import LinePP LinePPThm LinePPRejoinThm LinePPFiles LinePPOrder LinePPOrderThm.
From Coq Require Import Lia.
Open Scope N_scope.

(* same kind of processor with the same configured limit *)
Definition same_shape (p q : pp) : Prop :=
  match p, q with
  | PTrim, PTrim => True
  | PLimit s, PLimit t => LimitEmptyLines_max_empty_lines s = LimitEmptyLines_max_empty_lines t
  | _, _ => False
  end.

Lemma same_shape_refl p : same_shape p p.
Proof. destruct p; cbn; auto. Qed.

Lemma reset_same_shape p q : same_shape p q -> pp_reset p = pp_reset q.
Proof.
  destruct p as [|s], q as [|t]; cbn; try tauto. intro H. unfold LimitEmptyLines_reset. rewrite H. reflexivity.
Qed.

Lemma limit_call_keeps_max s l :
  LimitEmptyLines_max_empty_lines (fst (LimitEmptyLines_call s l)) = LimitEmptyLines_max_empty_lines s.
Proof.
  unfold LimitEmptyLines_call.
  destruct (Z.eqb _ _); cbn [LimitEmptyLines_max_empty_lines LimitEmptyLines_empty_line_count];
    destruct (Z.gtb _ _); reflexivity.
Qed.

Lemma pp_step_shape p l : same_shape p (fst (pp_step p l)).
Proof.
  destruct p as [|s]; cbn [pp_step fst]; [exact I|].
  pose proof (limit_call_keeps_max s l) as H.
  destruct (LimitEmptyLines_call s l) as [s' l']. cbn [fst same_shape] in *. symmetry. exact H.
Qed.

Lemma pipe_step_shape ps : forall l, Forall2 same_shape ps (fst (pipe_step ps l)).
Proof.
  induction ps as [|p ps IH]; intro l; cbn [pipe_step fst]; [constructor|].
  pose proof (pp_step_shape p l) as Hp.
  destruct (pp_step p l) as [p' l1]. cbn [fst] in Hp.
  specialize (IH l1). destruct (pipe_step ps l1) as [ps' l2]. cbn [fst] in *.
  constructor; assumption.
Qed.

Lemma Forall2_shape_trans a b c :
  Forall2 same_shape a b -> Forall2 same_shape b c -> Forall2 same_shape a c.
Proof.
  intro H. revert c. induction H as [|x y xs ys Hxy Hrest IH]; intros c Hc; inversion Hc; subst; constructor.
  - destruct x, y, y0; cbn in *; try tauto; congruence.
  - apply IH. assumption.
Qed.

Lemma Forall2_shape_refl ps : Forall2 same_shape ps ps.
Proof. induction ps; constructor; auto using same_shape_refl. Qed.

Lemma linewise_from_shape ls : forall ps out,
    Forall2 same_shape ps (fst (linewise_from pipe_step ps out ls)).
Proof.
  induction ls as [|l ls IH]; intros ps out; cbn [linewise_from fold_left fst]; [apply Forall2_shape_refl|].
  unfold emit at 2. cbn [fst snd].
  pose proof (pipe_step_shape ps l) as H1.
  destruct (pipe_step ps l) as [ps' l'] eqn:E. cbn [fst snd] in *.
  eapply Forall2_shape_trans; [exact H1|].
  apply (IH ps' (out ++ fst l' ++ snd l')).
Qed.

Lemma write_builtin_shape ps chunks : Forall2 same_shape ps (fst (write_builtin ps chunks)).
Proof.
  unfold write_builtin. rewrite write_rj_linewise. unfold linewise. apply linewise_from_shape.
Qed.

Lemma map_reset_shape ps qs : Forall2 same_shape ps qs -> map pp_reset ps = map pp_reset qs.
Proof.
  induction 1 as [|p q ps qs Hpq _ IH]; cbn [map]; [reflexivity|].
  rewrite (reset_same_shape p q Hpq), IH. reflexivity.
Qed.

Lemma reset_shape ps : Forall2 same_shape ps (map pp_reset ps).
Proof.
  induction ps as [|p ps IH]; cbn [map]; constructor; [|exact IH].
  destruct p; cbn; auto.
Qed.

Lemma reset_idem ps : map pp_reset (map pp_reset ps) = map pp_reset ps.
Proof. symmetry. apply map_reset_shape, reset_shape. Qed.

(* the no-line-processor branch of _generate_code (plain concatenation) agrees with the line buffer run on an empty pipeline *)
Lemma split_lines_flat text : concat (map flat (split_lines text)) = text.
Proof.
  pose (step := fun (st : unit) (l : line) => (st, l)).
  pose proof (identity_pipeline_rj unit step (fun st l => eq_refl) [text] tt) as H.
  rewrite write_rj_linewise, linewise_is_concat_emitted in H. cbn [concat] in H. rewrite app_nil_r in H.
  assert (E : forall ls, emitted step tt ls = ls) by (induction ls as [|l ls IH]; cbn; [|rewrite IH]; reflexivity).
  rewrite E in H. exact H.
Qed.

Lemma emitted_nil ls : emitted pipe_step [] ls = ls.
Proof. induction ls as [|l ls IH]; cbn; [|rewrite IH]; reflexivity. Qed.

Lemma gen_file_eq ps chunks : gen_file ps chunks = write_builtin (map pp_reset ps) chunks.
Proof.
  destruct ps as [|p ps]; [|reflexivity]. cbn [gen_file map].
  pose proof (write_builtin_shape [] chunks) as Hs.
  unfold write_builtin in *. rewrite write_rj_linewise in *.
  destruct (linewise pipe_step [] (concat chunks)) as [ps' out] eqn:E. cbn [fst] in Hs.
  f_equal.
  - inversion Hs. reflexivity.
  - pose proof (linewise_is_concat_emitted (list pp) pipe_step [] (concat chunks)) as H.
    rewrite E, emitted_nil, split_lines_flat in H. cbn [snd] in H. symmetry. exact H.
Qed.

(* main theorem: file k of any sequence = line-by-line application of the RESET pipeline to file k's whole text *)
Theorem gen_files_independent files : forall ps,
    gen_files ps files =
    map (fun f => snd (linewise pipe_step (map pp_reset ps) (concat f))) files.
Proof.
  induction files as [|f fs IH]; intro ps; cbn [gen_files map]; [reflexivity|].
  rewrite gen_file_eq.
  pose proof (write_builtin_shape (map pp_reset ps) f) as Hs.
  destruct (write_builtin (map pp_reset ps) f) as [ps' out] eqn:E. cbn [fst] in Hs.
  f_equal.
  - unfold write_builtin in E. rewrite write_rj_linewise in E. rewrite E. reflexivity.
  - rewrite IH. apply map_ext. intro g.
    rewrite <- (map_reset_shape (map pp_reset ps) ps' Hs). rewrite reset_idem. reflexivity.
Qed.

(* in particular: a file's content does not depend on the files written before it nor on their chunking *)
Corollary gen_files_last_indep pre1 pre2 f ps :
  last (gen_files ps (pre1 ++ [f])) [] = last (gen_files ps (pre2 ++ [f])) [].
Proof. rewrite !gen_files_independent, !map_app. cbn [map]. rewrite !last_last. reflexivity. Qed.

(* why the reset is needed: without it the limiter's counter leaks into the next file *)
Example gen_files_noreset_leaks :
  gen_files_noreset [PLimit (LimitEmptyLines_init 1)] [[[97; 10; 10]]; [[10; 98]]]
  <> gen_files [PLimit (LimitEmptyLines_init 1)] [[[97; 10; 10]]; [[10; 98]]].
Proof. vm_compute. discriminate. Qed.
