(* C19: the generic scanner of Gen/JinjaRx.v instantiated with the rule lists regenerated for the listed option combinations
   (Generated/Gen_JinjaRx.v): comment and raw states from the regenerated end rules, the tag states (block, variable, line
   statement, line comment) fed as consumed lengths.  Used by the correspondence run only. *)
From Verif Require Export JinjaScan JinjaRx Gen_JinjaRx.
Open Scope N_scope.

Definition inner_combo (i : nat) (tags : str -> str -> option (list xtok * nat)) (n : str) (p : option N) (rest : str)
  : option (list xtok * nat) :=
  if str_eqb n n_comment then inner_lazyx py_uni k_comment k_comment_end (nth i comment_end_x XEps) p rest
  else if str_eqb n n_raw then inner_lazyx py_uni k_data k_raw_end (nth i raw_end_x XEps) p rest
  else tags n rest.

Definition scan_combo (i : nat) tags (src : str) : option (list xtok) :=
  scanx_all py_uni (nth i root_rules_x []) (inner_combo i tags) src.
Definition scan_combo_upstream (i : nat) tags (src : str) : option (list xtok) :=
  scanx_all py_uni (demarkx (nth i root_rules_x [])) (inner_combo i tags) src.
Definition marker_free_combo (i : nat) (src : str) : bool := marker_free py_uni (nth i root_rules_x []) None src.
