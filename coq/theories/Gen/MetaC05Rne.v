(* C05: exact integer model of IEEE-754 round-to-nearest-even (binary64 / binary32): formats, values, rounding of a rational,
   exact rational value of a result, and `exact64` (an integer is exactly representable as a double; this is what CPython's
   `int(float(x)) == x` decides, OverflowError counting as False).  No dependency on generated files: Generated/Gen_C05.v uses
   `exact64` when the repaired `_float_division_expr` is translated. *)
From Coq Require Import List NArith ZArith Bool.
Import ListNotations.
Local Open Scope Z_scope.

Record fmt : Type := { f_prec : Z; f_emin : Z; f_emax : Z }.
Definition binary64 : fmt := {| f_prec := 53; f_emin := -1022; f_emax := 1023 |}.
Definition binary32 : fmt := {| f_prec := 24; f_emin := -126; f_emax := 127 |}.

(* finite: (-1)^neg * m * 2^q with 0 <= m < 2^prec, q >= emin - prec + 1 *)
Inductive fval : Type := FFin (neg : bool) (m q : Z) | FInf (neg : bool).

(* nearest integer to N / D (N >= 0, D > 0), ties to even *)
Definition div_half_even (N D : Z) : Z :=
  let q := N / D in
  let r := N mod D in
  match (2 * r) ?= D with
  | Lt => q
  | Gt => q + 1
  | Eq => if Z.even q then q else q + 1
  end.

(* a / b (b > 0) rounded to nearest even in format f *)
Definition rne (f : fmt) (a b : Z) : fval :=
  let neg := a <? 0 in
  let a := Z.abs a in
  if a =? 0 then FFin neg 0 (f_emin f - f_prec f + 1)
  else
    let e0 := Z.log2 a - Z.log2 b in
    (* 2^e <= a/b < 2^(e+1) *)
    let below := a * 2 ^ (Z.max (- e0) 0) <? b * 2 ^ (Z.max e0 0) in
    let e := if below then e0 - 1 else e0 in
    let q := Z.max e (f_emin f) - (f_prec f - 1) in
    let m := div_half_even (a * 2 ^ (Z.max (- q) 0)) (b * 2 ^ (Z.max q 0)) in
    let '(m, q) := if m =? 2 ^ f_prec f then (2 ^ (f_prec f - 1), q + 1) else (m, q) in
    if f_emax f <? q + f_prec f - 1 then FInf neg else FFin neg m q.

(* exact rational value (numerator, positive denominator) of a finite value, with the common powers of two cancelled (so that an
   integer value reads (z, 1)) *)
Fixpoint strip2 (m : positive) (k : nat) : positive * nat :=
  match k, m with
  | S k', xO m' => strip2 m' k'
  | _, _ => (m, k)
  end.

Definition fval_q (x : fval) : option (Z * Z) :=
  match x with
  | FFin neg m q =>
      if 0 <=? q then Some ((if neg then - m else m) * 2 ^ q, 1)
      else match m with
           | Zpos p => let '(p', k') := strip2 p (Z.to_nat (- q)) in
                       Some ((if neg then Zneg p' else Zpos p'), 2 ^ Z.of_nat k')
           | _ => Some (0, 1)
           end
  | FInf _ => None
  end.

(* the integer z is exactly representable as a binary64 value *)
Definition exact64 (z : Z) : bool :=
  match fval_q (rne binary64 z 1) with Some (a, b) => (a =? z) && (b =? 1) | None => false end.

