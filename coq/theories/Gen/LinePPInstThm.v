(* Proofs about the translated processors. *)
From Verif Require Import LinePP LinePPThm LinePPInst.
Open Scope N_scope.

(* ---------------- the trailing-whitespace pattern ---------------- *)
Definition ws_of (u : uni) (c : chr) : bool := in_ranges (u_space u) c.

Section TrailingWs.
  Variable u : uni.
  Notation ws := (ws_of u).
  Hypothesis ws_LF : ws LF = true.

  Definition WS : cls := {| c_neg := false; c_ranges := []; c_space := true; c_digit := false; c_word := false |}.

  Lemma cls_mem_WS c : cls_mem u WS c = ws c.
  Proof.
    unfold cls_mem, WS, ws_of; cbn. destruct (in_ranges (u_space u) c); reflexivity.
  Qed.

  Definition kend : bool -> str -> option str := fun _ rest => Some rest.

  Definition is_some {A} (o : option A) : bool := match o with Some _ => true | None => false end.

  (* the greedy loop of `\s*` followed by `$` succeeds iff everything left is whitespace *)
  Lemma star_ws_eol_gen (m : (bool -> str -> option str) -> bool -> str -> option str)
        (k : bool -> str -> option str)
        (Hm : forall k' at0 s, m k' at0 s = match s with [] => None | x :: s' => if ws x then k' false s' else None end)
        (Hk : forall at0 s, k at0 s = match s with [] => Some s | [c] => if c =? LF then Some s else None | _ => None end)
        s : forall fuel at0, (length s < fuel)%nat ->
      is_some (star_loop m k fuel at0 s) = forallb ws s.
  Proof.
    induction s as [|c s IH]; intros fuel at0 Hf.
    - destruct fuel; cbn [star_loop]; rewrite ?Hm, Hk; reflexivity.
    - destruct fuel as [|f]; [cbn in Hf; lia|].
      cbn [star_loop forallb]. rewrite Hm.
      destruct (ws c) eqn:Hc; cbn [andb].
      + assert (Hlt : Nat.ltb (length s) (length (c :: s)) = true) by (apply Nat.ltb_lt; cbn; lia).
        rewrite Hlt. specialize (IH f false ltac:(cbn in Hf; lia)).
        destruct (star_loop m k f false s) eqn:E.
        * exact IH.
        * cbn [is_some] in IH. rewrite <- IH. rewrite Hk.
          destruct s as [|d s']; [|reflexivity].
          destruct f; cbn [star_loop] in E; rewrite ?Hm, Hk in E; discriminate.
      + rewrite Hk. destruct s as [|d s']; [|reflexivity].
        destruct (N.eqb_spec c LF) as [->|Hne]; [congruence|reflexivity].
  Qed.

  Lemma star_ws_eol s fuel at0 : (length s < fuel)%nat ->
      is_some (star_loop (mt u (Cls WS)) (mt u Eol kend) fuel at0 s) = forallb ws s.
  Proof.
    apply star_ws_eol_gen.
    - intros k' a t. cbn [mt]. destruct t; [reflexivity|]. rewrite cls_mem_WS. reflexivity.
    - intros a t. reflexivity.
  Qed.

  Definition ws_plus_eol : re := Seq (Seq (Cls WS) (Star (Cls WS))) Eol.

  Lemma match_ws_plus_eol at0 s :
    is_some (mt u ws_plus_eol kend at0 s) =
    match s with [] => false | _ => forallb ws s end.
  Proof.
    unfold ws_plus_eol. cbn [mt].
    destruct s as [|c s]; [reflexivity|].
    rewrite cls_mem_WS. cbn [forallb]. destruct (ws c); [|reflexivity]. cbn [andb].
    change (fun (at1 : bool) (s1 : str) => mt u Eol kend at1 s1) with (mt u Eol kend).
    apply (star_ws_eol s (S (length s)) false). lia.
  Qed.

  Lemma rstrip_all s : forallb ws s = true -> rstrip ws s = [].
  Proof.
    induction s as [|c s IH]; cbn; [reflexivity|]. intros H; apply andb_prop in H as [Hc Hs].
    rewrite (IH Hs), Hc. reflexivity.
  Qed.

  Lemma rstrip_cons_not_all c s : forallb ws (c :: s) = false -> rstrip ws (c :: s) = c :: rstrip ws s.
  Proof.
    cbn. intros H. destruct (rstrip ws s) eqn:E; [|reflexivity].
    destruct (ws c) eqn:Hc; [|reflexivity]. cbn in H.
    pose proof (rstrip_decomp ws s) as (w & Hs & Hw). rewrite E in Hs; cbn in Hs; subst w.
    rewrite Hw in H. discriminate.
  Qed.

  Lemma search_ws_plus_eol s : forall at0 i,
      option_map fst (re_search_from u ws_plus_eol at0 i s) =
      if Nat.ltb (length (rstrip ws s)) (length s) then Some (i + length (rstrip ws s))%nat else None.
  Proof.
    induction s as [|c s IH]; intros at0 i.
    - cbn. reflexivity.
    - cbn [re_search_from].
      pose proof (match_ws_plus_eol at0 (c :: s)) as Hm.
      destruct (mt u ws_plus_eol (fun _ rest => Some rest) at0 (c :: s)) as [rest|] eqn:E;
        change (fun (_ : bool) (rest : str) => Some rest) with kend in E; rewrite E in Hm; cbn [is_some] in Hm.
      + symmetry in Hm. rewrite (rstrip_all _ Hm). cbn. rewrite Nat.add_0_r. reflexivity.
      + symmetry in Hm. rewrite (rstrip_cons_not_all _ _ Hm). rewrite IH. cbn [length].
        change (S (length (rstrip ws s)) <? S (length s))%nat with (length (rstrip ws s) <? length s)%nat.
        destruct (length (rstrip ws s) <? length s)%nat; [|reflexivity]. f_equal. lia.
  Qed.

  Lemma firstn_rstrip s : firstn (length (rstrip ws s)) s = rstrip ws s.
  Proof.
    pose proof (rstrip_decomp ws s) as (w & Hs & _). rewrite Hs at 2.
    rewrite firstn_app, Nat.sub_diag, firstn_all. cbn. apply app_nil_r.
  Qed.

  Lemma rstrip_same_length s : (length (rstrip ws s) <? length s)%nat = false -> rstrip ws s = s.
  Proof.
    intros H. apply Nat.ltb_ge in H.
    pose proof (rstrip_decomp ws s) as (w & Hs & _).
    assert (length s = length (rstrip ws s) + length w)%nat by (rewrite Hs at 1; apply app_length).
    destruct w; [rewrite app_nil_r in Hs; congruence|cbn in *; lia].
  Qed.
End TrailingWs.

Lemma py_space_LF : ws_of py_uni LF = true.
Proof. vm_compute. reflexivity. Qed.

Definition py_ws : chr -> bool := ws_of py_uni.

(* the translated pattern is `\s+$` *)
Lemma trailing_ws_pattern_shape : trailing_ws_pattern = ws_plus_eol.
Proof. reflexivity. Qed.

Theorem trim_exact_lemma (content term : str) :
  TrimTrailingWhitespace_call py_uni (content, term) = (rstrip py_ws content, term).
Proof.
  unfold TrimTrailingWhitespace_call. cbn [fst snd].
  rewrite trailing_ws_pattern_shape.
  pose proof (search_ws_plus_eol py_uni py_space_LF content true 0) as H.
  unfold re_search. fold py_ws in H.
  destruct (re_search_from py_uni ws_plus_eol true 0 content) as [[i rest]|]; cbn [option_map fst] in H.
  - destruct (length (rstrip py_ws content) <? length content)%nat; [|discriminate].
    injection H as ->. cbn [fst Nat.add].
    unfold py_ws. rewrite (firstn_rstrip py_uni). reflexivity.
  - destruct (length (rstrip py_ws content) <? length content)%nat eqn:E; [discriminate|].
    unfold py_ws in *. rewrite (rstrip_same_length py_uni _ E). reflexivity.
Qed.

(* ---------------- the newline pattern ---------------- *)
Fixpoint first_nl (i : nat) (s : str) : option (nat * str) :=
  match s with
  | [] => None
  | c :: s' =>
      if c =? LF then Some (i, s')
      else match s' with
           | d :: s'' => if (c =? CR) && (d =? LF) then Some (i, s'') else first_nl (S i) s'
           | [] => first_nl (S i) s'
           end
  end.

Lemma in_ranges_single a c : in_ranges [(a, a)] c = (c =? a).
Proof.
  unfold in_ranges; cbn. rewrite orb_false_r.
  destruct (N.eqb_spec c a) as [->|H]; [rewrite N.leb_refl; reflexivity|].
  destruct (N.leb_spec a c), (N.leb_spec c a); cbn; try reflexivity. lia.
Qed.

Lemma cls_mem_single u a c :
  cls_mem u {| c_neg := false; c_ranges := [(a, a)]; c_space := false; c_digit := false; c_word := false |} c = (c =? a).
Proof.
  unfold cls_mem; cbn [c_neg c_ranges c_space c_digit c_word andb].
  rewrite !orb_false_r, in_ranges_single. destruct (c =? a); reflexivity.
Qed.

Lemma newline_search_from s : forall i at0,
    re_search_from py_uni newline_pattern at0 i s = first_nl i s.
Proof.
  induction s as [|c s IH]; intros i at0; [reflexivity|].
  cbn [re_search_from first_nl]. unfold newline_pattern. cbn [mt]. unfold LF, CR.
  rewrite !cls_mem_single.
  destruct (c =? 10); [reflexivity|].
  destruct (c =? 13); cbn [andb].
  - destruct s as [|d s']; [apply IH|]. rewrite cls_mem_single. destruct (d =? 10); [reflexivity|apply IH].
  - rewrite IH. destruct s; reflexivity.
Qed.

Theorem newline_pattern_spec s : re_search py_uni newline_pattern s = first_nl 0 s.
Proof. apply newline_search_from. Qed.

(* ---------------- the empty-line limiter ---------------- *)
Open Scope Z_scope.

Definition empty_content (l : line) : bool := match fst l with [] => true | _ => false end.
Definition elided (l : line) : bool := match l with ([], []) => true | _ => false end.

Lemma length_zero_iff (s : str) : (Z.of_nat (length s) =? 0) = match s with [] => true | _ => false end.
Proof. destruct s; [reflexivity|]. apply Z.eqb_neq. cbn [length]. lia. Qed.

Theorem limit_keeps_nonempty_lemma s l :
  0 <= LimitEmptyLines_max_empty_lines s -> empty_content l = false ->
  snd (LimitEmptyLines_call s l) = l /\
  LimitEmptyLines_max_empty_lines (fst (LimitEmptyLines_call s l)) = LimitEmptyLines_max_empty_lines s.
Proof.
  intros HN Hl. unfold LimitEmptyLines_call, empty_content in *. rewrite length_zero_iff.
  destruct (fst l); [discriminate|]. cbn.
  destruct (Z.gtb_spec 0 (LimitEmptyLines_max_empty_lines s)); [lia|]. split; reflexivity.
Qed.

(* checker over the stream of lines returned by the limiter: elided lines vanish from the
   file; c = number of consecutive empty lines written immediately before *)
Fixpoint runs_ok (N : Z) (c : Z) (ls : list line) : bool :=
  match ls with
  | [] => true
  | l :: ls' =>
      if elided l then runs_ok N c ls'
      else if empty_content l then (c + 1 <=? N) && runs_ok N (c + 1) ls'
      else runs_ok N 0 ls'
  end.

Lemma limit_bound_inv ls : forall s c,
    0 <= LimitEmptyLines_max_empty_lines s ->
    0 <= c <= LimitEmptyLines_empty_line_count s -> c <= LimitEmptyLines_max_empty_lines s ->
    runs_ok (LimitEmptyLines_max_empty_lines s) c (limit_lines s ls) = true.
Proof.
  induction ls as [|l ls IH]; intros s c HN Hc HcN; [reflexivity|].
  cbn [limit_lines]. unfold LimitEmptyLines_call. rewrite length_zero_iff.
  destruct s as [N cnt]; cbn [LimitEmptyLines_max_empty_lines LimitEmptyLines_empty_line_count] in *.
  destruct l as [content term]; cbn [fst].
  destruct content as [|x content].
  - destruct (Z.gtb_spec (cnt + 1) N).
    + cbn [runs_ok elided]. apply (IH {| LimitEmptyLines_max_empty_lines := N; LimitEmptyLines_empty_line_count := cnt + 1 |}); cbn; lia.
    + cbn [runs_ok]. destruct term as [|t term].
      * cbn [elided]. apply (IH {| LimitEmptyLines_max_empty_lines := N; LimitEmptyLines_empty_line_count := cnt + 1 |}); cbn; lia.
      * cbn [elided empty_content fst].
        replace (c + 1 <=? N) with true by (symmetry; apply Z.leb_le; lia). cbn [andb].
        apply (IH {| LimitEmptyLines_max_empty_lines := N; LimitEmptyLines_empty_line_count := cnt + 1 |}); cbn; lia.
  - destruct (Z.gtb_spec 0 N); [lia|]. cbn [runs_ok elided empty_content fst].
    apply (IH {| LimitEmptyLines_max_empty_lines := N; LimitEmptyLines_empty_line_count := 0 |}); cbn; lia.
Qed.

Theorem limit_bound_lemma (N : Z) (ls : list line) :
  0 <= N -> runs_ok N 0 (limit_lines (LimitEmptyLines_init N) ls) = true.
Proof.
  intros HN. apply (limit_bound_inv ls (LimitEmptyLines_init N) 0); cbn; lia.
Qed.

Lemma limit_nonempty_subsequence_gen ls : forall s,
  0 <= LimitEmptyLines_max_empty_lines s ->
  filter (fun l => negb (empty_content l)) (limit_lines s ls)
  = filter (fun l => negb (empty_content l)) ls.
Proof.
  induction ls as [|l ls IH]; intros s HN; [reflexivity|].
  cbn [limit_lines]. unfold LimitEmptyLines_call. rewrite length_zero_iff.
  destruct s as [N cnt]; cbn [LimitEmptyLines_max_empty_lines LimitEmptyLines_empty_line_count] in *.
  destruct l as [content term]; cbn [fst].
  destruct content as [|x content].
  - destruct (Z.gtb_spec (cnt + 1) N); cbn [filter empty_content fst negb]; apply IH; cbn; lia.
  - destruct (Z.gtb_spec 0 N); [lia|]. cbn [filter empty_content fst negb]. f_equal. apply IH; cbn; lia.
Qed.

Theorem limit_nonempty_subsequence_lemma (N : Z) (ls : list line) :
  0 <= N ->
  filter (fun l => negb (empty_content l)) (limit_lines (LimitEmptyLines_init N) ls)
  = filter (fun l => negb (empty_content l)) ls.
Proof. intros HN. apply limit_nonempty_subsequence_gen. exact HN. Qed.
