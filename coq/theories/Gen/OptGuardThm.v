(* C17 -- proofs about the option-guard model Gen/OptGuard.v, instantiated with the regenerated
   filter, template-loop facts and documented domains of Generated/Gen_OptGuard.v. *)
From Verif Require Import Str Crc32 Crc32Thm OptGuard Gen_OptGuard.
From Coq Require Import ZArith Lia Permutation Sorted.
Open Scope N_scope.

(* ---------------------------------------------------------------------------------------- *)
(* small reflections                                                                         *)
(* ---------------------------------------------------------------------------------------- *)
Lemma str_eqb_true a b : str_eqb a b = true <-> a = b.
Proof. destruct (str_eqb_spec a b); split; congruence. Qed.

Lemma oval_eqb_true a b : oval_eqb a b = true <-> a = b.
Proof.
  destruct a, b; cbn; try (split; [discriminate | congruence]); try (split; reflexivity).
  - rewrite Bool.eqb_true_iff. split; congruence.
  - rewrite Z.eqb_eq. split; congruence.
  - rewrite str_eqb_true. split; congruence.
Qed.

Lemma nodupb_NoDup l : nodupb l = true -> NoDup l.
Proof.
  induction l as [|x l IH]; cbn; intros H; [constructor|].
  apply andb_prop in H as [Hx Hl]. constructor; [|auto].
  intros Hin. apply str_in_spec in Hin. rewrite Hin in Hx. discriminate.
Qed.

Lemma lookup_key_In {A} k (l : list (str * A)) a : lookup_key k l = Some a -> In (k, a) l.
Proof.
  induction l as [|[k' a'] l IH]; cbn; [discriminate|].
  destruct (str_eqb_spec k k') as [->|Hne]; intros H.
  - left; congruence.
  - right; auto.
Qed.

Lemma In_lookup_key {A} k (l : list (str * A)) a : NoDup (map fst l) -> In (k, a) l -> lookup_key k l = Some a.
Proof.
  induction l as [|[k' a'] l IH]; cbn; intros Hn Hin; [contradiction|].
  inversion Hn as [|? ? Hnot Hn']; subst.
  destruct (str_eqb_spec k k') as [->|Hne].
  - destruct Hin as [E|Hin]; [congruence|]. exfalso. apply Hnot. apply (in_map fst) in Hin. exact Hin.
  - destruct Hin as [E|Hin]; [congruence | auto].
Qed.

Lemma same_set_lookup {A} (o1 o2 : list (str * A)) :
  NoDup (map fst o1) -> NoDup (map fst o2) -> (forall kv, In kv o1 <-> In kv o2) ->
  forall k, lookup_key k o1 = lookup_key k o2.
Proof.
  intros N1 N2 H k.
  destruct (lookup_key k o1) as [a|] eqn:E1.
  - symmetry. apply In_lookup_key; [assumption|]. apply H. apply lookup_key_In. assumption.
  - destruct (lookup_key k o2) as [b|] eqn:E2; [|reflexivity].
    apply lookup_key_In in E2. apply H in E2. apply (In_lookup_key _ _ _ N1) in E2. congruence.
Qed.

(* ---------------------------------------------------------------------------------------- *)
(* sorting key lists: two duplicate-free lists with the same elements sort to the same list   *)
(* ---------------------------------------------------------------------------------------- *)
Lemma list_str_eqb_true a b : list_str_eqb a b = true <-> a = b.
Proof.
  revert b; induction a as [|x a IH]; intros [|y b]; cbn; try (split; [discriminate | congruence]); [tauto|].
  rewrite andb_true_iff, str_eqb_true, IH. split; [intros [-> ->]; reflexivity | intros E; injection E; auto].
Qed.

Lemma str_leb_total : forall a b, str_leb a b = true \/ str_leb b a = true.
Proof.
  induction a as [|x a IH]; intros [|y b]; cbn; auto.
  destruct (N.ltb_spec x y), (N.ltb_spec y x); auto; try lia.
Qed.

Lemma str_leb_refl a : str_leb a a = true.
Proof. destruct (str_leb_total a a); assumption. Qed.

Lemma str_leb_antisym : forall a b, str_leb a b = true -> str_leb b a = true -> a = b.
Proof.
  induction a as [|x a IH]; intros [|y b]; cbn; intros H1 H2; try discriminate; [reflexivity|].
  destruct (N.ltb_spec x y), (N.ltb_spec y x); try discriminate; try lia.
  f_equal; [lia | auto].
Qed.

Lemma str_leb_trans : forall a b c, str_leb a b = true -> str_leb b c = true -> str_leb a c = true.
Proof.
  induction a as [|x a IH]; intros [|y b] [|z c]; cbn; intros H1 H2; try discriminate; auto.
  destruct (N.ltb_spec x y), (N.ltb_spec y x); try discriminate; try lia;
    destruct (N.ltb_spec y z), (N.ltb_spec z y); try discriminate; try lia;
    destruct (N.ltb_spec x z), (N.ltb_spec z x); try discriminate; try lia; auto.
  eapply IH; eauto.
Qed.

Definition sorted (l : list str) : Prop := StronglySorted (fun a b => str_leb a b = true) l.

Lemma insert_perm x l : Permutation (x :: l) (insert_str x l).
Proof.
  induction l as [|y l IH]; cbn; [reflexivity|]. destruct (str_leb x y); [reflexivity|].
  transitivity (y :: x :: l); [apply perm_swap | apply perm_skip, IH].
Qed.

Lemma isort_perm l : Permutation l (isort l).
Proof.
  induction l as [|x l IH]; cbn; [constructor|].
  transitivity (x :: isort l); [apply perm_skip, IH | apply insert_perm].
Qed.

Lemma insert_sorted x l : sorted l -> sorted (insert_str x l).
Proof.
  unfold sorted. induction l as [|y l IH]; cbn; intros H; [repeat constructor|].
  inversion H as [|? ? Hs Hf]; subst. destruct (str_leb x y) eqn:E.
  - constructor; [assumption|]. constructor; [assumption|].
    eapply Forall_impl; [|exact Hf]. intros z Hz. eapply str_leb_trans; eassumption.
  - constructor; [apply IH; assumption|].
    apply (Permutation_Forall (insert_perm x l)). constructor; [|assumption].
    destruct (str_leb_total x y) as [T|T]; [congruence | assumption].
Qed.

Lemma isort_sorted l : sorted (isort l).
Proof. induction l as [|x l IH]; cbn; [constructor | apply insert_sorted, IH]. Qed.

Lemma sorted_perm_eq l1 : forall l2, sorted l1 -> sorted l2 -> Permutation l1 l2 -> l1 = l2.
Proof.
  unfold sorted. induction l1 as [|x l1 IH]; intros l2 H1 H2 P.
  - apply Permutation_nil in P. congruence.
  - destruct l2 as [|y l2]; [apply Permutation_sym, Permutation_nil in P; discriminate|].
    inversion H1 as [|? ? Hs1 Hf1]; inversion H2 as [|? ? Hs2 Hf2]; subst.
    assert (x = y) as <-.
    { apply str_leb_antisym.
      - assert (Hin : In y (x :: l1)) by (apply (Permutation_in _ (Permutation_sym P)); left; reflexivity).
        destruct Hin as [->|Hin]; [apply str_leb_refl|]. rewrite Forall_forall in Hf1. auto.
      - assert (Hin : In x (y :: l2)) by (apply (Permutation_in _ P); left; reflexivity).
        destruct Hin as [->|Hin]; [apply str_leb_refl|]. rewrite Forall_forall in Hf2. auto. }
    f_equal. apply IH; [assumption | assumption|]. eapply Permutation_cons_inv; eassumption.
Qed.

Lemma isort_perm_eq l1 l2 : Permutation l1 l2 -> isort l1 = isort l2.
Proof.
  intros P. apply sorted_perm_eq; [apply isort_sorted | apply isort_sorted|].
  transitivity l1; [apply Permutation_sym, isort_perm|]. transitivity l2; [assumption | apply isort_perm].
Qed.

Lemma isort_eq_In l1 l2 : isort l1 = isort l2 -> forall k, In k l1 <-> In k l2.
Proof.
  intros E k. split; intros H.
  - apply (Permutation_in _ (Permutation_sym (isort_perm l2))). rewrite <- E. apply (Permutation_in _ (isort_perm l1)). assumption.
  - apply (Permutation_in _ (Permutation_sym (isort_perm l1))). rewrite E. apply (Permutation_in _ (isort_perm l2)). assumption.
Qed.

(* ---------------------------------------------------------------------------------------- *)
(* the finite injectivity checker is sound                                                   *)
(* ---------------------------------------------------------------------------------------- *)
Section Generic.
  Variable sav : oval -> option Z.

  Lemma inj_on_defined vs : inj_on sav vs = true -> forall v, In v vs -> sav v <> None.
  Proof.
    induction vs as [|x vs IH]; cbn; intros H v Hv; [contradiction|].
    destruct (sav x) as [z|] eqn:Ex; [|discriminate].
    apply andb_prop in H as [_ Hr]. destruct Hv as [<-|Hv]; [congruence | auto].
  Qed.

  Lemma inj_on_inj vs : inj_on sav vs = true ->
    forall v w, In v vs -> In w vs -> sav v = sav w -> v = w.
  Proof.
    induction vs as [|x vs IH]; cbn; intros H v w Hv Hw E; [contradiction|].
    destruct (sav x) as [z|] eqn:Ex; [|discriminate].
    apply andb_prop in H as [Hh Hr]. rewrite forallb_forall in Hh.
    assert (Hx : forall u, In u vs -> sav u = Some z -> x = u).
    { intros u Hu Eu. specialize (Hh u Hu). apply orb_prop in Hh as [Hh|Hh].
      - apply oval_eqb_true; assumption.
      - rewrite Eu, Z.eqb_refl in Hh. discriminate. }
    destruct Hv as [<-|Hv], Hw as [<-|Hw].
    - reflexivity.
    - apply Hx; [assumption | congruence].
    - symmetry. apply Hx; [assumption | congruence].
    - apply IH; assumption.
  Qed.

  Definition savz (v : oval) : Z := match sav v with Some z => z | None => 0%Z end.

  (* membership in the documented domain *)
  Lemma in_domain_In dom o k v :
    in_domainb dom o = true -> In (k, v) o ->
    exists vs, lookup_key k dom = Some vs /\ In v vs.
  Proof.
    unfold in_domainb. rewrite forallb_forall. intros H Hin. specialize (H _ Hin). cbn in H.
    destruct (lookup_key k dom) as [vs|]; [|discriminate]. exists vs. split; [reflexivity|].
    apply existsb_exists in H as (w & Hw & E). apply oval_eqb_true in E. congruence.
  Qed.

  Lemma domain_vs_ok dom k vs :
    domain_ok sav dom = true -> lookup_key k dom = Some vs -> inj_on sav vs = true.
  Proof.
    unfold domain_ok. intros H L. apply andb_prop in H as [H _]. rewrite forallb_forall in H.
    apply (H (k, vs)). apply lookup_key_In; assumption.
  Qed.

  Lemma in_domain_defined dom o :
    domain_ok sav dom = true -> in_domainb dom o = true ->
    forall k v, In (k, v) o -> sav v = Some (savz v).
  Proof.
    intros Hd Ho k v Hin. destruct (in_domain_In _ _ _ _ Ho Hin) as (vs & L & Hv).
    pose proof (inj_on_defined vs (domain_vs_ok _ _ _ Hd L) v Hv) as Hn.
    unfold savz. destruct (sav v); congruence.
  Qed.

  (* ---- rendering ---- *)
  Lemma emitted_noskip sd o : sd_skip sd = [] -> emitted sd o = o.
  Proof.
    intros E. unfold emitted. rewrite E. unfold str_in.
    induction o as [|kv o IH]; [reflexivity|]. simpl. simpl in IH. rewrite IH. reflexivity.
  Qed.

  Definition table (nm : str) (o : opts) : list ((str * str) * Z) :=
    map (fun kv => ((nm, fst kv), savz (snd kv))) o.

  Lemma map_opt_defined nm o :
    (forall k v, In (k, v) o -> sav v = Some (savz v)) ->
    map_opt (fun kv => match sav (snd kv) with Some z => Some ((nm, fst kv), z) | None => None end) o
    = Some (table nm o).
  Proof.
    induction o as [|[k v] o IH]; intros H; cbn; [reflexivity|].
    rewrite (H k v) by (left; reflexivity). rewrite IH by (intros; apply (H k0); right; assumption).
    reflexivity.
  Qed.

  Lemma sym_eqb_same nm k k' : sym_eqb (nm, k) (nm, k') = str_eqb k k'.
  Proof. unfold sym_eqb; cbn. rewrite str_eqb_refl. reflexivity. Qed.

  Lemma lookup_table_In nm o k z :
    lookup_sym (nm, k) (table nm o) = Some z -> exists v, In (k, v) o /\ savz v = z.
  Proof.
    induction o as [|[k' v'] o IH]; cbn; [discriminate|].
    rewrite sym_eqb_same. destruct (str_eqb_spec k k') as [->|Hne]; intros H.
    - exists v'. split; [left; reflexivity | congruence].
    - destruct (IH H) as (v & Hv & E). exists v. split; [right; assumption | assumption].
  Qed.

  Lemma lookup_table_None nm o k :
    lookup_sym (nm, k) (table nm o) = None <-> ~ In k (map fst o).
  Proof.
    induction o as [|[k' v'] o IH]; cbn; [tauto|].
    rewrite sym_eqb_same. destruct (str_eqb_spec k k') as [->|Hne].
    - split; [discriminate | intros H; exfalso; apply H; left; reflexivity].
    - rewrite IH. split; [intros H [E|E]; [congruence | tauto] | tauto].
  Qed.

  Lemma lookup_table_nodup nm o k v :
    NoDup (map fst o) -> In (k, v) o -> lookup_sym (nm, k) (table nm o) = Some (savz v).
  Proof.
    induction o as [|[k' v'] o IH]; cbn; intros Hn Hin; [contradiction|].
    rewrite sym_eqb_same. inversion Hn as [|? ? Hnot Hn']; subst.
    destruct (str_eqb_spec k k') as [->|Hne].
    - destruct Hin as [E|Hin]; [congruence|].
      exfalso. apply Hnot. apply (in_map fst) in Hin. exact Hin.
    - destruct Hin as [E|Hin]; [congruence|]. apply IH; assumption.
  Qed.

  Lemma flat_map_nil {A B} (f : A -> list B) l : flat_map f l = [] <-> forall a, In a l -> f a = [].
  Proof.
    induction l as [|a l IH]; cbn; [tauto|]. split.
    - intros H. apply app_eq_nil in H as [Ha Hl]. intros b [<-|Hb]; [assumption | apply IH; assumption].
    - intros H. rewrite (H a) by (left; reflexivity). apply IH. intros; apply H; right; assumption.
  Qed.

  Lemma same_keys_subset_eq (o_s o_t : opts) :
    map fst o_s = map fst o_t -> NoDup (map fst o_s) ->
    (forall kv, In kv o_t -> In kv o_s) -> o_s = o_t.
  Proof.
    revert o_t. induction o_s as [|[k vs] o_s IH]; intros [|[k' vt] o_t]; cbn; intros Hk Hn Hsub;
      try discriminate; [reflexivity|].
    injection Hk as <- Hk. inversion Hn as [|? ? Hnot Hn']; subst.
    assert (vs = vt) as <-.
    { destruct (Hsub (k, vt)) as [E|Hin]; [left; reflexivity | congruence|].
      exfalso. apply Hnot. apply (in_map fst) in Hin. exact Hin. }
    f_equal. apply IH; [assumption | assumption|].
    intros [k2 v2] Hin. destruct (Hsub (k2, v2)) as [E|Hin2]; [right; assumption | | assumption].
    exfalso. injection E as <- <-. apply Hnot. rewrite Hk. apply (in_map fst) in Hin. exact Hin.
  Qed.

  (* ---- the guard, for any two loops that agree ---- *)
  Section Sides.
    Variables (dom : list (str * list oval)) (sup typ : side).
    Hypothesis Hdom : domain_ok sav dom = true.
    Hypothesis Hsides : sides_agree sup typ = true.

    Lemma sides_facts :
      sd_iter typ = iter_expr /\ sd_value typ = sav_expr /\ sd_iter sup = sd_iter typ /\ sd_name sup = sd_name typ /\
      sd_value sup = sd_value typ /\ sd_skip sup = [] /\ sd_skip typ = [].
    Proof.
      unfold sides_agree in Hsides.
      repeat (apply andb_prop in Hsides as [Hsides ?]).
      repeat match goal with H : str_eqb _ _ = true |- _ => apply str_eqb_true in H end.
      destruct (sd_skip sup), (sd_skip typ); try discriminate. tauto.
    Qed.

    Lemma keys_equal_general (o : opts) :
      emitted typ o = o /\ map fst (emitted sup o) = map fst (emitted typ o).
    Proof.
      destruct sides_facts as (_ & _ & _ & _ & _ & Es & Et).
      rewrite !emitted_noskip by assumption. split; reflexivity.
    Qed.

    Lemma compile_defined o_s o_t :
      in_domainb dom o_s = true -> in_domainb dom o_t = true ->
      compile sav sup typ o_s o_t
      = Some (flat_map (check_one (table (sd_name typ) o_s)) (table (sd_name typ) o_t)).
    Proof.
      intros Hs Ht. destruct sides_facts as (_ & _ & Ei & En & Ev & Es & Et).
      unfold compile, rendered. rewrite Ei, Ev, !str_eqb_refl. cbn [andb negb].
      rewrite !emitted_noskip by assumption. rewrite En.
      rewrite (map_opt_defined (sd_name typ) o_s) by (apply (in_domain_defined dom); assumption).
      rewrite (map_opt_defined (sd_name typ) o_t) by (apply (in_domain_defined dom); assumption).
      reflexivity.
    Qed.

    Lemma check_one_nil tbl nm k z : check_one tbl ((nm, k), z) = [] <-> lookup_sym (nm, k) tbl = Some z.
    Proof.
      unfold check_one; cbn. destruct (lookup_sym (nm, k) tbl) as [z'|]; [|split; discriminate].
      destruct (Z.eqb_spec z' z); split; congruence.
    Qed.

    Lemma same_key_same_value o_s o_t k v_s v_t :
      in_domainb dom o_s = true -> in_domainb dom o_t = true ->
      In (k, v_s) o_s -> In (k, v_t) o_t -> savz v_s = savz v_t -> v_s = v_t.
    Proof.
      intros Hs Ht His Hit E.
      destruct (in_domain_In _ _ _ _ Hs His) as (vs & L & Hvs).
      destruct (in_domain_In _ _ _ _ Ht Hit) as (vs' & L' & Hvt).
      assert (vs' = vs) as -> by congruence.
      apply (inj_on_inj vs (domain_vs_ok _ _ _ Hdom L)); [assumption | assumption|].
      rewrite (in_domain_defined dom o_s Hdom Hs k v_s His), (in_domain_defined dom o_t Hdom Ht k v_t Hit).
      congruence.
    Qed.

    (* accepted => every option the type headers were generated with has the same value in the
       support header's option set (no assumption on the key lists) *)
    Theorem accept_implies_subset_general o_s o_t :
      in_domainb dom o_s = true -> in_domainb dom o_t = true ->
      compiles_together sav sup typ o_s o_t = true ->
      forall kv, In kv o_t -> In kv o_s.
    Proof.
      intros Hs Ht Hc [k v_t] Hin. unfold compiles_together in Hc.
      rewrite (compile_defined _ _ Hs Ht) in Hc.
      destruct (flat_map _ _) eqn:Ef; [|discriminate].
      rewrite flat_map_nil in Ef.
      specialize (Ef ((sd_name typ, k), savz v_t)).
      rewrite check_one_nil in Ef.
      destruct (lookup_table_In _ _ _ _ (Ef (in_map (fun kv => ((sd_name typ, fst kv), savz (snd kv))) _ _ Hin)))
        as (v_s & His & E).
      rewrite <- (same_key_same_value o_s o_t k v_s v_t Hs Ht His Hin E). assumption.
    Qed.

    Theorem guard_iff_general o_s o_t :
      in_domainb dom o_s = true -> in_domainb dom o_t = true ->
      map fst o_s = map fst o_t -> nodupb (map fst o_s) = true ->
      (compiles_together sav sup typ o_s o_t = true <-> o_s = o_t).
    Proof.
      intros Hs Ht Hk Hn. apply nodupb_NoDup in Hn. split.
      - intros Hc. apply same_keys_subset_eq; [assumption | assumption|].
        apply accept_implies_subset_general; assumption.
      - intros <-. unfold compiles_together. rewrite (compile_defined _ _ Hs Hs).
        assert (E : flat_map (check_one (table (sd_name typ) o_s)) (table (sd_name typ) o_s) = []).
        { apply flat_map_nil. intros [[nm k] z] Hin. apply in_map_iff in Hin as ([k' v] & E & Hin).
          injection E as <- <- <-. apply check_one_nil. apply lookup_table_nodup; assumption. }
        rewrite E. reflexivity.
    Qed.

    (* exactly which assertions fire *)
    Theorem diagnostics_exact_general o_s o_t ds :
      in_domainb dom o_s = true -> in_domainb dom o_t = true -> nodupb (map fst o_s) = true ->
      compile sav sup typ o_s o_t = Some ds ->
      forall k,
        (In (Mismatch k) ds <-> exists v_s v_t, In (k, v_s) o_s /\ In (k, v_t) o_t /\ v_s <> v_t) /\
        (In (Undeclared k) ds <-> In k (map fst o_t) /\ ~ In k (map fst o_s)).
    Proof.
      intros Hs Ht Hn Hc k. apply nodupb_NoDup in Hn.
      rewrite (compile_defined _ _ Hs Ht) in Hc. injection Hc as <-.
      split; rewrite in_flat_map; split.
      - intros ([[nm k'] z] & Hin & Hd). apply in_map_iff in Hin as ([k2 v_t] & E & Hin). injection E as <- <- <-.
        unfold check_one in Hd; cbn in Hd.
        destruct (lookup_sym _ _) as [z'|] eqn:L; [|destruct Hd as [Hd|[]]; discriminate].
        destruct (Z.eqb_spec z' (savz v_t)) as [->|Hne]; [contradiction|].
        destruct Hd as [Hd|[]]. injection Hd as ->.
        destruct (lookup_table_In _ _ _ _ L) as (v_s & His & E).
        exists v_s, v_t. repeat split; try assumption. intros ->. congruence.
      - intros (v_s & v_t & His & Hit & Hne).
        exists ((sd_name typ, k), savz v_t). split.
        + apply (in_map (fun kv => ((sd_name typ, fst kv), savz (snd kv))) _ _ Hit).
        + unfold check_one; cbn. rewrite (lookup_table_nodup _ _ _ _ Hn His).
          destruct (Z.eqb_spec (savz v_s) (savz v_t)) as [E|_]; [|left; reflexivity].
          exfalso. apply Hne. apply (same_key_same_value o_s o_t k); assumption.
      - intros ([[nm k'] z] & Hin & Hd). apply in_map_iff in Hin as ([k2 v_t] & E & Hin). injection E as <- <- <-.
        unfold check_one in Hd; cbn in Hd.
        destruct (lookup_sym _ _) as [z'|] eqn:L.
        + destruct (Z.eqb z' (savz v_t)); [contradiction | destruct Hd as [Hd|[]]; discriminate].
        + destruct Hd as [Hd|[]]. injection Hd as ->. split.
          * apply (in_map fst) in Hin. exact Hin.
          * apply lookup_table_None in L. assumption.
      - intros (Hit & Hnot). apply in_map_iff in Hit as ([k2 v_t] & E & Hit). cbn in E. subst k2.
        exists ((sd_name typ, k), savz v_t). split.
        + apply (in_map (fun kv => ((sd_name typ, fst kv), savz (snd kv))) _ _ Hit).
        + unfold check_one; cbn. rewrite (proj2 (lookup_table_None (sd_name typ) o_s k) Hnot). left; reflexivity.
    Qed.
    (* ---- with the key-set fingerprint (tree with the F-OPTGUARD-KEYSET fix) ---- *)
    Variable kss : list (list str).

    Lemma keysets_ok_inj a b :
      keysets_ok sav kss = true -> In a (map isort kss) -> In b (map isort kss) ->
      (exists z, sav (VStr (join_comma a)) = Some z) /\
      (sav (VStr (join_comma a)) = sav (VStr (join_comma b)) -> a = b).
    Proof.
      unfold keysets_ok. rewrite forallb_forall. intros H Ha Hb. specialize (H a Ha).
      destruct (sav (VStr (join_comma a))) as [z|] eqn:Ea; [|discriminate]. split; [eexists; reflexivity|].
      rewrite forallb_forall in H. specialize (H b Hb). intros E. apply orb_prop in H as [H|H].
      - apply list_str_eqb_true; assumption.
      - rewrite <- E, Z.eqb_refl in H. discriminate.
    Qed.

    Lemma keys_documented_In o : keys_documentedb kss o = true -> In (isort (map fst o)) (map isort kss).
    Proof.
      unfold keys_documentedb. rewrite existsb_exists. intros (x & Hx & E). apply list_str_eqb_true in E. congruence.
    Qed.

    Lemma nodup_keys_functional (o : opts) k v v' : NoDup (map fst o) -> In (k, v) o -> In (k, v') o -> v = v'.
    Proof.
      induction o as [|[k0 v0] o IH]; cbn; intros Hn H1 H2; [contradiction|].
      inversion Hn as [|? ? Hnot Hn']; subst.
      destruct H1 as [E1|H1], H2 as [E2|H2]; try congruence.
      - exfalso. injection E1 as <- <-. apply Hnot. apply (in_map fst) in H2. exact H2.
      - exfalso. injection E2 as <- <-. apply Hnot. apply (in_map fst) in H1. exact H1.
      - auto.
    Qed.

    Lemma subset_compile_nil o_s o_t :
      NoDup (map fst o_s) -> (forall kv, In kv o_t -> In kv o_s) ->
      flat_map (check_one (table (sd_name typ) o_s)) (table (sd_name typ) o_t) = [].
    Proof.
      intros Hn Hsub. apply flat_map_nil. intros [[nm k] z] Hin. apply in_map_iff in Hin as ([k' v] & E & Hin).
      injection E as <- <- <-. apply check_one_nil. apply lookup_table_nodup; [assumption | apply Hsub; assumption].
    Qed.

    Theorem guard_full_general o_s o_t :
      keyset_guarded sup typ = true -> keysets_ok sav kss = true ->
      in_domainb dom o_s = true -> in_domainb dom o_t = true ->
      keys_documentedb kss o_s = true -> keys_documentedb kss o_t = true ->
      nodupb (map fst o_s) = true -> nodupb (map fst o_t) = true ->
      (compiles_together_full sav sup typ o_s o_t = true <-> (forall kv, In kv o_s <-> In kv o_t)).
    Proof.
      intros Hg Hk Hs Ht Ds Dt Ns Nt. apply nodupb_NoDup in Ns. apply nodupb_NoDup in Nt.
      pose proof (keys_documented_In _ Ds) as Is. pose proof (keys_documented_In _ Dt) as It.
      destruct (keysets_ok_inj _ _ Hk Is It) as [(zs & Es) Inj].
      destruct (keysets_ok_inj _ _ Hk It Is) as [(zt & Et) _].
      unfold keyset_guarded in Hg.
      destruct (sd_keyset sup) as [ns|] eqn:Ks; [|discriminate]. destruct (sd_keyset typ) as [nt|] eqn:Kt; [|discriminate].
      assert (Ekd : keyset_diags sav sup typ o_s o_t = Some (if Z.eqb zs zt then [] else [KeySetMismatch])).
      { unfold keyset_diags, keyfp, keyset_text. rewrite Kt, Ks, Hg, Es, Et. reflexivity. }
      unfold compiles_together_full, compile_full. rewrite Ekd, (compile_defined _ _ Hs Ht). split.
      - intros Hc. destruct (Z.eqb_spec zs zt) as [Ez|Ez]; [|discriminate]. cbn [app] in Hc.
        destruct (flat_map _ _) eqn:Ef; [|discriminate].
        assert (Hsub : forall kv, In kv o_t -> In kv o_s).
        { apply accept_implies_subset_general; [assumption | assumption|].
          unfold compiles_together. rewrite (compile_defined _ _ Hs Ht), Ef. reflexivity. }
        assert (Ekeys : isort (map fst o_s) = isort (map fst o_t)) by (apply Inj; congruence).
        intros [k v]. split; [|apply Hsub]. intros Hin.
        assert (Hk' : In k (map fst o_t)) by (apply (isort_eq_In _ _ Ekeys); apply (in_map fst) in Hin; exact Hin).
        apply in_map_iff in Hk' as ([k' v'] & E & Hin'). cbn in E. subst k'.
        rewrite (nodup_keys_functional o_s k v v' Ns Hin (Hsub _ Hin')). assumption.
      - intros Hsame.
        assert (P : Permutation (map fst o_s) (map fst o_t)).
        { apply NoDup_Permutation; [assumption | assumption|]. intros k. split; intros H;
            apply in_map_iff in H as ([k' v] & E & Hin); cbn in E; subst k';
            [apply Hsame in Hin | apply Hsame in Hin]; apply (in_map fst) in Hin; exact Hin. }
        assert (zs = zt) as <-.
        { rewrite (isort_perm_eq _ _ P) in Es. congruence. }
        rewrite Z.eqb_refl. cbn [app].
        rewrite (subset_compile_nil o_s o_t Ns (fun kv H => proj2 (Hsame kv) H)). reflexivity.
    Qed.

    Lemma compile_full_defined o_s o_t :
      keyset_guarded sup typ = true -> keysets_ok sav kss = true ->
      in_domainb dom o_s = true -> in_domainb dom o_t = true ->
      keys_documentedb kss o_s = true -> keys_documentedb kss o_t = true ->
      exists ds, compile_full sav sup typ o_s o_t = Some ds.
    Proof.
      intros Hg Hk Hs Ht Ds Dt.
      pose proof (keys_documented_In _ Ds) as Is. pose proof (keys_documented_In _ Dt) as It.
      destruct (keysets_ok_inj _ _ Hk Is It) as [(zs & Es) _].
      destruct (keysets_ok_inj _ _ Hk It Is) as [(zt & Et) _].
      unfold keyset_guarded in Hg.
      destruct (sd_keyset sup) as [ns|] eqn:Ks; [|discriminate]. destruct (sd_keyset typ) as [nt|] eqn:Kt; [|discriminate].
      unfold compile_full, keyset_diags, keyfp, keyset_text. rewrite Kt, Ks, Hg, Es, Et, (compile_defined _ _ Hs Ht).
      eexists; reflexivity.
    Qed.

    (* what two translation units compiled together do: a (possibly empty) list of guard diagnostics, empty exactly
       for the same option set *)
    Theorem main_general o_s o_t :
      keyset_guarded sup typ = true -> keysets_ok sav kss = true ->
      in_domainb dom o_s = true -> in_domainb dom o_t = true ->
      keys_documentedb kss o_s = true -> keys_documentedb kss o_t = true ->
      nodupb (map fst o_s) = true -> nodupb (map fst o_t) = true ->
      exists ds, compile_full sav sup typ o_s o_t = Some ds /\
                 (ds = [] <-> (forall kv, In kv o_s <-> In kv o_t)).
    Proof.
      intros Hg Hk Hs Ht Ds Dt Ns Nt.
      destruct (compile_full_defined o_s o_t Hg Hk Hs Ht Ds Dt) as [ds E]. exists ds. split; [exact E|].
      rewrite <- (guard_full_general o_s o_t Hg Hk Hs Ht Ds Dt Ns Nt).
      unfold compiles_together_full. rewrite E. destruct ds; split; congruence.
    Qed.

    (* a rejected build is rejected BY AN ASSERTION: the diagnostics contain a failing key-set or per-option assertion
       (never only undeclared symbols, which is what F-OPTGUARD-KEYSET was) *)
    Theorem reject_by_assertion_general o_s o_t ds :
      keyset_guarded sup typ = true -> keysets_ok sav kss = true ->
      in_domainb dom o_s = true -> in_domainb dom o_t = true ->
      keys_documentedb kss o_s = true -> keys_documentedb kss o_t = true ->
      compile_full sav sup typ o_s o_t = Some ds -> ds <> [] ->
      In KeySetMismatch ds \/ exists k, In (Mismatch k) ds.
    Proof.
      intros Hg Hk Hs Ht Ds Dt E Hne.
      pose proof (keys_documented_In _ Ds) as Is. pose proof (keys_documented_In _ Dt) as It.
      destruct (keysets_ok_inj _ _ Hk Is It) as [(zs & Es) Inj].
      destruct (keysets_ok_inj _ _ Hk It Is) as [(zt & Et) _].
      unfold keyset_guarded in Hg.
      destruct (sd_keyset sup) as [ns|] eqn:Ks; [|discriminate]. destruct (sd_keyset typ) as [nt|] eqn:Kt; [|discriminate].
      unfold compile_full, keyset_diags, keyfp, keyset_text in E.
      rewrite Kt, Ks, Hg, Es, Et, (compile_defined _ _ Hs Ht) in E. injection E as <-.
      destruct (Z.eqb_spec zs zt) as [Ez|Ez]; [|left; left; reflexivity].
      right. cbn [app] in Hne |- *.
      assert (Ekeys : isort (map fst o_s) = isort (map fst o_t)) by (apply Inj; congruence).
      destruct (flat_map _ _) as [|d ds'] eqn:Ef; [contradiction|].
      assert (Hd : In d (flat_map (check_one (table (sd_name typ) o_s)) (table (sd_name typ) o_t))) by (rewrite Ef; left; reflexivity).
      apply in_flat_map in Hd as ([[nm k] z] & Hin & Hd).
      apply in_map_iff in Hin as ([k' v] & Eq & Hin). injection Eq as <- <- <-.
      unfold check_one in Hd; cbn in Hd.
      destruct (lookup_sym (sd_name typ, k') (table (sd_name typ) o_s)) as [z'|] eqn:L.
      - destruct (Z.eqb z' (savz v)); [contradiction|]. destruct Hd as [<-|[]]. exists k'. left. reflexivity.
      - exfalso. apply lookup_table_None in L. apply L. apply (isort_eq_In _ _ Ekeys). apply (in_map fst) in Hin. exact Hin.
    Qed.

    (* in a tree without the fingerprint the complete diagnostics are the per-option ones *)
    Lemma compile_full_without_keyset o_s o_t :
      sd_keyset typ = None -> compile_full sav sup typ o_s o_t = compile sav sup typ o_s o_t.
    Proof.
      intros K. unfold compile_full, keyset_diags. rewrite K. destruct (compile sav sup typ o_s o_t); reflexivity.
    Qed.
  End Sides.
End Generic.

(* ---------------------------------------------------------------------------------------- *)
(* instances: the regenerated filter, loops and domains                                      *)
(* ---------------------------------------------------------------------------------------- *)

(* the translated filter reproduces the examples of its own docstring *)
Lemma sav_doc_examples_hold : forallb (fun e => match sav (fst e) with Some z => Z.eqb z (snd e) | None => false end) sav_doc_examples = true.
Proof. vm_compute. reflexivity. Qed.

Lemma sav_doc_examples_nonempty : sav_doc_examples <> [].
Proof. discriminate. Qed.

(* values of string options fit 32 bits: no truncation in `constexpr std::uint32_t` *)
Lemma sav_str_range s z : sav (VStr s) = Some z -> (0 <= z < 2 ^ 32)%Z.
Proof.
  unfold sav. cbn [is_bool is_int is_str]. unfold crc_of, crc32_str.
  destruct (utf8 s) as [bs|]; cbn [option_map]; [|discriminate].
  intros H. injection H as <-. pose proof (crc32_lt bs) as L.
  split; [apply N2Z.is_nonneg|]. change (2 ^ 32)%Z with (Z.of_N (2 ^ 32)). apply N2Z.inj_lt. exact L.
Qed.

Lemma sav_bool b : sav (VBool b) = Some (if b then 1 else 0)%Z.
Proof. destruct b; reflexivity. Qed.

Lemma sav_other_fails : sav VOther = None.
Proof. reflexivity. Qed.

Lemma c_domain_ok : domain_ok sav c_domain = true.
Proof. vm_compute. reflexivity. Qed.
Lemma cpp_domain_ok : domain_ok sav cpp_domain = true.
Proof. vm_compute. reflexivity. Qed.

Lemma c_sides_agree : sides_agree c_support_side c_type_side = true.
Proof. vm_compute. reflexivity. Qed.
Lemma cpp_sides_agree : sides_agree cpp_support_side cpp_type_side = true.
Proof. vm_compute. reflexivity. Qed.

(* per-option injectivity, stated in Prop *)
Lemma sav_injective_on (dom : list (str * list oval)) :
  domain_ok sav dom = true ->
  forall k vs, lookup_key k dom = Some vs ->
    (forall v, In v vs -> sav v <> None) /\
    (forall v w, In v vs -> In w vs -> sav v = sav w -> v = w).
Proof.
  intros H k vs L. pose proof (domain_vs_ok sav dom k vs H L) as Hi. split.
  - apply inj_on_defined; assumption.
  - apply inj_on_inj; assumption.
Qed.

(* the defaults of properties.yaml are inside the documented domain, all keys documented once *)
Lemma c_defaults_in_domain : in_domainb c_domain c_defaults = true /\ nodupb (map fst c_defaults) = true.
Proof. vm_compute. split; reflexivity. Qed.
Lemma cpp_defaults_in_domain : in_domainb cpp_domain cpp_defaults = true /\ nodupb (map fst cpp_defaults) = true.
Proof. vm_compute. split; reflexivity. Qed.

(* distinct options render distinct symbols (real macrofy / id filters), every documented key has one *)
Lemma c_names_nodup : nodupb (map snd c_names) = true /\ map fst c_names = map fst c_domain.
Proof. vm_compute. split; reflexivity. Qed.
Lemma cpp_names_nodup : nodupb (map snd cpp_names) = true /\ map fst cpp_names = map fst cpp_domain.
Proof. vm_compute. split; reflexivity. Qed.

(* every documented domain is non-trivial: at least one option with two or more values *)
Lemma domains_nontrivial :
  existsb (fun kvs => 2 <=? N.of_nat (length (snd kvs))) c_domain = true /\
  existsb (fun kvs => 2 <=? N.of_nat (length (snd kvs))) cpp_domain = true.
Proof. vm_compute. split; reflexivity. Qed.

(* ---- refutations of the stronger statements ---- *)
Definition set_key (k : str) (v : oval) (o : opts) : opts := o ++ [(k, v)].
Definition k_std : str := [115; 116; 100].
Definition v_c11 : oval := VStr [99; 49; 49].

(* support generated with an additional option (nnvg --language-standard c11 adds `std` to the C
   options), types without: accepted although the option sets differ *)
Lemma extra_support_key_accepted :
  let o_s := set_key k_std v_c11 c_defaults in
  in_domainb c_domain o_s = true /\ in_domainb c_domain c_defaults = true /\
  compiles_together sav c_support_side c_type_side o_s c_defaults = true /\ o_s <> c_defaults.
Proof. vm_compute. repeat split; discriminate. Qed.

(* the other way round the build is rejected, but by an undeclared symbol, not by the assertion *)
Lemma extra_type_key_undeclared :
  compile sav c_support_side c_type_side c_defaults (set_key k_std v_c11 c_defaults) = Some [Undeclared k_std].
Proof. vm_compute. reflexivity. Qed.

(* outside the documented domain (free-form strings) the guard is only as good as CRC-32:
   "plumless" and "buckeroo" have the same CRC-32 *)
Definition s_plumless : str := [112; 108; 117; 109; 108; 101; 115; 115].
Definition s_buckeroo : str := [98; 117; 99; 107; 101; 114; 111; 111].
Lemma sav_not_injective_on_strings : s_plumless <> s_buckeroo /\ sav (VStr s_plumless) = sav (VStr s_buckeroo).
Proof. vm_compute. split; [discriminate | reflexivity]. Qed.

(* values of different types collide as well: "" and False are both 0 *)
Lemma sav_empty_string_is_false : sav (VStr []) = sav (VBool false).
Proof. vm_compute. reflexivity. Qed.

(* --omit-serialization-support: C++ type headers drop the assertions, C type headers keep
   them although no support header is included *)
Lemma omit_cpp_no_asserts o : compile_omit sav cpp_type_side o = Some [].
Proof. reflexivity. Qed.
Lemma omit_unguarded_all_undeclared typ o :
  sd_unless_omit typ = false ->
  compile_omit sav typ o
  = option_map (fun t => (match sd_keyset typ with Some _ => [KeySetUndeclared] | None => [] end)
                         ++ map (fun a => Undeclared (snd (fst a))) t) (rendered sav typ o).
Proof. intros H. unfold compile_omit. rewrite H. destruct (rendered sav typ o); reflexivity. Qed.

(* ---- key-set fingerprint: instances ---- *)
Lemma c_keysets_ok : keysets_ok sav c_keysets = true.
Proof. vm_compute. reflexivity. Qed.
Lemma cpp_keysets_ok : keysets_ok sav cpp_keysets = true.
Proof. vm_compute. reflexivity. Qed.

(* the defaults (and C defaults + std) have documented key sets *)
Lemma default_keys_documented :
  keys_documentedb c_keysets c_defaults = true /\ keys_documentedb c_keysets (set_key k_std v_c11 c_defaults) = true /\
  keys_documentedb cpp_keysets cpp_defaults = true.
Proof. vm_compute. repeat split; reflexivity. Qed.

(* the reserved key-set symbol is not the symbol of any documented option *)
Definition keyset_symbol_free (sd : side) (symbols : list str) : bool :=
  match sd_keyset sd with Some n => negb (str_in n symbols) | None => true end.
Lemma keyset_symbols_free :
  keyset_symbol_free c_support_side c_symbols = true /\ keyset_symbol_free c_type_side c_symbols = true /\
  keyset_symbol_free cpp_support_side cpp_symbols = true /\ keyset_symbol_free cpp_type_side cpp_symbols = true.
Proof. vm_compute. repeat split; reflexivity. Qed.

(* both templates of both languages carry the fingerprint under the same symbol *)
Lemma c_keyset_guarded : keyset_guarded c_support_side c_type_side = true.
Proof. vm_compute. reflexivity. Qed.
Lemma cpp_keyset_guarded : keyset_guarded cpp_support_side cpp_type_side = true.
Proof. vm_compute. reflexivity. Qed.

(* ---- what is interpolated into the string literals of the assertion messages ---- *)
Lemma msg_safe_spec sd : msg_literal_safe sd = true -> forall e, In e (sd_msg_exprs sd) -> In e safe_msg_exprs.
Proof.
  unfold msg_literal_safe. rewrite forallb_forall. intros H e He. apply str_in_spec. apply H. assumption.
Qed.

Lemma all_messages_literal_safe :
  forallb msg_literal_safe [c_support_side; c_type_side; cpp_support_side; cpp_type_side] = true.
Proof. vm_compute. reflexivity. Qed.

(* an option value is never among the literal-safe expressions *)
Lemma value_not_literal_safe :
  str_in [118; 97; 108; 117; 101] safe_msg_exprs = false /\ str_in sav_expr safe_msg_exprs = false.
Proof. vm_compute. split; reflexivity. Qed.

(* the path pieces go through a chain that yields a valid literal body for every hostile path of <= 5 characters *)
Lemma all_paths_escaped : forallb path_escape_ok [c_support_side; c_type_side; cpp_support_side; cpp_type_side] = true.
Proof. vm_compute. reflexivity. Qed.

(* facts about escape chains (independent of the tree): backslash + double quote alone is NOT enough under the ISO
   modes, because of the trigraph ??/ (finding F-OPTGUARD-TRIGRAPH, witness a??/u); adding ? -> \? is *)
(* the path pieces go through the three-step chain, which stays valid after trigraph replacement *)
Lemma all_paths_trigraph_safe :
  forallb (fun sd => path_trigraph_ok sd && path_chain_expected sd) [c_support_side; c_type_side; cpp_support_side; cpp_type_side] = true.
Proof. vm_compute. reflexivity. Qed.

Lemma chain_facts :
  escape_quote_safe chain_bq = true /\ escape_trigraph_safe chain_bq = false /\
  lit_ok (detrigraph (apply_escape chain_bq [97; 63; 63; 47; 117])) = false /\
  escape_quote_safe chain_bqq = true /\ escape_trigraph_safe chain_bqq = true /\
  escape_quote_safe [] = false.
Proof. vm_compute. repeat split; reflexivity. Qed.

(* ---- the guard statements are live C / C++ ---- *)
Lemma all_sides_live : forallb side_live [c_support_side; c_type_side; cpp_support_side; cpp_type_side] = true.
Proof. vm_compute. reflexivity. Qed.

(* ---- every composite class is rendered by a template that reaches the guard of base.j2 ---- *)
Definition class_reaches (entries : list (str * str * bool)) (c : str) : bool :=
  existsb (fun e => str_eqb (fst (fst e)) c && snd e) entries.
Lemma every_class_reaches_guard :
  composite_classes <> [] /\
  forallb (class_reaches c_entry_templates) composite_classes = true /\
  forallb (class_reaches cpp_entry_templates) composite_classes = true.
Proof. split; [discriminate|]. vm_compute. split; reflexivity. Qed.

(* ---- every option of properties.yaml (and the optional ones) is classified, and rendered on both sides ---- *)
Lemma options_classified :
  classifiedb (map fst c_domain) = true /\ classifiedb (map fst cpp_domain) = true /\
  classifiedb (map fst c_defaults) = true /\ classifiedb (map fst cpp_defaults) = true.
Proof. vm_compute. repeat split; reflexivity. Qed.

Definition rendered_keys (sd : side) (o : opts) : option (list str) :=
  option_map (map (fun a => snd (fst a))) (rendered sav sd o).
Lemma every_option_fingerprinted :
  rendered_keys c_support_side c_defaults = Some (map fst c_defaults) /\
  rendered_keys c_type_side c_defaults = Some (map fst c_defaults) /\
  rendered_keys cpp_support_side cpp_defaults = Some (map fst cpp_defaults) /\
  rendered_keys cpp_type_side cpp_defaults = Some (map fst cpp_defaults).
Proof. vm_compute. repeat split; reflexivity. Qed.

Lemma all_classified_relevant :
  forallb (fun kc => relevant (fst kc)) option_classes = true.
Proof. vm_compute. reflexivity. Qed.

Lemma same_set_opt_equiv (o1 o2 : opts) :
  nodupb (map fst o1) = true -> nodupb (map fst o2) = true ->
  (forall kv, In kv o1 <-> In kv o2) -> opt_equiv o1 o2.
Proof.
  intros N1 N2 H k _. apply same_set_lookup; [apply nodupb_NoDup | apply nodupb_NoDup|]; assumption.
Qed.

(* opt_equiv on option sets whose keys are all relevant is equality as sets *)
Lemma opt_equiv_same_set (o1 o2 : opts) :
  nodupb (map fst o1) = true -> nodupb (map fst o2) = true ->
  forallb (fun kv => relevant (fst kv)) o1 = true -> forallb (fun kv => relevant (fst kv)) o2 = true ->
  opt_equiv o1 o2 -> (forall kv, In kv o1 <-> In kv o2).
Proof.
  intros N1 N2 R1 R2 H [k v]. apply nodupb_NoDup in N1. apply nodupb_NoDup in N2.
  rewrite forallb_forall in R1, R2. split; intros Hin.
  - apply lookup_key_In. rewrite <- (H k (R1 _ Hin)). apply In_lookup_key; assumption.
  - apply lookup_key_In. rewrite (H k (R2 _ Hin)). apply In_lookup_key; assumption.
Qed.

(* ---- headers generated with --omit-serialization-support (no support header in the build) ---- *)
Lemma guard_requires_support_header : sd_unless_omit c_type_side = true /\ sd_unless_omit cpp_type_side = true.
Proof. vm_compute. split; reflexivity. Qed.
Lemma omit_c_no_asserts o : compile_omit sav c_type_side o = Some [].
Proof. reflexivity. Qed.
