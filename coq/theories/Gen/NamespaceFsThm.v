(* C11: the set of files a generation run writes (Namespace.c11_targets = the output paths yielded by get_all_types /
   get_all_datatypes, which DSDLCodeGenerator.generate_all writes one by one): all of them below the output directory with
   safe components, pairwise distinct; type file vs. namespace file; the enable_stropping = false configuration. *)
From Verif Require Import NamespaceBase NamespaceBuildThm NamespaceTreeThm NamespacePathThm NamespaceSortThm NamespaceThm.
From Coq Require Import Lia.
Open Scope N_scope.

Lemma firstn_in {A} (x : A) n l : In x (firstn n l) -> In x l.
Proof.
  revert l; induction n as [|n IH]; intros [|a l]; cbn [firstn In]; try tauto.
  intros [H|H]; [left; assumption | right; apply IH; assumption].
Qed.

Lemma NoDup_map_inj_in {A B} (f : A -> B) l :
  NoDup l -> (forall x y, In x l -> In y l -> f x = f y -> x = y) -> NoDup (map f l).
Proof.
  induction 1 as [|a l Ha Hl IH]; intros Hinj; cbn [map]; constructor.
  - intros H. apply in_map_iff in H. destruct H as (y & Hy & Hin).
    assert (y = a) by (apply Hinj; [right; assumption | left; reflexivity | assumption]). subst. contradiction.
  - apply IH. intros x y Hx Hy. apply Hinj; right; assumption.
Qed.

Section FS.
  Variable strop : str -> str.
  Variable es : bool.
  Variable ext stem : str.
  Variable outdir : path.
  Variable perm : list key -> list key.
  Hypothesis perm_perm : forall l, Permutation (perm l) l.
  Variable types : list ty.
  Variable r : str.
  Hypothesis Hnd : NoDup types.
  Hypothesis Hroot : one_root r types.
  Hypothesis Hne : types <> [].

  Notation B := (build strop same es ext outdir perm types).
  Notation T g := (c11_targets strop es ext stem outdir g perm types).
  Notation op := (out_path strop es ext outdir).
  Notation np := (ns_path strop ext stem outdir).

  (* the written paths are, up to order, the namespace files of all nodes (if namespace files are generated) and the type files *)
  Theorem targets_perm :
    Permutation (T true) (map np (keys (fst B)) ++ map op types) /\ Permutation (T false) (map op types).
  Proof.
    destruct (types_each_once strop es ext stem outdir perm sort_keys perm_perm sort_keys_perm types r Hnd Hroot Hne)
      as (Hall & Hdt & _).
    unfold c11_targets. split.
    - apply (Permutation_map item_path) in Hall. rewrite map_app, !map_map in Hall. exact Hall.
    - apply (Permutation_map snd) in Hdt. rewrite map_map in Hdt. cbn [snd] in Hdt. exact Hdt.
  Qed.

  Lemma in_targets g q : In q (T g) -> (exists k, In k (keys (fst B)) /\ q = np k) \/ (exists t, In t types /\ q = op t).
  Proof.
    destruct targets_perm as [P1 P2]. destruct g; intros H.
    - apply (Permutation_in _ P1) in H. apply in_app_or in H. destruct H as [H|H]; apply in_map_iff in H;
        destruct H as (x & <- & Hx); [left | right]; eauto.
    - apply (Permutation_in _ P2) in H. apply in_map_iff in H. destruct H as (x & <- & Hx). right; eauto.
  Qed.

  Lemma key_components k x : In k (keys (fst B)) -> In x k -> exists t, In t types /\ In x (t_ns t).
  Proof.
    intros Hk Hx.
    destruct (ns_each_once strop same es ext outdir perm perm_perm types r Hnd Hroot Hne) as [_ Hkeys].
    apply Hkeys, in_nodes_of in Hk. destruct Hk as (t & j & Ht & _ & ->). exists t. split; [assumption|].
    eapply firstn_in; eassumption.
  Qed.

  (* every written path is outdir followed by safe components: lexical resolution from any directory only descends *)
  Theorem targets_inside g :
    (forall x, In x (names_of types) -> ident_like (pstrop strop es x)) ->
    (forall t x, In t types -> In x (t_ns t) -> ident_like (strop x)) ->
    ident_like stem -> ~ In SLASH ext ->
    forall q, In q (T g) ->
      exists rel, q = outdir ++ rel /\ Forall safe_comp rel /\ forall st, resolve st rel = rev rel ++ st.
  Proof.
    intros Hnames Hns Hstem Hext q Hq. apply in_targets in Hq. destruct Hq as [(k & Hk & ->)|(t & Ht & ->)].
    - apply ns_path_inside; try assumption. intros x Hx. destruct (key_components k x Hk Hx) as (t & Ht & Hxt). eauto.
    - destruct (path_inside strop es ext outdir types t Ht Hnames Hext) as (rel & E & _ & F & R). exists rel. auto.
  Qed.

  (* the written paths are pairwise distinct *)
  Theorem targets_distinct_types_only :
    (forall x y, In x (names_of types) -> In y (names_of types) -> pstrop strop es x = pstrop strop es y -> x = y) ->
    (forall t, In t types -> ~ In DOT (pstrop strop es (base_name t))) ->
    NoDup (T false).
  Proof.
    intros Hinj Hdot. destruct targets_perm as [_ P]. eapply Permutation_NoDup; [apply Permutation_sym, P|].
    apply NoDup_map_inj_in; [assumption|]. intros x y Hx Hy. apply (path_injective strop es ext outdir types); assumption.
  Qed.

  (* general form: the only thing needed about the namespace-file stem is that no namespace file is a type file *)
  Theorem targets_distinct_gen :
    (forall x y, In x (names_of types) -> In y (names_of types) -> pstrop strop es x = pstrop strop es y -> x = y) ->
    (forall t, In t types -> ~ In DOT (pstrop strop es (base_name t))) ->
    ns_fold strop types = false ->                                   (* no two namespaces with the same stropped spelling *)
    stem_valid stem = true ->                                        (* the stem is a plain file name *)
    (forall k t, In k (keys (fst B)) -> In t types -> np k <> op t) ->
    forall g, NoDup (T g).
  Proof.
    intros Hinj Hdot Hfold Hval Hsep [|]; [|apply targets_distinct_types_only; assumption].
    destruct targets_perm as [P _]. eapply Permutation_NoDup; [apply Permutation_sym, P|].
    destruct (ns_each_once strop same es ext outdir perm perm_perm types r Hnd Hroot Hne) as [Hkn Hkeys].
    apply NoDup_app_intro.
    - apply NoDup_map_inj_in; [assumption|]. intros k1 k2 H1 H2 E.
      rewrite !ns_path_valid in E by assumption. apply app_inv_head in E. apply app_inj_tail in E. destruct E as [E _].
      apply (ns_fold_false_inj strop types Hfold); [apply Hkeys | apply Hkeys |]; assumption.
    - apply NoDup_map_inj_in; [assumption|]. intros x y Hx Hy. apply (path_injective strop es ext outdir types); assumption.
    - intros q Hq1 Hq2. apply in_map_iff in Hq1. destruct Hq1 as (k & <- & Hk).
      apply in_map_iff in Hq2. destruct Hq2 as (t & E & Ht). exact (Hsep k t Hk Ht (eq_sym E)).
  Qed.

  Theorem targets_distinct :
    (forall x y, In x (names_of types) -> In y (names_of types) -> pstrop strop es x = pstrop strop es y -> x = y) ->
    (forall t, In t types -> ~ In DOT (pstrop strop es (base_name t))) ->
    ns_fold strop types = false ->
    stem_valid stem = true -> ~ In DOT stem ->
    (forall t, In t types -> pstrop strop es (base_name t) <> stem) ->   (* the namespace file stem is not a type's file stem *)
    forall g, NoDup (T g).
  Proof.
    intros Hinj Hdot Hfold Hval Hsd Hstem. apply targets_distinct_gen; try assumption.
    intros k t Hk Ht E. rewrite ns_path_shape in E by assumption. rewrite path_shape in E by (apply Hdot; assumption).
    apply app_inv_head in E. apply app_inj_tail in E. destruct E as [_ E]. apply app_inv_tail in E.
    exact (Hstem t Ht (eq_sym E)).
  Qed.

  (* with the stem check in the code: every run of build_namespace_tree that does not raise has distinct targets, whatever the stem *)
  Lemma stem_collides_false :
    stem_collides strop es ext stem outdir (fst B) types = false ->
    forall k t, In k (keys (fst B)) -> In t types -> np k <> op t.
  Proof.
    unfold stem_collides. intros H k t Hk Ht E.
    assert (X : existsb (fun k => existsb (fun t => key_eqb (np k) (op t)) types) (keys (fst B)) = true); [|congruence].
    apply existsb_exists. exists k; split; [assumption|]. apply existsb_exists. exists t; split; [assumption|].
    rewrite E. apply key_eqb_refl.
  Qed.

  (* the stem preconditions in terms of the regenerated facts: `validate` (Namespace.__init__ validates the stem) and `chk`
     (build_namespace_tree has the collision check) *)
  Definition stem_guard (validate chk : bool) : Prop :=
    (if validate then True else stem_valid stem = true) /\
    (if chk then True else ~ In DOT stem /\ forall t, In t types -> pstrop strop es (base_name t) <> stem).

  Lemma no_raise_valid chk : build_checked true chk strop same es ext stem outdir perm types <> None -> stem_valid stem = true.
  Proof. unfold build_checked. cbn [andb]. destruct (stem_valid stem); [reflexivity | cbn [negb]; congruence]. Qed.

  Theorem targets_distinct_no_raise validate chk :
    build_checked validate chk strop same es ext stem outdir perm types <> None ->
    (forall x y, In x (names_of types) -> In y (names_of types) -> pstrop strop es x = pstrop strop es y -> x = y) ->
    (forall t, In t types -> ~ In DOT (pstrop strop es (base_name t))) ->
    ns_fold strop types = false ->
    stem_guard validate chk ->
    forall g, NoDup (T g).
  Proof.
    intros Hrun Hinj Hdot Hfold [G1 G2].
    assert (V : stem_valid stem = true).
    { destruct validate; [|exact G1]. unfold build_checked in Hrun. cbn [andb] in Hrun.
      destruct (stem_valid stem); [reflexivity | cbn [negb] in Hrun; congruence]. }
    destruct chk.
    - apply targets_distinct_gen; try assumption. apply stem_collides_false.
      unfold build_checked in Hrun. rewrite V in Hrun. cbn [negb andb] in Hrun. rewrite andb_false_r in Hrun.
      destruct (stem_collides strop es ext stem outdir (fst B) types); [congruence | reflexivity].
    - destruct G2 as [Hsd Hstem]. apply targets_distinct; assumption.
  Qed.

  (* EVERY stem string: a run that does not raise (with the validation in the code) writes only below the output directory *)
  Theorem targets_inside_no_raise chk g :
    build_checked true chk strop same es ext stem outdir perm types <> None ->
    (forall x, In x (names_of types) -> ident_like (pstrop strop es x)) ->
    (forall t x, In t types -> In x (t_ns t) -> ident_like (strop x)) ->
    valid_ext ext ->
    forall q, In q (T g) ->
      exists rel, q = outdir ++ rel /\ Forall safe_comp rel /\ forall st, resolve st rel = rev rel ++ st.
  Proof.
    intros Hrun Hnames Hns Hext q Hq. pose proof (no_raise_valid chk Hrun) as V.
    assert (Hsl : ~ In SLASH ext) by (destruct Hext as (e' & _ & _ & X); exact X).
    apply in_targets in Hq. destruct Hq as [(k & Hk & ->)|(t & Ht & ->)].
    - apply ns_path_inside_valid; try assumption. intros x Hx. destruct (key_components k x Hk Hx) as (t & Ht & Hxt). eauto.
    - destruct (path_inside strop es ext outdir types t Ht Hnames Hsl) as (rel & E & _ & F & R). exists rel. auto.
  Qed.

  (* the same, parametric in the regenerated fact `validate` (does Namespace.__init__ validate the stem?) *)
  Theorem targets_inside_guarded validate chk g :
    build_checked validate chk strop same es ext stem outdir perm types <> None ->
    (if validate then True else stem_valid stem = true) ->
    (forall x, In x (names_of types) -> ident_like (pstrop strop es x)) ->
    (forall t x, In t types -> In x (t_ns t) -> ident_like (strop x)) ->
    valid_ext ext ->
    forall q, In q (T g) ->
      exists rel, q = outdir ++ rel /\ Forall safe_comp rel /\ forall st, resolve st rel = rev rel ++ st.
  Proof.
    intros Hrun G. destruct validate; [apply targets_inside_no_raise with (chk := chk); exact Hrun|].
    apply targets_inside_no_raise with (chk := chk).
    unfold build_checked in *. rewrite G. cbn [negb andb] in *. exact Hrun.
  Qed.

  (* what C12 needs: any injective encoding of paths keeps the targets distinct *)
  Corollary targets_distinct_encoded {P} (enc : path -> P) :
    (forall a b, enc a = enc b -> a = b) -> forall g, NoDup (T g) -> NoDup (map enc (T g)).
  Proof. intros Hi g H. apply NoDup_map_inj_in; [assumption | intros x y _ _; apply Hi]. Qed.
End FS.

(* ---- type file vs. output folder of its namespace when stropping is disabled ------------------------------------------------
   Namespace.__init__ strops the folder unconditionally, _make_ns_list only when enable_stropping: the two coincide exactly
   when stropping leaves the namespace components alone. *)
Theorem type_file_folder_stropping_disabled strop ext stem outdir t :
  stem_valid stem = true ->
  removelast (out_path strop false ext outdir t) = outdir ++ t_ns t /\
  removelast (ns_path strop ext stem outdir (t_ns t)) = outdir ++ map strop (t_ns t) /\
  (removelast (out_path strop false ext outdir t) = removelast (ns_path strop ext stem outdir (t_ns t))
   <-> map strop (t_ns t) = t_ns t).
Proof.
  intros V.
  assert (A : removelast (out_path strop false ext outdir t) = outdir ++ t_ns t).
  { unfold out_path, make_path, pstrop. rewrite map_id, !app_assoc, removelast_last. reflexivity. }
  assert (C : removelast (ns_path strop ext stem outdir (t_ns t)) = outdir ++ map strop (t_ns t)).
  { rewrite (ns_path_valid strop ext stem outdir (t_ns t) V). rewrite !app_assoc, removelast_last. reflexivity. }
  split; [exact A | split; [exact C|]]. rewrite A, C. split.
  - intros E. apply app_inv_head in E. symmetry; exact E.
  - intros E. rewrite E. reflexivity.
Qed.

Lemma type_file_folder_stropping_disabled_witness :
  removelast (out_path w_strop false w_ext w_out w_Q) <> removelast (ns_path w_strop w_ext [95] w_out (t_ns w_Q)).
Proof. vm_compute. discriminate. Qed.

(* ---- a namespace-file stem that equals a type's file stem makes the namespace file and the type file one path ------------ *)
Definition w_T : ty := mkTy [w_ns] [84] 1 0.                        (* ns.T.1.0 *)
Definition w_stem : str := [84; 95; 49; 95; 48].                    (* "T_1_0" *)
Lemma stem_collision_witness :
  In w_T [w_T] /\ In [w_ns] (keys (fst (build same same true w_ext w_out w_id [w_T]))) /\
  ns_path same w_ext w_stem w_out [w_ns] = out_path same true w_ext w_out w_T /\
  c11_targets same true w_ext w_stem w_out true w_id [w_T] = [ns_path same w_ext w_stem w_out [w_ns]; out_path same true w_ext w_out w_T].
Proof. vm_compute. repeat split; left; reflexivity. Qed.

(* ---- the order in which get_nested_namespaces yields the children does not depend on the order `perm` in which the index set
   was iterated when the tree was linked (i.e. not on PYTHONHASHSEED) ----------------------------------------------------------- *)
Theorem children_order_independent_of_linking_order strop es ext outdir perm1 perm2 types r :
  (forall l, Permutation (perm1 l) l) -> (forall l, Permutation (perm2 l) l) ->
  NoDup types -> one_root r types -> types <> [] ->
  forall k n1 n2,
    get (fst (build strop same es ext outdir perm1 types)) k = Some n1 ->
    get (fst (build strop same es ext outdir perm2 types)) k = Some n2 ->
    sort_keys (n_children n1) = sort_keys (n_children n2).
Proof.
  intros P1 P2 Hnd Hr Hne k n1 n2 G1 G2.
  destruct (links_consistent strop es ext outdir perm1 P1 types r Hnd Hr Hne k n1 G1) as (_ & N1 & C1).
  destruct (links_consistent strop es ext outdir perm2 P2 types r Hnd Hr Hne k n2 G2) as (_ & N2 & C2).
  destruct (ns_each_once strop same es ext outdir perm1 P1 types r Hnd Hr Hne) as [_ K1].
  destruct (ns_each_once strop same es ext outdir perm2 P2 types r Hnd Hr Hne) as [_ K2].
  apply sort_keys_set_determined; try assumption.
  intros c. rewrite C1, C2, K1, K2. tauto.
Qed.

Lemma stem_collision_raises_when_checked :
  build_checked true true same same true w_ext w_stem w_out w_id [w_T] = None /\
  build_checked true false same same true w_ext w_stem w_out w_id [w_T] <> None.
Proof. vm_compute. split; [reflexivity | discriminate]. Qed.

(* ---- an unvalidated stem that is not a plain file name: G-C11-1 / F-NS-STEM-PATH --------------------------------------------- *)
Definition w_U : ty := mkTy [w_ns; [97]] [85] 1 0.                       (* ns.a.U.1.0 *)
Definition w_abs_stem : str := [47; 120].                               (* "/x" *)
Definition w_up_stem : str := [46; 46; 47; 46; 46; 47; 46; 46; 47; 101]. (* "../../../e" *)
Lemma stem_path_witness :
  build_checked false true same same true w_ext w_abs_stem w_out w_id [w_T; w_U] <> None /\
  build_checked true true same same true w_ext w_abs_stem w_out w_id [w_T; w_U] = None /\
  build_checked true true same same true w_ext w_up_stem w_out w_id [w_T; w_U] = None /\
  (* absolute stem: both namespace files are the ONE path /x.h, which does not start with the output directory *)
  ns_path same w_ext w_abs_stem w_out [w_ns] = [[47]; [120; 46; 104]] /\
  ns_path same w_ext w_abs_stem w_out [w_ns; [97]] = [[47]; [120; 46; 104]] /\
  In [[47]; [120; 46; 104]] (c11_targets same true w_ext w_abs_stem w_out true w_id [w_T; w_U]) /\
  (* "../../../e": the namespace file of ns resolves to a directory ABOVE the output directory *)
  In (w_out ++ [w_ns; [46; 46]; [46; 46]; [46; 46]; [101; 46; 104]]) (c11_targets same true w_ext w_up_stem w_out true w_id [w_T; w_U]) /\
  resolve (rev w_out) [w_ns; [46; 46]; [46; 46]; [46; 46]; [101; 46; 104]] = [[101; 46; 104]].
Proof. vm_compute. repeat split; try reflexivity; try discriminate; auto. Qed.

(* ---- support files: every support_namespace STRING -------------------------------------------------------------------------- *)
Lemma alnum_not_sep c : is_alnum_us c = true -> c <> 47 /\ c <> 46.
Proof.
  unfold is_alnum_us, is_alpha_us. intros H. split; intros ->; vm_compute in H; discriminate.
Qed.

Lemma ident_comp_facts c : ident_comp c = true -> c <> [] /\ ~ In SLASH c /\ ~ In DOT c.
Proof.
  unfold ident_comp. destruct c as [|x r]; [discriminate|]. intros H. apply andb_prop in H. destruct H as [_ H].
  rewrite forallb_forall in H. split; [discriminate|].
  split; intros X; apply H, alnum_not_sep in X; destruct X as [X1 X2]; [apply X1 | apply X2]; reflexivity.
Qed.

Lemma ident_comp_join cur c : ident_comp c = true -> join_part cur c = cur ++ [c].
Proof.
  intros H. destruct (ident_comp_facts c H) as (Hne & Hs & Hd). unfold join_part.
  assert (Ha : stem_abs c = false).
  { unfold stem_abs. destruct c as [|x r]; [reflexivity|]. destruct (N.eqb_spec x 47) as [->|]; [|reflexivity].
    exfalso. apply Hs. left; reflexivity. }
  rewrite Ha. unfold stem_parts. rewrite (split_on_none 47 c Hs). cbn [filter].
  destruct (str_eqb_spec c []); [contradiction|].
  destruct (str_eqb_spec c [46]) as [->|]; [exfalso; apply Hd; left; reflexivity|]. reflexivity.
Qed.

Lemma support_dir_fold comps : forall cur, forallb ident_comp comps = true -> fold_left join_part comps cur = cur ++ comps.
Proof.
  induction comps as [|c comps IH]; intros cur H; cbn [fold_left]; [rewrite app_nil_r; reflexivity|].
  cbn [forallb] in H. apply andb_prop in H. destruct H as [Hc H].
  rewrite (ident_comp_join cur c Hc), IH by assumption. rewrite <- app_assoc. reflexivity.
Qed.

Theorem support_dir_valid outdir sn : sn_valid sn = true ->
  exists rel, support_dir outdir sn = outdir ++ rel /\ Forall safe_comp rel.
Proof.
  unfold sn_valid, support_dir. intros H. apply orb_prop in H. destruct H as [H|H].
  - destruct (str_eqb_spec sn []) as [E|]; [subst sn|discriminate]. exists []. split; [vm_compute; reflexivity | constructor].
  - exists (split_on 46 sn). split; [apply support_dir_fold; assumption|].
    apply Forall_forall. intros c Hc. rewrite forallb_forall in H. destruct (ident_comp_facts c (H c Hc)) as (A & B & C).
    split; [assumption|]. split; [assumption|]. split; intros ->; apply C; left; reflexivity.
Qed.

(* every support file of a run that does not raise lies below the output directory, for EVERY support_namespace string when
   the code validates it (flag = true); otherwise under the excluded trigger sn_valid *)
Theorem support_targets_inside flag outdir sn sfiles l :
  support_targets flag outdir sn sfiles = Some l ->
  (if flag then True else sn_valid sn = true) ->
  Forall safe_comp sfiles ->
  forall q, In q l -> exists rel, q = outdir ++ rel /\ Forall safe_comp rel /\ forall st, resolve st rel = rev rel ++ st.
Proof.
  unfold support_targets. intros H G Hs q Hq.
  assert (V : sn_valid sn = true).
  { destruct flag; [|exact G]. cbn [andb] in H. destruct (sn_valid sn); [reflexivity | cbn [negb] in H; discriminate]. }
  rewrite V in H. cbn [negb] in H. rewrite andb_false_r in H. injection H as <-.
  apply in_map_iff in Hq. destruct Hq as (f & <- & Hf).
  destruct (support_dir_valid outdir sn V) as (rel & E & F). exists (rel ++ [f]).
  assert (FF : Forall safe_comp (rel ++ [f])).
  { apply Forall_app. split; [assumption|]. constructor; [|constructor]. rewrite Forall_forall in Hs. apply Hs; assumption. }
  split; [rewrite E, <- app_assoc; reflexivity|]. split; [assumption|]. apply resolve_safe; assumption.
Qed.

(* unvalidated code: an absolute support namespace puts the support files outside the output directory: G-C11-2 / F-SUPPORT-NS-PATH *)
Definition w_sn_abs : str := [47; 101; 115; 99].         (* "/esc" *)
Lemma support_ns_witness :
  support_targets false w_out w_sn_abs [[102]] = Some [[[47]; [101; 115; 99]; [102]]] /\
  support_targets true w_out w_sn_abs [[102]] = None /\
  support_targets true w_out [110; 46; 115] [[102]] = Some [w_out ++ [[110]; [115]; [102]]].
Proof. vm_compute. repeat split; reflexivity. Qed.
