(* Syntax shared by the hand model Gen/GenFs.v and the files the translators
   tools/translators/gen_c12.py / gen_c08.py regenerate from /repo on every run
   (Generated/Gen_GenFs.v, Generated/Gen_GenList.v).  Only data types, no semantics. *)
From Verif Require Export Str.
Open Scope N_scope.

(* ---- small file-system programs: the bodies of CodeGenerator._handle_overwrite and
   SetFileMode.__call__ are translated into this language -------------------------- *)
Inductive mexpr :=
| MConst (n : N)            (* integer literal *)
| MStMode                   (* <path>.stat().st_mode (permission bits of the existing file) *)
| MFileMode                 (* self._file_mode *)
| MOr (a b : mexpr).        (* a | b *)

Inductive err :=
| EExists      (* PermissionError raised by _handle_overwrite: file exists, overwriting disallowed *)
| EAccess      (* EACCES from the operating system (open for writing / create denied) *)
| ENoEnt       (* chmod/stat of a missing file *)
| EArgs.       (* rejected by the argument parser before anything runs *)

Inductive result := Ok | Err (e : err).

Inductive fsprog :=
| PSkip
| PSeq (a b : fsprog)
| PIfExists (t e : fsprog)      (* if <path>.exists(): t else: e *)
| PIfAllow (t e : fsprog)       (* if allow_overwrite: t else: e *)
| PChmod (m : mexpr)            (* <path>.chmod(m) *)
| PRaise (e : err).

(* ---- the order of file-system relevant statements in CodeGenerator._generate_code and
   SupportGenerator._copy_header (everything else in those bodies is whitelisted as having
   no effect on the output directory) ------------------------------------------------ *)
Inductive gstep :=
| GHandleOverwrite     (* self._handle_overwrite(path, allow_overwrite) *)
| GMkdirParents        (* path.parent.mkdir(parents=True, exist_ok=True) *)
| GOpenWrite           (* with open(str(path), "w"): write the rendered text (through the line pps) *)
| GCopyOrOpenWrite     (* if len(line_pps) == 0: shutil.copy(resource, path) else: open(path, "w") + line copy *)
| GFilePPs.            (* for file_pp in file_pps: path = file_pp(path) *)

(* ---- command line values ------------------------------------------------------------ *)
Inductive support_mode := SupAlways | SupNever | SupAsNeeded | SupOnly.

Definition support_mode_eqb (a b : support_mode) : bool :=
  match a, b with
  | SupAlways, SupAlways | SupNever, SupNever | SupAsNeeded, SupAsNeeded | SupOnly, SupOnly => true
  | _, _ => false
  end.

Inductive ynd := YndNo | YndYes | YndDefault.      (* nunavut._utilities.YesNoDefault *)

Definition ynd_eqb (a b : ynd) : bool :=
  match a, b with
  | YndNo, YndNo | YndYes, YndYes | YndDefault, YndDefault => true
  | _, _ => false
  end.

(* ---- ArgparseRunner._generate / _list_outputs_only / _list_inputs_only as plans ------ *)
Inductive argname := ArgDryRun | ArgNoOverwrite | ArgOmitSer | ArgEmbedAudit.

Inductive garg :=
| ATrue | AFalse
| ADefault                 (* keyword not passed: the default in generate_all's signature applies *)
| AArg (a : argname)       (* self._args.<a> *)
| ANotArg (a : argname).   (* not self._args.<a> *)

Inductive gen := GenTypes | GenSupport.      (* self._generator | self._support_generator *)

Inductive gatom :=
| GdNotOnly            (* self._args.generate_support != "only" *)
| GdShouldSupport      (* self._should_generate_support() *)
| GdGnt                (* self._generator.generate_namespace_types *)
| GdNotGnt.

Inductive pact :=
| ActGenerateAll (g : gen) (dry allow omit : garg) (listed : bool)
      (* g.generate_all(is_dryrun=dry, allow_overwrite=allow, omit_serialization_support=omit);
         listed: the returned paths go to _stdout_lister *)
| ActListTemplates (g : gen) (omit : garg)     (* _stdout_lister(g.get_templates(omit_serialization_support=omit)) *)
| ActListSources (all_types : bool).           (* source_file_path of get_all_types() | get_all_datatypes() *)

Definition plan := list (list gatom * pact).

Inductive runmode := RListOutputs | RListInputs | RListConfiguration | RGenerate.

(* SupportGenerator.get_templates: which resource classes are enumerated, and which of them
   only when serialization support is not omitted *)
Inductive restype := RtSer | RtType.      (* ResourceType.SERIALIZATION_SUPPORT | TYPE_SUPPORT *)
