(* C09 -- the hand-written handler `handler_und` of Gen/Strop.v is the interpretation (`handler_gen`, regex semantics of
   Common/Regex.v) of the regex parts and the replacement template T1 translates from the source of the C/C++ handlers. *)
From Verif Require Import Strop.
Open Scope N_scope.

Lemma und_mem u c : cls_mem u und_cls c = (c =? 95).
Proof.
  unfold cls_mem, und_cls, in_ranges; cbn.
  destruct (N.eqb_spec c 95) as [->|Hne]; [reflexivity|].
  destruct (N.leb_spec 95 c); destruct (N.leb_spec c 95); cbn; try reflexivity. lia.
Qed.

Lemma upper_mem u c : cls_mem u upper_cls c = is_upper c.
Proof. unfold cls_mem, upper_cls, in_ranges, is_upper; cbn. destruct ((65 <=? c) && (c <=? 90)); reflexivity. Qed.

(* greedy `_*` followed by a continuation that never fails stops exactly where the underscores end *)
Lemma star_und u (A : Type) (k : bool -> str -> option A) :
  (forall at1 s, k at1 s <> None) ->
  forall fuel s, (length s < fuel)%nat -> star_loop (mt u (Cls und_cls)) k fuel false s = k false (drop_und s).
Proof.
  intros Hk; induction fuel as [|f IH]; intros s Hl; [lia|]. cbn [star_loop mt].
  destruct s as [|c s']; [reflexivity|]. rewrite und_mem. cbn [drop_und length] in *.
  destruct (c =? 95); [|reflexivity].
  replace (Nat.ltb (length s') (S (length s'))) with true by (symmetry; apply Nat.ltb_lt; lia).
  rewrite IH by lia. destruct (k false (drop_und s')) eqn:E; [reflexivity|]. exfalso; exact (Hk _ _ E).
Qed.

Lemma bol_cls_star u (A : Type) c a (k : bool -> str -> option A) x s :
  mt u (Seq Bol (Seq (Cls c) (Star a))) k true (x :: s)
  = if cls_mem u c x then star_loop (mt u a) k (S (length s)) false s else None.
Proof. reflexivity. Qed.

Theorem handler_gen_is_und u s :
  handler_gen u model_handler_pre model_handler_grp model_handler_tmpl s = handler_und s.
Proof.
  unfold handler_gen, model_handler_pre, handler_und.
  destruct s as [|c0 s0]; [reflexivity|]. rewrite bol_cls_star, und_mem. destruct (c0 =? 95); [|reflexivity].
  rewrite star_und; [|intros at1 s; unfold model_handler_grp; cbn [mt]; destruct s as [|x r]; [discriminate|];
                      rewrite upper_mem; destruct (is_upper x); discriminate|lia].
  unfold model_handler_grp. cbn [mt]. destruct (drop_und s0) as [|c r]; [reflexivity|].
  rewrite upper_mem. destruct (is_upper c) eqn:Hu.
  - cbn [length]. replace (S (length r) - length r)%nat with 1%nat by lia.
    cbn [firstn model_handler_tmpl flat_map lower map app]. unfold lower_chr. rewrite Hu, app_nil_r. reflexivity.
  - rewrite Nat.sub_diag. cbn [firstn model_handler_tmpl flat_map lower map app]. rewrite app_nil_r. reflexivity.
Qed.
