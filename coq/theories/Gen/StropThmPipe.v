(* C09 -- the hand-written `strop` of Gen/Strop.v is the interpretation of the step list `model_pipeline`;
   Properties/C09.v states that the step list the T1 walker regenerates from the source of TokenEncoder.strop IS that list. *)
From Verif Require Import Strop.
Open Scope N_scope.

Lemma strop_is_pipeline u sp cfg ty tok :
  strop u sp cfg ty tok = run_pipeline u sp cfg (model_pipeline (sc_reverify cfg) (sc_full_check cfg)) ty tok.
Proof.
  unfold strop, run_pipeline. destruct (str_eqb (lower ty) ty_all); [reflexivity|].
  unfold model_pipeline. cbn [app run_steps xf hof].
  destruct (do_for_type_and_all (encode u sp cfg) tok (lower ty) false) as [e| |]; try reflexivity.
  destruct (do_for_type_and_all (strop_by_keyword cfg) e (lower ty) false) as [k| |]; try reflexivity.
  destruct (do_for_type_and_all (strop_by_pattern u cfg) k (lower ty) false) as [p| |]; try reflexivity.
  destruct (checked _ (sc_strop_handler cfg) p) as [s1| |]; try reflexivity.
  destruct (checked _ (sc_strop_handler cfg) s1) as [s2| |]; try reflexivity.
  destruct (checked _ (sc_enc_handler cfg) s2) as [s3| |]; try (destruct (sc_reverify cfg); reflexivity).
  destruct (sc_reverify cfg); cbn [app run_steps xf forallb]; [|reflexivity].
  unfold reverified.
  destruct (dry_ok (do_for_type_and_all (strop_by_pattern u cfg) s3 (lower ty) true));
    destruct (dry_ok (do_for_type_and_all (strop_by_keyword cfg) s3 (lower ty) true));
    destruct (dry_ok (do_for_type_and_all (encode u sp cfg) s3 (lower ty) true));
    destruct (negb (sc_full_check cfg) || full_ok u cfg (lower ty) s3); reflexivity.
Qed.

(* the whole-token loop is one more filter on what the tree without it returns *)
Lemma strop_no_full u sp cfg ty s :
  strop u sp cfg ty s =
  match strop u sp (no_full cfg) ty s with
  | Ok t => if negb (sc_reverify cfg) || negb (sc_full_check cfg) || full_ok u cfg (lower ty) t then Ok t else ErrRuntime
  | e => e
  end.
Proof.
  unfold strop.
  change (encode u sp (no_full cfg)) with (encode u sp cfg).
  change (strop_by_keyword (no_full cfg)) with (strop_by_keyword cfg).
  change (strop_by_pattern u (no_full cfg)) with (strop_by_pattern u cfg).
  change (sc_strop_handler (no_full cfg)) with (sc_strop_handler cfg).
  change (sc_enc_handler (no_full cfg)) with (sc_enc_handler cfg).
  change (sc_reverify (no_full cfg)) with (sc_reverify cfg).
  destruct (str_eqb (lower ty) ty_all); [reflexivity|].
  destruct (do_for_type_and_all (encode u sp cfg) s (lower ty) false) as [e| |]; try reflexivity.
  destruct (do_for_type_and_all (strop_by_keyword cfg) e (lower ty) false) as [k| |]; try reflexivity.
  destruct (do_for_type_and_all (strop_by_pattern u cfg) k (lower ty) false) as [p| |]; try reflexivity.
  destruct (checked _ (sc_strop_handler cfg) p) as [s1| |]; try reflexivity.
  destruct (checked _ (sc_strop_handler cfg) s1) as [s2| |]; try reflexivity.
  destruct (checked _ (sc_enc_handler cfg) s2) as [s3| |]; try reflexivity.
  destruct (sc_reverify cfg); [|reflexivity]. unfold reverified.
  change (encode u sp (no_full cfg)) with (encode u sp cfg).
  change (strop_by_keyword (no_full cfg)) with (strop_by_keyword cfg).
  change (strop_by_pattern u (no_full cfg)) with (strop_by_pattern u cfg).
  change (sc_full_check (no_full cfg)) with false.
  destruct (dry_ok (do_for_type_and_all (strop_by_pattern u cfg) s3 (lower ty) true));
    destruct (dry_ok (do_for_type_and_all (strop_by_keyword cfg) s3 (lower ty) true));
    destruct (dry_ok (do_for_type_and_all (encode u sp cfg) s3 (lower ty) true)); cbn [andb negb orb]; try reflexivity.
Qed.
