(* Model of src/nunavut/_namespace.py (Namespace, _NamespaceFactory, build_namespace_tree,
   get_all_types / get_all_datatypes / get_all_namespaces, find_output_path_for_type,
   get_root_namespace) and of the path map IncludeGenerator.make_path
   (src/nunavut/lang/_common.py) + Language.filter_short_reference_name(id_type="path").
   Executable; proofs live in NamespaceThm.v.  Hand model, tied to the code by the
   correspondence run of tools/checks/c11.py.

   Representation choices (the trusted reading of the code):
   - a namespace is identified by its list of (unstropped) components; the code uses the
     dot-joined string, which is in bijection with the list because DSDL name components
     contain no '.';
   - the heap of Namespace objects is a store `key -> node` in creation order (this IS
     _NamespaceFactory._namespaces, a dict in insertion order); object references
     (_parent, members of _nested_namespaces) are keys into the store;
   - Python sets (namespace_index, Namespace._nested_namespaces) are duplicate-free lists;
     wherever the code iterates over a set the model applies an explicit, arbitrary
     reordering function (`perm`, `cperm`);
   - Namespace.__eq__/__hash__ compare `eqkey` applied to every component (ns_eqb).  Since fix
     f08a0a1 the code compares the unstropped _namespace_components: eqkey = `same` (identity).
     Before that fix it compared the stropped full namespace: eqkey = strop (kept only so that
     the pre-fix defect F-NS-FOLD stays documented by a refutation theorem);
   - unbounded loops through the heap (parent chain, recursion over children, BFS) get a
     fuel computed from the store; NamespaceThm shows the fuel is never exhausted;
   - stropping (C09) is the abstract function `strop`; `es` is the language's
     enable_stropping flag (make_path consults it, Namespace.__init__ does not). *)
From Verif Require Export Str.
From Coq Require Import Decimal.
Open Scope N_scope.

Definition key := list (list N).
Definition path := list (list N).     (* pathlib parts *)

Fixpoint key_eqb (a b : key) : bool :=
  match a, b with
  | [], [] => true
  | x :: a', y :: b' => str_eqb x y && key_eqb a' b'
  | _, _ => false
  end.

(* a composite type as far as naming is concerned: namespace components, short name, version *)
Record ty := mkTy { t_ns : key; t_short : str; t_major : N; t_minor : N }.

Definition ty_eqb (a b : ty) : bool :=
  key_eqb (t_ns a) (t_ns b) && str_eqb (t_short a) (t_short b)
  && (t_major a =? t_major b) && (t_minor a =? t_minor b).

(* ---- decimal rendering of version numbers (Python f"{int}") ------------------------- *)
Fixpoint uint_str (u : Decimal.uint) : str :=
  match u with
  | Decimal.Nil => []
  | Decimal.D0 u => 48 :: uint_str u | Decimal.D1 u => 49 :: uint_str u
  | Decimal.D2 u => 50 :: uint_str u | Decimal.D3 u => 51 :: uint_str u
  | Decimal.D4 u => 52 :: uint_str u | Decimal.D5 u => 53 :: uint_str u
  | Decimal.D6 u => 54 :: uint_str u | Decimal.D7 u => 55 :: uint_str u
  | Decimal.D8 u => 56 :: uint_str u | Decimal.D9 u => 57 :: uint_str u
  end.
Definition dec (n : N) : str := uint_str (N.to_uint n).

Definition DOT : chr := 46.
Definition SLASH : chr := 47.
Definition USCORE : chr := 95.

(* ---- pathlib.PurePath(name).with_suffix(e) for a one-component name ------------------
   suffix: i = name.rfind('.'); name[i:] if 0 < i < len(name)-1 else ''            *)
Fixpoint rfind (c : chr) (s : str) : option nat :=
  match s with
  | [] => None
  | x :: r => match rfind c r with
              | Some i => Some (S i)
              | None => if x =? c then Some O else None
              end
  end.

Definition with_suffix (name e : str) : str :=
  match rfind DOT name with
  | Some i => if (Nat.ltb 0 i && Nat.ltb (S i) (length name))%bool then firstn i name ++ e else name ++ e
  | None => name ++ e
  end.

(* ---- the namespace-file stem as pathlib sees it: `output_folder / PurePath(stem)` -------------------------------------------
   The stem is an ARBITRARY string.  PurePath(stem) splits it at '/', drops empty and "." parts and keeps ".." parts; an
   absolute stem REPLACES the folder (parts start with the root "/").  with_suffix then acts on the last part of the joined
   path.  POSIX only (os.sep = '/', no os.altsep). *)
Fixpoint split_on (c : chr) (s : str) : list str :=          (* s.split(c) *)
  match s with
  | [] => [[]]
  | x :: r => match split_on c r with
              | [] => [[]]
              | h :: t => if x =? c then [] :: h :: t else (x :: h) :: t
              end
  end.
Definition stem_abs (stem : str) : bool := match stem with x :: _ => x =? 47 | [] => false end.
Definition stem_parts (stem : str) : list str :=
  filter (fun c => negb (str_eqb c [] || str_eqb c [46])) (split_on 47 stem).
(* what design_notes/C11_stem_validate_fix.patch (_checked_namespace_file_stem) accepts: a plain file name *)
Definition stem_valid (stem : str) : bool :=
  negb (str_eqb stem []) && negb (str_eqb stem [46]) && negb (str_eqb stem [46; 46]) && negb (existsb (N.eqb 47) stem).

(* the identity on components: the `eqkey` of the current code *)
Definition same (x : str) : str := x.

(* ---- sorted(children, key=lambda n: n._namespace_components): Python compares lists of str lexicographically, str by
   code point, a proper prefix first.  Namespace.get_nested_namespaces (since fix 9b93945). ------------------------------ *)
Fixpoint lex_leb {A} (leb eqb : A -> A -> bool) (a b : list A) : bool :=
  match a, b with
  | [], _ => true
  | _ :: _, [] => false
  | x :: a', y :: b' => if eqb x y then lex_leb leb eqb a' b' else leb x y
  end.
Definition str_leb (a b : str) : bool := lex_leb N.leb N.eqb a b.
Definition key_leb (a b : key) : bool := lex_leb str_leb str_eqb a b.

Fixpoint insert_key (k : key) (l : list key) : list key :=
  match l with
  | [] => [k]
  | x :: r => if key_leb k x then k :: l else x :: insert_key k r
  end.
Fixpoint sort_keys (l : list key) : list key :=
  match l with
  | [] => []
  | k :: r => insert_key k (sort_keys r)
  end.

(* ---- heap of Namespace objects ---------------------------------------------------------- *)
Record node := mkNode {
  n_types : list (ty * path);      (* _data_type_to_outputs, insertion order *)
  n_children : list key;           (* _nested_namespaces *)
  n_parent : option key            (* _parent *)
}.
Definition store := list (key * node).
Definition new_node : node := mkNode [] [] None.

Fixpoint get (s : store) (k : key) : option node :=
  match s with
  | [] => None
  | (k', n) :: r => if key_eqb k' k then Some n else get r k
  end.

Fixpoint upd (s : store) (k : key) (f : node -> node) : store :=
  match s with
  | [] => []
  | (k', n) :: r => if key_eqb k' k then (k', f n) :: r else (k', n) :: upd r k f
  end.

Definition keys (s : store) : list key := map fst s.

(* _NamespaceFactory.get_or_make_namespace *)
Definition get_or_make (s : store) (k : key) : store * bool :=
  match get s k with
  | Some _ => (s, true)
  | None => (s ++ [(k, new_node)], false)
  end.

Definition mem (k : key) (l : list key) : bool := existsb (key_eqb k) l.

(* dict[t] = p  /  dict[t] *)
Fixpoint dict_set (d : list (ty * path)) (t : ty) (p : path) : list (ty * path) :=
  match d with
  | [] => [(t, p)]
  | (t', p') :: r => if ty_eqb t' t then (t', p) :: r else (t', p') :: dict_set r t p
  end.
Fixpoint dict_get (d : list (ty * path)) (t : ty) : option path :=
  match d with
  | [] => None
  | (t', p') :: r => if ty_eqb t' t then Some p' else dict_get r t
  end.

(* the ancestor loop:  for i in range(len(name_components) - 1, 0, -1):
                           ancestor_ns = ".".join(name_components[0:i])
                           if ancestor_ns in namespace_index: break
                           namespace_index.add(ancestor_ns)
   name_components = ns ++ [short], hence name_components[0:i] = firstn i ns for i <= |ns| *)
Fixpoint add_ancestors (i : nat) (ns : key) (idx : list key) : list key :=
  match i with
  | O => idx
  | S i' => let a := firstn i ns in
            if mem a idx then idx (* break *) else add_ancestors i' ns (idx ++ [a])
  end.

Inductive item := INs (k : key) (p : path) | ITy (t : ty) (p : path).

Section NS.
  Variable strop : str -> str.      (* Language.filter_id(x, "path") *)
  Variable eqkey : str -> str.      (* what Namespace.__eq__/__hash__ look at per component: `same` in the current code *)
  Variable es : bool.               (* Language.enable_stropping *)
  Variable ext : str.               (* Language.WKCV_DEFINITION_FILE_EXTENSION *)
  Variable stem : str.              (* Language.WKCV_NAMESPACE_FILE_STEM, default "_" *)
  Variable outdir : path.           (* pathlib.PurePath(output_dir).parts *)

  Definition pstrop (x : str) : str := if es then strop x else x.

  (* f"{short}_{major}_{minor}" *)
  Definition base_name (t : ty) : str :=
    t_short t ++ USCORE :: dec (t_major t) ++ USCORE :: dec (t_minor t).

  (* IncludeGenerator.make_path(dt, language, extension) : relative path of a type's file *)
  Definition make_path (t : ty) : path :=
    map pstrop (t_ns t) ++ [with_suffix (pstrop (base_name t)) ext].

  (* Namespace._add_data_type: pathlib.Path(base_output_path) / make_path(...) *)
  Definition out_path (t : ty) : path := outdir ++ make_path t.

  (* the include path of a type referenced from anywhere (generate_include_filepart_list) *)
  Definition include_path (t : ty) : path := make_path t.

  (* Namespace.__init__: _output_path = (output_folder / PurePath(stem)).with_suffix(ext); for a plain file name `stem` this is
     outdir ++ map strop k ++ [with_suffix stem ext] (NamespacePathThm.ns_path_valid) *)
  Definition with_suffix_last (p : path) (e : str) : path :=
    match List.rev p with [] => [] | n :: r => List.rev r ++ [with_suffix n e] end.
  Definition ns_path (k : key) : path :=
    with_suffix_last ((if stem_abs stem then [[SLASH]] else outdir ++ map strop k) ++ stem_parts stem) ext.

  (* Namespace.__eq__:  self._namespace_components == other._namespace_components  (eqkey = same) *)
  Definition ns_eqb (a b : key) : bool := key_eqb (map eqkey a) (map eqkey b).

  Definition set_add (l : list key) (k : key) : list key :=
    if existsb (ns_eqb k) l then l else l ++ [k].

  Definition add_data_type (s : store) (k : key) (t : ty) : store :=
    upd s k (fun n => mkNode (dict_set (n_types n) t (out_path t)) (n_children n) (n_parent n)).

  (* parent._add_nested_namespace(namespace) *)
  Definition add_nested (s : store) (pk k : key) : store :=
    upd (upd s pk (fun n => mkNode (n_types n) (set_add (n_children n) k) (n_parent n)))
        k (fun n => mkNode (n_types n) (n_children n) (Some pk)).

  (* body of `for dsdl_type in types` *)
  Definition step_type (st : store * list key) (t : ty) : store * list key :=
    let '(s, idx) := st in
    let '(s1, did_exist) := get_or_make s (t_ns t) in
    let idx1 := if did_exist then idx else add_ancestors (length (t_ns t)) (t_ns t) idx in
    (add_data_type s1 (t_ns t) t, idx1).

  (* body of `for full_namespace in namespace_index` *)
  Definition link_step (s : store) (k : key) : store :=
    let '(s1, _) := get_or_make s k in
    match removelast k with
    | [] => s1
    | pk => let '(s2, _) := get_or_make s1 pk in add_nested s2 pk k
    end.

  Definition depth_fuel (s : store) : nat := S (list_max (map (fun kn => length (fst kn)) s)).

  (* Namespace.get_root_namespace *)
  Fixpoint climb (fuel : nat) (s : store) (k : key) : key :=
    match fuel with
    | O => k
    | S f => match get s k with
             | Some n => match n_parent n with Some p => climb f s p | None => k end
             | None => k
             end
    end.
  Definition get_root_namespace (s : store) (k : key) : key := climb (depth_fuel s) s k.

  Section Orders.
    Variable perm : list key -> list key.    (* iteration order of namespace_index *)
    Variable cperm : list key -> list key.   (* Namespace.get_nested_namespaces: order in which the children are visited.
                                                Since fix 9b93945 the code is cperm = sort_keys (name order); before, the
                                                raw set order (arbitrary).  The theorems hold for every permutation. *)

    Definition build_index (types : list ty) : store * list key :=
      fold_left step_type types ([], []).

    (* build_namespace_tree: (heap, root) *)
    Definition build (types : list ty) : store * key :=
      let '(s, idx) := build_index types in
      let s' := fold_left link_step (perm idx) s in
      match s' with
      | [] => (fst (get_or_make s' [[]]), [[]])          (* get_empty_namespace: "".split(".") *)
      | (k, _) :: _ => (s', get_root_namespace s' k)
      end.

    (* _recursive_data_type_and_namespace_generator / _recursive_data_type_generator /
       _recursive_namespace_generator *)
    Fixpoint gen_all (fuel : nat) (s : store) (k : key) : list item :=
      match fuel with
      | O => []
      | S f => match get s k with
               | None => []
               | Some n => INs k (ns_path k) :: map (fun tp => ITy (fst tp) (snd tp)) (n_types n)
                           ++ flat_map (gen_all f s) (cperm (n_children n))
               end
      end.
    Fixpoint gen_datatypes (fuel : nat) (s : store) (k : key) : list (ty * path) :=
      match fuel with
      | O => []
      | S f => match get s k with
               | None => []
               | Some n => n_types n ++ flat_map (gen_datatypes f s) (cperm (n_children n))
               end
      end.
    Fixpoint gen_namespaces (fuel : nat) (s : store) (k : key) : list (key * path) :=
      match fuel with
      | O => []
      | S f => match get s k with
               | None => []
               | Some n => (k, ns_path k) :: flat_map (gen_namespaces f s) (cperm (n_children n))
               end
      end.
    Definition get_all_types (s : store) (k : key) := gen_all (depth_fuel s) s k.
    Definition get_all_datatypes (s : store) (k : key) := gen_datatypes (depth_fuel s) s k.
    Definition get_all_namespaces (s : store) (k : key) := gen_namespaces (depth_fuel s) s k.

    (* _bfs_search_for_output_path; the deque is a list with the oldest element first
       (appendleft = append at the end, pop = take the head) *)
    Fixpoint bfs (fuel : nat) (s : store) (queue : list key) (skip : key) (t : ty) : option path :=
      match fuel with
      | O => None
      | S f =>
          match queue with
          | [] => None                                   (* raise KeyError *)
          | k :: q =>
              match get s k with
              | None => None
              | Some n =>
                  let cont := bfs f s (q ++ cperm (n_children n)) skip t in
                  if ns_eqb k skip then cont
                  else match dict_get (n_types n) t with Some p => Some p | None => cont end
              end
          end
      end.

    (* Namespace.find_output_path_for_type for a composite type *)
    Definition find_output_path (s : store) (self : key) (t : ty) : option path :=
      match get s self with
      | None => None
      | Some n =>
          match dict_get (n_types n) t with
          | Some p => Some p
          | None => bfs (S (length s)) s [get_root_namespace s self] self t
          end
      end.

    (* DSDLCodeGenerator.filter_type_to_include_path(value, resolve=False):
       include_path.relative_to(root.output_folder.parent), root.output_folder.parent = outdir *)
    Definition relative_to_outdir (p : path) : path := skipn (length outdir) p.
  End Orders.
End NS.

(* ---- the stem check (design_notes/C11_stem_collide_fix.patch): _NamespaceFactory.check_namespace_files_are_not_type_files,
   called by build_namespace_tree before it returns, raises ValueError when the output path of a namespace (any Namespace object
   of the factory) is the output path of a data type.  `stem_check` says whether the code under test HAS that check; it is a
   regenerated fact (Generated/Gen_Pin_c11tree.v: pin_c11tree_stem_check, which of the two pinned shapes /repo has). -------- *)
Definition stem_collides (strop : str -> str) (es : bool) (ext stem : str) (outdir : path) (s : store) (types : list ty) : bool :=
  existsb (fun k => existsb (fun t => key_eqb (ns_path strop ext stem outdir k) (out_path strop es ext outdir t)) types) (keys s).

(* build_namespace_tree as a partial function: None = raises ValueError (nothing has been written at that point).
   stem_validate: does Namespace.__init__ validate the stem (design_notes/C11_stem_validate_fix.patch)?  Regenerated fact
   pin_c11path_stem_validated (Generated/Gen_Pin_c11path.v). *)
Definition build_checked (stem_validate stem_check : bool) (strop eqkey : str -> str) (es : bool) (ext stem : str) (outdir : path)
           (perm : list key -> list key) (types : list ty) : option (store * key) :=
  let b := build strop eqkey es ext outdir perm types in
  if stem_validate && negb (stem_valid stem) then None                      (* Namespace.__init__ -> _checked_namespace_file_stem *)
  else if stem_check && stem_collides strop es ext stem outdir (fst b) types then None else Some b.

(* ---- support files ---------------------------------------------------------------------------------------------------------
   SupportGenerator.__init__: _sub_folders = Path("") / Path(part) for part in target_language.support_namespace
   (= configured string .split("."));  generate_all: target_path = Path(support_output_folder) / _sub_folders, one file
   target_path / <resource name> per support resource.  Joining an absolute part REPLACES what came before.
   sn_valid = what design_notes/C11_support_namespace_fix.patch (_checked_support_namespace) accepts: "" or identifiers. *)
Definition is_alpha_us (c : chr) : bool := ((65 <=? c) && (c <=? 90)) || ((97 <=? c) && (c <=? 122)) || (c =? 95).
Definition is_alnum_us (c : chr) : bool := is_alpha_us c || ((48 <=? c) && (c <=? 57)).
Definition ident_comp (c : str) : bool :=
  match c with [] => false | x :: _ => is_alpha_us x && forallb is_alnum_us c end.
Definition sn_valid (sn : str) : bool := str_eqb sn [] || forallb ident_comp (split_on 46 sn).
Definition join_part (cur : path) (part : str) : path :=
  if stem_abs part then [[47]] ++ stem_parts part else cur ++ stem_parts part.
Definition support_dir (outdir : path) (sn : str) : path := fold_left join_part (split_on 46 sn) outdir.
(* None = Language.support_namespace raises ValueError (when the code validates: sn_validate, regenerated fact
   pin_c11support_ns_validated); sfiles = the file names of the support resources *)
Definition support_targets (sn_validate : bool) (outdir : path) (sn : str) (sfiles : list str) : option (list path) :=
  if sn_validate && negb (sn_valid sn) then None else Some (map (fun f => support_dir outdir sn ++ [f]) sfiles).

(* ---- the files a generation run writes --------------------------------------------------------------------------------
   DSDLCodeGenerator.generate_all (jinja/__init__.py): provider = namespace.get_all_types if generate_namespace_types else
   namespace.get_all_datatypes; one file is written per yielded (type, output path), at that path.  `c11_targets` is that
   list of paths in generation order, for the current code (eqkey = same, children visited by sort_keys). *)
Definition item_path (i : item) : path := match i with INs _ p => p | ITy _ p => p end.

Definition c11_targets (strop : str -> str) (es : bool) (ext stem : str) (outdir : path)
           (generate_namespace_types : bool) (perm : list key -> list key) (types : list ty) : list path :=
  let b := build strop same es ext outdir perm types in
  if generate_namespace_types
  then map item_path (get_all_types strop ext stem outdir sort_keys (fst b) (snd b))
  else map snd (get_all_datatypes sort_keys (fst b) (snd b)).
