(* C06 -- the closure model instantiated with the tables regenerated from /repo (Generated/Gen_Closure.v) and with
   C09's stropping model (StropInst.v).  Executable part only. *)
From Verif Require Export Closure Gen_Closure StropInst.
Open Scope N_scope.

(* Language.filter_id(tok, id_type).  The second arm is unreachable for every non-empty token and every id type other than
   "all" (C09's totality theorem; see ClosureInstThm.sid_of_ok): it only exists because Gallina functions are total. *)
Definition sid_of (l : lang) (ty tok : str) : str :=
  match strop_lang l ty tok with Ok t => t | _ => [] end.

Definition s_make_path : str := [109; 97; 107; 101; 95; 112; 97; 116; 104].
Definition s_unknown : str := [63].

(* id types (short name, namespace list) used by the path function a call site names; only make_path is known *)
Definition idt_of_callee (callee : str) : str * str :=
  if str_eqb callee s_make_path then (mp_short_idtype, mp_ns_idtype) else (s_unknown, s_unknown).

(* an expression yields the language's configured extension iff it is `language.extension` (whose body reads the config key
   WKCV_DEFINITION_FILE_EXTENSION of the language's section) or reads that key of the target language directly; anything else: "?" *)
Definition s_lang_ext : str := [108;97;110;103;117;97;103;101;46;101;120;116;101;110;115;105;111;110].   (* language.extension *)
Definition s_key_tail : str := [87;75;67;86;95;68;69;70;73;78;73;84;73;79;78;95;70;73;76;69;95;69;88;84;69;78;83;73;79;78;41]. (* WKCV_DEFINITION_FILE_EXTENSION) *)
Definition ends_with (pat s : str) : bool := str_eqb (skipn (length s - length pat) s) pat.
Definition ext_by_source (src ext : str) : str :=
  if (str_eqb src s_lang_ext && ends_with s_key_tail language_extension_body) || ends_with s_key_tail src then ext else [63].
Definition is_py (l : lang) : bool := match l with LPy => true | _ => false end.
Definition is_cpp (l : lang) : bool := match l with LCpp => true | _ => false end.

Definition flags_of (d : deps) : flag -> bool := get_flag d.

Definition mk_cfg (l : lang) (stropping : bool) (ext : str) (sns files : list str) (prefer : bool) (std : deps -> list str)
           (stem_ default_idt : str) (tmpl_inc : bool -> list str) (has_ns : bool) : lang_cfg :=
  {| lc_sid := sid_of l; lc_stropping := stropping; lc_ext := ext_by_source (if is_py l then c_inc_ext_source else if is_cpp l then cpp_inc_ext_source else c_inc_ext_source) ext;
     lc_out_ext := ext_by_source out_ext_source ext;
     lc_inc_short_idt := fst (idt_of_callee inc_path_callee); lc_inc_ns_idt := snd (idt_of_callee inc_path_callee);
     lc_out_short_idt := fst (idt_of_callee out_path_callee); lc_out_ns_idt := snd (idt_of_callee out_path_callee);
     lc_dir_idt := ns_dir_idtype; lc_support_ns := sns; lc_support_files := files; lc_prefer_system := prefer;
     lc_std := std; lc_ns_stem := stem_; lc_default_idt := default_idt;
     lc_tmpl_inc := tmpl_inc; lc_has_ns_files := has_ns |}.

Definition c_cfg : lang_cfg :=
  mk_cfg LC c_stropping c_ext c_support_ns c_support_files c_prefer_system
         (fun d => table_includes c_get_includes (flags_of d) c_std_types false) c_ns_stem c_default_idtype
         (lit_includes c_tmpl_includes) c_has_ns_files.

Fixpoint assoc {A} (k : str) (l : list (str * A)) : option A :=
  match l with [] => None | (k', v) :: r => if str_eqb k k' then Some v else assoc k r end.

(* std = the --language-standard string; has_variant = standard_version >= 17 *)
Definition cpp_cfg (std : str) (has_variant : bool) : lang_cfg :=
  let oi := match assoc std cpp_option_includes with Some p => p | None => ([], []) end in
  mk_cfg LCpp cpp_stropping cpp_ext cpp_support_ns cpp_support_files cpp_prefer_system
         (fun d => table_includes cpp_get_includes (flags_of d) cpp_std_types has_variant ++ cpp_tail (fst oi) (snd oi) (flags_of d))
         cpp_ns_stem cpp_default_idtype (lit_includes cpp_tmpl_includes) cpp_has_ns_files.

Definition py_cfg : lang_cfg :=
  mk_cfg LPy py_stropping py_ext py_support_ns py_support_files py_prefer_system (fun _ => []) py_ns_stem py_default_idtype
         (fun _ => []) py_has_ns_files.

Definition tail_c : str := [95; 73; 78; 67; 76; 85; 68; 69; 68; 95].                       (* _INCLUDED_ *)
Definition tail_cpp : str := [95; 72; 80; 80; 95; 73; 78; 67; 76; 85; 68; 69; 68].         (* _HPP_INCLUDED *)

(* the include guard both base.j2 templates emit: ln.c.macrofy is the C language's filter in BOTH (ln.c.), so C stropping *)
Definition guard_c (t : tyid) : str := guard (sid_of LC) c_stropping tail_c t.
Definition guard_cpp (t : tyid) : str := guard (sid_of LC) c_stropping tail_cpp t.

Definition open_ns_cpp (ns : list str) : list tok := open_namespace (sid_of LCpp) cpp_stropping cpp_default_idtype ns.
Definition close_ns_cpp (ns : list str) : list tok := close_namespace (sid_of LCpp) cpp_stropping cpp_default_idtype ns.

(* ---- std_includes_cover instantiated with the regenerated tables ---- *)
Definition c_cov (e : feat) : bool :=
  c_covered c_get_includes c_support_includes c_tmpl_includes c_tmpl_std_names c_filter_names c_declares c_std_types e.

(* the generated C headers are self-sufficient without the support header iff base.j2 itself includes what the definitions use
   and does not assert against macros only the support header defines; decided on the regenerated tables *)
Definition bools : list bool := [true; false].
Definition all_feats (pod : bool) : list feat :=
  flat_map (fun a => flat_map (fun b => flat_map (fun c => flat_map (fun d => flat_map (fun e_ => flat_map (fun f => flat_map (fun g =>
  flat_map (fun h => flat_map (fun i => flat_map (fun j => flat_map (fun k => map (fun m =>
    {| f_int := a; f_float := b; f_vla := c; f_arr := d; f_boolarr := e_; f_bool := f; f_primarr := g; f_union := h; f_pod := pod;
       f_empty := i; f_boolvla := j; f_any_union := k; f_omit_float := m |}) bools) bools) bools) bools) bools) bools) bools) bools) bools)
    bools) bools) bools.
Definition c_pod_selfsufficient : bool :=
  forallb (fun e => c_float_trigger e || c_cov e) (all_feats true).

(* Python: modules the type template imports literally, and those of them the interpreter / third parties provide *)
Definition py_external : list str :=
  [[95;95;102;117;116;117;114;101;95;95] (* __future__ *); [110;117;109;112;121] (* numpy *);
   [110;117;109;112;121;46;116;121;112;105;110;103] (* numpy.typing *); [112;121;100;115;100;108] (* pydsdl *);
   [119;97;114;110;105;110;103;115] (* warnings *)].
Definition generated_support (l : lang_cfg) (omit : bool) : list str := if omit then [] else support_outputs l.
Definition module_file (l : lang_cfg) (m : str) : str := m ++ lc_ext l.

