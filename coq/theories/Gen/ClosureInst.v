(* C06 -- the closure model instantiated with the tables regenerated from /repo (Generated/Gen_Closure.v) and with
   C09's stropping model (StropInst.v).  Executable part only. *)
From Verif Require Export Closure Gen_Closure StropInst.
Open Scope N_scope.

(* Language.filter_id(tok, id_type); a stropping error (RuntimeError) is made visible as "!"+tok *)
Definition sid_of (l : lang) (ty tok : str) : str :=
  match strop_lang l ty tok with Ok t => t | _ => 33 :: tok end.

Definition s_make_path : str := [109; 97; 107; 101; 95; 112; 97; 116; 104].
Definition s_unknown : str := [63].

(* id types (short name, namespace list) used by the path function a call site names; only make_path is known *)
Definition idt_of_callee (callee : str) : str * str :=
  if str_eqb callee s_make_path then (mp_short_idtype, mp_ns_idtype) else (s_unknown, s_unknown).

Definition flags_of (d : deps) : flag -> bool := get_flag d.

Definition mk_cfg (l : lang) (stropping : bool) (ext : str) (sns files : list str) (prefer : bool) (std : deps -> list str)
           (stem_ default_idt : str) : lang_cfg :=
  {| lc_sid := sid_of l; lc_stropping := stropping; lc_ext := ext;
     lc_inc_short_idt := fst (idt_of_callee inc_path_callee); lc_inc_ns_idt := snd (idt_of_callee inc_path_callee);
     lc_out_short_idt := fst (idt_of_callee out_path_callee); lc_out_ns_idt := snd (idt_of_callee out_path_callee);
     lc_dir_idt := ns_dir_idtype; lc_support_ns := sns; lc_support_files := files; lc_prefer_system := prefer;
     lc_std := std; lc_ns_stem := stem_; lc_default_idt := default_idt |}.

Definition c_cfg : lang_cfg :=
  mk_cfg LC c_stropping c_ext c_support_ns c_support_files c_prefer_system
         (fun d => table_includes c_get_includes (flags_of d) c_std_types false) c_ns_stem c_default_idtype.

Fixpoint assoc {A} (k : str) (l : list (str * A)) : option A :=
  match l with [] => None | (k', v) :: r => if str_eqb k k' then Some v else assoc k r end.

(* std = the --language-standard string; has_variant = standard_version >= 17 *)
Definition cpp_cfg (std : str) (has_variant : bool) : lang_cfg :=
  let oi := match assoc std cpp_option_includes with Some p => p | None => ([], []) end in
  mk_cfg LCpp cpp_stropping cpp_ext cpp_support_ns cpp_support_files cpp_prefer_system
         (fun d => table_includes cpp_get_includes (flags_of d) cpp_std_types has_variant ++ cpp_tail (fst oi) (snd oi) (flags_of d))
         cpp_ns_stem cpp_default_idtype.

Definition py_cfg : lang_cfg :=
  mk_cfg LPy py_stropping py_ext py_support_ns py_support_files py_prefer_system (fun _ => []) py_ns_stem py_default_idtype.

Definition tail_c : str := [95; 73; 78; 67; 76; 85; 68; 69; 68; 95].                       (* _INCLUDED_ *)
Definition tail_cpp : str := [95; 72; 80; 80; 95; 73; 78; 67; 76; 85; 68; 69; 68].         (* _HPP_INCLUDED *)

(* the include guard both base.j2 templates emit: ln.c.macrofy is the C language's filter in BOTH (ln.c.), so C stropping *)
Definition guard_c (t : tyid) : str := guard (sid_of LC) c_stropping tail_c t.
Definition guard_cpp (t : tyid) : str := guard (sid_of LC) c_stropping tail_cpp t.

Definition open_ns_cpp (ns : list str) : list tok := open_namespace (sid_of LCpp) cpp_stropping cpp_default_idtype ns.
Definition close_ns_cpp (ns : list str) : list tok := close_namespace (sid_of LCpp) cpp_stropping cpp_default_idtype ns.
