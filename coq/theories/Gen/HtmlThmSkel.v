(* C20 -- soundness of the skeleton checker. *)
From Verif Require Import HtmlModel HtmlThm HtmlThmTree HtmlSkel.
Open Scope N_scope.

Lemma bal_p_extend ps : forall stk stk' base, bal_p stk ps = Some stk' -> bal_p (stk ++ base) ps = Some (stk' ++ base).
Proof.
  induction ps as [|p ps IH]; intros stk stk' base H.
  - cbn in *. injection H as ->. reflexivity.
  - destruct p as [n at_|n|t]; cbn [bal_p] in *.
    + destruct (str_in n void_elements); [apply IH, H|]. apply (IH (n :: stk) stk' base H).
    + destruct stk as [|m stk0]; [discriminate|]. cbn [app]. destruct (str_eqb n m); [apply IH, H|discriminate].
    + apply IH, H.
Qed.

Lemma closed_is_frag ps : bal_p [] ps = Some [] -> balanced_frag ps.
Proof. intros H stk. exact (bal_p_extend ps [] [] stk H). Qed.

Lemma is_empty_stack_eq o : is_empty_stack o = true -> o = Some [].
Proof. destruct o as [[|x l]|]; cbn; intros H; try discriminate. reflexivity. Qed.

Lemma alts_chk_in tbl a : alts_chk tbl a = true -> forall b, alt_in b a -> sk_chk tbl [] b = Some [].
Proof.
  induction a as [|b' r IH]; intros H b Hin; [destruct Hin|]. cbn [alts_chk] in H. apply andb_prop in H as [Hb Hr].
  destruct Hin as [->|Hin]; [apply is_empty_stack_eq, Hb|apply (IH Hr b Hin)].
Qed.

Lemma table_lookup_balanced tbl key b : table_balanced tbl = true -> sk_lookup tbl key = Some b -> sk_chk tbl [] b = Some [].
Proof.
  unfold table_balanced. intros H. assert (G : forall t, forallb (fun e => skeleton_balanced tbl (snd e)) t = true ->
    sk_lookup t key = Some b -> sk_chk tbl [] b = Some []).
  { induction t as [|[k' b'] t IH]; intros Ht Hl; [discriminate|]. cbn [forallb snd] in Ht. apply andb_prop in Ht as [Hb Ht].
    cbn [sk_lookup] in Hl. destruct (str_eqb key k'); [injection Hl as <-; apply is_empty_stack_eq, Hb|apply (IH Ht Hl)]. }
  apply G, H.
Qed.

Lemma sk_chk_cons tbl stk k r :
  sk_chk tbl stk (SCons k r) =
  match k with
  | KOpen n => if str_in n void_elements then None else sk_chk tbl (n :: stk) r
  | KClose n => match stk with
                | m :: stk' => if str_eqb n m then sk_chk tbl stk' r else None
                | [] => None
                end
  | KVoid n => if str_in n void_elements then sk_chk tbl stk r else None
  | KText => sk_chk tbl stk r
  | KSite _ => sk_chk tbl stk r
  | KIf a => if alts_chk tbl a then sk_chk tbl stk r else None
  | KFor b => if is_empty_stack (sk_chk tbl [] b) then sk_chk tbl stk r else None
  | KCall key => match sk_lookup tbl key with Some _ => sk_chk tbl stk r | None => None end
  end.
Proof. reflexivity. Qed.

(* soundness: if every skeleton of the table passes the checker, every expansion of a checked skeleton obeys the stack
   discipline the checker computed *)
Theorem sk_chk_sound tbl : table_balanced tbl = true ->
  forall s ps, expands tbl s ps -> forall stk stk', sk_chk tbl stk s = Some stk' -> bal_p stk ps = Some stk'.
Proof.
  intros Ht s ps E.
  induction E as [ | n at_ r ps E IH | n r ps E IH | n at_ r ps E IH | t r ps E IH | r ps E IH | i q r ps Hq E IH
                 | a b pb r ps Hin Eb IHb Er IHr | b r ps E IH | b pb r ps Eb IHb Er IHr | key b pb r ps Hl Eb IHb Er IHr ];
    intros stk stk' Hc; try rewrite sk_chk_cons in Hc.
  - cbn in Hc. injection Hc as ->. reflexivity.
  - cbn [bal_p]. destruct (str_in n void_elements); [discriminate|]. apply IH, Hc.
  - cbn [bal_p]. destruct stk as [|m stk0]; [discriminate|]. destruct (str_eqb n m); [apply IH, Hc|discriminate].
  - cbn [bal_p]. destruct (str_in n void_elements); [apply IH, Hc|discriminate].
  - cbn [bal_p]. apply IH, Hc.
  - apply IH, Hc.
  - rewrite bal_p_app, (Hq stk). apply IH, Hc.
  - destruct (alts_chk tbl a) eqn:Ea; [|discriminate Hc].
    rewrite bal_p_app. rewrite (closed_is_frag pb (IHb [] [] (alts_chk_in tbl a Ea b Hin)) stk). apply IHr, Hc.
  - destruct (is_empty_stack (sk_chk tbl [] b)); [apply IH, Hc|discriminate].
  - destruct (is_empty_stack (sk_chk tbl [] b)) eqn:Ee; [|discriminate Hc].
    rewrite bal_p_app. rewrite (closed_is_frag pb (IHb [] [] (is_empty_stack_eq _ Ee)) stk).
    apply IHr. rewrite sk_chk_cons, Ee. exact Hc.
  - rewrite Hl in Hc. rewrite bal_p_app.
    rewrite (closed_is_frag pb (IHb [] [] (table_lookup_balanced tbl key b Ht Hl)) stk). apply IHr, Hc.
Qed.

Theorem skeleton_balanced_sound tbl s : table_balanced tbl = true -> skeleton_balanced tbl s = true ->
  forall ps, expands tbl s ps -> wf_pieces ps = true /\ balanced_frag ps.
Proof.
  intros Ht Hs ps E. pose proof (sk_chk_sound tbl Ht s ps E [] [] (is_empty_stack_eq _ Hs)) as H.
  split; [unfold wf_pieces; rewrite H; reflexivity|apply closed_is_frag, H].
Qed.

(* the regenerated templates *)
Theorem html_templates_balanced : table_balanced html_skeletons = true.
Proof. vm_compute. reflexivity. Qed.

Theorem html_sinks_escaped : all_dsdl_text_sinks_escaped = true.
Proof. vm_compute. reflexivity. Qed.

(* the recursion / inlining structure of the real templates is the one the hand-mirrored emitter has *)
Theorem html_inlining_structure : html_call_guards = expected_call_guards.
Proof. vm_compute. reflexivity. Qed.

(* pages: every expansion of an entry template (Namespace.j2, StructureType.j2, ...) is balanced; rendered to characters and
   scanned it is a well-formed token stream as soon as the inserted values cannot open markup *)
Theorem html_page_wf key s ps :
  sk_lookup html_skeletons key = Some s -> expands html_skeletons s ps ->
  balanced_frag ps /\ (pieces_ok ps = true -> wf_tokens (scan None (render ps)) = true).
Proof.
  intros Hl E.
  pose proof (table_lookup_balanced _ _ _ html_templates_balanced Hl) as Hc.
  assert (Hs : skeleton_balanced html_skeletons s = true) by (unfold skeleton_balanced; rewrite Hc; reflexivity).
  destruct (skeleton_balanced_sound _ s html_templates_balanced Hs ps E) as [_ F]. split; [exact F|].
  intros Hok. unfold wf_tokens. pose proof (scan_render _ Hok [] []) as Eq. rewrite app_nil_r in Eq. rewrite Eq, (F []). reflexivity.
Qed.

(* the hand-mirrored emitter produces balanced fragments, i.e. admissible contents of output sites / instances of calls *)
Lemma escaped_site_is_text s : balanced_frag [PText (markupsafe_escape s)] /\ text_ok (markupsafe_escape s) = true.
Proof.
  split; [apply frag_text|]. apply quote_free_text_ok.
  pose proof (escape_no_markup_ms s) as H. unfold no_markup in H. apply andb_prop in H as [H _]. exact H.
Qed.
