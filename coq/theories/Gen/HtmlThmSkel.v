(* C20 -- soundness of the skeleton checker. *)
From Verif Require Import HtmlModel HtmlThm HtmlThmTree HtmlSkel.
Open Scope N_scope.

Lemma bal_p_extend ps : forall stk stk' base, bal_p stk ps = Some stk' -> bal_p (stk ++ base) ps = Some (stk' ++ base).
Proof.
  induction ps as [|p ps IH]; intros stk stk' base H.
  - cbn in *. injection H as ->. reflexivity.
  - destruct p as [n at_|n|t]; cbn [bal_p] in *.
    + destruct (str_in n void_elements); [apply IH, H|]. apply (IH (n :: stk) stk' base H).
    + destruct stk as [|m stk0]; [discriminate|]. cbn [app]. destruct (str_eqb n m); [apply IH, H|discriminate].
    + apply IH, H.
Qed.

Lemma closed_is_frag ps : bal_p [] ps = Some [] -> balanced_frag ps.
Proof. intros H stk. exact (bal_p_extend ps [] [] stk H). Qed.

Lemma is_empty_stack_eq o : is_empty_stack o = true -> o = Some [].
Proof. destruct o as [[|x l]|]; cbn; intros H; try discriminate. reflexivity. Qed.

Lemma alts_chk_in tbl a : alts_chk tbl a = true -> forall b, alt_in b a -> sk_chk tbl [] b = Some [].
Proof.
  induction a as [|b' r IH]; intros H b Hin; [destruct Hin|]. cbn [alts_chk] in H. apply andb_prop in H as [Hb Hr].
  destruct Hin as [->|Hin]; [apply is_empty_stack_eq, Hb|apply (IH Hr b Hin)].
Qed.

Lemma table_lookup_balanced tbl key b : table_balanced tbl = true -> sk_lookup tbl key = Some b -> sk_chk tbl [] b = Some [].
Proof.
  unfold table_balanced. intros H. assert (G : forall t, forallb (fun e => skeleton_balanced tbl (snd e)) t = true ->
    sk_lookup t key = Some b -> sk_chk tbl [] b = Some []).
  { induction t as [|[k' b'] t IH]; intros Ht Hl; [discriminate|]. cbn [forallb snd] in Ht. apply andb_prop in Ht as [Hb Ht].
    cbn [sk_lookup] in Hl. destruct (str_eqb key k'); [injection Hl as <-; apply is_empty_stack_eq, Hb|apply (IH Ht Hl)]. }
  apply G, H.
Qed.

Lemma sk_chk_cons tbl stk k r :
  sk_chk tbl stk (SCons k r) =
  match k with
  | KOpen n => if str_in n void_elements then None else sk_chk tbl (n :: stk) r
  | KClose n => match stk with
                | m :: stk' => if str_eqb n m then sk_chk tbl stk' r else None
                | [] => None
                end
  | KVoid n => if str_in n void_elements then sk_chk tbl stk r else None
  | KText => sk_chk tbl stk r
  | KSite _ => sk_chk tbl stk r
  | KIf a => if alts_chk tbl a then sk_chk tbl stk r else None
  | KFor b => if is_empty_stack (sk_chk tbl [] b) then sk_chk tbl stk r else None
  | KCall key => match sk_lookup tbl key with Some _ => sk_chk tbl stk r | None => None end
  end.
Proof. reflexivity. Qed.

(* soundness: if every skeleton of the table passes the checker, every expansion of a checked skeleton obeys the stack
   discipline the checker computed *)
Theorem sk_chk_sound tbl : table_balanced tbl = true ->
  forall s ps, expands tbl s ps -> forall stk stk', sk_chk tbl stk s = Some stk' -> bal_p stk ps = Some stk'.
Proof.
  intros Ht s ps E.
  induction E as [ | n at_ r ps E IH | n r ps E IH | n at_ r ps E IH | t r ps E IH | r ps E IH | i q r ps Hq E IH
                 | a b pb r ps Hin Eb IHb Er IHr | b r ps E IH | b pb r ps Eb IHb Er IHr | key b pb r ps Hl Eb IHb Er IHr ];
    intros stk stk' Hc; try rewrite sk_chk_cons in Hc.
  - cbn in Hc. injection Hc as ->. reflexivity.
  - cbn [bal_p]. destruct (str_in n void_elements); [discriminate|]. apply IH, Hc.
  - cbn [bal_p]. destruct stk as [|m stk0]; [discriminate|]. destruct (str_eqb n m); [apply IH, Hc|discriminate].
  - cbn [bal_p]. destruct (str_in n void_elements); [apply IH, Hc|discriminate].
  - cbn [bal_p]. apply IH, Hc.
  - apply IH, Hc.
  - rewrite bal_p_app, (Hq stk). apply IH, Hc.
  - destruct (alts_chk tbl a) eqn:Ea; [|discriminate Hc].
    rewrite bal_p_app. rewrite (closed_is_frag pb (IHb [] [] (alts_chk_in tbl a Ea b Hin)) stk). apply IHr, Hc.
  - destruct (is_empty_stack (sk_chk tbl [] b)); [apply IH, Hc|discriminate].
  - destruct (is_empty_stack (sk_chk tbl [] b)) eqn:Ee; [|discriminate Hc].
    rewrite bal_p_app. rewrite (closed_is_frag pb (IHb [] [] (is_empty_stack_eq _ Ee)) stk).
    apply IHr. rewrite sk_chk_cons, Ee. exact Hc.
  - rewrite Hl in Hc. rewrite bal_p_app.
    rewrite (closed_is_frag pb (IHb [] [] (table_lookup_balanced tbl key b Ht Hl)) stk). apply IHr, Hc.
Qed.

Theorem skeleton_balanced_sound tbl s : table_balanced tbl = true -> skeleton_balanced tbl s = true ->
  forall ps, expands tbl s ps -> wf_pieces ps = true /\ balanced_frag ps.
Proof.
  intros Ht Hs ps E. pose proof (sk_chk_sound tbl Ht s ps E [] [] (is_empty_stack_eq _ Hs)) as H.
  split; [unfold wf_pieces; rewrite H; reflexivity|apply closed_is_frag, H].
Qed.

(* the regenerated templates *)
Theorem html_templates_balanced : table_balanced html_skeletons = true.
Proof. vm_compute. reflexivity. Qed.

Theorem html_sinks_escaped : all_dsdl_text_sinks_escaped = true.
Proof. vm_compute. reflexivity. Qed.

(* the recursion / inlining structure of the real templates is the one the hand-mirrored emitter has *)
Theorem html_inlining_structure : html_call_guards = expected_call_guards.
Proof. vm_compute. reflexivity. Qed.

(* pages: every expansion of an entry template (Namespace.j2, StructureType.j2, ...) is balanced; rendered to characters and
   scanned it is a well-formed token stream as soon as the inserted values cannot open markup *)
Theorem html_page_wf key s ps :
  sk_lookup html_skeletons key = Some s -> expands html_skeletons s ps ->
  balanced_frag ps /\ (pieces_ok ps = true -> wf_tokens (scan None (render ps)) = true).
Proof.
  intros Hl E.
  pose proof (table_lookup_balanced _ _ _ html_templates_balanced Hl) as Hc.
  assert (Hs : skeleton_balanced html_skeletons s = true) by (unfold skeleton_balanced; rewrite Hc; reflexivity).
  destruct (skeleton_balanced_sound _ s html_templates_balanced Hs ps E) as [_ F]. split; [exact F|].
  intros Hok. unfold wf_tokens. pose proof (scan_render _ Hok [] []) as Eq. rewrite app_nil_r in Eq. rewrite Eq, (F []). reflexivity.
Qed.

(* the hand-mirrored emitter produces balanced fragments, i.e. admissible contents of output sites / instances of calls *)
Lemma escaped_site_is_text s : balanced_frag [PText (markupsafe_escape s)] /\ text_ok (markupsafe_escape s) = true.
Proof.
  split; [apply frag_text|]. apply quote_free_text_ok.
  pose proof (escape_no_markup_ms s) as H. unfold no_markup in H. apply andb_prop in H as [H _]. exact H.
Qed.

(* ---------------------------------------------------------------------------------------- *)
(* soundness of the Coq-side classification of output expressions                            *)
(* ---------------------------------------------------------------------------------------- *)
From Verif Require Import HtmlThmOk.

Lemma val_ok_qf k v : quote_free v = true -> val_ok k v.
Proof.
  intros H. unfold val_ok. destruct (k <=? 3); [exact H|]. destruct (k =? 4); [|exact I].
  exists [PText v]. split; [unfold render; cbn; rewrite app_nil_r; reflexivity|]. split; [apply pieces_ok_text, qf_lt_free, H|apply frag_text].
Qed.

Lemma val_ok_mono k k' v : k <= k' -> val_ok k v -> val_ok k' v.
Proof.
  intros Hle H. unfold val_ok in *. destruct (N.leb_spec k 3).
  - apply (val_ok_qf k' v H).
  - destruct (N.leb_spec k' 3); [lia|]. destruct (N.eqb_spec k 4) as [->|].
    + destruct (N.eqb_spec k' 4); [exact H|exact I].
    + destruct (N.eqb_spec k' 4); [lia|exact I].
Qed.

Lemma val_ok_app k a b : val_ok k a -> val_ok k b -> val_ok k (a ++ b).
Proof.
  unfold val_ok. destruct (k <=? 3); [intros; apply qf_app; assumption|]. destruct (k =? 4); [|auto].
  intros (pa & -> & Oa & Fa) (pb & -> & Ob & Fb). exists (pa ++ pb). split; [symmetry; apply render_app|].
  split; [rewrite pieces_ok_app, Oa, Ob; reflexivity|apply frag_app; assumption].
Qed.

Lemma val_ok_nil k : val_ok k [].
Proof. apply val_ok_qf. reflexivity. Qed.

Lemma val_ok_repeat k v n : val_ok k v -> val_ok k (concat (repeat v n)).
Proof. intros H. induction n as [|n IH]; [apply val_ok_nil|]. cbn [repeat concat]. apply val_ok_app; assumption. Qed.

Lemma var_cls_bound vc bs sc x k : certificate_bound vc bs = true -> var_cls vc sc x = Some k ->
  exists sc' rhs, In (sc, x, sc', rhs) bs.
Proof.
  unfold certificate_bound. intros H Hv. induction vc as [|[[sc0 y] k0] r IH]; [discriminate|].
  cbn [forallb] in H. apply andb_prop in H as [H0 Hr]. cbn [var_cls] in Hv.
  destruct (str_eqb sc sc0 && str_eqb x y) eqn:E.
  - apply andb_prop in E as [E1 E2]. destruct (str_eqb_spec sc sc0) as [->|]; [|discriminate]. destruct (str_eqb_spec x y) as [->|]; [|discriminate].
    apply existsb_exists in H0 as ([[[sc2 z] sc'] rhs] & Hin & Heq). apply andb_prop in Heq as [A B].
    destruct (str_eqb_spec sc0 sc2) as [->|]; [|discriminate]. destruct (str_eqb_spec y z) as [->|]; [|discriminate].
    exists sc', rhs. exact Hin.
  - apply IH; assumption.
Qed.

Theorem cls_expr_sound vc bs :
  bindings_consistent vc bs = true -> certificate_bound vc bs = true ->
  forall sc e v, evals bs sc e v -> val_ok (cls_expr vc sc e) v.
Proof.
  intros Hc Hb sc e v E.
  induction E; cbn [cls_expr]; try (apply val_ok_qf; assumption).
  - (* literal *) destruct (quote_free s) eqn:Q; [apply val_ok_qf, Q|exact I].
  - (* bound variable *)
    unfold bindings_consistent in Hc. rewrite forallb_forall in Hc. specialize (Hc _ H). cbn in Hc.
    destruct (var_cls vc sc x) as [k|]; [|discriminate]. apply (val_ok_mono _ k _ (proj1 (N.leb_le _ _) Hc) IHE).
  - (* unbound variable *)
    destruct (var_cls vc sc x) as [k|] eqn:V.
    + destruct (var_cls_bound vc bs sc x k Hb V) as (sc' & rhs & Hin). exfalso. exact (H sc' rhs Hin).
    + rewrite H0. exact I.
  - apply (val_ok_mono _ _ _ (N.le_max_l _ _) IHE).
  - apply (val_ok_mono _ _ _ (N.le_max_r _ _) IHE).
  - apply (val_ok_mono _ _ _ (N.le_max_l _ _) IHE).
  - apply (val_ok_mono _ _ _ (N.le_max_r _ _) IHE).
  - apply val_ok_app; [apply (val_ok_mono _ _ _ (N.le_max_l _ _) IHE1)|apply (val_ok_mono _ _ _ (N.le_max_r _ _) IHE2)].
  - apply val_ok_repeat. apply (val_ok_mono _ _ _ (N.le_max_l _ _) IHE).
  - apply val_ok_repeat. apply (val_ok_mono _ _ _ (N.le_max_r _ _) IHE).
  - (* attribute outside both whitelists *) rewrite H, H0. exact I.
  - (* replace *)
    destruct (quote_free r) eqn:Q; cbn [andb]; [|exact I]. destruct (N.leb_spec (cls_expr vc sc e) 3) as [L|L]; [|exact I].
    unfold val_ok in *. apply N.leb_le in L. rewrite L in *. apply qf_replace; assumption.
  - (* e / escape / forceescape *) rewrite H. apply val_ok_qf, qf_ms_escape.
  - (* make_unique *) change (str_in w_make_unique w_esc_filters) with true. cbv iota. apply val_ok_qf, make_unique_quote_free.
  - (* display_type on a type *)
    change (str_in w_display_type w_esc_filters) with false. change (str_in w_display_type w_ident_filters) with false.
    change (str_in w_display_type w_num_filters) with false. change (str_eqb w_display_type w_display_type) with true. cbv iota.
    unfold val_ok. change (4 <=? 3) with false. change (4 =? 4) with true. cbv iota.
    exists (disp_type d). split; [apply display_type_render|]. split; [apply ok_disp_type, H|apply frag_disp_type].
  - change (str_in w_display_type w_esc_filters) with false. change (str_in w_display_type w_ident_filters) with false.
    change (str_in w_display_type w_num_filters) with false. change (str_eqb w_display_type w_display_type) with true. cbv iota.
    unfold val_ok. change (4 <=? 3) with false. change (4 =? 4) with true. cbv iota.
    exists (disp_inst di). split; [apply display_inst_render|]. split; [apply ok_disp_inst, H|apply frag_disp_inst].
  - (* safe / string *)
    apply str_in_spec in H. destruct H as [<-|[<-|[]]];
      repeat match goal with |- context [str_in ?n ?l] => let r := eval vm_compute in (str_in n l) in change (str_in n l) with r end;
      repeat match goal with |- context [str_eqb ?n w_display_type] => let r := eval vm_compute in (str_eqb n w_display_type) in change (str_eqb n w_display_type) with r end;
      cbv iota; exact IHE.
  - (* unknown filter *) rewrite H, H0, H1, H2, H3. exact I.
  - exact I.
Qed.

(* the regenerated tables pass the Coq-side classification: certificate consistent, every site safe *)
Theorem html_sinks_classified_safe : sinks_classified_safe = true.
Proof. vm_compute. reflexivity. Qed.

(* consequence: whatever a site of the real templates can print is quote_free (classes 0-3) or balanced, well-formed markup
   (class 4, text positions only) -- for arbitrary documentation text *)
Theorem html_site_values_ok s v :
  In s html_sites -> autoescape_selected (st_template s) = false ->
  evals html_bindings (st_scope s) (st_expr s) v ->
  (st_ctx s =? 0) = true /\ markup_ok v \/ quote_free v = true.
Proof.
  intros Hin Hae E. pose proof html_sinks_classified_safe as H. unfold sinks_classified_safe in H.
  apply andb_prop in H as [H Hs]. apply andb_prop in H as [Hc Hb]. rewrite forallb_forall in Hs. specialize (Hs s Hin).
  unfold site_safe_coq in Hs. rewrite Hae in Hs. cbn [andb orb] in Hs.
  pose proof (cls_expr_sound _ _ Hc Hb _ _ _ E) as V. unfold site_cls in Hs. unfold val_ok in V.
  destruct (st_ctx s =? 0).
  - destruct (N.leb_spec (cls_expr html_var_cls (st_scope s) (st_expr s)) 3); [right; exact V|].
    apply N.leb_le in Hs. destruct (N.eqb_spec (cls_expr html_var_cls (st_scope s) (st_expr s)) 4); [left; split; [reflexivity|exact V]|lia].
  - rewrite Hs in V. right. exact V.
Qed.

(* static ids of the real templates (regenerated): none looks like a type, namespace('-' scheme), sidebar or nesting-occurrence id,
   they are pairwise distinct, and the two static ids of the modelled regions are among them *)
From Verif Require Import HtmlThmIds.
Theorem static_ids_ok :
  forallb (fun e => id_kind (snd e) =? 0) html_static_ids = true
  /\ nodup_str (map snd html_static_ids) = true
  /\ forallb (fun x => str_in x (map snd html_static_ids)) page_ST = true.
Proof. vm_compute. repeat split. Qed.
