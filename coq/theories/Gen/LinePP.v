(* Model of nunavut.jinja.CodeGenerator._generate_with_line_buffer /
   _filter_and_write_line (src/nunavut/jinja/__init__.py), generic in the line
   post-processor pipeline, plus the specification "apply the pipeline line by line to
   the complete text".  Executable; proofs live in LinePPThm.v. *)
From Verif Require Export Str Regex.
Open Scope N_scope.

Definition line := (str * str)%type.   (* (content, terminator) *)

Section LineBuffer.
  (* the pipeline: an arbitrary state machine over lines (user processors included) *)
  Variable S : Type.
  Variable step : S -> line -> S * line.

  (* _filter_and_write_line: run the pipeline, append content and terminator to the file *)
  Definition emit (st : S) (out : str) (l : line) : S * str :=
    let '(st', l') := step st l in (st', out ++ fst l' ++ snd l').

  (* The body of `for part in template_gen`, written as a character scan: the regex
     `\n|\r\n` searched from search_pos finds the first LF, or CR immediately followed by
     LF *inside this part*; everything before it is appended to line_buffer. *)
  Fixpoint feed (part lb : str) (st : S) (out : str) {struct part} : str * S * str :=
    match part with
    | [] => (lb, st, out)
    | c :: rest =>
        if c =? LF then
          let '(st', out') := emit st out (lb, [LF]) in feed rest [] st' out'
        else
          match rest with
          | d :: rest' =>
              if (c =? CR) && (d =? LF) then
                let '(st', out') := emit st out (lb, [CR; LF]) in feed rest' [] st' out'
              else feed rest (lb ++ [c]) st out
          | [] => feed rest (lb ++ [c]) st out
          end
    end.

  Definition feed_all (chunks : list str) (lb : str) (st : S) (out : str) : str * S * str :=
    fold_left (fun acc part => let '(lb, st, out) := acc in feed part lb st out) chunks (lb, st, out).

  Definition finish (acc : str * S * str) : S * str :=
    let '(lb, st, out) := acc in
    match lb with
    | [] => (st, out)
    | _ => emit st out (lb, [])
    end.

  (* whole function: chunks in, (final pipeline state, file content) out *)
  Definition write (chunks : list str) (st : S) : S * str :=
    finish (feed_all chunks [] st []).

  (* ---------- specification: lines of the complete text ---------- *)
  Fixpoint split_lines_aux (s cur : str) {struct s} : list line :=
    match s with
    | [] => match cur with [] => [] | _ => [(cur, [])] end
    | c :: s' =>
        if c =? LF then (cur, [LF]) :: split_lines_aux s' []
        else
          match s' with
          | d :: s'' =>
              if (c =? CR) && (d =? LF) then (cur, [CR; LF]) :: split_lines_aux s'' []
              else split_lines_aux s' (cur ++ [c])
          | [] => split_lines_aux s' (cur ++ [c])
          end
    end.

  Definition split_lines (s : str) : list line := split_lines_aux s [].

  Definition linewise_from (st : S) (out : str) (ls : list line) : S * str :=
    fold_left (fun acc l => emit (fst acc) (snd acc) l) ls (st, out).

  Definition linewise (st : S) (text : str) : S * str :=
    linewise_from st [] (split_lines text).

  (* no chunk boundary falls between a CR and the LF that follows it in the complete text *)
  Fixpoint no_split_crlf (prev_cr : bool) (chunks : list str) : bool :=
    match chunks with
    | [] => true
    | p :: ps =>
        match p with
        | [] => no_split_crlf prev_cr ps
        | c :: _ => negb (prev_cr && (c =? LF)) && no_split_crlf (last p 0 =? CR) ps
        end
    end.
End LineBuffer.

Arguments emit {S}. Arguments feed {S}. Arguments feed_all {S}. Arguments finish {S}.
Arguments write {S}. Arguments linewise {S}. Arguments linewise_from {S}.

(* _rejoin_split_crlf (module-level generator in src/nunavut/jinja/__init__.py): a CR at the end of a chunk is held back
   (`carry`) and prepended to the next chunk; a pending CR is yielded as a last chunk of its own.  The yielded chunk may
   be empty.  `_generate_with_line_buffer` iterates `_rejoin_split_crlf(template_gen)`. *)
Definition ends_cr (p : str) : bool :=
  match p with [] => false | _ :: _ => last p 0 =? CR end.

Fixpoint rejoin (carry : bool) (chunks : list str) : list str :=
  match chunks with
  | [] => if carry then [[CR]] else []
  | p :: ps =>
      let part := (if carry then [CR] else []) ++ p in
      if ends_cr part then removelast part :: rejoin true ps
      else part :: rejoin false ps
  end.

(* the whole of _generate_with_line_buffer as it is now *)
Definition write_rj {S : Type} (step : S -> line -> S * line) (chunks : list str) (st : S) : S * str :=
  write step (rejoin false chunks) st.

(* _copy_header_using_line_pps: the resource is opened with newline="\n" (fix b0be4ff): iteration yields the text cut after
   every LF, untranslated (a CR before the LF is part of the yielded line, a lone CR does not end a line; the last line may
   have no terminator), followed by the tuple construction of the source.  `lines` is what
   `for resource_line in resource_file` yields (`py_lines` in LinePPRejoinThm.v). *)
Section CopyHeader.
  Variable S : Type.
  Variable step : S -> line -> S * line.

  Definition removelast2 (s : str) : str := removelast (removelast s).

  (* if line.endswith("\r\n"): (line[0:-2], "\r\n") elif line.endswith("\n"): (line[0:-1], "\n") else: (line, "") *)
  Definition copy_line_tuple (resource_line : str) : line :=
    match rev resource_line with
    | l :: c :: _ => if (l =? LF) && (c =? CR) then (removelast2 resource_line, [CR; LF])
                     else if l =? LF then (removelast resource_line, [LF]) else (resource_line, [])
    | [l] => if l =? LF then ([], [LF]) else (resource_line, [])
    | [] => ([], [])
    end.

  Definition copy_header (lines : list str) (st : S) : S * str :=
    linewise_from step st [] (map copy_line_tuple lines).
End CopyHeader.
Arguments copy_header {S}.
