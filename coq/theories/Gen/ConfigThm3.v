(* C13 proofs, part 4: what the getters of LanguageConfig return for each documented value form
   (get_config_value, get_config_value_as_bool truth table, get_config_value_as_dict). *)
From Verif Require Import Config ConfigThm.
Require Import Lia Bool List ZArith DecimalPos.
Import ListNotations.
Open Scope N_scope.

(* the stored entry, if any (before no_default_value unwraps it) *)
Definition config_lookup (sections : list (list N * cv)) (section k : list N) : option cv :=
  match dget section sections with Some (Node m) => dget k m | _ => None end.

(* every section is a mapping (update_section only ever stores mappings) *)
Definition section_ok (sections : list (list N * cv)) (section : list N) : bool :=
  match dget section sections with Some (Leaf _ _) => false | _ => true end.

(* the translated _get_config_value_raw (with @no_default_value), characterised *)
Lemma raw_spec sections section k d : section_ok sections section = true ->
  LanguageConfig__get_config_value_raw sections (pv_str section) (pv_str k) d =
  match config_lookup sections section k with
  | Some v => CfgOk (PV (unwrap_default v))
  | None => match d with PUnset => CfgKeyError | PV x => CfgOk (PV (unwrap_default x)) end
  end.
Proof.
  unfold section_ok, config_lookup, LanguageConfig__get_config_value_raw, no_default_value, pv_str. cbn [rbind py_getitem].
  destruct (dget section sections) as [[d0 a0|m]|]; [discriminate| |]; intros _.
  - cbn [rbind py_getitem]. destruct (dget k m) as [[dd a|mm]|]; cbn [rbind py_is_default is_default py_default_value unwrap_default].
    + destruct dd; reflexivity.
    + reflexivity.
    + destruct d as [|[dd a|mm]]; cbn; try reflexivity. destruct dd; reflexivity.
  - destruct d as [|[dd a|mm]]; cbn; try reflexivity. destruct dd; reflexivity.
Qed.

Lemma digit_codes_head u : u <> Decimal.Nil -> exists c r, digit_codes u = c :: r /\ 48 <= c <= 57.
Proof. destruct u; [congruence|..]; intros _; eexists _, _; (split; [reflexivity|lia]). Qed.

Lemma digit_codes_zero u : digit_codes u = [48] -> u = Decimal.D0 Decimal.Nil.
Proof.
  destruct u as [|r|r|r|r|r|r|r|r|r|r]; cbn [digit_codes]; intros H; try discriminate.
  inversion H as [H1]. destruct r; cbn [digit_codes] in H1; try discriminate. reflexivity.
Qed.

Lemma pos_to_uint_facts p : Pos.to_uint p <> Decimal.Nil /\ Pos.to_uint p <> Decimal.D0 Decimal.Nil.
Proof.
  pose proof (DecimalPos.Unsigned.of_to p) as H.
  split; intro E; rewrite E in H; cbn in H; discriminate.
Qed.

Lemma py_str_int_nonzero z : z <> 0%Z ->
  exists c r, py_str_int z = c :: r /\ (c = 45 \/ 48 <= c <= 57) /\ py_str_int z <> [48].
Proof.
  intros Hz. destruct z as [|p|p]; [congruence| |].
  - unfold py_str_int. cbn [Z.to_int]. destruct (pos_to_uint_facts p) as [H1 H2].
    destruct (digit_codes_head _ H1) as (c & r & E & Hc). exists c, r. repeat split; auto.
    intro E'. apply digit_codes_zero in E'. contradiction.
  - unfold py_str_int. cbn [Z.to_int]. eexists _, _. repeat split; [left; reflexivity | discriminate].
Qed.


(* the translated get_config_value *)
Lemma value_gen_spec sections section k (dflt : option (list N)) : section_ok sections section = true ->
  LanguageConfig_get_config_value sections (pv_str section) (pv_str k) (match dflt with Some d => pv_str d | None => pv_none end) =
  match config_lookup sections section k with
  | None => match dflt with Some d => CfgOk (pv_str d) | None => CfgKeyError end
  | Some (Leaf _ ANone) => CfgOk (pv_str [])
  | Some (Leaf _ a) => match py_str a with Some s => CfgOk (pv_str s) | None => CfgUnmodelled end
  | Some (Node _) => CfgUnmodelled
  end.
Proof.
  intros Hs. unfold LanguageConfig_get_config_value.
  destruct dflt as [d|]; cbn [rbind py_is_none pv_str pv_none]; fold (pv_str section); fold (pv_str k);
    rewrite (raw_spec _ _ _ _ Hs); destruct (config_lookup sections section k) as [[dd a|m]|]; cbn [rbind unwrap_default py_is_none]; try reflexivity;
    destruct a as [|b|z|s|i|i]; cbn; try reflexivity; destruct b; reflexivity.
Qed.

(* get_config_value: the text of the stored value; None reads as the empty string; the default only for a missing entry;
   a DefaultValue marking of the stored value is invisible *)
Theorem config_value_spec sections section k dflt : section_ok sections section = true ->
  config_value sections section k dflt =
  match config_lookup sections section k with
  | None => match dflt with Some d => CfgOk d | None => CfgKeyError end
  | Some (Leaf _ ANone) => CfgOk []
  | Some (Leaf _ a) => match py_str a with Some s => CfgOk s | None => CfgUnmodelled end
  | Some (Node _) => CfgUnmodelled
  end.
Proof.
  intros Hs. unfold config_value, res_map. rewrite (value_gen_spec sections section k dflt Hs).
  destruct (config_lookup sections section k) as [[dd a|m]|]; [|reflexivity|destruct dflt; reflexivity].
  destruct a as [|b|z|s|i|i]; cbn; try reflexivity. destruct b; reflexivity.
Qed.

(* get_config_value_as_bool: complete truth table, for every configuration, section, key and default *)
Theorem as_bool_truth_table sections section k dflt : section_ok sections section = true ->
  config_value_as_bool sections section k dflt =
  match config_lookup sections section k with
  | None => CfgOk dflt
  | Some (Leaf _ a) => match bool_table a with Some b => CfgOk b | None => CfgUnmodelled end
  | Some (Node _) => CfgUnmodelled
  end.
Proof.
  intros Hs. unfold config_value_as_bool, res_map, LanguageConfig_get_config_value_as_bool.
  cbn [rbind pv_bool py_truthy cv_truthy atom_truthy].
  assert (E : (if negb dflt then CfgOk (PV (Leaf false (AStr [102; 97; 108; 115; 101]))) else CfgOk (PV (Leaf false (AStr [116; 114; 117; 101]))))
              = CfgOk (match Some (if dflt then [116; 114; 117; 101] else [102; 97; 108; 115; 101]) with Some d => pv_str d | None => pv_none end))
    by (destruct dflt; reflexivity).
  rewrite E. cbn [rbind]. rewrite (value_gen_spec sections section k (Some (if dflt then [116; 114; 117; 101] else [102; 97; 108; 115; 101])) Hs).
  destruct (config_lookup sections section k) as [[dd a|m]|]; [| reflexivity | destruct dflt; reflexivity].
  destruct a as [|b|z|s|i|i]; cbn [py_str bool_table rbind].
  - reflexivity.
  - destruct b; reflexivity.
  - destruct (Z.eqb_spec z 0) as [->|Hz]; [reflexivity|]. cbn [negb].
    destruct (py_str_int_nonzero z Hz) as (c & r & E1 & Hc & Hn).
    assert (A : str_eqb (ascii_lower (py_str_int z)) [102; 97; 108; 115; 101] = false).
    { rewrite E1. cbn [ascii_lower map str_eqb].
      assert (L : (if (65 <=? c) && (c <=? 90) then c + 32 else c) = c).
      { destruct Hc as [->|Hc]; [reflexivity|]. destruct (N.leb_spec 65 c); [lia|reflexivity]. }
      rewrite L. destruct (N.eqb_spec c 102); [lia|reflexivity]. }
    assert (B : str_eqb (py_str_int z) [48] = false).
    { destruct (str_eqb_spec (py_str_int z) [48]); [contradiction|reflexivity]. }
    unfold pv_str. cbn [py_lower rbind py_eq atom_eqb]. rewrite A. cbn [rbind]. rewrite B. cbn [py_truthy cv_truthy atom_truthy].
    rewrite E1. reflexivity.
  - unfold pv_str. cbn [py_lower rbind py_eq atom_eqb py_truthy cv_truthy atom_truthy].
    destruct (str_eqb (ascii_lower s) [102; 97; 108; 115; 101]); cbn [rbind orb negb]; [reflexivity|].
    destruct (str_eqb s [48]); cbn [orb negb]; [reflexivity|]. destruct s; reflexivity.
  - reflexivity.
  - reflexivity.
Qed.

(* get_config_value_as_dict: the stored map itself; the default for a missing entry or (when one is given) for a non-map;
   TypeError for a non-map without default; KeyError for a missing entry without default *)
Theorem config_value_as_dict_spec sections section k dflt : section_ok sections section = true ->
  config_value_as_dict sections section k dflt =
  match config_lookup sections section k with
  | Some (Node m) => CfgOk m
  | Some (Leaf _ _) => match dflt with Some d => CfgOk d | None => CfgTypeError end
  | None => match dflt with Some d => CfgOk d | None => CfgKeyError end
  end.
Proof.
  intros Hs. unfold config_value_as_dict, res_map, LanguageConfig_get_config_value_as_dict.
  destruct dflt as [d|]; cbn [rbind py_is_none pv_none]; rewrite (raw_spec _ _ _ _ Hs);
    destruct (config_lookup sections section k) as [[dd a|m]|]; reflexivity.
Qed.

(* get_config_value_as_list: the stored list; otherwise as for dicts *)
Theorem config_value_as_list_spec sections section k dflt : section_ok sections section = true ->
  config_value_as_list sections section k dflt =
  match config_lookup sections section k with
  | Some (Leaf _ (AList i)) => CfgOk i
  | Some _ => match dflt with Some d => CfgOk d | None => CfgTypeError end
  | None => match dflt with Some d => CfgOk d | None => CfgKeyError end
  end.
Proof.
  intros Hs. unfold config_value_as_list, res_map, LanguageConfig_get_config_value_as_list.
  destruct dflt as [d|]; cbn [rbind py_is_none pv_none]; rewrite (raw_spec _ _ _ _ Hs);
    destruct (config_lookup sections section k) as [[dd a|m]|]; try reflexivity;
    destruct a; reflexivity.
Qed.
