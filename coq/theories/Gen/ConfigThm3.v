(* C13 proofs, part 4: what the getters of LanguageConfig return for each documented value form
   (get_config_value, get_config_value_as_bool truth table, get_config_value_as_dict). *)
From Verif Require Import Config ConfigThm.
Require Import Lia Bool List ZArith DecimalPos.
Import ListNotations.
Open Scope N_scope.

(* the stored entry, if any (before no_default_value unwraps it) *)
Definition config_lookup (sections : list (list N * cv)) (section k : list N) : option cv :=
  match dget section sections with Some (Node m) => dget k m | _ => None end.

Lemma digit_codes_head u : u <> Decimal.Nil -> exists c r, digit_codes u = c :: r /\ 48 <= c <= 57.
Proof. destruct u; [congruence|..]; intros _; eexists _, _; (split; [reflexivity|lia]). Qed.

Lemma digit_codes_zero u : digit_codes u = [48] -> u = Decimal.D0 Decimal.Nil.
Proof.
  destruct u as [|r|r|r|r|r|r|r|r|r|r]; cbn [digit_codes]; intros H; try discriminate.
  inversion H as [H1]. destruct r; cbn [digit_codes] in H1; try discriminate. reflexivity.
Qed.

Lemma pos_to_uint_facts p : Pos.to_uint p <> Decimal.Nil /\ Pos.to_uint p <> Decimal.D0 Decimal.Nil.
Proof.
  pose proof (DecimalPos.Unsigned.of_to p) as H.
  split; intro E; rewrite E in H; cbn in H; discriminate.
Qed.

Lemma py_str_int_nonzero z : z <> 0%Z ->
  exists c r, py_str_int z = c :: r /\ (c = 45 \/ 48 <= c <= 57) /\ py_str_int z <> [48].
Proof.
  intros Hz. destruct z as [|p|p]; [congruence| |].
  - unfold py_str_int. cbn [Z.to_int]. destruct (pos_to_uint_facts p) as [H1 H2].
    destruct (digit_codes_head _ H1) as (c & r & E & Hc). exists c, r. repeat split; auto.
    intro E'. apply digit_codes_zero in E'. contradiction.
  - unfold py_str_int. cbn [Z.to_int]. eexists _, _. repeat split; [left; reflexivity | discriminate].
Qed.

(* get_config_value_as_bool: complete truth table, for every configuration, section, key and default *)
Theorem as_bool_truth_table sections section k dflt :
  config_value_as_bool sections section k dflt =
  match config_lookup sections section k with
  | None => CfgOk dflt
  | Some (Leaf _ a) => match bool_table a with Some b => CfgOk b | None => CfgUnmodelled end
  | Some (Node _) => CfgUnmodelled
  end.
Proof.
  unfold config_value_as_bool, config_value, config_raw, config_lookup.
  assert (D : forall o : option cv, o = None ->
              match option_map unwrap_default (option_map (fun s => Leaf false (AStr s))
                      (Some (if dflt then [116; 114; 117; 101] else [102; 97; 108; 115; 101]))) with
              | None => @CfgKeyError bool | Some _ => CfgOk dflt end = CfgOk dflt) by (intros; reflexivity).
  destruct (dget section sections) as [[d0 a0|m]|]; try (destruct dflt; reflexivity).
  destruct (dget k m) as [[d a|m']|]; try (destruct dflt; reflexivity).
  cbn [unwrap_default].
  destruct a as [|b|z|s|i]; cbn [py_str bool_table].
  - reflexivity.
  - destruct b; reflexivity.
  - destruct (Z.eqb_spec z 0) as [->|Hz]; [reflexivity|]. cbn [negb].
    destruct (py_str_int_nonzero z Hz) as (c & r & E & Hc & Hn).
    assert (A : str_eqb (ascii_lower (py_str_int z)) [102; 97; 108; 115; 101] = false).
    { rewrite E. cbn [ascii_lower map str_eqb].
      assert (L : (if (65 <=? c) && (c <=? 90) then c + 32 else c) = c).
      { destruct Hc as [->|Hc]; [reflexivity|].
        destruct (N.leb_spec 65 c); [lia|reflexivity]. }
      rewrite L. destruct (N.eqb_spec c 102); [lia|reflexivity]. }
    assert (B : str_eqb (py_str_int z) [48] = false).
    { destruct (str_eqb_spec (py_str_int z) [48]); [contradiction|reflexivity]. }
    rewrite A, B. cbn [orb]. rewrite E. reflexivity.
  - destruct (str_eqb (ascii_lower s) [102; 97; 108; 115; 101]), (str_eqb s [48]), s; reflexivity.
  - reflexivity.
Qed.

(* get_config_value: the text of the stored value; None reads as the empty string; the default only for a missing entry;
   a DefaultValue marking of the stored value is invisible *)
Theorem config_value_spec sections section k dflt :
  config_value sections section k dflt =
  match config_lookup sections section k with
  | None => match dflt with Some d => CfgOk d | None => CfgKeyError end
  | Some (Leaf _ ANone) => CfgOk []
  | Some (Leaf _ a) => match py_str a with Some s => CfgOk s | None => CfgUnmodelled end
  | Some (Node _) => CfgUnmodelled
  end.
Proof.
  unfold config_value, config_raw, config_lookup.
  destruct (dget section sections) as [[d0 a0|m]|]; try (destruct dflt; reflexivity).
  destruct (dget k m) as [[d a|m']|]; destruct dflt; reflexivity.
Qed.

(* get_config_value_as_dict: the stored map itself; the default for a missing entry or (when one is given) for a non-map;
   TypeError for a non-map without default; KeyError for a missing entry without default *)
Theorem config_value_as_dict_spec sections section k dflt :
  config_value_as_dict sections section k dflt =
  match config_lookup sections section k with
  | Some (Node m) => CfgOk m
  | Some (Leaf _ _) => match dflt with Some d => CfgOk d | None => CfgTypeError end
  | None => match dflt with Some d => CfgOk d | None => CfgKeyError end
  end.
Proof.
  unfold config_value_as_dict, config_raw, config_lookup.
  destruct (dget section sections) as [[d0 a0|m]|]; try (destruct dflt; reflexivity).
  destruct (dget k m) as [[d a|m']|]; destruct dflt; reflexivity.
Qed.
