(* C20 -- base definitions the T2-translated HTML filters (Generated/Gen_Html.v) are expressed in:
   string helpers with Python semantics, the view of a pydsdl type the filters read, the
   UniqueNameGenerator state, and the stdlib html.escape.  Executable part only. *)
From Verif Require Export Str.
Open Scope N_scope.

(* ---------- Python string operations used by the filters ---------- *)

(* str.replace(old, new) for a ONE-character `old` (the translator rejects anything else) *)
Definition str_replace1 (c : chr) (rep : str) (s : str) : str :=
  flat_map (fun x => if x =? c then rep else [x]) s.

(* str.lower() restricted to ASCII (DSDL identifiers are ASCII; stated in design_notes/C20.md) *)
Definition ascii_lower_chr (c : chr) : chr := if (65 <=? c) && (c <=? 90) then c + 32 else c.
Definition py_lower_ascii (s : str) : str := map ascii_lower_chr s.

(* str(int): decimal digits, most significant first *)
Fixpoint dec_fuel (fuel : nat) (n : N) (acc : str) : str :=
  match fuel with
  | O => acc
  | S f =>
      let acc' := (48 + n mod 10) :: acc in
      if n / 10 =? 0 then acc' else dec_fuel f (n / 10) acc'
  end.
Definition dec_of_N (n : N) : str := dec_fuel (S (N.to_nat (N.log2 n))) n [].
Definition dec_of_Z (z : Z) : str :=
  match z with
  | Z0 => [48]
  | Zpos p => dec_of_N (Npos p)
  | Zneg p => 45 :: dec_of_N (Npos p)
  end.

Fixpoint starts_with (p s : str) : bool :=
  match p, s with
  | [], _ => true
  | x :: p', y :: s' => (x =? y) && starts_with p' s'
  | _ :: _, [] => false
  end.
Definition ends_with (s suffix : str) : bool := starts_with (rev suffix) (rev s).

Fixpoint lstrip_chr (c : chr) (s : str) : str :=
  match s with
  | x :: s' => if x =? c then lstrip_chr c s' else s
  | [] => []
  end.

(* ---------- what filter_tag_id / filter_url_from_type read from a pydsdl type ---------- *)
Record tinfo := {
  ti_is_array : bool;       (* isinstance(instance, pydsdl.ArrayType) *)
  ti_elem_str : str;        (* str(instance.element_type) when it is an array *)
  ti_full_name : str;       (* instance.full_name *)
  ti_major : Z;             (* instance.version[0] *)
  ti_minor : Z;             (* instance.version[1] *)
  ti_root_ns : str;         (* instance.root_namespace *)
  ti_full_namespace : str;  (* instance.full_namespace (for the halves of a service: the service's full name) *)
  ti_has_parent : bool      (* instance.has_parent_service *)
}.

(* ---------- nunavut.lang._common.UniqueNameGenerator (hand model, tied by correspondence) ---------- *)
Fixpoint amap_get {V : Type} (k : str) (m : list (str * V)) : option V :=
  match m with
  | [] => None
  | (k', v) :: m' => if str_eqb k k' then Some v else amap_get k m'
  end.
Fixpoint amap_set {V : Type} (k : str) (v : V) (m : list (str * V)) : list (str * V) :=
  match m with
  | [] => [(k, v)]
  | (k', v') :: m' => if str_eqb k k' then (k, v) :: m' else (k', v') :: amap_set k v m'
  end.

Definition ung := list (str * list (str * N)).   (* _index_map: key -> base_token -> next index *)
Definition ung_reset : ung := [].

Definition ung_call (st : ung) (key base_token prefix suffix : str) : ung * str :=
  let keymap := match amap_get key st with Some m => m | None => [] end in
  let next_index := match amap_get base_token keymap with Some i => i | None => 0 end in
  (amap_set key (amap_set base_token (next_index + 1) keymap) st,
   prefix ++ base_token ++ dec_of_N next_index ++ suffix).

(* ---------- CPython html.escape(s, quote=True)  (hand model, tied by correspondence) ---------- *)
Definition html_escape_chr (c : chr) : str :=
  if c =? 38 then [38; 97; 109; 112; 59]                 (* &amp; *)
  else if c =? 60 then [38; 108; 116; 59]                (* &lt; *)
  else if c =? 62 then [38; 103; 116; 59]                (* &gt; *)
  else if c =? 34 then [38; 113; 117; 111; 116; 59]      (* &quot; *)
  else if c =? 39 then [38; 35; 120; 50; 55; 59]         (* &#x27; *)
  else [c].
Definition html_escape (s : str) : str := flat_map html_escape_chr s.

(* ---------- what filter_display_type reads: one constructor per class its isinstance chain distinguishes ---------- *)
Fixpoint take_while (p : chr -> bool) (s : str) : str :=
  match s with c :: r => if p c then c :: take_while p r else [] | [] => [] end.
Fixpoint drop_while (p : chr -> bool) (s : str) : str :=
  match s with c :: r => if p c then drop_while p r else s | [] => [] end.

(* str(x).split()[-1] *)
Definition is_space (c : chr) : bool := (c =? 32) || ((9 <=? c) && (c <=? 13)).
Definition last_word (s : str) : str :=
  rev (take_while (fun c => negb (is_space c)) (drop_while is_space (rev s))).

Inductive dnode :=
| NFixed (e : dnode) (cap : Z)            (* FixedLengthArrayType: element_type, capacity *)
| NVar (e : dnode) (cap : Z)              (* VariableLengthArrayType *)
| NPad (s : str)                          (* PaddingField: str(instance) *)
| NField (d : dnode) (nm : str)           (* Field (not padding): data_type, name *)
| NConst (d : dnode) (nm val : str)       (* Constant: data_type, name, '{}'.format(value) *)
| NPrim (saturated : bool) (s : str)      (* PrimitiveType: cast_mode == SATURATED, str(instance) *)
| NOther (s : str).                       (* anything else: str(instance) *)
