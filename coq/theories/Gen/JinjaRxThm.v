(* C19: conservativity of the root-state scanner for EVERY rule list (hence every option combination): deleting the auto-indent
   alternatives changes nothing on a source where none of them matches anywhere. *)
From Verif Require Import JinjaRx.
From Coq Require Import Lia.
Open Scope N_scope.

Section RxThm.
  Variable u : uni.

  Lemma lastp_cons p c w : lastp p (c :: w) = lastp (Some c) w.
  Proof. unfold lastp. cbn [rev]. destruct (rev w) as [|x l]; reflexivity. Qed.

  Lemma lastp_app p w1 : forall w2, lastp (lastp p w1) w2 = lastp p (w1 ++ w2).
  Proof.
    revert p. induction w1 as [|c w1 IH]; intros p w2; [reflexivity|].
    cbn [app]. rewrite !lastp_cons. apply IH.
  Qed.

  Lemma xstar_loop_suffix (A : Type) (m : (option N -> str -> option A) -> option N -> str -> option A)
        (Hm : forall k p s v, m k p s = Some v -> exists w s', s = w ++ s' /\ k (lastp p w) s' = Some v)
        (k : option N -> str -> option A) :
    forall fuel p s v, xstar_loop m k fuel p s = Some v -> exists w s', s = w ++ s' /\ k (lastp p w) s' = Some v.
  Proof.
    induction fuel as [|f IH]; intros p s v H; cbn [xstar_loop] in H.
    - exists [], s; auto.
    - destruct (m (fun p2 s2 => if Nat.ltb (length s2) (length s) then xstar_loop m k f p2 s2 else None) p s) eqn:E.
      + inversion H; subst. apply Hm in E as (w1 & s1 & -> & E).
        destruct (Nat.ltb (length s1) (length (w1 ++ s1))); [|discriminate].
        apply IH in E as (w2 & s2 & -> & E). exists (w1 ++ w2), s2. rewrite app_assoc, <- lastp_app. auto.
      + exists [], s; auto.
  Qed.

  (* the continuation is called on a suffix, with the last consumed character as the previous character *)
  Lemma mx_suffix : forall (r : rx) (A : Type) (k : option N -> str -> option A) p s v,
      mx u A r k p s = Some v -> exists w s', s = w ++ s' /\ k (lastp p w) s' = Some v.
  Proof.
    induction r as [|c|r1 IH1 r2 IH2|r1 IH1 r2 IH2|r IH| |r IH|c]; intros A k p s v H; cbn [mx] in H.
    - exists [], s; auto.
    - destruct s as [|x s]; [discriminate|]. destruct (xcls_mem u c x); [|discriminate]. exists [x], s; auto.
    - apply IH1 in H as (w1 & s1 & -> & H). apply IH2 in H as (w2 & s2 & -> & H).
      exists (w1 ++ w2), s2. rewrite app_assoc, <- lastp_app. auto.
    - destruct (mx u A r1 k p s) eqn:E; [inversion H; subst; eapply IH1; eauto|eapply IH2; eauto].
    - eapply xstar_loop_suffix; [|exact H]. intros; eapply IH; eauto.
    - destruct p as [c|]; [destruct (c =? 10); [|discriminate]|]; exists [], s; auto.
    - destruct (mx u unit r (fun _ _ => Some tt) p s); [discriminate|]. exists [], s; auto.
    - destruct p as [x|]; [|discriminate]. destruct (xcls_mem u c x); [|discriminate]. exists [], s; auto.
  Qed.

  Lemma xstar_loop_mono (A B : Type) (m : (option N -> str -> option A) -> option N -> str -> option A)
        (m' : (option N -> str -> option B) -> option N -> str -> option B)
        (Hm : forall k k' p s, (forall p0 s0, k p0 s0 <> None -> k' p0 s0 <> None) -> m k p s <> None -> m' k' p s <> None)
        (k : option N -> str -> option A) (k' : option N -> str -> option B)
        (Hk : forall p0 s0, k p0 s0 <> None -> k' p0 s0 <> None) :
    forall fuel p s, xstar_loop m k fuel p s <> None -> xstar_loop m' k' fuel p s <> None.
  Proof.
    induction fuel as [|f IH]; intros p s H; cbn [xstar_loop] in *; [auto|].
    set (K := fun p2 s2 => if Nat.ltb (length s2) (length s) then xstar_loop m k f p2 s2 else None) in *.
    set (K' := fun p2 s2 => if Nat.ltb (length s2) (length s) then xstar_loop m' k' f p2 s2 else None).
    assert (HK : forall p0 s0, K p0 s0 <> None -> K' p0 s0 <> None).
    { intros p0 s0. unfold K, K'. destruct (Nat.ltb (length s0) (length s)); [apply IH|auto]. }
    destruct (m K p s) eqn:E.
    - pose proof (Hm K K' p s HK) as E'. rewrite E in E'. specialize (E' ltac:(discriminate)).
      destruct (m' K' p s); [discriminate|contradiction].
    - destruct (m' K' p s); [discriminate|auto].
  Qed.

  (* success is monotone in the continuation (whatever the result types) *)
  Lemma mx_mono : forall (r : rx) (A B : Type) (k : option N -> str -> option A) (k' : option N -> str -> option B) p s,
      (forall p0 s0, k p0 s0 <> None -> k' p0 s0 <> None) -> mx u A r k p s <> None -> mx u B r k' p s <> None.
  Proof.
    induction r as [|c|r1 IH1 r2 IH2|r1 IH1 r2 IH2|r IH| |r IH|c]; intros A B k k' p s Hk H; cbn [mx] in *.
    - auto.
    - destruct s as [|x s]; [auto|]. destruct (xcls_mem u c x); auto.
    - eapply IH1; [|exact H]. intros p0 s0. apply IH2. exact Hk.
    - destruct (mx u A r1 k p s) eqn:E.
      + assert (E' : mx u B r1 k' p s <> None) by (eapply IH1; [exact Hk|rewrite E; discriminate]).
        destruct (mx u B r1 k' p s); [discriminate|contradiction].
      + destruct (mx u B r1 k' p s); [discriminate|]. eapply IH2; eauto.
    - eapply xstar_loop_mono; [|exact Hk|exact H]. intros; eapply IH; eauto.
    - destruct p as [c|]; [destruct (c =? 10)|]; auto.
    - destruct (mx u unit r (fun _ _ => Some tt) p s); auto.
    - destruct p as [x|]; [destruct (xcls_mem u c x)|]; auto.
  Qed.

  Lemma marker_alt_fails (A : Type) (b : rx) (k : option N -> str -> option A) p s :
    mx u unit b (fun _ _ => Some tt) p s = None -> mx u A b k p s = None.
  Proof.
    intros H. destruct (mx u A b k p s) eqn:E; [|reflexivity]. exfalso.
    assert (mx u unit b (fun _ _ => Some tt) p s <> None); [|congruence].
    eapply mx_mono; [|rewrite E; discriminate]. intros; discriminate.
  Qed.

  Lemma demark_rx_eq (A : Type) (r : rx) (k : option N -> str -> option A) p s :
    match marker_of r with
    | Some b => mx u unit b (fun _ _ => Some tt) p s = None
    | None => True
    end -> mx u A r k p s = mx u A (demark_rx r) k p s.
  Proof.
    intros H. destruct r as [|c|r1 r2|r1 r2|r| |r|c]; try reflexivity.
    - (* XSeq (XAlt a (XAlt b c)) t *)
      destruct r1 as [|c|a1 a2|a b'|a| |a|c]; try reflexivity.
      destruct b' as [|c|a1 a2|b c|a'| |a'|c]; try reflexivity.
      cbn [marker_of demark_rx] in *. destruct (is_marker_alt b); [|reflexivity].
      cbn [mx]. destruct (mx u A a _ p s); [reflexivity|].
      rewrite (marker_alt_fails _ b _ p s H). reflexivity.
    - destruct r2 as [|c|a1 a2|b c|a'| |a'|c]; try reflexivity.
      cbn [marker_of demark_rx] in *. destruct (is_marker_alt b); [|reflexivity].
      cbn [mx]. destruct (mx u A r1 k p s); [reflexivity|].
      rewrite (marker_alt_fails _ b k p s H). reflexivity.
  Qed.

  Lemma first_altx_eq rs : forall p s, marker_hit u rs p s = false -> first_altx u rs p s = first_altx u (demarkx rs) p s.
  Proof.
    induction rs as [|nr rs IH]; intros p s H; [reflexivity|]. cbn [marker_hit existsb] in H.
    apply orb_false_elim in H as [H1 H2]. cbn [demarkx map first_altx fst snd].
    rewrite <- (demark_rx_eq _ (snd nr)).
    - destruct (mx u _ (snd nr) _ p s) as [[p' rest]|]; [reflexivity|]. apply IH. exact H2.
    - destruct (marker_of (snd nr)) as [b|]; [|exact I].
      destruct (mx u unit b (fun _ _ => Some tt) p s); [discriminate|reflexivity].
  Qed.

  Lemma root_searchx_eq rs : forall s acc p,
      marker_free u rs p s = true -> root_searchx u rs acc p s = root_searchx u (demarkx rs) acc p s.
  Proof.
    induction s as [|c s IH]; intros acc p H; cbn [marker_free] in H; apply andb_prop in H as [Hh Hr];
      apply negb_true_iff in Hh; cbn [root_searchx]; rewrite (first_altx_eq rs p _ Hh);
        destruct (first_altx u (demarkx rs) p _) as [[[n p'] rest]|]; auto.
  Qed.

  Lemma first_altx_suffix rs : forall p s n p' rest,
      first_altx u rs p s = Some (n, p', rest) -> exists w, s = w ++ rest /\ p' = lastp p w.
  Proof.
    induction rs as [|nr rs IH]; intros p s n p' rest H; cbn [first_altx] in H; [discriminate|].
    destruct (mx u _ (snd nr) (fun p' rest => Some (p', rest)) p s) as [[p1 r1]|] eqn:E.
    - inversion H; subst. apply mx_suffix in E as (w & s' & -> & E). inversion E; subst. exists w; auto.
    - eapply IH; eauto.
  Qed.

  Lemma root_searchx_suffix rs : forall s acc p d n v p' rest,
      root_searchx u rs acc p s = Some (d, n, v, p', rest) -> exists w, s = w ++ rest /\ p' = lastp p w.
  Proof.
    induction s as [|c s IH]; intros acc p d n v p' rest H; cbn [root_searchx] in H.
    - destruct (first_altx u rs p []) as [[[n0 p0] r0]|] eqn:E; [|discriminate]. inversion H; subst. eapply first_altx_suffix; eauto.
    - destruct (first_altx u rs p (c :: s)) as [[[n0 p0] r0]|] eqn:E.
      + inversion H; subst. eapply first_altx_suffix; eauto.
      + apply IH in H as (w & -> & ->). exists (c :: w). rewrite lastp_cons. auto.
  Qed.

  Lemma marker_free_app rs w : forall p t, marker_free u rs p (w ++ t) = true -> marker_free u rs (lastp p w) t = true.
  Proof.
    induction w as [|c w IH]; intros p t H; [exact H|]. cbn [app marker_free] in H.
    apply andb_prop in H as [_ H]. rewrite lastp_cons. apply IH. exact H.
  Qed.

  Theorem scanx_conservative_lemma rs inner : forall fuel p s,
      marker_free u rs p s = true -> scanx u rs inner fuel p s = scanx u (demarkx rs) inner fuel p s.
  Proof.
    induction fuel as [|f IH]; intros p s H; cbn [scanx]; [reflexivity|].
    rewrite (root_searchx_eq rs s [] p H).
    destruct (root_searchx u (demarkx rs) [] p s) as [[[[[d n] v] p'] rest]|] eqn:E; [|reflexivity].
    destruct (inner n p' rest) as [[toks k]|]; [|reflexivity].
    rewrite IH; [reflexivity|].
    apply root_searchx_suffix in E as (w & -> & ->). apply marker_free_app in H.
    rewrite <- (firstn_skipn k rest) in H. apply marker_free_app in H. exact H.
  Qed.
End RxThm.
