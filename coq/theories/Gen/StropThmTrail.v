(* C09 -- towards discharging cpp_whole_token_premise (StropThmInst.v): the cpp rule  _{2,}$  (Gen_Strop.cpp_rule_all_3).
   PARTIAL (round 9, time-boxed): proved here -- the exact semantics of that rule on identifier-alphabet strings
   (it matches, anchored at a position, iff the rest of the string is a run of at least two underscores) and the closed form of
   re.sub with it (a trailing run of >= 2 underscores is replaced, everything else is kept), hence "the output of the last
   encoding rule never ends in `__`".  NOT proved: carrying "does not end in `__`" through the keyword/pattern/handler stages
   (cpp: suffix empty, all later edits are at the front of the token), which is what the premise still needs. *)
From Verif Require Import StropInst StropThmRe StropThmEnc StropThm StropThmHandler StropThmId StropThmTotal StropThmInst StropThmKw.
Open Scope N_scope.

Definition r4 : re := Seq (Seq (Cls und_cls) (Seq (Cls und_cls) (Star (Cls und_cls)))) Eol.
Definition all_und (s : str) : bool := forallb (fun c => c =? 95) s.
Local Notation krest := (fun (_ : bool) (rest : str) => Some rest).

Lemma r4_is_regenerated : cpp_rule_all_3 = r4.
Proof. reflexivity. Qed.

Lemma ident_not_lf c : ident_char c = true -> (c =? LF) = false.
Proof. intros H. destruct (N.eqb_spec c LF) as [->|]; [discriminate H|reflexivity]. Qed.

Lemma eol_ident u at1 s : all_ident s = true -> mt u Eol krest at1 s = match s with [] => Some [] | _ => None end.
Proof.
  intros H. destruct s as [|c [|d s']]; cbn [mt]; try reflexivity.
  unfold all_ident in H; cbn [forallb] in H. apply andb_prop in H as [H _]. rewrite (ident_not_lf c H). reflexivity.
Qed.

Lemma star_unfold (A : Type) (m : (bool -> str -> option A) -> bool -> str -> option A) k f at1 s :
  star_loop m k (S f) at1 s =
  match m (fun at2 s2 => if Nat.ltb (length s2) (length s) then star_loop m k f at2 s2 else None) at1 s with
  | Some v => Some v | None => k at1 s end.
Proof. reflexivity. Qed.

Lemma cls_step u (A : Type) k (K : bool -> str -> option A) at1 c s : mt u (Cls k) K at1 (c :: s) = if cls_mem u k c then K false s else None.
Proof. reflexivity. Qed.

Lemma star_und_eol u : forall fuel s at1, (length s < fuel)%nat -> all_ident s = true ->
  star_loop (mt u (Cls und_cls)) (fun a s1 => mt u Eol krest a s1) fuel at1 s = if all_und s then Some [] else None.
Proof.
  induction fuel as [|f IH]; intros s at1 Hl Hi; [lia|]. rewrite star_unfold.
  destruct s as [|c s'].
  - cbn [mt all_und forallb]. reflexivity.
  - rewrite cls_step, und_mem. cbn [all_und forallb]. fold (all_und s').
    assert (Hi' : all_ident s' = true) by (unfold all_ident in *; cbn [forallb] in Hi; apply andb_prop in Hi; exact (proj2 Hi)).
    destruct (c =? 95) eqn:E; cbn [andb].
    + replace (Nat.ltb (length s') (length (c :: s'))) with true by (symmetry; apply Nat.ltb_lt; cbn [length]; lia).
      rewrite (IH s' false); [|cbn [length] in Hl; lia|exact Hi'].
      destruct (all_und s'); [reflexivity|]. rewrite (eol_ident u at1 (c :: s') Hi). reflexivity.
    + rewrite (eol_ident u at1 (c :: s') Hi). reflexivity.
Qed.

Lemma r4_step u (A : Type) (K : bool -> str -> option A) at1 c1 c2 r2 :
  mt u (Seq (Seq (Cls und_cls) (Seq (Cls und_cls) (Star (Cls und_cls)))) Eol) K at1 (c1 :: c2 :: r2)
  = if cls_mem u und_cls c1 then if cls_mem u und_cls c2
    then star_loop (mt u (Cls und_cls)) (fun a s1 => mt u Eol K a s1) (S (length r2)) false r2 else None else None.
Proof. reflexivity. Qed.

(* the rule matches at a position iff what is left is a run of >= 2 underscores (and then it takes all of it) *)
Lemma r4_mt u at1 cur : all_ident cur = true ->
  mt u r4 krest at1 cur = if Nat.leb 2 (length cur) && all_und cur then Some [] else None.
Proof.
  intros Hi. destruct cur as [|c1 [|c2 r2]].
  - reflexivity.
  - cbn. destruct ((95 <=? c1) && (c1 <=? 95)); reflexivity.
  - unfold r4. rewrite r4_step, !und_mem. cbn [length Nat.leb andb all_und forallb]. fold (all_und r2).
    assert (Hi2 : all_ident r2 = true).
    { unfold all_ident in *; cbn [forallb] in Hi. apply andb_prop in Hi as [_ Hi]. apply andb_prop in Hi; exact (proj2 Hi). }
    destruct (c1 =? 95); [|reflexivity]. destruct (c2 =? 95); [|reflexivity]. cbn [andb].
    apply star_und_eol; [lia|exact Hi2].
Qed.

Lemma all_und_app a b : all_und (a ++ b) = all_und a && all_und b.
Proof. apply forallb_app. Qed.

Definition endnz (b : str) : Prop := forall pre c, b = pre ++ [c] -> (c =? 95) = false.

Lemma not_all_und b ws : b <> [] -> endnz b -> all_und (b ++ ws) = false.
Proof.
  intros Hb H. destruct (exists_last Hb) as (pre & c & E). rewrite E, <- app_assoc, all_und_app. cbn [app all_und forallb].
  rewrite (H pre c E). cbn [andb]. apply andb_false_r.
Qed.

Lemma endnz_tl c b : endnz (c :: b) -> endnz b.
Proof. intros H pre d E. apply (H (c :: pre) d). rewrite E. reflexivity. Qed.

(* closed form of re.sub with  _{2,}$  on an identifier-alphabet string  b ++ ws  (ws: the trailing run of underscores) *)
Lemma r4_sub u (f : str -> str) b : forall ws fuel at1, all_und ws = true -> endnz b -> all_ident (b ++ ws) = true ->
  (length (b ++ ws) <= fuel)%nat ->
  re_sub_from u r4 f fuel at1 (b ++ ws) = b ++ (if Nat.leb 2 (length ws) then f ws else ws).
Proof.
  induction b as [|c b IH]; intros ws fuel at1 Hw Hb Hi Hl.
  - cbn [app] in *. destruct fuel as [|fu].
    + destruct ws; [reflexivity|cbn in Hl; lia].
    + cbn [re_sub_from]. destruct ws as [|c ws']; [reflexivity|]. unfold Strop.krest. rewrite (r4_mt u at1 (c :: ws') Hi), Hw, andb_true_r.
      destruct (Nat.leb 2 (length (c :: ws'))) eqn:L.
      * change (length (@nil N)) with 0%nat. rewrite Nat.sub_0_r, firstn_all.
        replace (Nat.ltb 0 (length (c :: ws'))) with true by (symmetry; apply Nat.ltb_lt; cbn [length]; lia).
        destruct fu; cbn [re_sub_from]; rewrite app_nil_r; reflexivity.
      * destruct ws' as [|d ws'']; [|cbn in L; discriminate]. destruct fu; reflexivity.
  - cbn [app] in *. destruct fuel as [|fu]; [cbn in Hl; lia|]. cbn [re_sub_from]. unfold Strop.krest.
    rewrite (r4_mt u at1 (c :: b ++ ws) Hi). change (c :: b ++ ws) with ((c :: b) ++ ws).
    rewrite (not_all_und (c :: b) ws) by (discriminate || exact Hb). rewrite andb_false_r. cbn [app]. f_equal.
    apply IH; [exact Hw|exact (endnz_tl c b Hb)| |cbn [length] in Hl; lia].
    unfold all_ident in *. cbn [forallb] in Hi. apply andb_prop in Hi; exact (proj2 Hi).
Qed.

Definition trails (s : str) : Prop := exists pre, s = pre ++ [95; 95].

(* whatever the replacement function, provided it never ends in an underscore: the result of the rule does not end in `__` *)
Theorem r4_sub_no_trail u (f : str -> str) x :
  (forall ws, all_und ws = true -> (2 <= length ws)%nat -> exists y z, f ws = y ++ [z] /\ (z =? 95) = false) ->
  all_ident x = true -> ~ trails (re_sub u r4 f x).
Proof.
  intros Hf Hi. destruct (rstrip_decomp (fun c => c =? 95) x) as (ws & Hx & Hw).
  assert (Hb : endnz (rstrip (fun c => c =? 95) x)) by (intros pre c E; exact (rstrip_no_trailing _ x pre c E)).
  remember (rstrip (fun c => c =? 95) x) as b eqn:Eb. clear Eb.
  unfold re_sub. subst x. rewrite (r4_sub u f b ws _ true Hw Hb Hi); [|apply Nat.le_refl].
  intros (pre & E). destruct (Nat.leb 2 (length ws)) eqn:L.
  - destruct (Hf ws Hw (proj1 (Nat.leb_le _ _) L)) as (y & z & Ey & Hz). rewrite Ey in E.
    change (pre ++ [95; 95]) with (pre ++ [95] ++ [95]) in E. rewrite !app_assoc in E. apply app_inj_tail in E as [_ E].
    subst z. discriminate Hz.
  - destruct ws as [|w [|w2 ws'']]; [| |cbn in L; discriminate].
    + rewrite app_nil_r in E. change (pre ++ [95; 95]) with (pre ++ [95] ++ [95]) in E. rewrite app_assoc in E.
      specialize (Hb _ _ E). discriminate Hb.
    + cbn [all_und forallb] in Hw. apply andb_prop in Hw as [Hw _]. apply N.eqb_eq in Hw; subst w.
      change (pre ++ [95; 95]) with (pre ++ [95] ++ [95]) in E. rewrite app_assoc in E. apply app_inj_tail in E as [E _].
      specialize (Hb _ _ E). discriminate Hb.
Qed.

(* the replacement function of the cpp configuration on a run of underscores: zX005F per underscore, ends in `F` *)
Lemma cpp_filter_und ws : all_und ws = true -> (2 <= length ws)%nat ->
  exists y z, encoding_filter py_isspace cfg_cpp ws = y ++ [z] /\ (z =? 95) = false.
Proof.
  intros Hw Hl. assert (Hsp : span_isspace py_isspace ws = false).
  { destruct ws as [|c ws']; [reflexivity|]. cbn [all_und forallb] in Hw. apply andb_prop in Hw as [Hc _].
    apply N.eqb_eq in Hc; subst c. cbn [span_isspace forallb]. reflexivity. }
  unfold encoding_filter. rewrite Hsp, andb_false_r.
  destruct (exists_last (l := ws)) as (pre & c & E); [destruct ws; [cbn in Hl; lia|discriminate]|].
  rewrite E, flat_map_app. cbn [flat_map]. rewrite app_nil_r.
  rewrite E, all_und_app in Hw. apply andb_prop in Hw as [_ Hc]. cbn [all_und forallb] in Hc. apply andb_prop in Hc as [Hc _].
  apply N.eqb_eq in Hc; subst c.
  exists (flat_map (encode_character py_isspace cfg_cpp) pre ++ [122; 88; 48; 48; 53]), 70. split; [|reflexivity].
  rewrite <- app_assoc. reflexivity.
Qed.

(* the cpp encoder's last rule never leaves a token that ends in `__` *)
Corollary cpp_last_rule_no_trail x : all_ident x = true -> ~ trails (re_sub py_uni cpp_rule_all_3 (encoding_filter py_isspace cfg_cpp) x).
Proof. rewrite r4_is_regenerated. apply r4_sub_no_trail. exact cpp_filter_und. Qed.

(* ------------------------------------------------------------------------------------------------------------- *)
(* carrying "does not end in `__`" through the stages of the cpp pipeline (suffix empty: later edits are at the front) *)
(* ------------------------------------------------------------------------------------------------------------- *)
Local Notation cfgN := (no_full cfg_cpp).

Lemma all_und_trails w : all_und w = true -> (2 <= length w)%nat -> trails w.
Proof.
  intros Hw Hl. destruct (exists_last (l := w)) as (p1 & a & E1); [destruct w; [cbn in Hl; lia|discriminate]|]. subst w.
  rewrite app_length in Hl; cbn [length] in Hl.
  destruct (exists_last (l := p1)) as (p2 & b & E2); [destruct p1; [cbn in Hl; lia|discriminate]|]. subst p1.
  rewrite !all_und_app in Hw. cbn [all_und forallb] in Hw. apply andb_prop in Hw as [Hw Ha]. apply andb_prop in Hw as [_ Hb].
  apply andb_prop in Ha as [Ha _]. apply andb_prop in Hb as [Hb _]. apply N.eqb_eq in Ha, Hb. subst a b.
  exists p2. rewrite <- app_assoc. reflexivity.
Qed.

Lemma trails_app pre w : trails w -> trails (pre ++ w).
Proof. intros (p & ->). exists (pre ++ p). rewrite app_assoc. reflexivity. Qed.

Lemma r4_search_none u : forall cur at1 i, all_ident cur = true ->
  (forall pre w, cur = pre ++ w -> all_und w = true -> (2 <= length w)%nat -> False) ->
  re_search_from u r4 at1 i cur = None.
Proof.
  induction cur as [|c cur IH]; intros at1 i Hi H; cbn [re_search_from].
  - reflexivity.
  - rewrite (r4_mt u at1 (c :: cur) Hi).
    destruct (Nat.leb 2 (length (c :: cur)) && all_und (c :: cur)) eqn:E.
    + exfalso. apply andb_prop in E as [E1 E2]. apply (H [] (c :: cur) eq_refl E2). apply Nat.leb_le; exact E1.
    + apply IH.
      * unfold all_ident in *. cbn [forallb] in Hi. apply andb_prop in Hi; exact (proj2 Hi).
      * intros pre w E'. apply (H (c :: pre) w). rewrite E'. reflexivity.
Qed.

Lemma r4_test_no_trail t : all_ident t = true -> ~ trails t -> re_test py_uni r4 t = false.
Proof.
  intros Hi Ht. unfold re_test, re_search. rewrite r4_search_none; [reflexivity|exact Hi|].
  intros pre w E Hw Hl. apply Ht. rewrite E. apply trails_app, all_und_trails; assumption.
Qed.

(* wrap of the cpp configuration = one underscore in front *)
Lemma cpp_wrap x : wrap cfgN x = 95 :: x.
Proof. unfold wrap. cbn. rewrite app_nil_r. reflexivity. Qed.

Lemma trails_cons x : x <> [95] -> ~ trails x -> ~ trails (95 :: x).
Proof.
  intros Hx Ht (pre & E). destruct pre as [|p pre]; cbn [app] in E.
  - injection E as E. congruence.
  - injection E as _ E. apply Ht. exists pre. exact E.
Qed.

Lemma drop_und_decomp s : exists us, s = us ++ drop_und s.
Proof.
  induction s as [|c s (us & IH)]; [exists []; reflexivity|]. cbn [drop_und]. destruct (c =? 95).
  - exists (c :: us). cbn [app]. f_equal. exact IH.
  - exists []. reflexivity.
Qed.

Lemma handler_no_trail x y : handler_und x = Some y -> ~ trails x -> ~ trails y.
Proof.
  unfold handler_und. destruct x as [|c0 s0]; [discriminate|]. destruct (c0 =? 95) eqn:E0; [|discriminate].
  apply N.eqb_eq in E0; subst c0. intros H Hx. injection H as <-. pose proof (drop_und_hd s0) as Hh.
  destruct (drop_und_decomp s0) as (us & Hus). destruct (drop_und s0) as [|c r] eqn:Ed.
  - intros (pre & E). destruct pre as [|? [|? ?]]; discriminate.
  - assert (Hcc : forall d, (d =? 95) = false -> ~ trails (95 :: d :: r)).
    { intros d Hd (pre & E). destruct pre as [|p [|p2 pre]]; cbn [app] in E.
      - injection E as E _. subst d. discriminate Hd.
      - injection E as _ E _. subst d. discriminate Hd.
      - injection E as _ _ E. apply Hx. exists (95 :: us ++ c :: pre). rewrite Hus, E. cbn [app]. rewrite <- !app_assoc. reflexivity. }
    destruct (is_upper c) eqn:Hu; apply Hcc; [|exact Hh].
    apply is_upper_iff in Hu. apply N.eqb_neq. lia.
Qed.

(* finite facts about the token "_" under the cpp configuration: never stropped *)
Lemma und_not_reserved : str_in [95] (sc_reserved cfgN) = false.
Proof. vm_compute; reflexivity. Qed.
Lemma und_no_pattern : forallb (fun e => negb (matches_pats py_uni [95] (snd e))) (sc_patterns cfgN) = true.
Proof. vm_compute; reflexivity. Qed.

Lemma kw_no_trail x ty : ~ trails x ->
  match strop_by_keyword cfgN x ty false with TOk x' => ~ trails x' | TKeyError => True | TRuntimeError => False end.
Proof.
  intros Hx. unfold strop_by_keyword. destruct (str_in x (sc_reserved cfgN)) eqn:E; [|exact Hx].
  rewrite cpp_wrap. apply trails_cons; [|exact Hx]. intros ->. rewrite und_not_reserved in E. discriminate.
Qed.

Lemma pat_no_trail x ty : ~ trails x ->
  match strop_by_pattern py_uni cfgN x ty false with TOk x' => ~ trails x' | TKeyError => True | TRuntimeError => False end.
Proof.
  intros Hx. unfold strop_by_pattern. destruct (lookup (sc_patterns cfgN) ty) as [ps|] eqn:L; [|exact I].
  destruct (matches_pats py_uni x ps) eqn:E; [|exact Hx]. rewrite cpp_wrap. apply trails_cons; [|exact Hx]. intros ->.
  apply lookup_in in L as (k' & Hin). pose proof und_no_pattern as H. rewrite forallb_forall in H. specialize (H _ Hin).
  cbn [snd] in H. rewrite E in H. discriminate.
Qed.

Lemma cpp_enc_out : chk_enc_out cfgN = true.
Proof. vm_compute; reflexivity. Qed.

(* the encoding stage: every rule list of the cpp configuration ends with  _{2,}$  after the alphabet-establishing rule *)
Lemma enc_no_trail x ty : match encode py_uni py_isspace cfgN x ty false with
                          | TOk x' => (lookup (sc_rules cfgN) ty = None /\ x' = x) \/ ~ trails x' | TKeyError => True | TRuntimeError => False end.
Proof.
  unfold encode. destruct (lookup (sc_rules cfgN) ty) as [rs|] eqn:L; [|left; split; reflexivity].
  rewrite (encode_rules_nd py_uni py_isspace cfgN). right.
  apply lookup_in in L as (k' & Hin). cbn in Hin.
  assert (Hlast : forall y, ~ trails (re_sub py_uni r4 (encoding_filter py_isspace cfgN) (re_sub py_uni cpp_rule_all_2 (encoding_filter py_isspace cfgN)
                                (re_sub py_uni cpp_rule_all_1 (encoding_filter py_isspace cfgN) y)))).
  { intros y. apply r4_sub_no_trail; [exact cpp_filter_und|].
    apply (re_sub_ident py_uni py_isspace cfgN cpp_enc_out). apply (good_clsplus_ident py_uni py_isspace cfgN cpp_enc_out). reflexivity. }
  destruct Hin as [E|[E|[]]]; injection E as _ <-; cbn [sub_all fold_left]; apply Hlast.
Qed.

Local Notation rule_inert_bool u r := (forallb (fun c1 => rch_none u true c1 (C2of false c1) r) ident_nodigit
                                        && forallb (fun c1 => rch_none u false c1 (C2of false c1) r) ident_list).

Lemma enc_val x ty : exists x', encode py_uni py_isspace cfgN x ty false = TOk x'.
Proof. unfold encode. destruct (lookup (sc_rules cfgN) ty); [rewrite (encode_rules_nd py_uni py_isspace cfgN)|]; eexists; reflexivity. Qed.

Lemma cpp_enc_stage s tyl : exists e, do_for_type_and_all (encode py_uni py_isspace cfgN) s tyl false = TOk e /\ ~ trails e.
Proof.
  unfold do_for_type_and_all. pose proof (enc_no_trail s ty_all) as H1. destruct (enc_val s ty_all) as (x1 & E1). rewrite E1 in *.
  assert (N1 : ~ trails x1) by (destruct H1 as [[E _]|H1]; [vm_compute in E; discriminate E|exact H1]).
  destruct (str_eqb tyl ty_all); [exists x1; auto|].
  pose proof (enc_no_trail x1 tyl) as H2. destruct (enc_val x1 tyl) as (x2 & E2). rewrite E2 in *.
  exists x2; split; [reflexivity|]. destruct H2 as [[_ ->]|H2]; assumption.
Qed.

(* what the cpp pipeline (tree without the whole-token loop) returns never ends in `__` *)
Lemma cpp_nofull_no_trail ty s t : strop py_uni py_isspace cfgN ty s = Ok t -> ~ trails t.
Proof.
  unfold strop. set (tyl := lower ty). destruct (str_eqb tyl ty_all); [discriminate|].
  destruct (cpp_enc_stage s tyl) as (e & -> & He).
  destruct (do_for_nd (strop_by_keyword cfgN) (fun x => ~ trails x) e tyl (fun x ty0 => kw_no_trail x ty0) He) as (k & -> & Hk).
  destruct (do_for_nd (strop_by_pattern py_uni cfgN) (fun x => ~ trails x) k tyl (fun x ty0 => pat_no_trail x ty0) Hk) as (p & -> & Hp).
  assert (Hstep : forall d h x y, ~ trails x -> checked d h x = Ok y -> ~ trails y).
  { intros d h x y Hx Hc. apply checked_cases in Hc as [[_ ->]|[_ Hu]]; [exact Hx|]. exact (handler_no_trail x y Hu Hx). }
  destruct (checked _ (sc_strop_handler cfgN) p) as [s1| |] eqn:C1; try discriminate.
  destruct (checked _ (sc_strop_handler cfgN) s1) as [s2| |] eqn:C2; try discriminate.
  destruct (checked _ (sc_enc_handler cfgN) s2) as [s3| |] eqn:C3; try discriminate.
  pose proof (Hstep _ _ _ _ (Hstep _ _ _ _ (Hstep _ _ _ _ Hp C1) C2) C3) as H3.
  change (sc_reverify cfgN) with true. cbv iota. unfold reverified.
  destruct (_ && _ && _ && _); [|discriminate]. intros [= <-]. exact H3.
Qed.

Lemma bol_search_false u r : forall s i, re_search_from u (Seq Bol r) false i s = None.
Proof. induction s as [|c s IH]; intros i; cbn [re_search_from mt]; [reflexivity|apply IH]. Qed.

(* THE PREMISE: the whole-token loop accepts every token the cpp encoder returns *)
Theorem cpp_whole_token_premise_holds : cpp_whole_token_premise.
Proof.
  unfold cpp_whole_token_premise. destruct strop_full_check; [|exact I]. intros ty s t Hne H _.
  pose proof (cpp_nofull_no_trail ty s t H) as Hnt.
  pose proof (nofull_valid LCpp ty s t Hne H) as Hv. destruct (valid_split t Hv) as [Hi Hh].
  assert (Henc : forall r, In r (rules_of cfgN ty_all) -> re_matches py_uni r t = false)
    by (apply (strop_result_enc_ok py_uni py_isspace cfgN ty s t); [reflexivity|exact H]).
  assert (Hall : forall k r, In r (rules_for cfg_cpp k) -> negb (re_test py_uni r t) = true).
  { intros k r Hin. unfold rules_for in Hin. destruct (lookup (sc_rules cfg_cpp) k) as [rs|] eqn:L; [|destruct Hin].
    apply lookup_in in L as (k' & Hk'). cbn in Hk'. apply negb_true_iff.
    assert (Cinert : forall r0, rule_inert_bool py_uni r0 = true -> nonnull py_uni r0 = true -> re_test py_uni r0 t = false).
    { intros r0 H0 Hn. unfold re_test, re_search. rewrite (search_none py_uni r0 Hn); [reflexivity|].
      apply (inert_nomatch py_uni false r0 H0 t true Hi); [discriminate|intros _; exact Hh]. }
    assert (Cbol : forall r0, In (Seq Bol r0) (rules_of cfgN ty_all) -> re_test py_uni (Seq Bol r0) t = false).
    { intros r0 Hr0. specialize (Henc _ Hr0). unfold re_matches, re_match in Henc. unfold re_test, re_search.
      destruct t as [|c t']; cbn [re_search_from].
      - destruct (mt py_uni (Seq Bol r0) _ true []); [discriminate|reflexivity].
      - destruct (mt py_uni (Seq Bol r0) _ true (c :: t')); [discriminate|]. rewrite bol_search_false. reflexivity. }
    destruct Hk' as [E|[E|[]]]; injection E as _ <-;
      (destruct Hin as [<-|[<-|[<-|[<-|[]]]]];
       [apply Cinert; vm_compute; reflexivity
       |apply Cinert; vm_compute; reflexivity
       |apply Cbol; right; right; left; reflexivity
       |exact (r4_test_no_trail t Hi Hnt)]). }
  unfold full_ok. apply andb_true_intro; split; apply forallb_forall; intros r Hin; eapply Hall; exact Hin.
Qed.
