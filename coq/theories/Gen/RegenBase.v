(* C12 -- base of the regeneration model: the file system as a finite map, the primitive
   file operations the generator performs on it (pathlib.Path.exists / stat / chmod, open(...,"w"),
   shutil.copy), the error monad, and the little "skeleton" language into which the translator
   (tools/translators/gen_c12.py) renders the call sequence of the per-file writers of
   src/nunavut/jinja/__init__.py.  No proofs in this file. *)
From Coq Require Import NArith List Bool.
Import ListNotations.
Open Scope N_scope.

Definition path := N.                       (* paths are opaque; only equality matters *)

Record fmeta := mkF {
  f_cid   : N;        (* abstract content id *)
  f_mode  : N;        (* permission bits, st_mode & 0o7777 *)
  f_owned : bool;     (* owned by the user running the generator *)
  f_isdir : bool      (* a directory sits at this path *)
}.

Definition fs := path -> option fmeta.
Definition empty_fs : fs := fun _ => None.
Definition upd (s : fs) (p : path) (f : fmeta) : fs := fun q => if N.eqb q p then Some f else s q.

Definition set_mode (f : fmeta) (m : N) : fmeta := mkF (f_cid f) m (f_owned f) (f_isdir f).
Definition set_cid (f : fmeta) (c : N) : fmeta := mkF c (f_mode f) (f_owned f) (f_isdir f).

Inductive err :=
| EExists      (* PermissionError raised by _handle_overwrite: file exists and allow_overwrite is False *)
| EAccess      (* EACCES from open()/mkdir() *)
| ENoEnt       (* chmod/stat of a missing path *)
| EIsDir       (* open(...,"w") of a directory *)
| EPermChmod   (* EPERM: chmod of a file of another user *)
| EModel.      (* skeleton outside what the interpreter knows (fail closed) *)

Inductive result := Ok | Err (e : err).

Definition is_ok (r : result) : bool := match r with Ok => true | Err _ => false end.

(* ambient facts that no run of the generator changes *)
Record env := mkEnv {
  superuser  : bool;            (* effective uid 0: file permission bits are not enforced *)
  umask      : N;
  can_create : path -> bool     (* the directory chain of the path exists or can be created and allows a new entry
                                   (for the superuser: only "no regular file in the way") *)
}.

Definition bind (x : fs * result) (k : fs -> fs * result) : fs * result :=
  match snd x with
  | Ok => k (fst x)
  | Err e => (fst x, Err e)
  end.

(* ---- primitive operations --------------------------------------------------------------- *)
Definition fs_exists (s : fs) (p : path) : bool :=
  match s p with Some _ => true | None => false end.

(* Path.stat().st_mode; only ever evaluated under an exists() guard in the code *)
Definition fs_st_mode (s : fs) (p : path) : N :=
  match s p with Some f => f_mode f | None => 0 end.

(* Path.chmod(m): the kernel keeps m & 0o7777; allowed for the owner and for the superuser *)
Definition fs_chmod (e : env) (s : fs) (p : path) (m : N) : fs * result :=
  match s p with
  | None => (s, Err ENoEnt)
  | Some f => if superuser e || f_owned f
              then (upd s p (set_mode f (N.land m 4095)), Ok)
              else (s, Err EPermChmod)
  end.

(* owner class decides for own files (bit 7 = 0o200), "other" class for foreign ones (bit 1 = 0o002) *)
Definition writable (e : env) (f : fmeta) : bool :=
  superuser e || (if f_owned f then N.testbit (f_mode f) 7 else N.testbit (f_mode f) 1).

(* open(p, "w") ... write everything ... close : truncates an existing file (mode kept) or creates
   a new one with 0o666 & ~umask *)
Definition fs_write (e : env) (s : fs) (p : path) (c : N) : fs * result :=
  match s p with
  | Some f => if f_isdir f then (s, Err EIsDir)
              else if writable e f then (upd s p (set_cid f c), Ok)
              else (s, Err EAccess)
  | None => if can_create e p
            then (upd s p (mkF c (N.ldiff 438 (umask e)) true false), Ok)
            else (s, Err EAccess)
  end.

(* shutil.copy(src, dst) = copyfile (open(dst,"wb")) followed by copymode (chmod(dst, S_IMODE(src))) *)
Definition fs_copy (e : env) (s : fs) (p : path) (c : N) (srcmode : N) : fs * result :=
  bind (fs_write e s p c) (fun s1 => fs_chmod e s1 p srcmode).

(* ---- configuration of one run -------------------------------------------------------------- *)
Inductive filepp :=
| PPSetFileMode (m : N).        (* nunavut._postprocessors.SetFileMode(m) *)

Record cfg := mkCfg {
  c_class     : N;       (* everything that determines the rendered text (language, options, line post-processors, ...) *)
  c_allow     : bool;    (* allow_overwrite = not --no-overwrite *)
  c_dryrun    : bool;
  c_linepps   : bool;    (* at least one line post-processor *)
  c_filepps   : list filepp;         (* file post-processors in order *)
  c_gen_support : bool;  (* ArgparseRunner._should_generate_support() *)
  c_gen_types : bool;    (* --generate-support != only *)
  c_support   : list (path * bool);  (* support targets in iteration order; true = jinja template (.j2) resource *)
  c_types     : list path;           (* type targets in iteration order *)
  c_resmode   : N        (* permission bits of the packaged support resources (shutil.copy copies them) *)
}.

(* ---- skeletons: the order of file-system relevant calls in a per-file writer ------------------ *)
Inductive guard := GNotDryrun | GNoLinePPs | GHasLinePPs.

Inductive act :=
| AHandleOverwrite        (* self._handle_overwrite(path, allow_overwrite) *)
| AMkdirParents           (* path.parent.mkdir(parents=True, exist_ok=True) *)
| AOpenWrite              (* with open(str(path), "w", ...): write the (line-processed) text *)
| AShutilCopy             (* shutil.copy(str(resource), str(target)) *)
| AFilePPs                (* for file_pp in file_pps: path = file_pp(path) *)
| ACallGenerateCode       (* self._generate_code(path, ..., allow_overwrite) *)
| ACallCopyLinePPs.       (* self._copy_header_using_line_pps(resource, target, line_pps) *)

Definition skel := list (list guard * act).

(* phases of ArgparseRunner._generate in source order *)
Inductive phase := PhSupport | PhTypes.

(* classes appended by ArgparseRunner._build_post_processor_list_from_args, in source order;
   the flag says "appended unconditionally" *)
Inductive ppclass := KTrim | KLimit | KExtProgram | KSetFileMode.
