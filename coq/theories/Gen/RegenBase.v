(* C12 -- base of the regeneration model: the output tree as a finite map path -> entry (regular file or directory), the
   primitive file operations the generator performs on it (pathlib.Path.exists / is_dir / stat / chmod / mkdir(parents),
   open(...,"w"), shutil.copy), the error monad, and the little "skeleton" language into which the translator
   (tools/translators/gen_c12.py) renders the call sequence of the per-file writers of src/nunavut/jinja/__init__.py.
   No proofs in this file. *)
From Coq Require Import NArith List Bool.
Import ListNotations.
Open Scope N_scope.

Definition path := N.                       (* paths below the output directory; opaque, the tree shape is in [env] *)

Record fmeta := mkF {
  f_cid   : N;        (* abstract content id (0 for directories) *)
  f_mode  : N;        (* permission bits, st_mode & 0o7777 *)
  f_owned : bool;     (* owned by the user running the generator *)
  f_isdir : bool      (* a directory *)
}.

Definition fs := path -> option fmeta.
Definition empty_fs : fs := fun _ => None.
Definition upd (s : fs) (p : path) (f : fmeta) : fs := fun q => if N.eqb q p then Some f else s q.

Definition set_mode (f : fmeta) (m : N) : fmeta := mkF (f_cid f) m (f_owned f) (f_isdir f).
Definition set_cid (f : fmeta) (c : N) : fmeta := mkF c (f_mode f) (f_owned f) (f_isdir f).

Inductive err :=
| EExists      (* PermissionError raised by _handle_overwrite: file exists and allow_overwrite is False *)
| EAccess      (* EACCES / ENOENT from open() or mkdir() *)
| ENoEnt       (* chmod/stat of a missing path *)
| EIsDir       (* open(...,"w") of a directory, IsADirectoryError *)
| ENotDir      (* mkdir(parents=True, exist_ok=True) meets a regular file: FileExistsError / NotADirectoryError *)
| EPermChmod   (* EPERM: chmod of a file of another user *)
| EModel.      (* skeleton outside what the interpreter knows (fail closed) *)

Inductive result := Ok | Err (e : err).

Definition is_ok (r : result) : bool := match r with Ok => true | Err _ => false end.

(* what no run of the generator changes: who runs it, and the SHAPE of the path space (which path is below which) *)
Record env := mkEnv {
  superuser     : bool;            (* effective uid 0: permission bits are not enforced *)
  umask         : N;
  root_writable : bool;            (* the output directory itself accepts new entries from this user *)
  ancestors     : path -> list path;  (* the directories strictly between the output directory and the path, outermost first *)
  child         : path -> path;    (* p/<file name of the packaged resource>: where shutil.copy lands when p is a directory *)
  links         : path -> option path; (* symbolic links in the tree: p is a link whose destination is the path d (inside or
                                          outside the output directory; dangling when d has no entry).  No run creates, removes
                                          or retargets a link (every operation below follows links), so they are part of the shape.
                                          One level: destinations are not links themselves. *)
  special       : path -> bool         (* entries that are neither regular files nor directories nor links: character/block
                                          devices, FIFOs, sockets.  No run creates or removes one either.  A special path
                                          always exists (fs_exists_at); what sits in [fs] for it is only mode and owner. *)
}.

(* what exists()/is_dir()/stat()/chmod()/open() operate on: the destination of a link, the path itself otherwise *)
Definition resolve (e : env) (p : path) : path := match links e p with Some d => d | None => p end.
Definition is_symlink (e : env) (p : path) : bool := match links e p with Some _ => true | None => false end.

Definition bind (x : fs * result) (k : fs -> fs * result) : fs * result :=
  match snd x with
  | Ok => k (fst x)
  | Err e => (fst x, Err e)
  end.

(* ---- primitive operations --------------------------------------------------------------- *)
Definition fs_exists (s : fs) (p : path) : bool :=
  match s p with Some _ => true | None => false end.

(* Path.exists() *)
Definition fs_exists_at (e : env) (s : fs) (p : path) : bool := fs_exists s p || special e p.

(* Path.is_file(): a regular file (after following links: the caller resolves) *)
Definition fs_is_file (e : env) (s : fs) (p : path) : bool :=
  match s p with Some f => negb (f_isdir f) && negb (special e p) | None => false end.

Definition fs_is_dir (s : fs) (p : path) : bool :=
  match s p with Some f => f_isdir f | None => false end.

(* Path.stat().st_mode; only ever evaluated under an exists() guard in the code *)
Definition fs_st_mode (s : fs) (p : path) : N :=
  match s p with Some f => f_mode f | None => 0 end.

(* Path.chmod(m): the kernel keeps m & 0o7777; allowed for the owner and for the superuser *)
Definition fs_chmod (e : env) (s : fs) (p : path) (m : N) : fs * result :=
  match s p with
  | None => (s, Err ENoEnt)
  | Some f => if superuser e || f_owned f
              then (upd s p (set_mode f (N.land m 4095)), Ok)
              else (s, Err EPermChmod)
  end.

(* write permission: owner class decides for own entries (bit 7 = 0o200), "other" class for foreign ones (bit 1 = 0o002);
   for a directory this is the permission to add an entry (search permission is not modelled) *)
Definition writable (e : env) (f : fmeta) : bool :=
  superuser e || (if f_owned f then N.testbit (f_mode f) 7 else N.testbit (f_mode f) 1).

(* does the directory d (None = the output directory) exist as a directory that accepts a new entry? *)
Definition allows (e : env) (s : fs) (d : option path) : bool :=
  match d with
  | None => root_writable e
  | Some a => match s a with Some f => f_isdir f && writable e f | None => false end
  end.

Definition new_dir (e : env) : fmeta := mkF 0 (N.ldiff 511 (umask e)) true true.       (* 0o777 & ~umask *)

(* Path.mkdir(parents=True, exist_ok=True) of the directory chain l (outermost first), standing in directory prev *)
Fixpoint mkdirs (e : env) (prev : option path) (l : list path) (s : fs) : fs * result :=
  match l with
  | [] => (s, Ok)
  | a :: r =>
      match s a with
      | Some f => if f_isdir f then mkdirs e (Some a) r s else (s, Err ENotDir)
      | None => if allows e s prev then mkdirs e (Some a) r (upd s a (new_dir e)) else (s, Err EAccess)
      end
  end.

(* the innermost directory of a chain walked from prev *)
Fixpoint last_from (prev : option path) (l : list path) : option path :=
  match l with [] => prev | a :: r => last_from (Some a) r end.

Definition parent_of (e : env) (p : path) : option path := last_from None (ancestors e p).

(* open(q, "w") ... write everything ... close, q being an entry of directory d: truncates an existing file (mode kept)
   or creates a new one with 0o666 & ~umask *)
Definition fs_write_in (e : env) (s : fs) (d : option path) (q : path) (c : N) : fs * result :=
  match s q with
  | Some f => if f_isdir f then (s, Err EIsDir)
              else if special e q then (s, Ok)        (* a character device swallows what is written (a FIFO without reader
                                                         blocks forever: not modelled); nothing of the entry changes *)
              else if writable e f then (upd s q (set_cid f c), Ok)
              else (s, Err EAccess)
  | None => if allows e s d
            then (upd s q (mkF c (N.ldiff 438 (umask e)) true false), Ok)
            else (s, Err EAccess)
  end.

Definition fs_write (e : env) (s : fs) (p : path) (c : N) : fs * result := fs_write_in e s (parent_of e p) p c.

(* shutil.copy(src, dst): "If dst specifies a directory, the file will be copied into dst using the base filename from src";
   then copyfile (open(dst,"wb")) followed by copymode (chmod(dst, S_IMODE(src))) *)
Definition fs_copy (e : env) (s : fs) (p : path) (c : N) (srcmode : N) : fs * result :=
  if fs_is_dir s p
  then bind (fs_write_in e s (Some p) (child e p) c) (fun s1 => fs_chmod e s1 (child e p) srcmode)
  else bind (fs_write e s p c) (fun s1 => fs_chmod e s1 p srcmode).

(* ---- configuration of one run -------------------------------------------------------------- *)
Inductive filepp :=
| PPSetFileMode (m : N)         (* nunavut._postprocessors.SetFileMode(m) *)
| PPExternal (f : N -> N).      (* ExternalProgramEditInPlace (--pp-run-program): an arbitrary program that rewrites the file it
                                   is given, in place; f = its effect on the content *)

(* the program opens the generated file for update: follows nothing but the path it was given *)
Definition fs_edit (e : env) (s : fs) (p : path) (f : N -> N) : fs * result :=
  match s p with
  | None => (s, Err ENoEnt)
  | Some m => if f_isdir m then (s, Err EIsDir)
              else if writable e m then (upd s p (set_cid m (f (f_cid m))), Ok)
              else (s, Err EAccess)
  end.

Inductive gsmode := GSAlways | GSNever | GSAsNeeded | GSOnly.     (* --generate-support *)

Record cfg := mkCfg {
  c_class     : N;       (* everything that is SUPPOSED to determine the rendered text (language, options, line post-processors, ...) *)
  c_amb       : N;       (* everything else a run could see: clock, process state, hash seed, ... *)
  c_allow     : bool;    (* allow_overwrite = not --no-overwrite *)
  c_dryrun    : bool;
  c_linepps   : bool;    (* at least one line post-processor (command line or language configuration) *)
  c_filepps   : list filepp;         (* file post-processors in order *)
  c_gensup    : gsmode;  (* --generate-support *)
  c_omit      : bool;    (* --omit-serialization-support *)
  c_sersup    : list (path * bool);  (* targets of the SERIALIZATION_SUPPORT resources in order; true = jinja template (.j2) *)
  c_typesup   : list (path * bool);  (* targets of the TYPE_SUPPORT resources *)
  c_types     : list path;           (* type (and namespace) file targets in generation order: C11's c11_targets *)
  c_resmode   : N        (* permission bits of the packaged support resources (shutil.copy copies them) *)
}.

(* ---- skeletons: the order of file-system relevant calls in a per-file writer ------------------ *)
Inductive guard := GNotDryrun | GNoLinePPs | GHasLinePPs.

Inductive act :=
| AHandleOverwrite        (* self._handle_overwrite(path, allow_overwrite) *)
| AMkdirParents           (* path.parent.mkdir(parents=True, exist_ok=True) *)
| AOpenWrite              (* with open(str(path), "w", ...): write the (line-processed) text *)
| AShutilCopy             (* shutil.copy(str(resource), str(target)) *)
| AFilePPs                (* for file_pp in file_pps: path = file_pp(path) *)
| ACallGenerateCode       (* self._generate_code(path, ..., allow_overwrite) *)
| ACallCopyLinePPs.       (* self._copy_header_using_line_pps(resource, target, line_pps) *)

Definition skel := list (list guard * act).

(* phases of ArgparseRunner._generate in source order *)
Inductive phase := PhSupport | PhTypes.

(* classes appended by ArgparseRunner._build_post_processor_list_from_args, in source order;
   the flag says "appended unconditionally" *)
Inductive ppclass := KTrim | KLimit | KExtProgram | KSetFileMode.
