(* C11: what the property demands, written against the mathematical objects (namespace prefixes,
   permutations, path components) -- definitions only, no proofs.  The theorems relating the
   model Gen/Namespace.v to these definitions live in NamespaceBuildThm.v / NamespaceTreeThm.v /
   NamespacePathThm.v. *)
From Verif Require Export Namespace.
From Coq Require Export Permutation.
Open Scope N_scope.

(* the non-empty prefixes of a namespace = the namespaces on the way from the root to it *)
Definition prefixes (k : key) : list key := map (fun i => firstn i k) (seq 1 (length k)).

(* every namespace the property wants as a node (with repetitions; used as a set) *)
Definition nodes_of (types : list ty) : list key := flat_map (fun t => prefixes (t_ns t)) types.

(* the parent namespace by name: a.b.c -> a.b ; a -> none *)
Definition parent_of (k : key) : option key :=
  match removelast k with [] => None | p => Some p end.

(* what pydsdl guarantees about one read_namespace result: all types live under one root component *)
Definition one_root (r : str) (types : list ty) : Prop :=
  forall t, In t types -> exists rest, t_ns t = r :: rest.

(* a component that is safe as a file/directory name below the output directory *)
Definition ident_like (s : str) : Prop := s <> [] /\ ~ In SLASH s /\ ~ In DOT s.
Definition safe_comp (s : str) : Prop := s <> [] /\ ~ In SLASH s /\ s <> [DOT] /\ s <> [DOT; DOT].

(* lexical path resolution (what the OS does with the components of a relative path when no
   symlinks are involved); the stack holds the current directory, innermost first *)
Fixpoint resolve (stack : path) (p : path) : path :=
  match p with
  | [] => stack
  | c :: r => if str_eqb c [DOT] then resolve stack r
              else if str_eqb c [DOT; DOT] then resolve (tl stack) r
              else resolve (c :: stack) r
  end.

Section SPEC.
  Variable strop : str -> str.
  Variable es : bool.
  Variable ext : str.
  Variable stem : str.
  Variable outdir : path.

  (* every name that is stropped when the paths of `types` are formed *)
  Definition names_of (types : list ty) : list str := flat_map (fun t => base_name t :: t_ns t) types.

  (* TRIGGER of F-NS-FOLD: two different namespaces (prefixes of type namespaces) have the same stropped
     spelling, i.e. Namespace.__eq__ identifies two different DSDL namespaces *)
  Definition ns_fold (types : list ty) : bool :=
    existsb (fun k1 => existsb (fun k2 => ns_eqb strop k1 k2 && negb (key_eqb k1 k2)) (nodes_of types))
            (nodes_of types).

  Definition ns_inj (types : list ty) : Prop :=
    forall k1 k2, In k1 (nodes_of types) -> In k2 (nodes_of types) -> map strop k1 = map strop k2 -> k1 = k2.

  (* the heap built for `types` is the tree the property describes *)
  Record tree_ok (types : list ty) (s : store) : Prop := {
    tk_nodup : NoDup (keys s);
    tk_keys : forall k, In k (keys s) <-> In k (nodes_of types);
    tk_parent : forall k n, get s k = Some n -> n_parent n = parent_of k;
    tk_types : forall k n, get s k = Some n ->
       n_types n = map (fun t => (t, out_path strop es ext outdir t)) (filter (fun t => key_eqb (t_ns t) k) types);
    tk_child_sound : forall k n c, get s k = Some n -> In c (n_children n) ->
       In c (keys s) /\ parent_of c = Some k
  }.

  Record tree_full (types : list ty) (s : store) : Prop := {
    tf_ok : tree_ok types s;
    tf_child_complete : forall k n c, get s k = Some n -> In c (keys s) -> parent_of c = Some k ->
       In c (n_children n);
    tf_child_nodup : forall k n, get s k = Some n -> NoDup (n_children n)
  }.

  Definition ty_item (t : ty) : item := ITy t (out_path strop es ext outdir t).
  Definition ns_item (k : key) : item := INs k (ns_path strop ext stem outdir k).
End SPEC.
