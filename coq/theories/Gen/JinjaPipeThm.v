(* C19: end-to-end statements over the template text (Gen/JinjaPipe.v) *)
From Verif Require Import JinjaPipe JinjaRxThm JinjaScanThm.
From Coq Require Import Lia.
Open Scope N_scope.

Definition tsuffix (t toks : list xtok) : Prop := exists w, toks = w ++ t.

Lemma tsuffix_refl t : tsuffix t t.
Proof. exists []; reflexivity. Qed.
Lemma tsuffix_cons x t toks : tsuffix (x :: t) toks -> tsuffix t toks.
Proof. intros (w & ->). exists (w ++ [x]). rewrite <- app_assoc. reflexivity. Qed.
Lemma tsuffix_trans a b c : tsuffix a b -> tsuffix b c -> tsuffix a c.
Proof. intros (w1 & ->) (w2 & ->). exists (w2 ++ w1). rewrite app_assoc. reflexivity. Qed.
Lemma tsuffix_tail x t : tsuffix t (x :: t).
Proof. exists [x]; reflexivity. Qed.

Lemma no_marker_suffix mv mb t toks : tsuffix t toks -> no_marker_tokens mv mb toks = true -> no_marker_tokens mv mb t = true.
Proof. intros (w & ->) H. unfold no_marker_tokens in *. rewrite forallb_app in H. apply andb_prop in H as [_ H]. exact H. Qed.

Section ParserThm.
  Variables E St : Type.
  Variable pt : list xtok -> option (E * list xtok).
  Variable ps : (list str -> list xtok -> option (list (pnode E St) * list xtok)) -> list xtok -> option (list St * list xtok).
  (* what is assumed of the UNMODIFIED parser functions: they consume the token stream forwards, and parse_statement uses the
     recursive subparse it is given only on tokens of its own input *)
  Hypothesis pt_fwd : forall toks e rest, pt toks = Some (e, rest) -> tsuffix rest toks.
  Hypothesis ps_fwd : forall cb toks ss rest,
      (forall ends t ns r, cb ends t = Some (ns, r) -> tsuffix r t) -> ps cb toks = Some (ss, rest) -> tsuffix rest toks.
  Hypothesis ps_local : forall cb1 cb2 toks,
      (forall ends t ns r, cb2 ends t = Some (ns, r) -> tsuffix r t) ->
      (forall ends t, tsuffix t toks -> cb1 ends t = cb2 ends t) -> ps cb1 toks = ps cb2 toks.

  Section Fwd.
  Variables mv mb : str -> option str.
  Variable g : bool.

  (* the recursive subparse itself consumes forwards *)
  Lemma subparse_fwd : forall fuel ends toks ns r, subparse E St mv mb g pt ps fuel ends toks = Some (ns, r) -> tsuffix r toks.
  Proof.
    induction fuel as [|f IH]; intros ends toks ns r H; [discriminate|]. destruct toks as [|[k v] rest]; cbn [subparse] in H.
    - inversion H; subst. apply tsuffix_refl.
    - destruct (str_eqb k K_DATA).
      + destruct (subparse E St mv mb g pt ps f ends rest) as [[ns0 r0]|] eqn:Esub; [|discriminate]. inversion H; subst.
        eapply tsuffix_trans; [eapply IH; eauto|apply tsuffix_tail].
      + destruct (str_eqb k n_variable).
        * destruct (g && negb (is_none (mv v)) && minus_first rest); [discriminate|].
          destruct (pt rest) as [[e [|[k2 v2] rest2]]|] eqn:Ept; try discriminate.
          destruct (str_eqb k2 K_VAREND); [|discriminate].
          destruct (subparse E St mv mb g pt ps f ends rest2) as [[ns0 r0]|] eqn:Esub; [|discriminate]. inversion H; subst.
          apply pt_fwd in Ept. eapply tsuffix_trans; [eapply IH; eauto|]. eapply tsuffix_trans; [eapply tsuffix_cons; eauto|apply tsuffix_tail].
        * destruct (str_eqb k n_block); [|discriminate]. destruct rest as [|t r0]; [discriminate|].
          destruct (is_end_name ends t); [inversion H; subst; apply tsuffix_tail|].
          destruct (ps (subparse E St mv mb g pt ps f) (t :: r0)) as [[stmts [|[k2 v2] rest2]]|] eqn:Eps; try discriminate.
          destruct (str_eqb k2 K_BLOCKEND); [|discriminate].
          destruct (subparse E St mv mb g pt ps f ends rest2) as [[ns0 r1]|] eqn:Esub; [|discriminate]. inversion H; subst.
          apply ps_fwd in Eps; [|intros; eapply IH; eauto].
          eapply tsuffix_trans; [eapply IH; eauto|]. eapply tsuffix_trans; [eapply tsuffix_cons; eauto|apply tsuffix_tail].
  Qed.
  End Fwd.

  Variables mv mb : str -> option str.
  Variable g : bool.

  Theorem subparse_conservative_lemma : forall fuel ends toks,
      no_marker_tokens mv mb toks = true ->
      subparse E St mv mb g pt ps fuel ends toks = subparse E St never never g pt ps fuel ends toks.
  Proof.
    induction fuel as [|f IH]; intros ends toks H; [reflexivity|]. destruct toks as [|[k v] rest]; [reflexivity|].
    cbn [subparse]. assert (Hrest : no_marker_tokens mv mb rest = true) by (eapply no_marker_suffix; [apply tsuffix_tail|exact H]).
    assert (Hv : (str_eqb k n_variable = true -> mv v = None) /\ (str_eqb k n_block = true -> mb v = None)).
    { unfold no_marker_tokens in H. cbn [forallb fst snd] in H. apply andb_prop in H as [H _]. apply andb_prop in H as [H1 H2].
      split; intros Hk; rewrite Hk in *; cbn in *; [destruct (mv v)|destruct (mb v)]; (reflexivity || discriminate). }
    destruct Hv as [Hvv Hvb].
    destruct (str_eqb k K_DATA); [rewrite (IH ends rest Hrest); reflexivity|].
    destruct (str_eqb k n_variable) eqn:Hkv.
    - rewrite (Hvv eq_refl). unfold never. cbn [is_none negb]. rewrite !andb_false_r. cbn [andb].
      destruct (pt rest) as [[e [|[k2 v2] rest2]]|] eqn:Ept; try reflexivity.
      destruct (str_eqb k2 K_VAREND); [|reflexivity]. rewrite IH; [reflexivity|].
      eapply no_marker_suffix; [|exact Hrest]. apply pt_fwd in Ept. eapply tsuffix_cons; eauto.
    - destruct (str_eqb k n_block) eqn:Hkb; [|reflexivity].
      rewrite (Hvb eq_refl). unfold never.
      destruct rest as [|t r]; [reflexivity|]. destruct (is_end_name ends t); [reflexivity|].
      rewrite (ps_local (subparse E St mv mb g pt ps f) (subparse E St never never g pt ps f) (t :: r)).
      + destruct (ps _ (t :: r)) as [[stmts [|[k2 v2] rest2]]|] eqn:Eps; try reflexivity.
        destruct (str_eqb k2 K_BLOCKEND); [|reflexivity]. rewrite IH; [reflexivity|].
        eapply no_marker_suffix; [|exact Hrest]. apply ps_fwd in Eps; [|intros; eapply (subparse_fwd never never g f); eauto]. eapply tsuffix_cons; eauto.
      + intros; eapply (subparse_fwd never never g f); eauto.
      + intros e0 t0 Hs. apply IH. eapply no_marker_suffix; eauto.
  Qed.

  (* the print statement opened with the marker: what the bundled parser builds, for ANY begin token the parser takes for a marker *)
  Lemma subparse_marker_print f ends v w te e ve rest :
    mv v = Some w -> g && minus_first te = false ->
    pt te = Some (e, (K_VAREND, ve) :: rest) ->
    subparse E St mv mb g pt ps (S f) ends ((n_variable, v) :: te) =
    match subparse E St mv mb g pt ps f ends rest with
    | Some (ns, r) => Some (PPrint (NFilter e autoindent_filter_name w) :: ns, r)
    | None => None
    end.
  Proof.
    intros Hm Hg Hpt. cbn [subparse]. replace (str_eqb n_variable K_DATA) with false by reflexivity.
    replace (str_eqb n_variable n_variable) with true by reflexivity. rewrite Hm. cbn [is_none negb].
    replace (g && true && minus_first te) with false by (rewrite andb_true_r; symmetry; exact Hg).
    rewrite Hpt. replace (str_eqb K_VAREND K_VAREND) with true by reflexivity. reflexivity.
  Qed.

  Lemma subparse_plain_print f ends v te e ve rest :
    mv v = None ->
    pt te = Some (e, (K_VAREND, ve) :: rest) ->
    subparse E St mv mb g pt ps (S f) ends ((n_variable, v) :: te) =
    match subparse E St mv mb g pt ps f ends rest with
    | Some (ns, r) => Some (PPrint (NPlain e) :: ns, r)
    | None => None
    end.
  Proof.
    intros Hm Hpt. cbn [subparse]. replace (str_eqb n_variable K_DATA) with false by reflexivity.
    replace (str_eqb n_variable n_variable) with true by reflexivity. rewrite Hm. cbn [is_none negb]. rewrite andb_false_r. cbn [andb].
    rewrite Hpt. replace (str_eqb K_VAREND K_VAREND) with true by reflexivity. reflexivity.
  Qed.
End ParserThm.

Section RenderThm.
  Variables E St C V : Type.
  Variable ev : E -> C -> option V.
  Variable text : V -> str.
  Variable rs : (list (pnode E St) -> C -> option (str * C)) -> St -> C -> option (str * C).
  Notation rlist := (render_list E St C V ev text rs).

  (* `{{* e }}`: the value -- ANY value, through the engine's own text conversion -- is emitted with every non-empty line prefixed;
     the plain print statement emits the text itself; the rest of the template sees the same context in both *)
  Theorem autoindent_print_render cb e w ns c :
    rlist cb (PPrint (NFilter e autoindent_filter_name w) :: ns) c =
    match ev e c with
    | Some v => match rlist cb ns c with Some (o, c') => Some (do_lineprefix (text v) w ++ o, c') | None => None end
    | None => None
    end /\
    rlist cb (PPrint (NPlain e) :: ns) c =
    match ev e c with
    | Some v => match rlist cb ns c with Some (o, c') => Some (text v ++ o, c') | None => None end
    | None => None
    end.
  Proof.
    split; cbn [render_list render_one]; [rewrite filter_is_lineprefix|]; destruct (ev e c); reflexivity.
  Qed.

  Lemma render_list_stmts cb ss : forall c, rlist cb (map PStmt ss) c = render_stmts E St C rs cb ss c.
  Proof.
    induction ss as [|s r IH]; intros c; cbn [map render_list render_one render_stmts]; [reflexivity|].
    destruct (rs cb s c) as [[o1 c1]|]; [rewrite IH|]; reflexivity.
  Qed.

  (* `{%* stmt %}`: the statements are rendered in an inner frame, their output is prefixed line by line, and -- unlike the plain
     construct -- whatever they bind (set, macro, import) is NOT visible to the rest of the template *)
  Theorem autoindent_block_render cb ss w ns c :
    rlist cb (PFilterBlock ss autoindent_filter_name w :: ns) c =
    match render_stmts E St C rs cb ss c with
    | Some (o, _) => match rlist cb ns c with Some (o2, c2) => Some (do_lineprefix o w ++ o2, c2) | None => None end
    | None => None
    end /\
    rlist cb (map PStmt ss ++ ns) c =
    match render_stmts E St C rs cb ss c with
    | Some (o, c') => match rlist cb ns c' with Some (o2, c2) => Some (o ++ o2, c2) | None => None end
    | None => None
    end.
  Proof.
    split.
    - cbn [render_list render_one]. rewrite filter_is_lineprefix. destruct (render_stmts E St C rs cb ss c) as [[o c']|]; reflexivity.
    - rewrite <- render_list_stmts. revert c. induction ss as [|s r IH]; intros c; cbn [map app render_list].
      + destruct (rlist cb ns c) as [[o2 c2]|]; reflexivity.
      + destruct (render_one E St C V ev text rs cb (PStmt s) c) as [[o1 c1]|]; [|reflexivity].
        rewrite IH. destruct (rlist cb (map PStmt r) c1) as [[o c']|]; [|reflexivity].
        destruct (rlist cb ns c') as [[o2 c2]|]; [rewrite app_assoc|]; reflexivity.
  Qed.
End RenderThm.

(* a binding statement under the marker: the plain construct and the auto-indented one differ in the REST of the template
   (finding F-JINJA-AUTOINDENT-SCOPE).  Instance: context = one number, statement n = "set it to n" (no output), the expression
   prints the context. *)
Lemma autoindent_block_scope_refuted :
  exists (cb : list (pnode unit N) -> N -> option (str * N)),
    let ev := fun (_ : unit) (c : N) => Some c in
    let text := fun (v : N) => [v] in
    let rs := fun (_ : list (pnode unit N) -> N -> option (str * N)) (s : N) (_ : N) => Some (@nil N, s) in
    option_map fst (render_list unit N N N ev text rs cb (PFilterBlock [5] autoindent_filter_name [32] :: [PPrint (NPlain tt)]) 0) <>
    option_map fst (render_list unit N N N ev text rs cb (map PStmt [5] ++ [PPrint (NPlain tt)]) 0).
Proof. exists (fun _ _ => None). vm_compute. discriminate. Qed.

Section PipelineThm.
  Variables E St C V : Type.
  Variable pt : list xtok -> option (E * list xtok).
  Variable ps : (list str -> list xtok -> option (list (pnode E St) * list xtok)) -> list xtok -> option (list St * list xtok).
  Hypothesis pt_fwd : forall toks e rest, pt toks = Some (e, rest) -> tsuffix rest toks.
  Hypothesis ps_fwd : forall cb toks ss rest,
      (forall ends t ns r, cb ends t = Some (ns, r) -> tsuffix r t) -> ps cb toks = Some (ss, rest) -> tsuffix rest toks.
  Hypothesis ps_local : forall cb1 cb2 toks,
      (forall ends t ns r, cb2 ends t = Some (ns, r) -> tsuffix r t) ->
      (forall ends t, tsuffix t toks -> cb1 ends t = cb2 ends t) -> ps cb1 toks = ps cb2 toks.
  Variable ev : E -> C -> option V.
  Variable text : V -> str.
  Variable rs : (list (pnode E St) -> C -> option (str * C)) -> St -> C -> option (str * C).

  (* template text -> output: bundled lexer rules + bundled parser  =  upstream rules (marker alternatives deleted) + upstream
     parser, for EVERY rule list (every option combination), every behaviour of the unmodified parts, every context *)
  Variables mv mb : str -> option str.
  Variable g : bool.

  Theorem pipeline_conservative_lemma (u : uni) (rules : xrules) (inner : str -> option N -> str -> option (list xtok * nat))
          (fuel : nat) (src : str) (c : C) :
    marker_free u rules None src = true ->
    (forall toks, scanx_all u (demarkx rules) inner src = Some toks -> no_marker_tokens mv mb (wrap toks) = true) ->
    pipeline E St C V mv mb g pt ps ev text rs u rules inner fuel src c =
    pipeline E St C V never never g pt ps ev text rs u (demarkx rules) inner fuel src c.
  Proof.
    intros Hm Ht. unfold pipeline, scanx_all in *. rewrite (scanx_conservative_lemma u rules inner _ None src Hm).
    destruct (scanx u (demarkx rules) inner (S (length src)) None src) as [toks|] eqn:E0; [|reflexivity].
    rewrite (subparse_conservative_lemma E St pt ps pt_fwd ps_fwd ps_local mv mb g fuel [] (wrap toks) (Ht toks eq_refl)). reflexivity.
  Qed.
End PipelineThm.
