(* C19: reviewed pins of the python regions Nunavut modified outside the lexer tables (parser.py, extensions.py).
   The regenerated facts are in Generated/Gen_JinjaPins.v; JinjaPinsThm.v compares.  A Parser method is accepted when its
   normalised text (docstrings, annotations, message texts dropped) has the digest of the STOCK method of the same name,
   or the digest listed here: these 20 methods differ from Jinja2 3.1 only by upstream refactorings between the 2.11 and
   3.1 lines (f-strings, `while True`, parse_call_args split out of parse_call, NSRef handling moved into parse_primary /
   parse_tuple(with_namespace), `required` blocks, set/tuple literals) -- reviewed by diffing against
   /venv/lib/python3.12/site-packages/jinja2/parser.py; none of them mentions the auto-indent marker.
   Parser.subparse is NOT pinned: it is related to the stock method by removing the marker statements (see JinjaPinsThm). *)
From Coq Require Import String.
From Verif Require Export JinjaRules Gen_JinjaPins.
Open Scope N_scope.

Definition upstream_version_differences : list (str * str) :=
 [
(s2l "_fail_ut_eof", s2l "9d61bbe9dc6c774b649947ded02f0df8b250f3b6793b8f1d8bd8375d98c2d781");
  (s2l "fail_unknown_tag", s2l "ff8923a103d365184e2d6294deaa287baa8290022c8016a80966f83078f1033a");
  (s2l "fail_eof", s2l "ba804e7a8c5488b36085b456f86f278530156984a5cf366498f47a50d0b91b4b");
  (s2l "free_identifier", s2l "8eabddc9c4f7bbdc9b636a96427e0d8c674e91f8f441ad951713039f7302e5dd");
  (s2l "parse_statement", s2l "d5211a4d54558bf5b581cab2a55139519625b417d36745ca1596f90460f601cf");
  (s2l "parse_if", s2l "0567e96b30d881180156bcbc6b6cd5113b0c71bb98b24b76fa6fec52620a9077");
  (s2l "parse_with", s2l "524f815d4b2a92f7f263ff82964a7ce6818c7ee23323cc8a0abfa101ba45685c");
  (s2l "parse_block", s2l "915482b7f811fd01cf7d09c1def466ad358dd9073a25b587bc11b6250189fc9b");
  (s2l "parse_from", s2l "ac077ea575955c5063a3bb4c5967aabc618bd4917484e43c2cff833ac4d1116a");
  (s2l "parse_signature", s2l "5b79f58c50abf6e531e306e1f6bd1f81ff2265b2fe75d4703d372ad0d5365fd4");
  (s2l "parse_call_block", s2l "56751b113f81e4e1fcf0307418d63e1b8c04755fb89e810a3f28eebfb8e7c124");
  (s2l "parse_assign_target", s2l "7736056cdd47a7025b15154813378909b9928b792f9fd1ba57a8fd95558b1cce");
  (s2l "parse_compare", s2l "7db9c8da20ab4a22dfac401b290ffbcc621a44fd4f115818e4ff1251ee3e49f5");
  (s2l "parse_primary", s2l "b733dca18c2a3e6ba7ebfc1c7bd43ca3cf221433a8ccc6ed084411fd6f4cca46");
  (s2l "parse_tuple", s2l "323cf284964791178f6cb8098c53258b966a1fd8747451cdc661f585835130d1");
  (s2l "parse_postfix", s2l "94b18582e75af7c808a6d46d873794784b33faa8abed97dff2915d5d05864fa7");
  (s2l "parse_filter_expr", s2l "f53dda750c50be59d2e755133c63e22393dbc7aaea515f5a4ee64af2a24d183b");
  (s2l "parse_call", s2l "67e67e7df12cff5273f99b4cee78746dfd20cec10e8f9be00716822d280d4f3c");
  (s2l "parse_filter", s2l "5fba00dadc68bf6caeebddd8f9eb39ccff92a3d5c020e290eb266a9a45d13aa3");
  (s2l "parse_test", s2l "f2647ada1382039ab236021d36a90d83285f27441d7ba156f3717c244f0412ce")
].

Definition subparse_name : str := s2l "subparse".

Fixpoint assoc (k : str) (l : list (str * str)) : option str :=
  match l with
  | [] => None
  | (a, b) :: r => if str_eqb a k then Some b else assoc k r
  end.

Definition method_ok (nd : str * str) : bool :=
  let (n, d) := nd in
  if str_eqb n subparse_name then true      (* related to stock separately *)
  else
    match assoc n parser_methods_stock with
    | Some ds => str_eqb d ds || (match assoc n upstream_version_differences with Some du => str_eqb d du | None => false end)
    | None => false                            (* a method the stock parser does not have *)
    end.

(* module-level code and class attributes of parser.py (imports excluded) *)
Definition expected_parser_rest : str := s2l "74f6995be481b7c2eb9648332dbcb8ed5dffda6c39de18d0b98bfd9e9456c766".

(* extensions.py: JinjaAssert and UseQuery are stateless classes with exactly these members and method shapes *)
Definition expected_ext_methods : list (str * str) :=
 [
(s2l "JinjaAssert.parse", s2l "dbdb96bd358ffbea3b57604c062e5b39ec76676d6066a03eeaaf53969c5955db");
  (s2l "JinjaAssert._do_assert", s2l "b8f0c82285a8c5c0e6e1554a6df1b21cc5a843610a23197748f7aa714913dfcd");
  (s2l "UseQuery.parse", s2l "95e8445add0a4a5d474088094633b514ed19405187a8ce97fd0efe0311ab1c2e");
  (s2l "UseQuery._use_query_common", s2l "078df1bdc4665482a0745ffd2795b5a2c15677782ba13595004cb694424ed9aa");
  (s2l "UseQuery._use_nquery", s2l "59e3446fc1bb2055304419fdd214777d42640671c7dfafa40dfd931b0a7a2452");
  (s2l "UseQuery._use_query", s2l "6f64adf64d90d3008f33e6467d19d7566a76b8d8527745c5ad60a14bf166edcd")
].
Definition expected_ext_class_members : list (str * str) :=
 [
(s2l "JinjaAssert", s2l "tags = set(['assert']),def parse,def _do_assert");
  (s2l "UseQuery", s2l "tags = set(['ifuses', 'ifnuses']),def parse,def _use_query_common,def _use_nquery,def _use_query")
].
Definition expected_ext_toplevel : list str := [s2l "class JinjaAssert"; s2l "class UseQuery"].

Fixpoint pairs_eqb (a b : list (str * str)) : bool :=
  match a, b with
  | [], [] => true
  | (x1, y1) :: a', (x2, y2) :: b' => str_eqb x1 x2 && str_eqb y1 y2 && pairs_eqb a' b'
  | _, _ => false
  end.
