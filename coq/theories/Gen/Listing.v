(* C08 model: the nnvg command line runner (cli/runners.py) as a pure function
     run : code -> cfg -> inputs -> fs -> fs * listing * result
   `code` is the part that is TRANSLATED from /repo on every run (Generated/Gen_Listing.v):
   the statement structure of ArgparseRunner.run/_list_outputs_only/_list_inputs_only/_generate
   with the argument expressions of every generator call, _should_generate_support, the argparse
   rejection rule, the condition under which the DSDL namespace is read, the namespace-type decision,
   SupportGenerator.get_templates, and the `if not is_dryrun` guards of the three leaf functions.
   Everything the generators enumerate (namespace index, output paths, loader chains, support
   resources) is hand-modelled below and tied by the correspondence run of tools/checks/c08.py.
   No proofs in this file. *)
From Coq Require Import List NArith Bool.
From Verif Require Import Str.
Import ListNotations.
Open Scope N_scope.

(* ------------------------------------------------------------------------------------------ *)
(* paths, file system                                                                          *)
(* ------------------------------------------------------------------------------------------ *)
Notation path := (list (list N)) (only parsing).   (* components *)

Fixpoint path_eqb (a b : path) : bool :=
  match a, b with
  | [], [] => true
  | x :: a', y :: b' => str_eqb x y && path_eqb a' b'
  | _, _ => false
  end.

Definition path_in (p : path) (l : list path) : bool := existsb (path_eqb p) l.

(* files only; directories are observed by the snapshots of the correspondence run *)
(* a file system: directories, and files with a content id and a mode (so that "create, modify or delete" is expressible:
   two file systems are equal iff every path has the same kind, content and mode) *)
Inductive entry := EDir | EFile (content mode : N).
Definition fs := path -> option entry.
Definition fs_empty : fs := fun _ => None.
Definition is_file (e : option entry) : bool := match e with Some (EFile _ _) => true | _ => false end.
Definition is_dir (e : option entry) : bool := match e with Some EDir => true | _ => false end.
Definition is_some (e : option entry) : bool := match e with Some _ => true | None => false end.

(* the non-empty proper prefixes of a path: what `output_path.parent.mkdir(parents=True, exist_ok=True)` creates *)
Fixpoint parents_from (pre p : path) : list path :=
  match p with
  | [] => []
  | [x] => []
  | x :: r => (pre ++ [x]) :: parents_from (pre ++ [x]) r
  end.
Definition parents (p : path) : list path := parents_from [] p.

Definition gen_content : N := 1.    (* abstract id of "what this run renders" *)
Definition gen_mode : N := 292.     (* 0o444, SetFileMode with the default --file-mode *)
(* mkdir -p of the parents, then (over)write the file *)
Definition fs_write (f : fs) (p : path) : fs :=
  fun q => if path_eqb q p then Some (EFile gen_content gen_mode)
           else match f q with
                | None => if path_in q (parents p) then Some EDir else None
                | e => e
                end.
(* open() on a directory, or mkdir through a regular file, raises *)
Definition write_blocked (f : fs) (p : path) : bool := is_dir (f p) || existsb (fun q => is_file (f q)) (parents p).
Definition fs_mkdirs (f : fs) (p : path) : fs :=
  fun q => match f q with None => if path_eqb q p || path_in q (parents p) then Some EDir else None | e => e end.

(* ------------------------------------------------------------------------------------------ *)
(* command line flags (the finite part of a configuration) and translated expressions          *)
(* ------------------------------------------------------------------------------------------ *)
Inductive smode := SAlways | SNever | SAsNeeded | SOnly.
Definition smode_eqb (a b : smode) : bool :=
  match a, b with
  | SAlways, SAlways | SNever, SNever | SAsNeeded, SAsNeeded | SOnly, SOnly => true
  | _, _ => false
  end.

Inductive argname := AOmit | ADryRun | AListOutputs | AListInputs | AListConfig | ANoOverwrite | AEmbedAudit | ANsTypes.

Record flags := {
  f_support : smode;      (* --generate-support *)
  f_omit : bool;          (* --omit-serialization-support (store_true: never None) *)
  f_ns : bool;            (* --generate-namespace-types *)
  f_dry : bool;           (* --dry-run *)
  f_lo : bool;            (* --list-outputs *)
  f_li : bool;            (* --list-inputs *)
  f_lc : bool;            (* --list-configuration *)
  f_now : bool;           (* --no-overwrite *)
  f_embed : bool          (* --embed-auditing-info *)
}.

Definition arg_of (fl : flags) (a : argname) : bool :=
  match a with
  | AOmit => f_omit fl | ADryRun => f_dry fl | AListOutputs => f_lo fl | AListInputs => f_li fl
  | AListConfig => f_lc fl | ANoOverwrite => f_now fl | AEmbedAudit => f_embed fl | ANsTypes => f_ns fl
  end.

Inductive bexp :=
  | BTrue | BFalse
  | BArg (a : argname)                 (* self._args.<flag> *)
  | BArgIsNone (a : argname)           (* self._args.<flag> is None : false for store_true arguments *)
  | BSupportIs (m : smode)             (* self._args.generate_support == "<m>" *)
  | BSupportIn (ms : list smode)       (* self._args.generate_support in (...) *)
  | BNot (b : bexp)
  | BAnd (a b : bexp)
  | BOr (a b : bexp)
  | BIte (c t e : bexp)                (* if c: return t / return e *)
  | BShouldGenSupport                  (* self._should_generate_support() *)
  | BGenNsTypes                        (* self._generator.generate_namespace_types *)
  | BLocalOmit.                        (* the local `omit` of _list_outputs_only *)

(* sgs: value of _should_generate_support(), nse: generate_namespace_types of the generator, loc: local *)
Fixpoint beval (fl : flags) (sgs nse loc : bool) (b : bexp) : bool :=
  match b with
  | BTrue => true | BFalse => false
  | BArg a => arg_of fl a
  | BArgIsNone _ => false
  | BSupportIs m => smode_eqb (f_support fl) m
  | BSupportIn ms => existsb (smode_eqb (f_support fl)) ms
  | BNot x => negb (beval fl sgs nse loc x)
  | BAnd x y => beval fl sgs nse loc x && beval fl sgs nse loc y
  | BOr x y => beval fl sgs nse loc x || beval fl sgs nse loc y
  | BIte c t e => if beval fl sgs nse loc c then beval fl sgs nse loc t else beval fl sgs nse loc e
  | BShouldGenSupport => sgs
  | BGenNsTypes => nse
  | BLocalOmit => loc
  end.

Inductive genid := GTypes | GSupport.
Definition genid_eqb (a b : genid) : bool :=
  match a, b with GTypes, GTypes | GSupport, GSupport => true | _, _ => false end.

Inductive act :=
  | DoListGenerate (g : genid) (dry omit : bexp)            (* _stdout_lister(g.generate_all(is_dryrun=, omit_serialization_support=), str) *)
  | DoListTemplates (g : genid) (omit : bexp)               (* _stdout_lister(g.get_templates(omit_serialization_support=), resolve) *)
  | DoListSources (all_types : bool)                        (* _stdout_lister([x for x, _ in root.get_all_types()|get_all_datatypes()], source_file_path) *)
  | DoGenerate (g : genid) (dry aow omit embed : bexp)      (* g.generate_all(is_dryrun=, allow_overwrite=, omit_serialization_support=, embed_auditing_info=) *)
  | DoListDepSources                                       (* _stdout_lister(self._dependency_source_files(), as_posix)  [fix of F-LIST-INPUTS-LOOKUP] *)
  | DoListConfig.

Inductive stmt :=
  | Skip
  | Seq (a b : stmt)
  | If (c : bexp) (t e : stmt)
  | Do (a : act)
  | LetOmit (b : bexp).

(* evaluated actions *)
Inductive eact :=
  | EListGenerate (g : genid) (dry omit : bool)
  | EListTemplates (g : genid) (omit : bool)
  | EListSources (all_types : bool)
  | EGenerate (g : genid) (dry aow omit embed : bool)
  | EListDepSources
  | EListConfig.

Definition eval_act (fl : flags) (sgs nse loc : bool) (a : act) : eact :=
  let ev := beval fl sgs nse loc in
  match a with
  | DoListGenerate g d o => EListGenerate g (ev d) (ev o)
  | DoListTemplates g o => EListTemplates g (ev o)
  | DoListSources all => EListSources all
  | DoGenerate g d w o e => EGenerate g (ev d) (ev w) (ev o) (ev e)
  | DoListDepSources => EListDepSources
  | DoListConfig => EListConfig
  end.

(* trace of a statement: evaluated actions in execution order, and the local afterwards *)
Fixpoint trace (fl : flags) (sgs nse : bool) (s : stmt) (loc : bool) : list eact * bool :=
  match s with
  | Skip => ([], loc)
  | Seq a b => let '(ta, l1) := trace fl sgs nse a loc in
               let '(tb, l2) := trace fl sgs nse b l1 in (ta ++ tb, l2)
  | If c t e => if beval fl sgs nse loc c then trace fl sgs nse t loc else trace fl sgs nse e loc
  | Do a => ([eval_act fl sgs nse loc a], loc)
  | LetOmit b => ([], beval fl sgs nse loc b)
  end.

Inductive ynd := Yes | No | Default.
Inductive rtype := RSer | RTypeSup.

(* the translated code *)
Record code := {
  k_sgs : bexp;                      (* body of _should_generate_support *)
  k_reject : bexp;                   (* _NunavutArgumentParser._post_process_args: parser.error when true *)
  k_read : bexp;                     (* ArgparseRunner.__init__: the DSDL namespace is read when true, else type_map = [] *)
  k_prog : stmt;                     (* ArgparseRunner.run with the three run methods inlined *)
  k_ns_arg : bool -> ynd;            (* generate_namespace_types argument built from --generate-namespace-types *)
  k_ns_decide : ynd -> bool -> bool; (* AbstractGenerator.__init__ (argument, language has_standard_namespace_files) *)
  k_sup_tpl : list (bool * rtype);   (* SupportGenerator.get_templates: (guarded by `not omit`, resource type) in order *)
  k_guard_type : bool;               (* DSDLCodeGenerator._generate_type: every effect is under `if not is_dryrun` *)
  k_guard_header : bool;             (* SupportGenerator._generate_header: likewise *)
  k_guard_copy : bool;               (* SupportGenerator._copy_header: likewise *)
  k_types_all_when_ns : bool;        (* DSDLCodeGenerator.generate_all: get_all_types iff generate_namespace_types, else get_all_datatypes *)
  (* which of the three --list-inputs repairs the tree under test has (shape variants recognised by the translator) *)
  k_fix_lookup : bool;               (* _list_inputs_only also lists _dependency_source_files() *)
  k_fix_nonj2 : bool;                (* DSDLTemplateLoader.get_templates: every servable file that is not a Python package file *)
  k_fix_suptpl : bool;               (* SupportGenerator._get_templates_by_support_type: the template the loader chain resolves *)
  (* effect scan of every function on the listing / dry-run call path (runner, generator constructors, loaders, namespace
     tree, generate_all prologues, ...): no file-system effect and no call of an effectful sink (_generate_code,
     _handle_overwrite, _copy_header_using_line_pps, post-processor __call__) outside an `if not is_dryrun:` block *)
  k_path_pure : bool;
  (* build_namespace_tree ends with _NamespaceFactory.check_namespace_files_are_not_type_files(): a namespace file whose path
     is also the path of a type's file raises ValueError before anything is listed or written *)
  k_ns_check : bool;
  (* _dependency_source_files() also lists every definition the DSDL front end read (pydsdl.read_files(...)[1]) *)
  k_fix_constref : bool;
  (* Namespace.__init__ passes the namespace file stem through _checked_namespace_file_stem(): a stem that is empty, `.`, `..`
     or contains a path separator raises ValueError before anything is listed or written *)
  k_stem_check : bool;
  (* design_notes/C08_list_inputs_closure_fix.patch: get_templates lists .py resources too (only __init__.py and byte code are
     not resources) and walks symbolically linked sub-directories of a templates directory *)
  k_fix_pyres : bool;
  k_fix_linkdir : bool
}.

(* ------------------------------------------------------------------------------------------ *)
(* inputs, languages, configuration                                                            *)
(* ------------------------------------------------------------------------------------------ *)
Inductive kind := KStructure | KUnion | KDelimited | KService | KNamespace.
(* class names a template file stem can stand for (pydsdl class hierarchy + nunavut.Namespace) *)
Inductive cls := CStructure | CUnion | CDelimited | CService | CComposite | CSerializable | CAny | CNamespace.
Definition cls_eqb (a b : cls) : bool :=
  match a, b with
  | CStructure, CStructure | CUnion, CUnion | CDelimited, CDelimited | CService, CService
  | CComposite, CComposite | CSerializable, CSerializable | CAny, CAny | CNamespace, CNamespace => true
  | _, _ => false
  end.

(* search order of DSDLTemplateLoader._type_to_template_internal over __bases__ (existence only matters) *)
Definition candidates (k : kind) : list cls :=
  match k with
  | KStructure => [CStructure; CComposite; CSerializable; CAny]
  | KUnion => [CUnion; CComposite; CSerializable; CAny]
  | KDelimited => [CDelimited; CComposite; CSerializable; CAny]
  | KService => [CService; CComposite; CSerializable; CAny]
  | KNamespace => [CNamespace; CAny]
  end.

Record dtype := {
  t_key : N;
  t_ns : list str;        (* namespace components, root first (already stropped for paths) *)
  t_stem : str;           (* <short>_<major>_<minor> *)
  t_kind : kind;
  t_src : path;           (* the .dsdl file *)
  t_deps : list N;        (* keys of the composite types it refers to directly as the type of a field *)
  t_crefs : list N        (* keys of the definitions it refers to ONLY inside expressions (a constant of another type in an
                             array capacity, a constant's value, @assert, @extent): pydsdl reads them, no attribute has that type *)
}.

Record tfile := {
  tf_name : str;          (* loader-relative template name, e.g. base.j2, assets/x.css *)
  tf_path : path;
  tf_j2 : bool;           (* suffix == TEMPLATE_SUFFIX *)
  tf_py : bool;           (* .py/.pyc/.pyo or below __pycache__ *)
  tf_pkg : bool;          (* __init__.py, byte code, __pycache__: what makes the directory a Python package *)
  tf_linked : bool;       (* reached through a sub-directory that is a symbolic link (the loader serves it all the same) *)
  tf_cls : option cls;    (* top-level file whose stem is a class name *)
  tf_refs : list str;     (* constant targets of its include / import / from-import / extends statements *)
  tf_dyn : bool           (* has such a statement with a computed target (include x | type_to_template): any class template *)
}.
Notation tdir := (list tfile) (only parsing).

Record sres := {          (* a packaged support resource as yielded by list_support_files *)
  sr_name : str;          (* resource.name *)
  sr_stem : str;          (* name without its last suffix: with_suffix(ext) replaces it *)
  sr_j2 : bool;
  sr_path : path
}.

Record langinfo := {
  l_ext : str;
  l_stem : str;
  l_std_ns : bool;               (* has_standard_namespace_files *)
  l_support_ns : list str;       (* support_namespace.split('.') *)
  l_templates : tdir;            (* everything PackageLoader(<lang>, 'templates').list_templates() names *)
  l_support_dir : tdir;          (* everything PackageLoader(<lang>, 'support').list_templates() names *)
  l_sup_ser : list sres;         (* list_support_files(SERIALIZATION_SUPPORT) *)
  l_sup_type : list sres;        (* list_support_files(TYPE_SUPPORT) *)
  l_properties : path            (* lang/properties.yaml: the built-in configuration of every language *)
}.

Record inputs := {
  i_roots : list dtype;          (* types of the root namespace directory *)
  i_lookup : list dtype;         (* types reachable through --lookup-dir *)
  i_root_dir : path              (* resolved root namespace directory *)
}.

Record cfg := {
  c_lang : langinfo;
  c_flags : flags;
  c_ext : option str;                 (* --output-extension, after extension_type *)
  c_stem : option str;                (* --namespace-output-stem *)
  c_templates : option tdir;          (* --templates DIR: every file below DIR *)
  c_support_templates : option tdir;  (* --support-templates DIR *)
  c_config_files : list path;         (* --configuration FILE... *)
  c_outdir : path
}.

Definition ext_of (c : cfg) : str := match c_ext c with Some e => e | None => l_ext (c_lang c) end.
Definition stem_of (c : cfg) : str := match c_stem c with Some e => e | None => l_stem (c_lang c) end.

Definition nse_of (k : code) (c : cfg) : bool := k_ns_decide k (k_ns_arg k (f_ns (c_flags c))) (l_std_ns (c_lang c)).
Definition sgs_of (k : code) (fl : flags) : bool := beval fl false false false (k_sgs k).

(* ---- namespace index: build_namespace_tree ---------------------------------------------- *)
Fixpoint list_str_eqb (a b : list str) : bool :=
  match a, b with
  | [], [] => true
  | x :: a', y :: b' => str_eqb x y && list_str_eqb a' b'
  | _, _ => false
  end.
Definition ns_mem (n : list str) (l : list (list str)) : bool := existsb (list_str_eqb n) l.

(* name_components[0:i] for i = len-1 .. 1 : the full namespace first, the root last *)
Fixpoint prefixes_desc (ns : list str) : list (list str) :=
  match ns with
  | [] => []
  | x :: r => map (cons x) (prefixes_desc r) ++ [[x]]
  end.

(* `for i in range(...): if ancestor in index: break; index.add(ancestor)` *)
Fixpoint add_anc (cands idx : list (list str)) : list (list str) :=
  match cands with
  | [] => idx
  | a :: r => if ns_mem a idx then idx else add_anc r (idx ++ [a])
  end.

Fixpoint ns_index_go (ts : list dtype) (seen idx : list (list str)) : list (list str) :=
  match ts with
  | [] => idx
  | t :: r => if ns_mem (t_ns t) seen then ns_index_go r seen idx
              else ns_index_go r (seen ++ [t_ns t]) (add_anc (prefixes_desc (t_ns t)) idx)
  end.

(* no types at all: _NamespaceFactory.get_empty_namespace(), the namespace "" *)
Definition namespaces (ts : list dtype) : list (list str) :=
  match ns_index_go ts [] [] with [] => [[]] | l => l end.

Definition types_read (k : code) (c : cfg) (i : inputs) : list dtype :=
  if beval (c_flags c) false false false (k_read k) then i_roots i else [].

(* ---- what the two generators enumerate --------------------------------------------------- *)
Record item := { it_kind : option kind (* None: support resource copied verbatim *); it_j2 : bool; it_path : path }.

(* pathlib.PurePath.with_suffix: the last suffix of the name (from its last dot, unless that dot is the first or the last
   character) is replaced *)
Fixpoint index_of (x : N) (s : str) : option nat :=
  match s with
  | [] => None
  | y :: r => if x =? y then Some O else match index_of x r with Some n => Some (S n) | None => None end
  end.
Definition py_stem (name : str) : str :=
  match index_of 46 (rev name) with
  | Some j => let i := (length name - 1 - j)%nat in
              if (Nat.ltb 0 j && Nat.ltb 0 i)%bool then firstn i name else name
  | None => name
  end.
Definition with_suffix (name ext : str) : str := py_stem name ++ ext.

Definition ns_out (c : cfg) (ns : list str) : path := c_outdir c ++ ns ++ [with_suffix (stem_of c) (ext_of c)].
Definition type_out (c : cfg) (t : dtype) : path := c_outdir c ++ t_ns t ++ [with_suffix (t_stem t) (ext_of c)].

Definition type_items (k : code) (c : cfg) (i : inputs) : list item :=
  let ts := types_read k c i in
  let all := if k_types_all_when_ns k then nse_of k c else negb (nse_of k c) in
  (if all then map (fun ns => {| it_kind := Some KNamespace; it_j2 := true; it_path := ns_out c ns |}) (namespaces ts) else [])
  ++ map (fun t => {| it_kind := Some (t_kind t); it_j2 := true; it_path := type_out c t |}) ts.

Definition support_resources (k : code) (c : cfg) (omit : bool) : list sres :=
  flat_map (fun gr : bool * rtype =>
              if fst gr && omit then []
              else match snd gr with RSer => l_sup_ser (c_lang c) | RTypeSup => l_sup_type (c_lang c) end)
           (k_sup_tpl k).

Definition nonempty (s : str) : bool := match s with [] => false | _ => true end.
Definition support_out (c : cfg) (r : sres) : path :=
  c_outdir c ++ filter nonempty (l_support_ns (c_lang c)) ++ [with_suffix (sr_name r) (ext_of c)].

Definition support_items (k : code) (c : cfg) (omit : bool) : list item :=
  map (fun r => {| it_kind := None; it_j2 := sr_j2 r; it_path := support_out c r |}) (support_resources k c omit).

Definition items (k : code) (c : cfg) (i : inputs) (g : genid) (omit : bool) : list item :=
  match g with GTypes => type_items k c i | GSupport => support_items k c omit end.

(* ---- loader chains ------------------------------------------------------------------------ *)
(* DSDLCodeGenerator: FIND_FIRST (the package loader exists only without --templates);
   SupportGenerator: FIND_ALL (file system first, package second) *)
Definition chain (c : cfg) (g : genid) : list tdir :=
  match g with
  | GTypes => match c_templates c with Some d => [d] | None => [l_templates (c_lang c)] end
  | GSupport => match c_support_templates c with Some d => [d; l_support_dir (c_lang c)] | None => [l_support_dir (c_lang c)] end
  end.

Definition dir_has_cls (d : tdir) (x : cls) : bool :=
  existsb (fun f => tf_j2 f && match tf_cls f with Some y => cls_eqb x y | None => false end) d.
Definition dir_resolves (d : tdir) (k : kind) : bool := existsb (dir_has_cls d) (candidates k).
Definition chain_resolves (ch : list tdir) (k : kind) : bool := existsb (fun d => dir_resolves d k) ch.

Definition find_name (d : tdir) (n : str) : option tfile := find (fun f => str_eqb (tf_name f) n) d.
Fixpoint resolve_name (ch : list tdir) (n : str) : option tfile :=
  match ch with
  | [] => None
  | d :: r => match find_name d n with Some f => Some f | None => resolve_name r n end
  end.

(* template lookup a leaf function performs before the dry-run guard *)
Definition item_template_ok (c : cfg) (g : genid) (it : item) : bool :=
  match it_kind it with
  | Some kd => chain_resolves (chain c g) kd          (* filter_type_to_template + get_template *)
  | None => true                                       (* _generate_header: the packaged resource itself is always in the chain *)
  end.

(* ---- running one generator ---------------------------------------------------------------- *)
Inductive result := Ok | Rejected | NoTemplate | Exists | IoError | NsClash.
Definition is_ok (r : result) : bool := match r with Ok => true | _ => false end.

Definition leaf_guard (k : code) (g : genid) (it : item) : bool :=
  match g with
  | GTypes => k_guard_type k
  | GSupport => if it_j2 it then k_guard_header k else k_guard_copy k
  end.

(* generate_all: items in order; the first failure aborts (exception) *)
Fixpoint gen_all (k : code) (c : cfg) (g : genid) (dry aow : bool) (its : list item) (f : fs) (acc : list path)
  : fs * list path * result :=
  match its with
  | [] => (f, acc, Ok)
  | it :: r =>
      if negb (item_template_ok c g it) then (f, acc, NoTemplate)
      else if (if leaf_guard k g it then negb dry else true) then
        if is_some (f (it_path it)) && negb aow then (f, acc, Exists)        (* _handle_overwrite *)
        else if write_blocked f (it_path it) then (f, acc, IoError)
        else gen_all k c g dry aow r (fs_write f (it_path it)) (acc ++ [it_path it])
      else gen_all k c g dry aow r f (acc ++ [it_path it])
  end.

(* ---- list-inputs enumeration -------------------------------------------------------------- *)
Definition listable (k : code) (f : tfile) : bool :=
  (k_fix_linkdir k || negb (tf_linked f))
  && (if k_fix_nonj2 k then (if k_fix_pyres k then negb (tf_pkg f) else negb (tf_py f)) else tf_j2 f).
Definition listable_paths (k : code) (d : tdir) : list path := map tf_path (filter (listable k) d).

(* the path SupportGenerator.get_templates yields for a packaged resource *)
Definition sup_listed_path (k : code) (c : cfg) (r : sres) : path :=
  if k_fix_suptpl k && sr_j2 r then
    match resolve_name (chain c GSupport) (sr_name r) with Some f => tf_path f | None => sr_path r end
  else sr_path r.

Definition listed_templates (k : code) (c : cfg) (g : genid) (omit : bool) : list path :=
  match g with
  | GTypes => flat_map (listable_paths k) (chain c GTypes)              (* DSDLTemplateLoader.get_templates *)
  | GSupport => map (sup_listed_path k c) (support_resources k c omit)  (* SupportGenerator.get_templates *)
  end.

Definition ns_src (i : inputs) (ns : list str) : path := i_root_dir i ++ tl ns.
Definition listed_sources (k : code) (c : cfg) (i : inputs) (all : bool) : list path :=
  let ts := types_read k c i in
  (if all then map (ns_src i) (namespaces ts) else []) ++ map t_src ts.

Definition all_types (i : inputs) : list dtype := i_roots i ++ i_lookup i.
Definition find_type (i : inputs) (key : N) : option dtype := find (fun t => t_key t =? key) (all_types i).

(* dependency closure, fuel = number of known types (a path without repetition is no longer) *)
Fixpoint closure_by (edges : dtype -> list N) (i : inputs) (fuel : nat) (t : dtype) : list dtype :=
  t :: match fuel with
       | O => []
       | S n => flat_map (fun key => match find_type i key with Some d => closure_by edges i n d | None => [] end) (edges t)
       end.
(* composite fields only: what DependencyBuilder(...).transitive().composite_types follows *)
Definition closure (i : inputs) (fuel : nat) (t : dtype) : list dtype := closure_by t_deps i fuel t.
(* every definition the front end reads while building the type *)
Definition t_all (t : dtype) : list N := t_deps t ++ t_crefs t.

Definition sources_by (edges : dtype -> list N) (k : code) (c : cfg) (i : inputs) : list path :=
  flat_map (fun t => map t_src (closure_by edges i (length (all_types i)) t)) (types_read k c i).
Definition dsdl_influences (k : code) (c : cfg) (i : inputs) : list path := sources_by t_all k c i.

(* _dependency_source_files(): sources of the transitive composite dependencies of the generated types that are not generated *)
Definition listed_dep_sources (k : code) (c : cfg) (i : inputs) : list path :=
  filter (fun p => negb (path_in p (map t_src (types_read k c i))))
         (sources_by (if k_fix_constref k then t_all else t_deps) k c i).

(* ---- executing a trace -------------------------------------------------------------------- *)
Definition state := (fs * list path * result)%type.

Definition step (k : code) (c : cfg) (i : inputs) (st : state) (a : eact) : state :=
  let '(f, out, r) := st in
  if negb (is_ok r) then st else
  match a with
  | EListGenerate g dry omit =>
      let '(f', gen, r') := gen_all k c g dry true (items k c i g omit) f [] in
      (f', (if is_ok r' then out ++ gen else out), r')
  | EListTemplates g omit => (f, out ++ listed_templates k c g omit, Ok)
  | EListSources all => (f, out ++ listed_sources k c i all, Ok)
  | EListDepSources => (f, out ++ listed_dep_sources k c i, Ok)
  | EGenerate g dry aow omit _ =>
      let '(f', _, r') := gen_all k c g dry aow (items k c i g omit) f [] in (f', out, r')
  | EListConfig => st
  end.

Definition trace_of (k : code) (c : cfg) : list eact :=
  fst (trace (c_flags c) (sgs_of k (c_flags c)) (nse_of k c) (k_prog k) false).

(* what a file-system effect somewhere on the call path outside the dry-run guards amounts to (k_path_pure = false):
   the output directory appears in every mode *)
Definition path_effect (k : code) (c : cfg) (f : fs) : fs := if k_path_pure k then f else fs_mkdirs f (c_outdir c).

(* the output path of some namespace (generated or not: every namespace of the tree) is the output path of a type *)
Definition stem_invalid (s : str) : bool :=
  match s with
  | [] => true
  | [46] => true
  | [46; 46] => true
  | _ => existsb (N.eqb 47) s          (* '/' (os.sep on the platforms the check runs on; an absolute path starts with it) *)
  end.
(* the namespace files are refused: an invalid stem (every mode, also --generate-support only: Namespace("") is constructed),
   or the output path of some namespace (generated or not) is the output path of a type *)
Definition ns_clash (k : code) (c : cfg) (i : inputs) : bool :=
  (k_stem_check k && stem_invalid (stem_of c)) ||
  (k_ns_check k &&
   let ts := types_read k c i in
   existsb (fun ns => existsb (fun t => path_eqb (ns_out c ns) (type_out c t)) ts) (namespaces ts)).

Definition run (k : code) (c : cfg) (i : inputs) (f : fs) : state :=
  if beval (c_flags c) false false false (k_reject k) then (f, [], Rejected)
  else if ns_clash k c i then (f, [], NsClash)
  else fold_left (step k c i) (trace_of k c) (path_effect k c f, [], Ok).

(* ---- the mode variants of a configuration ------------------------------------------------- *)
Definition set_modes (fl : flags) (dry lo li : bool) : flags :=
  {| f_support := f_support fl; f_omit := f_omit fl; f_ns := f_ns fl; f_dry := dry; f_lo := lo; f_li := li;
     f_lc := f_lc fl; f_now := f_now fl; f_embed := f_embed fl |}.
Definition with_flags (c : cfg) (fl : flags) : cfg :=
  {| c_lang := c_lang c; c_flags := fl; c_ext := c_ext c; c_stem := c_stem c; c_templates := c_templates c;
     c_support_templates := c_support_templates c; c_config_files := c_config_files c; c_outdir := c_outdir c |}.
Definition real_of (c : cfg) : cfg := with_flags c (set_modes (c_flags c) false false false).
Definition lo_of (c : cfg) : cfg := with_flags c (set_modes (c_flags c) (f_dry (c_flags c)) true (f_li (c_flags c))).
Definition li_of (c : cfg) : cfg := with_flags c (set_modes (c_flags c) (f_dry (c_flags c)) false true).
Definition dry_of (c : cfg) : cfg := with_flags c (set_modes (c_flags c) true false false).

(* ---- what influences the output of the real run ------------------------------------------- *)

(* ---- the templates a generator's environment can load: DERIVED from the template reference graph ---------------- *)
Definition tfile_mem (f : tfile) (l : list tfile) : bool := existsb (fun g => path_eqb (tf_path f) (tf_path g)) l.
Definition has_cls (f : tfile) : bool := match tf_cls f with Some _ => true | None => false end.
Definition class_files (ch : list tdir) : list tfile := filter (fun f => tf_j2 f && has_cls f) (concat ch).
Definition resolve_names (ch : list tdir) (names : list str) : list tfile :=
  flat_map (fun n => match resolve_name ch n with Some f => [f] | None => [] end) names.
(* what loading f can make the environment load next *)
Definition step_refs (ch : list tdir) (f : tfile) : list tfile :=
  resolve_names ch (tf_refs f) ++ (if tf_dyn f then class_files ch else []).
Fixpoint closure_go (ch : list tdir) (fuel : nat) (todo visited : list tfile) : list tfile :=
  match fuel with
  | O => visited
  | S n => match todo with
           | [] => visited
           | f :: r => if tfile_mem f visited then closure_go ch n r visited
                       else closure_go ch n (step_refs ch f ++ r) (f :: visited)
           end
  end.
Definition tpl_closure (ch : list tdir) (entries : list tfile) : list tfile :=
  let n := length (concat ch) in closure_go ch (S n * S (S n) + length entries) entries [].

(* entry templates of the type generator: the class templates that can be selected for a generated item
   (over-approximation: every file named after a class on the item's search path) *)
Definition kinds_generated (k : code) (c : cfg) (i : inputs) : list kind :=
  flat_map (fun it => match it_kind it with Some kd => [kd] | None => [] end) (type_items k c i).
Definition type_entries (k : code) (c : cfg) (i : inputs) : list tfile :=
  filter (fun f => match tf_cls f with
                   | Some x => existsb (fun kd => existsb (cls_eqb x) (candidates kd)) (kinds_generated k c i)
                   | None => false end)
         (class_files (chain c GTypes)).
Definition type_templates (k : code) (c : cfg) (i : inputs) : list tfile :=
  tpl_closure (chain c GTypes) (type_entries k c i).

(* entry templates of the support generator: the .j2 resources it renders, by name through its chain *)
Definition support_entries (k : code) (c : cfg) (omit : bool) : list tfile :=
  resolve_names (chain c GSupport) (map sr_name (filter sr_j2 (support_resources k c omit))).
Definition support_templates (k : code) (c : cfg) (omit : bool) : list tfile :=
  tpl_closure (chain c GSupport) (support_entries k c omit).
(* resources copied verbatim *)
Definition support_copied (k : code) (c : cfg) (omit : bool) : list path :=
  map sr_path (filter (fun r => negb (sr_j2 r)) (support_resources k c omit)).

Definition influences_of (k : code) (c : cfg) (i : inputs) (a : eact) : list path :=
  match a with
  | EGenerate GTypes _ _ _ _ => map tf_path (type_templates k c i) ++ dsdl_influences k c i
  | EGenerate GSupport _ _ omit _ => map tf_path (support_templates k c omit) ++ support_copied k c omit
  | _ => []
  end.

(* templates and DSDL files that influence the real run's output *)
Definition influence_set (k : code) (c : cfg) (i : inputs) : list path :=
  flat_map (influences_of k c i) (trace_of k (real_of c)).

(* configuration inputs also influence the output; they are neither templates nor DSDL files and --list-inputs does not
   name them: the completeness theorem excludes them explicitly *)
Definition config_influences (c : cfg) : list path := l_properties (c_lang c) :: c_config_files c.
Definition all_influences (k : code) (c : cfg) (i : inputs) : list path := influence_set k c i ++ config_influences c.
Definition is_config_input (c : cfg) (x : path) : bool := path_in x (config_influences c).

Definition nonempty_keys (l : list N) : bool := match l with [] => false | _ => true end.
(* ---- triggers of the three ways list-inputs is incomplete --------------------------------- *)
Definition is_root_key (i : inputs) (key : N) : bool := existsb (fun t => t_key t =? key) (i_roots i).
(* a root-namespace type refers to a type outside the root namespace *)
Definition trig_lookup (i : inputs) : bool :=
  negb (forallb (fun t => forallb (is_root_key i) (t_deps t)) (i_roots i)).
(* the type generator loads a Python package file as a template (the only files the repaired get_templates does not list) *)
Definition trig_py (k : code) (c : cfg) (i : inputs) : bool := existsb tf_py (type_templates k c i).
(* the type generator loads a template file whose suffix is not .j2 *)
Definition trig_nonj2 (k : code) (c : cfg) (i : inputs) : bool := existsb (fun f => negb (tf_j2 f)) (type_templates k c i).
(* a support template that is rendered refers to further templates (--list-inputs names the rendered resources only) *)
Definition has_refs (f : tfile) : bool := match tf_refs f with [] => tf_dyn f | _ => true end.
Definition trig_sup_refs (k : code) (c : cfg) : bool :=
  existsb has_refs (support_entries k c false) || existsb has_refs (support_entries k c true).
(* --support-templates DIR shadows a packaged support template *)
Definition trig_support_override (k : code) (c : cfg) : bool :=
  match c_support_templates c with
  | Some d => existsb (fun r => match find_name d (sr_name r) with Some _ => true | None => false end)
                      (l_sup_ser (c_lang c) ++ l_sup_type (c_lang c))
  | None => false
  end.

(* world consistency (checked by the harness on every sampled case, hypothesis of the partial theorem):
   keys are unique among root types; every packaged support resource is found under its own name in the
   package support loader at its own path *)
Definition support_consistent (c : cfg) : bool :=
  forallb (fun r => match find_name (l_support_dir (c_lang c)) (sr_name r) with
                    | Some f => path_eqb (tf_path f) (sr_path r) | None => false end)
          (l_sup_ser (c_lang c) ++ l_sup_type (c_lang c)).

(* the triggers that remain for the tree under test: a repaired finding no longer restricts the completeness theorem *)
(* some known definition refers to another one only inside an expression *)
Definition trig_constref (i : inputs) : bool := existsb (fun t => nonempty_keys (t_crefs t)) (all_types i).
Definition eff_trig_lookup (k : code) (i : inputs) : bool :=
  if k_fix_lookup k && k_fix_constref k then false else trig_constref i || (negb (k_fix_lookup k) && trig_lookup i).
(* some template of the derived closure is a file the tree's get_templates does not enumerate: with all repairs only
   __init__.py / byte code; without C08_list_inputs_closure_fix also any .py resource and anything below a linked directory *)
Definition eff_trig_tpl (k : code) (c : cfg) (i : inputs) : bool := existsb (fun f => negb (listable k f)) (type_templates k c i).
Definition eff_trig_sup (k : code) (c : cfg) : bool := (negb (k_fix_suptpl k) && trig_support_override k c) || trig_sup_refs k c.

(* ---- decidable conditions on the translated code (proved for Gen_Listing.the_code by computation) ---- *)
Definition is_pure_eact (a : eact) : bool :=
  match a with
  | EListGenerate _ dry _ => dry
  | EGenerate _ dry _ _ _ => dry
  | _ => true
  end.

Definition gen_pairs (t : list eact) : list (genid * bool) :=
  flat_map (fun a => match a with
                     | EListGenerate g _ o => [(g, o)]
                     | EGenerate g _ _ o _ => [(g, o)]
                     | _ => [] end) t.
Definition pair_eqb (a b : genid * bool) : bool := genid_eqb (fst a) (fst b) && Bool.eqb (snd a) (snd b).
Definition pair_mem (a : genid * bool) (l : list (genid * bool)) : bool := existsb (pair_eqb a) l.
Definition pairs_incl (a b : list (genid * bool)) : bool := forallb (fun x => pair_mem x b) a.

Definition is_real_gen (a : eact) : bool := match a with EGenerate _ dry _ _ _ => negb dry | _ => false end.
Definition is_list_gen (a : eact) : bool := match a with EListGenerate _ dry _ => dry | _ => false end.

Definition tr (k : code) (fl : flags) (nse : bool) : list eact := fst (trace fl (sgs_of k fl) nse (k_prog k) false).

(* guards of the three leaf functions *)
Definition guards_ok (k : code) : bool := k_guard_type k && k_guard_header k && k_guard_copy k && k_path_pure k.

(* for every flag combination (and both values of the generator's namespace-type decision): *)
Definition chk_pure (k : code) (fl : flags) (nse : bool) : bool :=
  if f_lo fl || f_li fl || f_lc fl || f_dry fl then forallb is_pure_eact (tr k fl nse) else true.

Definition chk_outputs (k : code) (fl : flags) (nse : bool) : bool :=
  if f_lc fl then true else
  let treal := tr k (set_modes fl false false false) nse in
  let tlo := tr k (set_modes fl (f_dry fl) true (f_li fl)) nse in
  forallb is_real_gen treal && forallb is_list_gen tlo
  && pairs_incl (gen_pairs treal) (gen_pairs tlo) && pairs_incl (gen_pairs tlo) (gen_pairs treal).

Definition lists_templates (t : list eact) (g : genid) (o : bool) : bool :=
  existsb (fun a => match a with EListTemplates g' o' => genid_eqb g g' && Bool.eqb o o' | _ => false end) t.
Definition lists_sources (t : list eact) : bool :=
  existsb (fun a => match a with EListSources _ => true | _ => false end) t.

Definition is_list_input (a : eact) : bool :=
  match a with EListTemplates _ _ | EListSources _ | EListDepSources => true | _ => false end.
Definition lists_deps (t : list eact) : bool :=
  existsb (fun a => match a with EListDepSources => true | _ => false end) t.

Definition chk_inputs (k : code) (fl : flags) (nse : bool) : bool :=
  if f_lc fl then true else
  let treal := tr k (set_modes fl false false false) nse in
  let tli := tr k (set_modes fl (f_dry fl) false true) nse in
  forallb is_list_input tli &&
  forallb (fun a => match a with
                    | EGenerate g _ _ o _ => lists_templates tli g o
                        && (match g with GTypes => lists_sources tli && (negb (k_fix_lookup k) || lists_deps tli) | GSupport => true end)
                    | _ => true end) treal.

(* the rejection rule and the read condition do not look at the mode flags *)
Definition bools : list bool := [true; false].
Definition chk_stable (k : code) (fl : flags) : bool :=
  forallb (fun d => forallb (fun o => forallb (fun i =>
     Bool.eqb (beval (set_modes fl d o i) false false false (k_read k)) (beval fl false false false (k_read k))
     && Bool.eqb (beval (set_modes fl d o i) false false false (k_reject k)) (beval fl false false false (k_reject k)))
     bools) bools) bools.

(* ---- rendering of results for the correspondence run -------------------------------------- *)
Definition sep_slash : N := 47.
Definition sep_semi : N := 59.
Fixpoint show_path (p : path) : str :=
  match p with
  | [] => []
  | [x] => x
  | x :: r => x ++ sep_slash :: show_path r
  end.
Definition show_paths (l : list path) : str := flat_map (fun p => show_path p ++ [sep_semi]) l.
Definition result_code (r : result) : N := match r with Ok => 0 | Rejected => 2 | NoTemplate => 1 | Exists => 3 | IoError => 4 | NsClash => 5 end.

(* one line-oriented report per case: results, listings, created files, influence set, triggers *)
Definition cand_paths (k : code) (c : cfg) (i : inputs) : list path :=
  map it_path (items k c i GTypes false) ++ map it_path (items k c i GSupport false) ++ map it_path (items k c i GSupport true).
Fixpoint dedup (l : list path) : list path :=
  match l with [] => [] | p :: r => if path_in p r then dedup r else p :: dedup r end.
Definition b2n (b : bool) : N := if b then 49 else 48.
Definition report (k : code) (c : cfg) (i : inputs) : str :=
  let '(f1, _, r1) := run k (real_of c) i fs_empty in
  let '(_, o2, r2) := run k (lo_of c) i fs_empty in
  let '(_, o3, r3) := run k (li_of c) i fs_empty in
  let '(_, _, r4) := run k (dry_of c) i fs_empty in
  let '(_, _, r5) := run k (real_of c) i f1 in
  [48 + result_code r1; 10; 48 + result_code r2; 10] ++ show_paths o2 ++ [10; 48 + result_code r3; 10] ++ show_paths o3
  ++ [10; 48 + result_code r4; 10] ++ show_paths (filter (fun p => is_file (f1 p)) (dedup (cand_paths k (real_of c) i))) ++ [10]
  ++ show_paths (influence_set k c i) ++ [10]
  ++ [b2n (trig_lookup i); b2n (trig_nonj2 k c i); b2n (trig_support_override k c); b2n (support_consistent c);
      b2n (k_fix_lookup k); b2n (k_fix_nonj2 k); b2n (k_fix_suptpl k); b2n (trig_py k c i); b2n (k_path_pure k); b2n (trig_sup_refs k c); b2n (k_fix_constref k); b2n (trig_constref i); b2n (k_stem_check k); b2n (k_fix_pyres k); b2n (k_fix_linkdir k); b2n (eff_trig_tpl k c i);
      48 + result_code r5]
  ++ [10] ++ show_paths (filter (fun p => is_dir (f1 p)) (dedup (flat_map parents (dedup (cand_paths k (real_of c) i))))).
