(* C18, the reject direction for array fields.  For the fixed template (text is never parsed as a number, the source of a conversion
   is range-checked) and the conformant element check, `assign_array` is characterised totally: it stores a value satisfying the
   contract exactly when the decidable predicate `arr_accepts` holds, and raises otherwise - for EVERY candidate value.
   The two template flags are fixed with set_text_guard / set_precheck, never computed on tmpl_gen. *)
From Coq Require Import List NArith ZArith Bool Arith Lia ZifyBool.
From Verif Require Import PyObj Gen_PyObj PyObjThm PyObjThmRt.
Import ListNotations.
Open Scope Z_scope.

(* record updates for the fix facts PyObj.v has no helper for *)
Definition set_nd_only (b : bool) (T : tmpl) : tmpl :=
  {| t_int_check := t_int_check T; t_float_check := t_float_check T; t_float_nonfinite_ok := t_float_nonfinite_ok T;
     t_float_check_below := t_float_check_below T; t_cmp_fixed := t_cmp_fixed T; t_cmp_var := t_cmp_var T;
     t_len_bytes := t_len_bytes T; t_len_nd := t_len_nd T; t_len_slow := t_len_slow T; t_bytes_max_w := t_bytes_max_w T;
     t_comp_isinstance := t_comp_isinstance T; t_union_clear_others := t_union_clear_others T;
     t_union_clear_after := t_union_clear_after T; t_union_ctor_count := t_union_ctor_count T;
     t_arr_precheck := t_arr_precheck T; t_precheck_nd_only := b; t_src_exact := t_src_exact T; t_text_guard := t_text_guard T |}.
Definition set_src_exact (b : bool) (T : tmpl) : tmpl :=
  {| t_int_check := t_int_check T; t_float_check := t_float_check T; t_float_nonfinite_ok := t_float_nonfinite_ok T;
     t_float_check_below := t_float_check_below T; t_cmp_fixed := t_cmp_fixed T; t_cmp_var := t_cmp_var T;
     t_len_bytes := t_len_bytes T; t_len_nd := t_len_nd T; t_len_slow := t_len_slow T; t_bytes_max_w := t_bytes_max_w T;
     t_comp_isinstance := t_comp_isinstance T; t_union_clear_others := t_union_clear_others T;
     t_union_clear_after := t_union_clear_after T; t_union_ctor_count := t_union_ctor_count T;
     t_arr_precheck := t_arr_precheck T; t_precheck_nd_only := t_precheck_nd_only T; t_src_exact := b; t_text_guard := t_text_guard T |}.

(* the fixed template: all four source-check facts of the fixes true, everything else as scanned *)
Notation TGf := (set_text_guard true (set_src_exact true (set_nd_only true (set_precheck true TG)))).

Theorem tmpl_live3 : TG = set_text_guard (t_text_guard TG) (set_src_exact (t_src_exact TG)
                            (set_nd_only (t_precheck_nd_only TG) (set_precheck (t_arr_precheck TG) TG))).
Proof. reflexivity. Qed.

(* the range check of the source in the fixed template (_int_elements_ok_): every leaf of the source, whatever kind of container
   it sits in, must be an integer within the range of the element type (a float leaf: finite, integral, in range) *)
Lemma int_src_ok_f : forall e y, int_src_ok TGf e y =
  match np_flat y with Ok sl => forallb (int_leaf_exact e) (snd sl) | Raise _ => true end.
Proof. reflexivity. Qed.

Definition byte_elems (s : list N) : list pyval := map (fun c => PInt (Z.of_N (c mod 256))) s.

(* the conversion path np.array(src, dtype): accepted iff the source passes the integer range check, NumPy converts it, the length is
   legal, the source passes the float range check, and the converted elements are within the DSDL range of the element type *)
Definition slow_accepts (fixed : bool) (cap : nat) (e : etype) (y : pyval) : bool :=
  int_src_ok TGf e y &&
  match np_array (dtype_of PW e) y with
  | Ok l => lenG fixed (length l) cap && float_src_ok TGf false e y && forallb (elem_in_dsdl_range e) l
  | Raise _ => false
  end.

Definition arr_accepts (fixed : bool) (cap : nat) (sl : bool) (e : etype) (x : pyval) : bool :=
  match strconv sl x with                                     (* a str given to a string-like field is encoded first *)
  | PBytes s => fast_bytesG e && lenG fixed (length s) cap && forallb (elem_in_dsdl_range e) (byte_elems s)
  | PStr _ => false
  | PArr dt' l => if dtype_eqb dt' (dtype_of PW e) then lenG fixed (length l) cap && forallb (elem_in_dsdl_range e) l
                  else slow_accepts fixed cap e (PArr dt' l)
  | y => slow_accepts fixed cap e y
  end.

(* what is stored when it is accepted *)
Definition arr_stored (sl : bool) (e : etype) (x : pyval) : list pyval :=
  match strconv sl x with
  | PBytes s => byte_elems s
  | PArr dt' l => if dtype_eqb dt' (dtype_of PW e) then l
                  else match np_array (dtype_of PW e) (PArr dt' l) with Ok l' => l' | Raise _ => [] end
  | y => match np_array (dtype_of PW e) y with Ok l' => l' | Raise _ => [] end
  end.

(* ---------------------------------------------------------------- assign_array of the fixed template *)
Definition slowF (fixed : bool) (cap : nat) (e : etype) (y : pyval) : res pyval :=
  if int_src_ok TGf e y then
    l <- np_array (dtype_of PW e) y ;;
    if lenG fixed (length l) cap then (if float_src_ok TGf false e y then chkG false e l else Raise ValueError) else Raise ValueError
  else Raise ValueError.
Definition assignF (fixed : bool) (cap : nat) (e : etype) (x1 : pyval) : res pyval :=
  match x1 with
  | PBytes s => if fast_bytesG e && lenG fixed (length s) cap then chkG false e (byte_elems s) else Raise ValueError
  | PStr _ => Raise ValueError
  | PArr dt' l => if dtype_eqb dt' (dtype_of PW e) && lenG fixed (length l) cap then chkG false e l else slowF fixed cap e x1
  | _ => slowF fixed cap e x1
  end.

Lemma assign_array_genf : forall fixed cap sl e x,
  assign_array TGf PW false fixed cap sl e x = assignF fixed cap e (strconv sl x).
Proof. intros. destruct fixed; reflexivity. Qed.

Lemma chkG_false : forall e l, chkG false e l = if forallb (elem_in_dsdl_range e) l then Ok (PArr (dtype_of PW e) l) else Raise ValueError.
Proof. reflexivity. Qed.

Lemma slowF_exact : forall fixed cap e y,
  (slow_accepts fixed cap e y = true /\
   exists l, np_array (dtype_of PW e) y = Ok l /\ slowF fixed cap e y = Ok (PArr (dtype_of PW e) l)) \/
  (slow_accepts fixed cap e y = false /\ exists ex, slowF fixed cap e y = Raise ex).
Proof.
  intros fixed cap e y. unfold slow_accepts, slowF. destruct (int_src_ok TGf e y); cbn [andb]; [|right; eauto].
  destruct (np_array (dtype_of PW e) y) as [l|ex]; cbn [bind]; [|right; eauto].
  destruct (lenG fixed (length l) cap); cbn [andb]; [|right; eauto].
  destruct (float_src_ok TGf false e y); cbn [andb]; [|right; eauto].
  rewrite chkG_false. destruct (forallb (elem_in_dsdl_range e) l); [left; eauto|right; eauto].
Qed.

Lemma mapM_len {A B} (f : A -> res B) : forall l l', mapM f l = Ok l' -> length l' = length l.
Proof. intros l l' H. apply mapM_Forall2 in H. induction H; cbn [length]; congruence. Qed.

(* an ndarray of the field's dtype but of an illegal length is rejected by the conversion path as well (a cast keeps the length) *)
Lemma slow_same_len : forall fixed cap e dt' l, lenG fixed (length l) cap = false -> slow_accepts fixed cap e (PArr dt' l) = false.
Proof.
  intros fixed cap e dt' l H. unfold slow_accepts. destruct (int_src_ok TGf e (PArr dt' l)); [|reflexivity]. cbn [andb np_array].
  destruct (mapM (conv_elem (dtype_of PW e)) l) as [l'|] eqn:M; [|reflexivity]. rewrite (mapM_len _ _ _ M), H. reflexivity.
Qed.

(* the total characterisation, in functional form *)
Theorem array_assign_exact : forall fixed cap sl e x,
  (arr_accepts fixed cap sl e x = true /\
   assign_array TGf PW false fixed cap sl e x = Ok (PArr (dtype_of PW e) (arr_stored sl e x))) \/
  (arr_accepts fixed cap sl e x = false /\ exists ex, assign_array TGf PW false fixed cap sl e x = Raise ex).
Proof.
  intros fixed cap sl e x. rewrite assign_array_genf. unfold arr_accepts, arr_stored.
  assert (Slow : forall y,
    (slow_accepts fixed cap e y = true /\
     slowF fixed cap e y = Ok (PArr (dtype_of PW e) (match np_array (dtype_of PW e) y with Ok l' => l' | Raise _ => [] end))) \/
    (slow_accepts fixed cap e y = false /\ exists ex, slowF fixed cap e y = Raise ex)).
  { intros y. destruct (slowF_exact fixed cap e y) as [(A & l & N & E)|(A & E)]; [left|right; auto]. rewrite N. auto. }
  destruct (strconv sl x) as [| | | |s|s| | |dt' l|]; cbn [assignF]; try apply Slow.
  - right. eauto.
  - destruct (fast_bytesG e && lenG fixed (length s) cap); cbn [andb]; [|right; eauto].
    rewrite chkG_false. destruct (forallb (elem_in_dsdl_range e) (byte_elems s)); [left; auto|right; eauto].
  - destruct (dtype_eqb dt' (dtype_of PW e)) eqn:D; cbn [andb]; [|apply Slow].
    destruct (lenG fixed (length l) cap) eqn:Ll; cbn [andb].
    + rewrite chkG_false. destruct (forallb (elem_in_dsdl_range e) l); [left; auto|right; eauto].
    + right. split; [reflexivity|]. destruct (slowF_exact fixed cap e (PArr dt' l)) as [(A & _)|(_ & E)]; [|exact E].
      rewrite slow_same_len in A by exact Ll. discriminate.
Qed.

Theorem array_accept_exact : forall fixed cap sl e x,
  (exists v, assign_array TGf PW false fixed cap sl e x = Ok v) <-> arr_accepts fixed cap sl e x = true.
Proof.
  intros fixed cap sl e x. destruct (array_assign_exact fixed cap sl e x) as [[A E]|[A [ex E]]]; rewrite A, E; split; eauto;
    try (intros [? ?]; discriminate); try discriminate.
Qed.

Theorem array_reject_exact : forall fixed cap sl e x,
  (exists ex, assign_array TGf PW false fixed cap sl e x = Raise ex) <-> arr_accepts fixed cap sl e x = false.
Proof.
  intros fixed cap sl e x. destruct (array_assign_exact fixed cap sl e x) as [[A E]|[A [ex E]]]; rewrite A, E; split; eauto;
    try (intros [? ?]; discriminate); try discriminate.
Qed.

(* ---------------------------------------------------------------- and what is stored honours the full contract *)
Lemma slowF_sound : forall db fixed cap sl e y v, ftype_wok (FArr fixed cap sl e) = true ->
  wfv PW db true y = true -> slowF fixed cap e y = Ok v ->
  field_ok PW true (FArr fixed cap sl e) v = true /\ wfv PW db true v = true /\ is_none v = false.
Proof.
  intros db fixed cap sl e y v Hw W H. unfold slowF in H. destruct (int_src_ok TGf e y); [|discriminate].
  destruct (np_array (dtype_of PW e) y) as [l|] eqn:M; cbn [bind] in H; [|discriminate].
  destruct (lenG fixed (length l) cap) eqn:Ll; [|discriminate]. destruct (float_src_ok TGf false e y); [|discriminate].
  destruct (np_array_ok _ _ _ _ _ (dtype_of_wok _ _ _ _ Hw) W M) as (F & W').
  refine (chkG_ok true false db fixed cap sl e l v _ Ll F W' H). split; [right; left; reflexivity|exact Hw].
Qed.

Theorem array_accept_sound : forall db fixed cap sl e x v, ftype_wok (FArr fixed cap sl e) = true ->
  wfv PW db true x = true -> assign_array TGf PW false fixed cap sl e x = Ok v ->
  field_ok PW true (FArr fixed cap sl e) v = true /\ wfv PW db true v = true /\ is_none v = false.
Proof.
  intros db fixed cap sl e x v Hw W H. rewrite assign_array_genf in H.
  assert (S : sideF true false (FArr fixed cap sl e)) by (split; [right; left; reflexivity|exact Hw]).
  assert (W1 : wfv PW db true (strconv sl x) = true).
  { unfold strconv. destruct sl; auto. destruct x; auto. }
  destruct (strconv sl x) as [| | | |s|s| | |dt' l|] eqn:X; cbn [assignF] in H; try (eapply slowF_sound; eauto; fail);
    try discriminate.
  - destruct (fast_bytesG e && lenG fixed (length s) cap) eqn:C; [|discriminate].
    apply andb_true_iff in C. destruct C as [Cb Cl].
    destruct e as [[|w|w|w]|t]; cbn [fast_bytesG] in Cb; try discriminate.
    eapply chkG_ok; [exact S| | | |exact H].
    + unfold byte_elems. rewrite map_length. exact Cl.
    + cbn [dtype_of]. apply byte_fits. lia.
    + apply forallb_forall. intros y Hy. apply in_map_iff in Hy. destruct Hy as (c & <- & _). reflexivity.
  - destruct (dtype_eqb dt' (dtype_of PW e) && lenG fixed (length l) cap) eqn:C; [|eapply slowF_sound; eauto].
    apply andb_true_iff in C. destruct C as [Cd Cl]. apply dtype_eqb_eq in Cd. subst dt'.
    cbn [wfv] in W1. apply andb_true_iff in W1. destruct W1 as [F Wl].
    exact (chkG_ok _ _ _ _ _ _ _ _ _ S Cl F Wl H).
Qed.

(* ---------------------------------------------------------------- corollaries *)
Lemma forallb_ext' {A} (p p' : A -> bool) : (forall a, p a = p' a) -> forall l, forallb p l = forallb p' l.
Proof. intros H. induction l as [|a l IH]; [reflexivity|]. cbn [forallb]. rewrite H, IH. reflexivity. Qed.

Lemma forallb_map' {A B} (p : B -> bool) (g : A -> B) : forall l, forallb p (map g l) = forallb (fun a => p (g a)) l.
Proof. induction l as [|a l IH]; [reflexivity|]. cbn [map forallb]. rewrite IH. reflexivity. Qed.

(* bytes into an array of bytes: the elements are the bytes, accepted iff the length is legal and every byte is inside the DSDL range;
   for ALL byte strings, numeric-looking or not: nothing is parsed *)
Theorem bytes_reject_exact : forall fixed cap sl w s, 1 <= w <= 8 ->
  assign_array TGf PW false fixed cap sl (EPrim (KU w)) (PBytes s) =
  if lenG fixed (length s) cap && forallb (fun c => Z.of_N (c mod 256) <=? 2 ^ w - 1) s
  then Ok (PArr (DU 8) (map (fun c => PInt (Z.of_N (c mod 256))) s)) else Raise ValueError.
Proof.
  intros fixed cap sl w s Hw. rewrite assign_array_genf.
  replace (strconv sl (PBytes s)) with (PBytes s) by (destruct sl; reflexivity). cbn [assignF fast_bytesG].
  assert (w <=? 8 = true) as -> by lia. cbn [andb]. destruct (lenG fixed (length s) cap); cbn [andb]; [|reflexivity].
  rewrite chkG_false. unfold byte_elems. rewrite forallb_map'. cbn [dtype_of].
  assert (pwd PW w = 8) as -> by (destruct (pwd_cases w) as [[? E]|[[? E]|[[? E]|[[? E]|[? E]]]]]; lia).
  assert (forallb (fun a => elem_in_dsdl_range (EPrim (KU w)) (PInt (Z.of_N (a mod 256)))) s =
          forallb (fun c => Z.of_N (c mod 256) <=? 2 ^ w - 1) s) as ->; [|reflexivity].
  apply forallb_ext'. intros c. cbn [elem_in_dsdl_range]. unfold urange.
  assert (0 <= Z.of_N (c mod 256)) by apply N2Z.is_nonneg. destruct (0 <=? Z.of_N (c mod 256)) eqn:E; [reflexivity|lia].
Qed.

(* text given to anything but an array of bytes is never parsed: it raises *)
Theorem text_never_parsed : forall fixed cap sl e s, fast_bytesG e = false ->
  assign_array TGf PW false fixed cap sl e (PBytes s) = Raise ValueError /\
  assign_array TGf PW false fixed cap sl e (PStr s) = Raise ValueError.
Proof.
  intros fixed cap sl e s H. rewrite !assign_array_genf.
  replace (strconv sl (PBytes s)) with (PBytes s) by (destruct sl; reflexivity). split.
  - cbn [assignF]. rewrite H. reflexivity.
  - destruct sl; cbn [strconv assignF]; [rewrite H|]; reflexivity.
Qed.

(* a str given to a field that is not string-like is never parsed either, whatever the element type *)
Theorem str_never_parsed : forall fixed cap e s, assign_array TGf PW false fixed cap false e (PStr s) = Raise ValueError.
Proof. intros. rewrite assign_array_genf. reflexivity. Qed.

(* audit row 4: on the conversion path a source that fails the float range check raises, for every input *)
Theorem float_src_reject : forall fixed cap e y, float_src_ok TGf false e y = false -> exists ex, slowF fixed cap e y = Raise ex.
Proof.
  intros fixed cap e y H. destruct (slowF_exact fixed cap e y) as [(A & _)|(_ & E)]; [|exact E].
  unfold slow_accepts in A. rewrite H in A. destruct (int_src_ok TGf e y); [|discriminate]. cbn [andb] in A.
  destruct (np_array (dtype_of PW e) y); [|discriminate]. rewrite andb_false_r in A. discriminate.
Qed.

(* ... in particular a flat list of Python floats into a float16/float32 array (any type narrower than 64 bit): one finite element
   beyond the largest finite value of the type and the assignment raises *)
Theorem float_list_reject : forall fixed cap sl w bs, w < 64 ->
  forallb (fun b => f_in_range w b || negb (f_isfinite b)) bs = false ->
  exists ex, assign_array TGf PW false fixed cap sl (EPrim (KF w)) (PList (map PFloat bs)) = Raise ex.
Proof.
  intros fixed cap sl w bs Hw H. rewrite assign_array_genf.
  replace (strconv sl (PList (map PFloat bs))) with (PList (map PFloat bs)) by (destruct sl; reflexivity). cbn [assignF].
  apply float_src_reject. unfold float_src_ok. cbn [orb].
  destruct (np_flat_leaves (map PFloat bs)) as [sh ->].
  { rewrite forallb_map'. apply forallb_forall. reflexivity. }
  cbn [snd]. rewrite forallb_map'. rewrite <- H. apply forallb_ext'. intros b. cbn [float_leaf_ok py_float].
  change (t_float_check_below TGf) with 64. destruct (w <? 64) eqn:E; [reflexivity|lia].
Qed.

(* ---------------------------------------------------------------- the defect (F-PY-NUMTEXT): without the guard text is parsed *)
(* b'123' into uint8[<=2] is over capacity as bytes, so the conversion path runs, and np.array(b'123', uint8) parses ONE integer;
   b'12' into uint8[1] likewise *)
Theorem numeric_text_refuted : forall q,
  assign_array (set_text_guard false TG) PW q false 2 false (EPrim (KU 8)) (PBytes [49%N; 50%N; 51%N]) = Ok (PArr (DU 8) [PInt 123]) /\
  assign_array (set_text_guard false TG) PW q true 1 false (EPrim (KU 8)) (PBytes [49%N; 50%N]) = Ok (PArr (DU 8) [PInt 12]).
Proof. intros q; destruct q; split; vm_compute; reflexivity. Qed.

(* with the guard the same assignments raise *)
Theorem numeric_text_fixed :
  assign_array TGf PW false false 2 false (EPrim (KU 8)) (PBytes [49%N; 50%N; 51%N]) = Raise ValueError /\
  assign_array TGf PW false true 1 false (EPrim (KU 8)) (PBytes [49%N; 50%N]) = Raise ValueError /\
  assign_array TGf PW false false 4 false (EPrim (KU 8)) (PBytes [49%N; 50%N; 51%N]) = Ok (PArr (DU 8) [PInt 49; PInt 50; PInt 51]).
Proof. split; [|split]; vm_compute; reflexivity. Qed.

(* a list with an integral Python float: accepted when every number is an integer in range (1.0 is stored as 1), ValueError from the
   source check otherwise - nothing outside the range is stored (array_accept_sound) *)
Theorem float_in_list_example :
  assign_array TGf PW false false 4 false (EPrim (KU 8)) (PList [PFloat 4607182418800017408; PInt 3]) = Ok (PArr (DU 8) [PInt 1; PInt 3]) /\
  assign_array TGf PW false false 4 false (EPrim (KU 8)) (PList [PFloat 4607182418800017408; PInt 300]) = Raise ValueError /\
  assign_array TGf PW false false 4 false (EPrim (KU 8)) (PList [PInt 300]) = Raise ValueError /\
  arr_accepts false 4 false (EPrim (KU 8)) (PList [PFloat 4607182418800017408; PInt 3]) = true /\
  arr_accepts false 4 false (EPrim (KU 8)) (PList [PFloat 4607182418800017408; PInt 300]) = false.
Proof. repeat (split; [vm_compute; reflexivity|]). vm_compute. reflexivity. Qed.
