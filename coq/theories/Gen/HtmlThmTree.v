(* C20 -- the element emitter is balanced for every tree; scanning a rendering gives back the pieces. *)
From Verif Require Import HtmlModel HtmlThm.
Open Scope N_scope.

(* ---------- balanced fragments ---------- *)
Lemma bal_p_app a : forall stk b, bal_p stk (a ++ b) = match bal_p stk a with Some s => bal_p s b | None => None end.
Proof.
  induction a as [|p a IH]; intros stk b; [reflexivity|]. destruct p as [n at_|n|s]; cbn [app bal_p].
  - destruct (str_in n void_elements); apply IH.
  - destruct stk as [|m stk']; [reflexivity|]. destruct (str_eqb n m); [apply IH|reflexivity].
  - apply IH.
Qed.

Lemma frag_nil : balanced_frag [].
Proof. intros stk; reflexivity. Qed.
Lemma frag_app a b : balanced_frag a -> balanced_frag b -> balanced_frag (a ++ b).
Proof. intros Ha Hb stk. rewrite bal_p_app, Ha. apply Hb. Qed.
Lemma frag_text s : balanced_frag [PText s].
Proof. intros stk; reflexivity. Qed.
Lemma frag_cons_text s r : balanced_frag r -> balanced_frag (PText s :: r).
Proof. intros H stk. cbn. apply H. Qed.
Lemma frag_elem n attrs body : str_in n void_elements = false -> balanced_frag body -> balanced_frag (elem n attrs body).
Proof.
  intros Hn Hb stk. unfold elem. cbn [bal_p]. rewrite Hn, bal_p_app, Hb. cbn. rewrite str_eqb_refl. reflexivity.
Qed.
Lemma frag_void n attrs : str_in n void_elements = true -> balanced_frag [POpen n attrs].
Proof. intros Hn stk. cbn [bal_p]. rewrite Hn. reflexivity. Qed.

Ltac frag :=
  repeat first
    [ apply frag_nil
    | apply frag_text
    | apply frag_cons_text
    | apply frag_app
    | apply frag_elem; [reflexivity|]
    | apply frag_void; reflexivity
    | match goal with
      | |- balanced_frag (if ?b then _ else _) => destruct b
      | |- balanced_frag (match ?x with _ => _ end) => destruct x
      | |- balanced_frag (_ :: _) => idtac
      end
    | assumption ].

Lemma frag_disp_type d : balanced_frag (disp_type d).
Proof. induction d; cbn [disp_type]; frag. Qed.
Lemma frag_disp_inst di : balanced_frag (disp_inst di).
Proof. destruct di; cbn [disp_inst]; frag; apply frag_disp_type. Qed.
Lemma frag_tx_markup b ps : balanced_frag ps -> balanced_frag (tx_markup b ps).
Proof. intros H. unfold tx_markup. destruct b; [apply frag_text|exact H]. Qed.
Lemma frag_toggle b h i t : balanced_frag (toggle_anchor b h i t).
Proof. unfold toggle_anchor. frag. Qed.
Lemma frag_doc_pre b cls d : balanced_frag (doc_pre b cls d).
Proof. unfold doc_pre. frag. Qed.
Lemma frag_span_cls c t : balanced_frag (span_cls c t).
Proof. unfold span_cls. frag. Qed.

#[local] Hint Resolve frag_disp_type frag_disp_inst frag_tx_markup frag_toggle frag_doc_pre frag_span_cls : frag.

Ltac frag' :=
  repeat first
    [ apply frag_nil | apply frag_text | apply frag_cons_text | apply frag_toggle | apply frag_doc_pre | apply frag_span_cls
    | apply frag_tx_markup | apply frag_disp_type | apply frag_disp_inst
    | apply frag_app
    | apply frag_elem; [reflexivity|]
    | apply frag_void; reflexivity
    | match goal with
      | |- balanced_frag (if ?b then _ else _) => destruct b
      | |- balanced_frag (match ?x with _ => _ end) => destruct x
      end
    | assumption ].

(* emit_tree_wf, type level: for every type tree, generator state, attribute name and nesting flag *)
Lemma emit_ty_attrs_frag cf :
  (forall t up st nm nested, balanced_frag (snd (emit_ty cf up st t nm nested)))
  /\ (forall a up st, balanced_frag (snd (emit_attrs cf up st a))).
Proof.
  apply ty_attrs_ind.
  - (* Comp *) intros c a IHa up st nm nested. cbn [emit_ty]. cbv zeta. cbn [snd].
    apply frag_app; [frag'|].
    apply frag_elem; [reflexivity|]. apply frag_app; [frag'|]. apply frag_app; [|frag'].
    destruct a; [cbn [snd]; frag'| apply IHa | apply IHa].
  - (* Arr *) intros es dep d e IHe up st nm nested. cbn [emit_ty]. cbv zeta. cbn [snd].
    apply frag_app; [frag'|]. apply frag_elem; [reflexivity|]. apply frag_app; [apply IHe|frag'].
  - (* Prim *) intros s up st nm nested. cbn [emit_ty snd]. frag'.
  - intros up st. cbn. apply frag_nil.
  - intros nm doc t IHt rest IHr up st. cbn [emit_attrs]. cbv zeta. cbn [snd].
    apply frag_app; [apply IHt|]. apply frag_app; [frag'|apply IHr].
  - intros di isf lb doc rest IHr up st. cbn [emit_attrs]. cbv zeta. cbn [snd].
    apply frag_app; [frag'|]. apply frag_app; [frag'|apply IHr].
Qed.

Theorem emit_ty_frag cf t up st nm nested : balanced_frag (snd (emit_ty cf up st t nm nested)).
Proof. apply (proj1 (emit_ty_attrs_frag cf)). Qed.

Lemma emit_types_frag cf up ts : forall st, balanced_frag (snd (emit_types cf up st ts)).
Proof.
  induction ts as [|[sn t] r IH]; intros st; cbn [emit_types]; [apply frag_nil|].
  destruct (str_eqb sn namespace_doc_key); [apply IH|]. cbv zeta. cbn [snd]. apply frag_app; [apply emit_ty_frag|apply IH].
Qed.

Lemma emit_ns_nsl_frag cf :
  (forall n up st, balanced_frag (snd (emit_ns cf up st n))) /\ (forall l up st, balanced_frag (snd (emit_nsl cf up st l))).
Proof.
  apply nst_nsl_ind.
  - intros name docs types subs IH up st. cbn [emit_ns]. cbv zeta. cbn [snd].
    apply frag_app; [frag'|]. apply frag_elem; [reflexivity|].
    apply frag_app; [frag'|]. apply frag_app; [apply emit_types_frag|apply IH].
  - intros up st. apply frag_nil.
  - intros n IHn r IHr up st. cbn [emit_nsl]. cbv zeta. cbn [snd]. apply frag_app; [apply IHn|apply IHr].
Qed.

Lemma sidebar_types_frag cf ts : balanced_frag (sidebar_types cf ts).
Proof.
  induction ts as [|[sn t] r IH]; cbn [sidebar_types]; [apply frag_nil|].
  apply frag_app; [|exact IH]. destruct (str_eqb sn namespace_doc_key); [apply frag_nil|].
  destruct (comp_info t); [|apply frag_nil]. frag'.
Qed.

Lemma emit_sidebar_frag cf :
  (forall n, balanced_frag (emit_sidebar cf n)) /\ (forall l, balanced_frag (emit_sidebar_l cf l)).
Proof.
  apply nst_nsl_ind.
  - intros name docs types subs IH. cbn [emit_sidebar]. cbv zeta.
    apply frag_app; [frag'|]. apply frag_elem; [reflexivity|].
    apply frag_app; [frag'|]. apply frag_app; [apply sidebar_types_frag|apply IH].
  - apply frag_nil.
  - intros n IHn r IHr. cbn [emit_sidebar_l]. apply frag_app; [apply IHn|apply IHr].
Qed.

(* emit_tree_wf, page level: every namespace page and every type page is balanced and properly nested *)
Theorem ns_page_frag cf n : balanced_frag (ns_page cf n).
Proof.
  unfold ns_page, ns_page_sidebar, ns_page_main. apply frag_app.
  - apply frag_elem; [reflexivity|]. apply (proj1 (emit_sidebar_frag cf)).
  - apply frag_app; [frag'|]. apply frag_elem; [reflexivity|]. apply (proj1 (emit_ns_nsl_frag cf)).
Qed.

Theorem type_page_frag cf c : balanced_frag (type_page cf c).
Proof. unfold type_page. destruct (ci_service c); [apply frag_nil|]. frag'. Qed.

Theorem emit_tree_wf_pieces cf n : wf_pieces (ns_page cf n) = true.
Proof. unfold wf_pieces. rewrite (ns_page_frag cf n []). reflexivity. Qed.

(* ---------- scanning a rendering ---------- *)
Lemma bal_chars s : forall stk r, bal stk (map Chr s ++ r) = bal stk r.
Proof. induction s as [|c s IH]; intros stk r; [reflexivity|]. cbn. apply IH. Qed.

Lemma take_while_app_stop p a b :
  forallb p a = true -> (match b with [] => true | c :: _ => negb (p c) end = true) -> take_while p (a ++ b) = a.
Proof.
  intros Ha Hb. induction a as [|x a IH]; cbn in *.
  - destruct b as [|c b]; [reflexivity|]. cbn. destruct (p c); [discriminate|reflexivity].
  - apply andb_prop in Ha as [Hx Ha]. rewrite Hx. f_equal. apply IH. exact Ha.
Qed.

Lemma take_while_all p a : forallb p a = true -> take_while p a = a.
Proof. intros H. rewrite <- (app_nil_r a) at 1. apply take_while_app_stop; [exact H|reflexivity]. Qed.

Lemma lower_name_chr c : lower_alpha c || is_digit c = true -> name_chr c = true /\ ascii_lower_chr c = c.
Proof.
  unfold name_chr, lower_alpha, is_alpha, is_digit, ascii_lower_chr. intros H.
  destruct (N.leb_spec 97 c), (N.leb_spec c 122), (N.leb_spec 48 c), (N.leb_spec c 57), (N.leb_spec 65 c), (N.leb_spec c 90);
    cbn in *; try discriminate; try lia; split; reflexivity.
Qed.

Lemma tag_name_chars n : tag_name_ok n = true ->
  forallb name_chr n = true /\ py_lower_ascii n = n /\ exists c r, n = c :: r /\ is_alpha c = true /\ (c =? 47) = false.
Proof.
  destruct n as [|c r]; [discriminate|]. cbn [tag_name_ok]. intros H. apply andb_prop in H as [Hc Hr].
  assert (Hc' : lower_alpha c || is_digit c = true) by (rewrite Hc; reflexivity).
  destruct (lower_name_chr c Hc') as [A B].
  assert (R : forallb name_chr r = true /\ py_lower_ascii r = r).
  { clear -Hr. induction r as [|d r IH]; [split; reflexivity|]. cbn in Hr. apply andb_prop in Hr as [Hd Hr].
    destruct (lower_name_chr d Hd) as [A B]. destruct (IH Hr) as [C D]. split; cbn; [rewrite A, C; reflexivity|].
    unfold py_lower_ascii in *. cbn. rewrite B, D. reflexivity. }
  destruct R as [R1 R2]. split; [cbn; rewrite A, R1; reflexivity|]. split.
  - unfold py_lower_ascii in *. cbn. rewrite B, R2. reflexivity.
  - exists c, r. split; [reflexivity|]. unfold lower_alpha in Hc. unfold is_alpha. rewrite Hc, orb_true_r. split; [reflexivity|].
    apply neqb. intros ->. discriminate.
Qed.

Lemma attrs_str_head attrs : match concat (map render_attr attrs) with [] => true | c :: _ => negb (name_chr c) end = true.
Proof. destruct attrs as [|a r]; reflexivity. Qed.

Lemma attrs_no_gt attrs : forallb attr_ok attrs = true -> no_gt (concat (map render_attr attrs)) = true.
Proof.
  induction attrs as [|a r IH]; intros H; [reflexivity|]. cbn in H. apply andb_prop in H as [Ha Hr].
  unfold attr_ok in Ha. apply andb_prop in Ha as [Ha Hq]. apply andb_prop in Ha as [Hk Hv].
  cbn [map concat]. unfold no_gt in *. specialize (IH Hr). remember (concat (map render_attr r)) as R eqn:ER. clear ER. unfold render_attr. cbn [forallb app]. rewrite !forallb_app. cbn [forallb]. rewrite !forallb_app. cbn [forallb].
  rewrite Hk, Hv, IH. reflexivity.
Qed.

Lemma name_no_gt n : forallb name_chr n = true -> no_gt n = true.
Proof.
  induction n as [|c r IH]; intros H; [reflexivity|]. cbn [forallb] in H. apply andb_prop in H as [Hc Hr].
  unfold no_gt in *. cbn [forallb]. rewrite (IH Hr), andb_true_r. destruct (N.eqb_spec c 62) as [->|]; [discriminate|reflexivity].
Qed.

Lemma scan_open c body rest :
  tag_start c = true -> no_gt (c :: body) = true ->
  scan None (60 :: c :: body ++ 62 :: rest) = TagT (c :: body) :: scan None rest.
Proof.
  intros Hc Hb. cbn [scan]. change (60 =? 60) with true. cbn [next_is_tag_start andb]. rewrite Hc.
  unfold no_gt in Hb. cbn [forallb] in Hb. apply andb_prop in Hb as [Hc2 Hb]. destruct (c =? 62); [discriminate|].
  rewrite (scan_in_tag body [c] rest Hb). reflexivity.
Qed.

(* scan_render: when no inserted text can open markup and no attribute value can close a tag or its own quotes, the
   stack discipline of the scanned characters is the stack discipline of the pieces *)
Theorem scan_render ps : pieces_ok ps = true ->
  forall stk rest,
    bal stk (scan None (render ps ++ rest)) = match bal_p stk ps with Some s => bal s (scan None rest) | None => None end.
Proof.
  induction ps as [|p ps IH]; intros H stk rest; [reflexivity|].
  cbn in H. apply andb_prop in H as [Hp Hps]. specialize (IH Hps).
  unfold render. cbn [flat_map]. fold (render ps). rewrite <- app_assoc.
  destruct p as [n attrs|n|s]; cbn [piece_ok] in Hp.
  - apply andb_prop in Hp as [Hn Ha]. destruct (tag_name_chars n Hn) as (Hnc & Hlow & c & r & -> & Hal & Hsl).
    cbn [render_piece]. set (A := concat (map render_attr attrs)).
    replace ((60 :: (c :: r) ++ A ++ [62]) ++ render ps ++ rest) with (60 :: c :: (r ++ A) ++ 62 :: (render ps ++ rest))
      by (cbn [app]; rewrite <- !app_assoc; reflexivity).
    rewrite scan_open.
    2:{ unfold tag_start. rewrite Hal. reflexivity. }
    2:{ change (c :: r ++ A) with ((c :: r) ++ A). unfold no_gt. rewrite forallb_app.
        fold (no_gt (c :: r)). fold (no_gt A). rewrite (name_no_gt _ Hnc). unfold A. rewrite (attrs_no_gt _ Ha). reflexivity. }
    cbn [bal]. unfold classify. rewrite Hsl, Hal.
    change (c :: r ++ A) with ((c :: r) ++ A).
    rewrite (take_while_app_stop name_chr (c :: r) A Hnc (attrs_str_head attrs)). rewrite Hlow.
    cbn [bal_p]. destruct (str_in (c :: r) void_elements); apply IH.
  - destruct (tag_name_chars n Hp) as (Hnc & Hlow & c & r & -> & Hal & Hsl).
    cbn [render_piece].
    replace ((60 :: 47 :: (c :: r) ++ [62]) ++ render ps ++ rest) with (60 :: 47 :: (c :: r) ++ 62 :: (render ps ++ rest))
      by (cbn [app]; rewrite <- !app_assoc; reflexivity).
    rewrite scan_open.
    2:{ reflexivity. }
    2:{ change (no_gt (47 :: c :: r)) with (negb (47 =? 62) && no_gt (c :: r)). rewrite (name_no_gt _ Hnc). reflexivity. }
    cbn [bal]. unfold classify. change (47 =? 47) with true. cbv iota.
    rewrite (take_while_all name_chr (c :: r) Hnc). rewrite Hlow.
    cbn [bal_p]. destruct stk as [|m stk']; [reflexivity|]. destruct (str_eqb (c :: r) m); [apply IH|reflexivity].
  - cbn [render_piece]. rewrite (scan_text s _ Hp). rewrite bal_chars. cbn [bal_p]. apply IH.
Qed.

(* emit_tree_wf at the character level: rendering a page and scanning it yields balanced, properly nested tokens
   whenever the texts the page inserts cannot open markup (pieces_ok is computed per page by the driver) *)
Theorem emit_tree_wf cf n : pieces_ok (ns_page cf n) = true -> wf_tokens (scan None (render (ns_page cf n))) = true.
Proof.
  intros H. unfold wf_tokens. pose proof (scan_render _ H [] []) as E. rewrite app_nil_r in E. rewrite E.
  rewrite (ns_page_frag cf n []). reflexivity.
Qed.

Theorem type_page_wf cf c : pieces_ok (type_page cf c) = true -> wf_tokens (scan None (render (type_page cf c))) = true.
Proof.
  intros H. unfold wf_tokens. pose proof (scan_render _ H [] []) as E. rewrite app_nil_r in E. rewrite E.
  rewrite (type_page_frag cf c []). reflexivity.
Qed.
