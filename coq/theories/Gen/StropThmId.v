(* C09 -- identity theorem: a valid identifier that is not reserved and matches no reserved pattern is
   returned unchanged.  Generic in the configuration; the side condition `chk_id nd` (no encoding rule can
   match inside an identifier -- when nd, inside an identifier without a double underscore) is a boolean
   over the regenerated rule ASTs, decided with the verified look-ahead analysis of StropThmRe.v. *)
From Verif Require Import Strop StropThmRe StropThmEnc StropThm.
Open Scope N_scope.

Section Id.
  Variable u : uni.
  Variable sp : ranges.
  Variable cfg : strop_cfg.
  Variable nd : bool.     (* assume the token has no double underscore *)

  Definition C2of (c1 : chr) : list chr := if nd && (c1 =? 95) then ident_nound else ident_list.

  (* notations, not definitions: the kernel must never have to compare a folded with an unfolded form here *)
  Local Notation inert1 r := (forallb (fun c1 => rch_none u true c1 (C2of c1) r) ident_nodigit).
  Local Notation inert0 r := (forallb (fun c1 => rch_none u false c1 (C2of c1) r) ident_list).
  Local Notation rule_inert r := (inert1 r && inert0 r).

  Definition chk_id : bool := forallb (fun e => forallb (fun r => rule_inert r) (snd e)) (sc_rules cfg).

  Lemma dunder_tl c1 tl : has_dunder (c1 :: tl) = false -> has_dunder tl = false.
  Proof.
    destruct tl as [|c2 tl']; [reflexivity|]. intros Hd. cbn [has_dunder] in Hd.
    apply orb_false_elim in Hd; exact (proj2 Hd).
  Qed.

  Lemma C2of_in c1 tl : all_ident tl = true -> (nd = true -> has_dunder (c1 :: tl) = false) ->
    tl = [] \/ exists c2 tl', tl = c2 :: tl' /\ In c2 (C2of c1).
  Proof.
    intros Htl Hd. destruct tl as [|c2 tl']; [left; reflexivity|right]. exists c2, tl'; split; [reflexivity|].
    unfold all_ident in Htl. cbn [forallb] in Htl. apply andb_prop in Htl as [Hc2 _]. unfold C2of.
    destruct (nd && (c1 =? 95)) eqn:E; [|apply ident_list_in; exact Hc2].
    apply andb_prop in E as [En E1]. specialize (Hd En). cbn [has_dunder] in Hd.
    apply orb_false_elim in Hd as [Hd _]. rewrite E1 in Hd. cbn [andb] in Hd.
    apply ident_nound_in; assumption.
  Qed.

  Lemma inert_split r : rule_inert r = true -> inert1 r = true /\ inert0 r = true.
  Proof.
    intros H.
    destruct (inert1 r); [|discriminate]. destruct (inert0 r); [|discriminate]. split; reflexivity.
  Qed.

  Lemma inert1_in r c1 : inert1 r = true -> In c1 ident_nodigit -> rch_none u true c1 (C2of c1) r = true.
  Proof. intros H1 Hin. pose proof (proj1 (forallb_forall _ _) H1 c1 Hin) as Hx. exact Hx. Qed.

  Lemma inert0_in r c1 : inert0 r = true -> In c1 ident_list -> rch_none u false c1 (C2of c1) r = true.
  Proof. intros H1 Hin. pose proof (proj1 (forallb_forall _ _) H1 c1 Hin) as Hx. exact Hx. Qed.

  Lemma rch_head r a0 c1 tl : rch_none u a0 c1 (C2of c1) r = true ->
    (tl = [] \/ exists c2 tl', tl = c2 :: tl' /\ In c2 (C2of c1)) ->
    mt u r (fun _ rest => Some rest) a0 (c1 :: tl) = None.
  Proof. intros Hx HC2. exact (rch_none_sound u a0 c1 (C2of c1) tl HC2 r _ Hx). Qed.

  Lemma inert_head r c1 tl at0 : rule_inert r = true -> ident_char c1 = true -> (at0 = true -> is_digit c1 = false) ->
    (tl = [] \/ exists c2 tl', tl = c2 :: tl' /\ In c2 (C2of c1)) ->
    mt u r (fun _ rest => Some rest) at0 (c1 :: tl) = None.
  Proof.
    intros Hr Hc1 Hdg HC2. apply inert_split in Hr as [H1 H0]. apply rch_head; [|exact HC2].
    destruct at0.
    - apply inert1_in; [exact H1|]. apply ident_nodigit_in; auto.
    - apply inert0_in; [exact H0|]. apply ident_list_in; exact Hc1.
  Qed.

  Lemma inert_nomatch r : rule_inert r = true -> forall t at0,
      all_ident t = true -> (nd = true -> has_dunder t = false) -> (at0 = true -> hd_ok t = true) ->
      nomatch_all u r at0 t.
  Proof.
    intros Hr. induction t as [|c1 tl IH]; intros at0 Hi Hd Hh; [exact I|].
    unfold all_ident in Hi; cbn [forallb] in Hi. apply andb_prop in Hi as [Hc1 Htl].
    change (mt u r Strop.krest at0 (c1 :: tl) = None /\ nomatch_all u r false tl).
    split; [|apply IH; [exact Htl|intros E; eapply dunder_tl; exact (Hd E)|discriminate]].
    apply inert_head; [exact Hr|exact Hc1| |exact (C2of_in c1 tl Htl Hd)].
    intros E. specialize (Hh E). cbn [hd_ok] in Hh. apply negb_true_iff in Hh; exact Hh.
  Qed.

  (* no encoding rule matches the empty string (T1 refuses such rules; here as a computed fact) *)
  Definition nonnull (r : re) : bool :=
    match mt u r (fun _ rest => Some rest) true [], mt u r (fun _ rest => Some rest) false [] with None, None => true | _, _ => false end.
  Definition rules_nonnull : bool := forallb (fun e => forallb nonnull (snd e)) (sc_rules cfg).

  Lemma search_none r : nonnull r = true -> forall s at0 i, nomatch_all u r at0 s -> re_search_from u r at0 i s = None.
  Proof.
    unfold nonnull. intros Hn. destruct (mt u r _ true []) eqn:Et; [discriminate|]. destruct (mt u r _ false []) eqn:Ef; [discriminate|].
    induction s as [|c s' IH]; intros at0 i H; cbn [re_search_from].
    - destruct at0; [rewrite Et|rewrite Ef]; reflexivity.
    - cbn [nomatch_all] in H. destruct H as [E H]. unfold Strop.krest in E. rewrite E. apply IH; exact H.
  Qed.

  Hypothesis Hchk : chk_id = true.
  Hypothesis Hnn : rules_nonnull = true.

  Lemma rules_inert ty rs r : lookup (sc_rules cfg) ty = Some rs -> In r rs -> rule_inert r = true.
  Proof.
    intros L Hr. apply lookup_in in L as (k' & Hin). unfold chk_id in Hchk. rewrite forallb_forall in Hchk.
    specialize (Hchk _ Hin). cbn [snd] in Hchk. rewrite forallb_forall in Hchk. exact (Hchk r Hr).
  Qed.

  Lemma valid_split t : valid_ident t = true -> all_ident t = true /\ hd_ok t = true.
  Proof.
    unfold valid_ident. destruct t as [|c tl]; [discriminate|]. intros H. apply andb_prop in H as [H1 H2]. split; assumption.
  Qed.

  Lemma encode_rules_dry_ok rs t : (forall r, In r rs -> nomatch_all u r true t) -> t <> [] ->
    encode_rules u sp cfg rs true t = TOk t.
  Proof.
    intros H Hne. induction rs as [|r rs IH]; cbn [encode_rules]; [reflexivity|].
    assert (E : re_matches u r t = false).
    { specialize (H r (or_introl eq_refl)). destruct t as [|c tl]; [congruence|]. cbn [nomatch_all] in H.
      unfold re_matches, re_match. unfold Strop.krest in H. rewrite (proj1 H). reflexivity. }
    rewrite E. apply IH. intros r' Hr'; apply H; right; exact Hr'.
  Qed.

  (* a valid identifier (without `__` when nd) passes the whole-token loop *)
  Lemma full_ok_valid tyl t : valid_ident t = true -> (nd = true -> has_dunder t = false) -> full_ok u cfg tyl t = true.
  Proof.
    intros Hv Hd. destruct (valid_split t Hv) as [Hi Hh].
    assert (Hrr : forall k r, In r (rules_for cfg k) -> negb (re_test u r t) = true).
    { intros k r Hin. unfold rules_for in Hin. destruct (lookup (sc_rules cfg) k) as [rs|] eqn:L; [|destruct Hin].
      apply negb_true_iff. unfold re_test, re_search. rewrite (search_none r); [reflexivity| |].
      - apply lookup_in in L as (k' & Hk'). pose proof Hnn as Hq. unfold rules_nonnull in Hq. rewrite forallb_forall in Hq.
        specialize (Hq _ Hk'). cbn [snd] in Hq. rewrite forallb_forall in Hq. exact (Hq r Hin).
      - apply inert_nomatch; auto. eapply rules_inert; eassumption. }
    unfold full_ok. apply andb_true_intro; split; apply forallb_forall; intros r Hin; eapply Hrr; exact Hin.
  Qed.

  Theorem strop_id_gen ty t :
    str_eqb (lower ty) ty_all = false -> valid_ident t = true -> (nd = true -> has_dunder t = false) ->
    is_reserved cfg t = false -> matches_reserved_pattern u cfg ty t = false ->
    strop u sp cfg ty t = Ok t.
  Proof.
    intros Hty Hv Hd Hr Hp. destruct (valid_split t Hv) as [Hi Hh].
    assert (Hne : t <> []) by (destruct t; [discriminate|discriminate]).
    unfold is_reserved in Hr. unfold matches_reserved_pattern in Hp. apply orb_false_elim in Hp as [Hpa Hpt].
    set (tyl := lower ty) in *.
    assert (Hnm : forall k rs r, lookup (sc_rules cfg) k = Some rs -> In r rs -> nomatch_all u r true t).
    { intros k rs r L Hin. apply inert_nomatch; auto. eapply rules_inert; eassumption. }
    (* every transform is the identity on t, in both modes *)
    assert (Eenc : forall k dry, encode u sp cfg t k dry = TOk t).
    { intros k dry. unfold encode. destruct (lookup (sc_rules cfg) k) as [rs|] eqn:L; [|reflexivity].
      destruct dry.
      - apply encode_rules_dry_ok; [intros r Hin; eapply Hnm; eassumption|exact Hne].
      - rewrite (encode_rules_nd u sp cfg). f_equal. apply sub_all_noop. intros r Hin; eapply Hnm; eassumption. }
    assert (Ekw : forall k dry, strop_by_keyword cfg t k dry = TOk t).
    { intros k dry. unfold strop_by_keyword. rewrite Hr. reflexivity. }
    assert (Epat : forall dry, do_for_type_and_all (strop_by_pattern u cfg) t tyl dry = TOk t).
    { intros dry. unfold do_for_type_and_all, strop_by_pattern. unfold pats_of in Hpa, Hpt. rewrite Hty.
      destruct (lookup (sc_patterns cfg) ty_all) as [psa|]; [rewrite Hpa|];
        (destruct (lookup (sc_patterns cfg) tyl) as [pst|]; [rewrite Hpt|]; reflexivity). }
    assert (Edo : forall f dry, (forall k, f t k dry = TOk t) -> do_for_type_and_all f t tyl dry = TOk t).
    { intros f dry H. unfold do_for_type_and_all. rewrite H, Hty, H. reflexivity. }
    unfold strop. fold tyl. rewrite Hty.
    rewrite (Edo (encode u sp cfg) false (fun k => Eenc k false)).
    rewrite (Edo (strop_by_keyword cfg) false (fun k => Ekw k false)).
    rewrite (Epat false). rewrite (Epat true). cbn [checked].
    rewrite (Edo (strop_by_keyword cfg) true (fun k => Ekw k true)). cbn [checked].
    rewrite (Edo (encode u sp cfg) true (fun k => Eenc k true)). cbn [checked].
    assert (Efull : full_ok u cfg tyl t = true).
    { assert (Hrr : forall k r, In r (rules_for cfg k) -> negb (re_test u r t) = true).
      { intros k r Hin. unfold rules_for in Hin. destruct (lookup (sc_rules cfg) k) as [rs|] eqn:L; [|destruct Hin].
        apply negb_true_iff. unfold re_test, re_search. rewrite (search_none r); [reflexivity| |eapply Hnm; eassumption].
        apply lookup_in in L as (k' & Hk'). pose proof Hnn as Hq. unfold rules_nonnull in Hq. rewrite forallb_forall in Hq.
        specialize (Hq _ Hk'). cbn [snd] in Hq. rewrite forallb_forall in Hq. exact (Hq r Hin). }
      unfold full_ok. apply andb_true_intro; split; apply forallb_forall; intros r Hin; eapply Hrr; exact Hin. }
    unfold reverified. rewrite (Epat true), (Edo (strop_by_keyword cfg) true (fun k => Ekw k true)),
      (Edo (encode u sp cfg) true (fun k => Eenc k true)), Efull, orb_true_r.
    destruct (sc_reverify cfg); reflexivity.
  Qed.
End Id.
