(* C11 x C09: the abstract stropping hypotheses of the C11 path theorems, discharged for the REAL stroppers of the three
   target languages (Gen/StropInst.v: strop_lang l = TokenEncoder.strop with the regenerated configuration of
   properties.yaml, identifier type "path" as established by C11_path_sites_same_id_type) on DSDL names
   (valid_ident = [A-Za-z_][A-Za-z0-9_]*, what pydsdl admits).
   - identifier-likeness (no '/', no '.', non-empty) of every stropped name: holds for ALL DSDL names (C09 soundness);
   - injectivity does NOT hold (C09: strop_injective_refuted): the exact statement is "two type files coincide iff their
     namespace components and file stems fold pairwise", fold l a b := real_strop l a = real_strop l b; on clean names fold is
     equality; a reserved word and its stropped spelling fold (witness below, the documented one-way stropping). *)
From Verif Require Import Strop StropInst StropThmRe StropThmEnc StropThm StropThmId StropThmInst.
From Verif Require Import NamespaceBase NamespacePathThm NamespaceThm NamespaceFsThm.
Open Scope N_scope.

Definition ty_path : str := [112; 97; 116; 104].                    (* "path" *)

(* Language.filter_id(x, "path") for language l *)
Definition real_strop (l : lang) (x : str) : str :=
  match strop_lang l ty_path x with Ok t => t | _ => x end.

Definition fold (l : lang) (a b : str) : Prop := real_strop l a = real_strop l b.

Lemma ty_path_not_all : str_eqb (lower ty_path) ty_all = false.
Proof. vm_compute. reflexivity. Qed.

Lemma valid_ident_ident_like t : valid_ident t = true -> ident_like t.
Proof.
  unfold valid_ident, ident_like. destruct t as [|c t]; [discriminate|]. intros H.
  apply andb_prop in H. destruct H as [_ H]. rewrite forallb_forall in H.
  split; [discriminate|]. split; intros X; apply H in X; vm_compute in X; discriminate.
Qed.

(* Needs only C09's SOUNDNESS (whatever strop returns is a valid identifier), not totality: if TokenEncoder.strop raised (for
   C++ tokens containing "__" its totality rests on C09's named premise cpp_whole_token_premise; for C and Python it is proved
   unconditionally) nothing would be generated at all; real_strop's fallback branch then merely keeps the DSDL name, which is a
   valid identifier too.  Hence no C11 real-stropper theorem carries cpp_whole_token_premise. *)
Lemma real_strop_valid l x : valid_ident x = true -> valid_ident (real_strop l x) = true.
Proof.
  intros H. assert (Hne : x <> []) by (destruct x; discriminate).
  unfold real_strop. destruct (strop_lang l ty_path x) as [t| |] eqn:E; try exact H.
  exact (proj1 (strop_sound_lang l ty_path x t Hne E)).
Qed.

Lemma digit_ident_char c : 48 <= c <= 57 -> ident_char c = true.
Proof.
  intros [H1 H2]. unfold ident_char, in_ranges, ident_ranges. cbn [existsb fst snd].
  apply N.leb_le in H1. apply N.leb_le in H2. rewrite H1, H2. reflexivity.
Qed.

Lemma dec_ident n : forallb ident_char (dec n) = true.
Proof.
  apply forallb_forall. intros c Hc. apply digit_ident_char.
  pose proof (dec_digits n) as F. rewrite Forall_forall in F. apply F; assumption.
Qed.

(* Short_M_m of a DSDL short name is again a DSDL-shaped identifier *)
Lemma base_name_valid t : valid_ident (t_short t) = true -> valid_ident (base_name t) = true.
Proof.
  unfold base_name, valid_ident. destruct (t_short t) as [|c s]; [discriminate|]. intros H.
  apply andb_prop in H. destruct H as [H1 H2]. cbn [app]. rewrite H1. cbn [andb].
  change (c :: s ++ USCORE :: dec (t_major t) ++ USCORE :: dec (t_minor t))
    with ((c :: s) ++ USCORE :: dec (t_major t) ++ USCORE :: dec (t_minor t)).
  rewrite forallb_app, H2. cbn [andb forallb]. rewrite forallb_app, dec_ident. cbn [andb forallb]. rewrite dec_ident.
  vm_compute. reflexivity.
Qed.

(* what pydsdl guarantees about names *)
Definition dsdl_names_ok (types : list ty) : Prop :=
  forall t, In t types -> valid_ident (t_short t) = true /\ forall x, In x (t_ns t) -> valid_ident x = true.

Lemma names_valid types : dsdl_names_ok types -> forall x, In x (names_of types) -> valid_ident x = true.
Proof.
  intros H x Hx. unfold names_of in Hx. apply in_flat_map in Hx. destruct Hx as (t & Ht & [<-|Hx]).
  - apply base_name_valid. exact (proj1 (H t Ht)).
  - apply (proj2 (H t Ht)); assumption.
Qed.

Section REAL.
  Variable l : lang.
  Variable es : bool.
  Variable ext stem : str.
  Variable outdir : path.

  Lemma real_names_ident_like types :
    dsdl_names_ok types -> forall x, In x (names_of types) -> ident_like (pstrop (real_strop l) es x).
  Proof.
    intros H x Hx. apply valid_ident_ident_like. pose proof (names_valid types H x Hx) as V.
    unfold pstrop. destruct es; [apply real_strop_valid|]; assumption.
  Qed.

  (* every file written for DSDL-named types lies below the output directory, for the real stropper of every language,
     stropping enabled or not *)
  Theorem real_targets_inside perm types r g :
    (forall k, Permutation (perm k) k) -> NoDup types -> one_root r types -> types <> [] -> dsdl_names_ok types ->
    ident_like stem -> ~ In SLASH ext ->
    forall q, In q (c11_targets (real_strop l) es ext stem outdir g perm types) ->
      exists rel, q = outdir ++ rel /\ Forall safe_comp rel /\ forall st, resolve st rel = rev rel ++ st.
  Proof.
    intros Hp Hnd Hr Hne Hok Hstem Hext.
    apply (targets_inside (real_strop l) es ext stem outdir perm Hp types r Hnd Hr Hne g); try assumption.
    - apply real_names_ident_like; assumption.
    - intros t x Ht Hx. apply valid_ident_ident_like, real_strop_valid. apply (proj2 (Hok t Ht)); assumption.
  Qed.

  (* EVERY stem string, real stropper: a run that does not raise (stem validated) writes only below the output directory *)
  Theorem real_targets_inside_no_raise perm types r g chk :
    (forall k, Permutation (perm k) k) -> NoDup types -> one_root r types -> types <> [] -> dsdl_names_ok types ->
    valid_ext ext ->
    build_checked true chk (real_strop l) same es ext stem outdir perm types <> None ->
    forall q, In q (c11_targets (real_strop l) es ext stem outdir g perm types) ->
      exists rel, q = outdir ++ rel /\ Forall safe_comp rel /\ forall st, resolve st rel = rev rel ++ st.
  Proof.
    intros Hp Hnd Hr Hne Hok Hext Hrun.
    apply (targets_inside_no_raise (real_strop l) es ext stem outdir perm Hp types r Hnd Hr Hne chk g); try assumption.
    - apply real_names_ident_like; assumption.
    - intros t x Ht Hx. apply valid_ident_ident_like, real_strop_valid. apply (proj2 (Hok t Ht)); assumption.
  Qed.

  Lemma map_eq_Forall2 {A B} (f : A -> B) l1 l2 : map f l1 = map f l2 <-> Forall2 (fun a b => f a = f b) l1 l2.
  Proof.
    split.
    - revert l2; induction l1 as [|a l1 IH]; intros [|b l2] H; cbn [map] in H; try discriminate; constructor.
      + congruence.
      + apply IH. congruence.
    - induction 1; cbn [map]; congruence.
  Qed.

  (* injectivity modulo the folding relation, exactly: two type files coincide iff namespaces and file stems fold pairwise *)
  Theorem real_paths_equal_iff_fold t1 t2 :
    valid_ident (t_short t1) = true -> valid_ident (t_short t2) = true ->
    (out_path (real_strop l) true ext outdir t1 = out_path (real_strop l) true ext outdir t2
     <-> Forall2 (fold l) (t_ns t1) (t_ns t2) /\ fold l (base_name t1) (base_name t2)).
  Proof.
    intros V1 V2.
    assert (D : forall t, valid_ident (t_short t) = true -> ~ In DOT (pstrop (real_strop l) true (base_name t))).
    { intros t V. exact (proj2 (proj2 (valid_ident_ident_like _ (real_strop_valid l _ (base_name_valid t V))))). }
    rewrite !path_shape by (apply D; assumption). change (pstrop (real_strop l) true) with (real_strop l). unfold fold. split.
    - intros E. apply app_inv_head in E. apply app_inj_tail in E. destruct E as [E1 E2]. apply app_inv_tail in E2.
      split; [apply map_eq_Forall2; exact E1 | exact E2].
    - intros [E1 E2]. apply map_eq_Forall2 in E1. rewrite E1, E2. reflexivity.
  Qed.

  (* on clean names (valid, not reserved, matching no reserved pattern; for C++ without "__") folding is equality *)
  Theorem fold_clean_eq a b :
    clean_lang l ty_path a = true -> clean_lang l ty_path b = true ->
    (l = LCpp -> has_dunder a = false /\ has_dunder b = false) -> fold l a b -> a = b.
  Proof.
    intros Ca Cb Hd F.
    assert (Id : forall c, clean_lang l ty_path c = true -> (l = LCpp -> has_dunder c = false) -> real_strop l c = c).
    { intros c Cc Dc. unfold real_strop. destruct l.
      - change (strop_lang LC) with strop_c. rewrite (strop_id_c_thm ty_path c ty_path_not_all Cc). reflexivity.
      - change (strop_lang LCpp) with strop_cpp. rewrite (strop_id_cpp_partial_thm ty_path c ty_path_not_all Cc (Dc eq_refl)). reflexivity.
      - change (strop_lang LPy) with strop_py. rewrite (strop_id_py_thm ty_path c ty_path_not_all Cc). reflexivity. }
    unfold fold in F. rewrite (Id a Ca (fun E => proj1 (Hd E))), (Id b Cb (fun E => proj2 (Hd E))) in F. exact F.
  Qed.

  (* hence: type files of types whose names are all clean are pairwise distinct (C11_path_injective with its hypotheses discharged) *)
  Theorem real_path_injective_on_clean types t1 t2 :
    dsdl_names_ok types ->
    (forall x, In x (names_of types) -> clean_lang l ty_path x = true /\ (l = LCpp -> has_dunder x = false)) ->
    In t1 types -> In t2 types ->
    out_path (real_strop l) true ext outdir t1 = out_path (real_strop l) true ext outdir t2 -> t1 = t2.
  Proof.
    intros Hok Hclean. apply (path_injective (real_strop l) true ext outdir types).
    - intros x y Hx Hy E. destruct (Hclean x Hx) as [Cx Dx]. destruct (Hclean y Hy) as [Cy Dy].
      apply fold_clean_eq; try assumption. intros Hl. split; [apply Dx | apply Dy]; assumption.
    - intros t Ht. exact (proj2 (proj2 (valid_ident_ident_like _ (real_strop_valid l _ (base_name_valid t (proj1 (Hok t Ht))))))).
  Qed.
End REAL.

(* the fold is not trivial: two different DSDL types get ONE file under the real C stropper (ns.class.T.1.0 and ns._class.T.1.0
   -> out/ns/_class/T_1_0.h).  This is the "names folded onto one identifier by the documented one-way stropping" exception of
   the property, not a finding. *)
Definition w_T1 : ty := mkTy [w_ns; w_class] [84] 1 0.
Definition w_T2 : ty := mkTy [w_ns; 95 :: w_class] [84] 1 0.
Lemma real_fold_witness :
  w_T1 <> w_T2 /\ dsdl_names_ok [w_T1; w_T2] /\
  out_path (real_strop LC) true w_ext w_out w_T1 = out_path (real_strop LC) true w_ext w_out w_T2 /\
  out_path (real_strop LC) true w_ext w_out w_T1 = w_out ++ [w_ns; 95 :: w_class; [84; 95; 49; 95; 48; 46; 104]].
Proof.
  split; [discriminate|]. split.
  - intros t [<-|[<-|[]]]; (split; [vm_compute; reflexivity|]); intros x Hx; cbn [t_ns w_T1 w_T2 In] in Hx;
      destruct Hx as [<-|[<-|[]]]; vm_compute; reflexivity.
  - vm_compute. split; reflexivity.
Qed.

(* ---- Python: identifier types "any" and "path" strop every DSDL name alike --------------------------------------------------
   lang/py filter_imports / filter_full_reference_name strop namespace components with id type "any", directories are made with
   "path".  For the regenerated py configuration (no reserved patterns; "any" encoding rules = the "all" rules) the two agree on
   every DSDL name (valid_ident): the py package/module reference of a type is the directory chain of its file. *)
Section PYAGREE.
  Notation D f := (do_for_type_and_all f).
  Notation ENC := (encode py_uni py_isspace cfg_py).
  Notation KW := (strop_by_keyword cfg_py).
  Notation PAT := (strop_by_pattern py_uni cfg_py).

  Lemma py_pat ty tok dry : ty = ty_any \/ ty = ty_path -> D PAT tok ty dry = TOk tok.
  Proof. intros [-> | ->]; vm_compute; reflexivity. Qed.

  Lemma py_kw tok dry : D KW tok ty_any dry = D KW tok ty_path dry.
  Proof. unfold do_for_type_and_all, strop_by_keyword. reflexivity. Qed.

  Lemma enc_dry_cases rs s : encode_rules py_uni py_isspace cfg_py rs true s = TOk s
                             \/ encode_rules py_uni py_isspace cfg_py rs true s = TRuntimeError.
  Proof.
    induction rs as [|r rs IH]; cbn [encode_rules]; [left; reflexivity|].
    destruct (re_matches py_uni r s); [right; reflexivity | exact IH].
  Qed.

  Lemma py_enc_dry s : D ENC s ty_any true = D ENC s ty_path true.
  Proof.
    unfold do_for_type_and_all, encode.
    change (lookup (sc_rules cfg_py) ty_all) with (Some [py_rule_all_0; py_rule_all_1]).
    change (lookup (sc_rules cfg_py) ty_any) with (Some [py_rule_all_0; py_rule_all_1]).
    change (lookup (sc_rules cfg_py) ty_path) with (@None (list re)).
    change (str_eqb ty_any ty_all) with false. change (str_eqb ty_path ty_all) with false.
    destruct (enc_dry_cases [py_rule_all_0; py_rule_all_1] s) as [E|E]; rewrite E; [rewrite E|]; reflexivity.
  Qed.

  (* the whole-token re-verification (fix in /repo): the rules of "all" and of the type; "any" has the "all" rules, "path" none *)
  Lemma py_full_ok s : full_ok py_uni cfg_py ty_any s = full_ok py_uni cfg_py ty_path s.
  Proof.
    unfold full_ok, rules_for.
    change (lookup (sc_rules cfg_py) ty_all) with (Some [py_rule_all_0; py_rule_all_1]).
    change (lookup (sc_rules cfg_py) ty_any) with (Some [py_rule_all_0; py_rule_all_1]).
    change (lookup (sc_rules cfg_py) ty_path) with (@None (list re)).
    destruct (forallb (fun r => negb (re_test py_uni r s)) [py_rule_all_0; py_rule_all_1]); reflexivity.
  Qed.

  (* no encoding rule matches inside a DSDL name: the non-dry encoding step is the identity for every identifier type *)
  Lemma py_enc_id t k dry : valid_ident t = true -> ENC t k dry = TOk t.
  Proof.
    intros Hv. destruct (valid_split t Hv) as [Hi Hh].
    assert (Hne : t <> []) by (destruct t; discriminate).
    unfold encode. destruct (lookup (sc_rules cfg_py) k) as [rs|] eqn:L; [|reflexivity].
    assert (Hnm : forall r, In r rs -> nomatch_all py_uni r true t).
    { intros r Hin. apply (inert_nomatch py_uni false r); [|assumption|discriminate|auto].
      exact (rules_inert py_uni cfg_py false chk_id_py k rs r L Hin). }
    destruct dry.
    - apply (encode_rules_dry_ok py_uni py_isspace cfg_py); assumption.
    - rewrite (encode_rules_nd py_uni py_isspace cfg_py). f_equal. apply sub_all_noop. exact Hnm.
  Qed.

  Lemma py_enc_nd t ty : valid_ident t = true -> str_eqb ty ty_all = false -> D ENC t ty false = TOk t.
  Proof. intros Hv Hty. unfold do_for_type_and_all. rewrite (py_enc_id t ty_all false Hv), Hty, (py_enc_id t ty false Hv). reflexivity. Qed.

  Theorem py_any_path_agree t : valid_ident t = true -> strop_py ty_any t = strop_py ty_path t.
  Proof.
    intros Hv. unfold strop_py, strop.
    change (lower ty_any) with ty_any. change (lower ty_path) with ty_path.
    change (str_eqb ty_any ty_all) with false. change (str_eqb ty_path ty_all) with false. cbv iota.
    rewrite (py_enc_nd t ty_any Hv eq_refl), (py_enc_nd t ty_path Hv eq_refl).
    rewrite (py_kw t false). destruct (D KW t ty_path false) as [k| |]; try reflexivity.
    rewrite !py_pat by auto. cbn [checked].
    rewrite (py_kw k true). destruct (checked (D KW k ty_path true) (sc_strop_handler cfg_py) k) as [s2| |]; try reflexivity.
    rewrite (py_enc_dry s2). destruct (checked (D ENC s2 ty_path true) (sc_enc_handler cfg_py) s2) as [s3| |]; try reflexivity.
    destruct (sc_reverify cfg_py); [|reflexivity].
    unfold reverified. rewrite !py_pat by auto. rewrite (py_kw s3 true), (py_enc_dry s3), (py_full_ok s3). reflexivity.
  Qed.

  (* hence: the Python package chain of a referenced type (id type "any") is the directory chain of its file (id type "path") *)
  Definition real_strop_any (l : lang) (x : str) : str := match strop_lang l ty_any x with Ok t => t | _ => x end.

  Theorem py_reference_is_directory_chain (ns : key) :
    (forall x, In x ns -> valid_ident x = true) -> map (real_strop_any LPy) ns = map (real_strop LPy) ns.
  Proof.
    intros H. apply map_ext_in. intros x Hx. unfold real_strop_any, real_strop.
    change (strop_lang LPy) with strop_py. rewrite (py_any_path_agree x (H x Hx)). reflexivity.
  Qed.
End PYAGREE.
