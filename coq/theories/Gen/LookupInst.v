(* Gen/LookupInst.v -- the C16 models instantiated with the tables regenerated from /repo (Generated/Gen_Lookup.v).
   No proofs here: this is what is extracted and run against the implementation. *)
From Verif Require Import Str Lookup LookupEnv Gen_Lookup.
Import ListNotations.
Open Scope N_scope.

Fixpoint tbl_get {A : Type} (l : list (N * A)) (k : N) : option A :=
  match l with [] => None | (k', v) :: l' => if k' =? k then Some v else tbl_get l' k end.

Definition tbl_bases (c : cls) : list cls := match tbl_get g_classes c with Some (_, (b, _)) => b | None => [] end.
(* `for base_type in () if current_search_type is pydsdl.Any else current_search_type.__bases__` once the walk stops at Any
   (regenerated fact g_chain_ends_at_any); before that the bases of Any (abc.ABC) were searched too *)
Definition p_bases (c : cls) : list cls := if g_chain_ends_at_any && (c =? g_cls_Any) then [] else tbl_bases c.
Definition p_name (c : cls) : str := match tbl_get g_classes c with Some (n, _) => n | None => [] end.
Definition p_rank (c : cls) : nat := match tbl_get g_classes c with Some (_, (_, r)) => r | None => O end.
Definition p_ids : list cls := map fst g_classes.
Definition p_fuel : nat := S (length g_classes).

(* every class has at most one base, the base is in the table and has a smaller rank; ranks fit the fuel *)
Definition forest_ok : bool :=
  forallb (fun e => match snd (snd e) with
                    | ([], r) => (r <? p_fuel)%nat
                    | ([p], r) => memN p p_ids && (p_rank p <? r)%nat && (r <? p_fuel)%nat
                    | _ => false
                    end) g_classes.
Definition names_nodup : bool := nodup_strb (map (fun e => fst (snd e)) g_classes).

(* every class below pydsdl.Any has a chain that ends at Any *)
Definition chain_end_ok : bool :=
  forallb (fun c => negb (isinst p_bases p_fuel c g_cls_Any) || (last (chain_n p_bases p_fuel c) c =? g_cls_Any)) p_ids.

(* listing -> index, with the TEMPLATE_SUFFIX of /repo *)
Definition p_tset (listing : list path) : tset := mk_tset g_index_top_level_only g_template_suffix listing.
(* a file named <ClassName><TEMPLATE_SUFFIX> is indexed under <ClassName>, for every class of the forest *)
Definition class_names_index_ok : bool :=
  negb (match g_template_suffix with [] => true | _ => false end) &&
  forallb (fun e => let n := fst (snd e) in
                    str_eqb (py_stem (n ++ g_template_suffix)) n && str_eqb (py_suffix (n ++ g_template_suffix)) g_template_suffix
                    && str_eqb (basename (n ++ g_template_suffix)) (n ++ g_template_suffix)) g_classes.

Definition g_builtin_templates : list (str * tset) := map (fun e => (fst e, p_tset (list_templates (snd e)))) g_builtin_listings.

(* built-in template sets are antichains of the ancestor relation (no template for a class and for one of its proper ancestors) *)
Definition proper_ancestors (c : cls) : list cls := tl (chain_n p_bases p_fuel c).
Definition antichainb (t : tset) : bool :=
  forallb (fun c => match tmap p_name t c with
                    | Some _ => forallb (fun a => match tmap p_name t a with Some _ => false | None => true end) (proper_ancestors c)
                    | None => true
                    end) p_ids.
Definition builtin_sets_antichain : bool := forallb (fun e => antichainb (snd e)) g_builtin_templates.
Definition builtin_stems_nodup : bool := forallb (fun e => nodup_strb (map fst (snd e))) g_builtin_templates.

(* instance tests *)
Definition p_alias (s : str) : str := alias_key s.
Definition p_tests : list (str * N) := dsdl_tests p_name p_alias g_test_order.
Definition p_test_names : list str := map fst p_tests.
Definition aliases_collision_freeb : bool := nodup_strb p_test_names.
Definition aliases_disjointb : bool :=
  disjoint_strb p_test_names g_jinja_tests && forallb (fun e => disjoint_strb p_test_names (snd e)) g_env_tests.
(* no class of the Attribute family is an instance of a class below SerializableType and vice versa *)
Definition families_disjointb : bool :=
  forallb (fun a => forallb (fun c => negb (isinst p_bases p_fuel a g_cls_Attribute && isinst p_bases p_fuel c g_cls_SerializableType
                                          && (isinst p_bases p_fuel a c || isinst p_bases p_fuel c a))) p_ids) p_ids.

(* the test function is the T2 translation of _field_is_instance; q_dt_only = the hand model of the code before fix d35e4ad *)
Definition p_test (q_dt_only : bool) (name : str) (v : value) : option bool :=
  match aget p_tests name with
  | Some root => Some (if q_dt_only then field_is_instance p_bases true p_fuel g_cls_Attribute root v
                       else g_field_is_instance (isinst p_bases p_fuel) g_cls_Attribute root (v_cls v) (v_dt v))
  | None => None
  end.
Definition p_test_spec (name : str) (v : value) : option bool :=
  match aget p_tests name with Some root => Some (spec_test p_bases p_fuel g_cls_Attribute root v) | None => None end.

(* loader: user search paths (raw, unsorted walk results, in the order of templates_dirs) and the package's raw listing ->
   results of a sequence of type_to_template calls, and the file get_source then loads for filter_type_to_template's name *)
Definition p_idx (raw : list path) : cls -> option path := tmap p_name (p_tset (list_templates raw)).
Definition p_index_fs (o : option (list (list path))) : option (cls -> option path) := option_map (fun rs => p_idx (fs_raw rs)) o.
Definition p_index_pkg (o : option (list path)) : option (cls -> option path) := option_map p_idx o.
Definition p_lookup_seq (q_shared : bool) (pol : policy) (dirs : option (list (list path))) (pkg : option (list path)) (cs : list cls)
  : list (option path) :=
  let '(fs, pk) := mk_loaders pol dirs pkg in
  run_seq p_bases q_shared (p_index_fs fs) (p_index_pkg pk) p_fuel [] cs.
Definition p_spec_seq (pol : policy) (dirs : option (list (list path))) (pkg : option (list path)) (cs : list cls) : list (option path) :=
  let '(fs, pk) := mk_loaders pol dirs pkg in
  map (fun c => spec_lookup (p_index_fs fs) (p_index_pkg pk) (chain_n p_bases p_fuel c)) cs.
Definition p_get_source (pol : policy) (dirs : option (list (list path))) (pkg : option (list path)) (name : path) : option origin :=
  let '(fs, pk) := mk_loaders pol dirs pkg in get_source fs pk name.

(* what _generate_type does with the result: template_name = filter_type_to_template(T) = path.name; env.get_template(template_name) *)
Inductive outcome := Rendered (o : origin) (name : path) | NoTemplate | NotFound (name : path).
Definition p_outcome (pol : policy) (dirs : option (list (list path))) (pkg : option (list path)) (r : option path) : outcome :=
  match r with
  | None => NoTemplate
  | Some p => match p_get_source pol dirs pkg (basename p) with Some o => Rendered o (basename p) | None => NotFound (basename p) end
  end.
Definition p_rendered_seq (q_shared : bool) (pol : policy) (dirs : option (list (list path))) (pkg : option (list path)) (cs : list cls)
  : list outcome := map (p_outcome pol dirs pkg) (p_lookup_seq q_shared pol dirs pkg cs).

(* the property: the most specific class of the chain for which a file named exactly <Class><suffix> exists in ANY root of the
   loader chain; the file rendered is the one in the first root that has it *)
Definition p_exact_name (k : cls) : path := p_name k ++ g_template_suffix.
Fixpoint spec_rendered_chain (pol : policy) (dirs : option (list (list path))) (pkg : option (list path)) (l : list cls) : outcome :=
  match l with
  | [] => NoTemplate
  | k :: l' => match p_get_source pol dirs pkg (p_exact_name k) with
               | Some o => Rendered o (p_exact_name k)
               | None => spec_rendered_chain pol dirs pkg l'
               end
  end.
(* ... over the chain the CODE walks (p_bases) and over the chain of the PROPERTY, which ends at pydsdl.Any *)
Definition p_spec_rendered_code (pol : policy) (dirs : option (list (list path))) (pkg : option (list path)) (c : cls) : outcome :=
  spec_rendered_chain pol dirs pkg (chain_n p_bases p_fuel c).
Definition prop_bases (c : cls) : list cls := if c =? g_cls_Any then [] else tbl_bases c.
Definition p_spec_rendered (pol : policy) (dirs : option (list (list path))) (pkg : option (list path)) (c : cls) : outcome :=
  spec_rendered_chain pol dirs pkg (chain_n prop_bases p_fuel c).

(* trigger predicates of the two deviations *)
Definition flatb (l : list path) : bool :=
  forallb (fun p => negb (str_eqb (py_suffix (basename p)) g_template_suffix) || str_eqb (basename p) p) l.
Definition p_flatb (pol : policy) (dirs : option (list (list path))) (pkg : option (list path)) : bool :=
  let '(fs, pk) := mk_loaders pol dirs pkg in
  g_index_top_level_only ||
  (match fs with Some rs => forallb flatb rs | None => true end && match pk with Some l => flatb l | None => true end).
Definition p_shadow_freeb (pol : policy) (dirs : option (list (list path))) (pkg : option (list path)) (c : cls) : bool :=
  let '(fs, pk) := mk_loaders pol dirs pkg in
  shadow_freeb (match p_index_fs fs with Some T => T | None => fun _ => None end)
               (match p_index_pkg pk with Some T => T | None => fun _ => None end) (chain_n p_bases p_fuel c).

(* environment *)
Definition p_reserved : list str := g_gate_reserved.
Definition p_gate_unchecked : bool := negb g_gate_checks_existing.
Definition builtin_coll (names : list str) : coll := map (fun n => (n, OBuiltin)) names.

(* the whole life of an environment: constructor (user globals/filters/tests), DSDL tests + the generator's own conventional
   methods when it belongs to a DSDLCodeGenerator, then later additions *)
Definition lookup_lang {A : Type} (t : list (str * list A)) (lang : str) : list A :=
  match find (fun e => str_eqb (fst e) lang) t with Some e => snd e | None => [] end.
Definition p_gen_ops : list op := map (fun n => OpFilter n OBuiltin) g_gen_filters ++ map (fun n => OpTest n OBuiltin) g_gen_tests.
Definition p_env_run (allow q_unchecked dsdl : bool) (lang : str) (uglobals ufilters utests : list (str * N)) (post : list op)
  : option env :=
  let globals0 := lookup_lang g_env_globals lang in
  let lang_globals := filter (fun n => negb (str_in n g_jinja_globals) && negb (str_in n g_init_written)) globals0 in
  match env_create allow q_unchecked (builtin_coll (lookup_lang g_env_filters lang)) (builtin_coll (lookup_lang g_env_tests lang))
                   g_jinja_globals p_reserved g_init_written lang_globals uglobals ufilters utests (if dsdl then p_test_names else []) with
  | None => None
  | Some e => run_ops allow e ((if dsdl then p_gen_ops else []) ++ post)
  end.
