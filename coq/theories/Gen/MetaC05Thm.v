(* C05 proofs, part 1: size bounds.  bits -> bytes conversion (translated filter), best fit (translated), the exported table against
   the template scan, sufficiency of the advertised buffer, buffer <= extent, refusal of undersized buffers.  Statements are
   re-exported by Properties/C05.v. *)
From Coq Require Import List NArith ZArith Bool Lia.
From Verif Require Import Str Wire WireThm WireThmValid Walker WalkerSafe WalkerSafeThm MetaC05Base Gen_C05 MetaC05.
Import ListNotations.
Local Open Scope Z_scope.

(* ---- filter_bits2bytes_ceil ---- *)
Theorem bits2bytes_ceil_spec : forall n, 0 <= n ->
  exists q, filter_bits2bytes_ceil n = Some q /\ 8 * (q - 1) < n <= 8 * q.
Proof.
  intros n Hn. unfold filter_bits2bytes_ceil. destruct (Z.ltb_spec n 0); [lia|].
  eexists; split; [reflexivity|].
  pose proof (Z.div_mod (n + 7) 8 ltac:(lia)). pose proof (Z.mod_pos_bound (n + 7) 8 ltac:(lia)). lia.
Qed.

Theorem bits2bytes_ceil_negative : forall n, n < 0 -> filter_bits2bytes_ceil n = None.
Proof. intros n Hn. unfold filter_bits2bytes_ceil. destruct (Z.ltb_spec n 0); [reflexivity|lia]. Qed.

Lemma b2b_aligned n : 0 <= n -> n mod 8 = 0 -> filter_bits2bytes_ceil n = Some (n / 8).
Proof.
  intros Hn Hm. destruct (bits2bytes_ceil_spec n Hn) as [q [-> Hq]]. f_equal.
  pose proof (Z.div_mod n 8 ltac:(lia)). lia.
Qed.

(* ---- _CFit.get_best_fit ---- *)
Theorem best_fit_spec : forall w, 1 <= w <= 64 ->
  exists s, get_best_fit w = Some s /\ In s CFit_values /\ w <= s /\ (s = 8 \/ s < 2 * w).
Proof.
  intros w Hw. unfold get_best_fit.
  destruct (Z.leb_spec w 8); [exists 8; split; [reflexivity|]; split; [unfold CFit_values, In; tauto|lia]|].
  destruct (Z.leb_spec w 16); [exists 16; split; [reflexivity|]; split; [unfold CFit_values, In; tauto|lia]|].
  destruct (Z.leb_spec w 32); [exists 32; split; [reflexivity|]; split; [unfold CFit_values, In; tauto|lia]|].
  destruct (Z.leb_spec w 64); [exists 64; split; [reflexivity|]; split; [unfold CFit_values, In; tauto|lia]|lia].
Qed.

Theorem best_fit_too_wide : forall w, 64 < w -> get_best_fit w = None.
Proof.
  intros w Hw. unfold get_best_fit.
  destruct (Z.leb_spec w 8); [lia|]. destruct (Z.leb_spec w 16); [lia|].
  destruct (Z.leb_spec w 32); [lia|]. destruct (Z.leb_spec w 64); [lia|reflexivity].
Qed.

(* the storage width the code walker (Codec/Walker.v) assumes is the translated one *)
Theorem best_fit_is_walker_std_width : forall w, (1 <= w <= 64)%nat ->
  filter_to_standard_bit_length (mk_pty KUInt (Z.of_nat w)) = Some (Z.of_nat (std_width w)).
Proof.
  intros w Hw. unfold filter_to_standard_bit_length, get_best_fit, std_width, mk_pty. cbn [pty_bit_length].
  destruct (Nat.leb_spec w 8); destruct (Z.leb_spec (Z.of_nat w) 8); try lia; [reflexivity|].
  destruct (Nat.leb_spec w 16); destruct (Z.leb_spec (Z.of_nat w) 16); try lia; [reflexivity|].
  destruct (Nat.leb_spec w 32); destruct (Z.leb_spec (Z.of_nat w) 32); try lia; [reflexivity|].
  destruct (Z.leb_spec (Z.of_nat w) 64); try lia. reflexivity.
Qed.

(* ---- composites are whole bytes ---- *)
Lemma fields_sum_mod8 B fs : forall off, (fields_sum B fs off mod 8 = 0)%nat.
Proof.
  induction fs as [|f r IH]; intro off; cbn [fields_sum].
  - apply pad8_spec.
  - apply IH.
Qed.

Lemma comp_bmax_mod8 u fs ext : (bmax (TComp u fs ext) mod 8 = 0)%nat.
Proof.
  destruct u; cbn [bmax].
  - apply pad8_spec.
  - apply fields_sum_mod8.
Qed.

Lemma comp_extent_mod8 t : wf_ty t = true -> is_comp t = true -> (extent t mod 8 = 0)%nat.
Proof.
  intros Hwf Hc. destruct t as [p|e n|e c|u fs [x|]]; try discriminate.
  - apply (wf_extent _ _ _ Hwf).
  - cbn [extent]. apply comp_bmax_mod8.
Qed.

Lemma of_nat_div8 n : (n mod 8 = 0)%nat -> 8 * (Z.of_nat n / 8) = Z.of_nat n /\ Z.of_nat n mod 8 = 0.
Proof.
  intro H. assert (Hz : Z.of_nat n mod 8 = 0).
  { change 8 with (Z.of_nat 8). rewrite <- Nat2Z.inj_mod. rewrite H. reflexivity. }
  split; [|exact Hz]. pose proof (Z.div_mod (Z.of_nat n) 8 ltac:(lia)). lia.
Qed.

(* ---- the exported table ---- *)
Theorem table_ok_holds : table_ok = true.
Proof. vm_compute. reflexivity. Qed.

Lemma exports_good tg k e : In e (exports_of tg k) -> good_exp k e = true.
Proof.
  pose proof table_ok_holds as H. unfold table_ok in H. apply andb_true_iff in H. destruct H as [H _].
  rewrite forallb_forall in H. unfold exports_of. intro Hin. apply in_map_iff in Hin. destruct Hin as [x [<- Hx]].
  apply filter_In in Hx. destruct Hx as [Hx Hm]. apply andb_true_iff in Hm. destruct Hm as [_ Hk].
  specialize (H x Hx). destruct (ex_key x), k; try discriminate; exact H.
Qed.

Lemma exports_present tg k : In (tg, k) required_exports -> exists e r, exports_of tg k = e :: r.
Proof.
  pose proof table_ok_holds as H. unfold table_ok in H. apply andb_true_iff in H. destruct H as [_ H].
  rewrite forallb_forall in H. intro Hin. specialize (H _ Hin). cbn beta iota in H.
  destruct (exports_of tg k) as [|e r]; [discriminate|]. eauto.
Qed.

Lemma bytes_of_src_eval e ok t :
  bytes_of_src e ok = true -> (forall s, ok s = true -> 0 <= src_val s t /\ src_val s t mod 8 = 0) ->
  exists s, ok s = true /\ meval e t = Some (src_val s t / 8).
Proof.
  intros H Hs. destruct e as [s|[s|a|a|a]|[s|a|a|a]|a]; try discriminate; cbn [bytes_of_src] in H; exists s; split; try exact H;
    cbn [meval].
  - reflexivity.
  - destruct (Hs s H) as [H0 H8]. apply b2b_aligned; assumption.
Qed.

Definition all_targets : list mtarget := [TgtC; TgtCpp; TgtPy].
Definition buffer_targets : list mtarget := [TgtC; TgtCpp].

Theorem exported_extent_bytes : forall tg t, In tg all_targets -> wf_ty t = true -> is_comp t = true ->
  exists q, exported tg KExtentBytes t = Some q /\ 8 * q = Z.of_nat (extent t).
Proof.
  intros tg t Htg Hwf Hc.
  assert (Hreq : In (tg, KExtentBytes) required_exports).
  { cbn in Htg. destruct Htg as [<-|[<-|[<-|[]]]]; cbn; tauto. }
  destruct (exports_present _ _ Hreq) as [e [r He]]. unfold exported. rewrite He.
  assert (Hg : good_exp KExtentBytes e = true) by (apply (exports_good tg); rewrite He; left; reflexivity).
  cbn [good_exp] in Hg.
  destruct (bytes_of_src_eval e _ t Hg) as [s [Hs Hv]].
  - intros s Hs. destruct s; try discriminate. cbn [src_val]. pose proof (of_nat_div8 _ (comp_extent_mod8 t Hwf Hc)). lia.
  - destruct s; try discriminate. rewrite Hv. eexists; split; [reflexivity|]. cbn [src_val].
    apply (of_nat_div8 _ (comp_extent_mod8 t Hwf Hc)).
Qed.

Theorem exported_buffer_bytes : forall tg t, In tg buffer_targets -> is_comp t = true ->
  exists q, exported tg KBufferBytes t = Some q /\ 8 * q = Z.of_nat (bmax t).
Proof.
  intros tg t Htg Hc.
  assert (Hm : (bmax t mod 8 = 0)%nat) by (destruct t; try discriminate; apply comp_bmax_mod8).
  assert (Hreq : In (tg, KBufferBytes) required_exports).
  { cbn in Htg. destruct Htg as [<-|[<-|[]]]; cbn; tauto. }
  destruct (exports_present _ _ Hreq) as [e [r He]]. unfold exported. rewrite He.
  assert (Hg : good_exp KBufferBytes e = true) by (apply (exports_good tg); rewrite He; left; reflexivity).
  cbn [good_exp] in Hg.
  destruct (bytes_of_src_eval e _ t Hg) as [s [Hs Hv]].
  - intros s Hs. destruct s; try discriminate; cbn [src_val]; pose proof (of_nat_div8 _ Hm); lia.
  - rewrite Hv. eexists; split; [reflexivity|]. destruct s; try discriminate; cbn [src_val]; apply (of_nat_div8 _ Hm).
Qed.

Theorem exported_count_exact : forall tg k t, In (tg, k) required_exports -> k = KCap \/ k = KUnionCount ->
  exported tg k t = Some (key_spec k t).
Proof.
  intros tg k t Hreq Hk. destruct (exports_present _ _ Hreq) as [e [r He]]. unfold exported. rewrite He.
  assert (Hg : good_exp k e = true) by (apply (exports_good tg); rewrite He; left; reflexivity).
  destruct Hk as [-> | ->]; cbn [good_exp] in Hg; destruct e as [[]| | |]; try discriminate; reflexivity.
Qed.

(* ---- emit conditions ---- *)
Theorem emit_ok_holds : emit_ok = true.
Proof. vm_compute. reflexivity. Qed.

(* the fixed port id is exported exactly when the type has one -- including the port id 0 *)
Theorem exported_port_exact : forall tg p, In tg all_targets -> exported_port tg p = Some p.
Proof.
  intros tg p Htg. cbn in Htg. destruct Htg as [<-|[<-|[<-|[]]]]; destruct p as [[|q|q]|]; vm_compute; reflexivity.
Qed.

(* the Python SERVICE class (py/templates/ServiceType.j2) exports the service's fixed port id exactly when it has one *)
Theorem exported_svc_port_exact : forall p, exported_port_k TgtPy KSvcPortId p = Some p.
Proof. intros [[|q|q]|]; vm_compute; reflexivity. Qed.

(* ---- exported names and flags ---- *)
Theorem names_ok_holds : names_ok = true.
Proof. vm_compute. reflexivity. Qed.

(* _HAS_FIXED_PORT_ID_ (C) / _traits_::HasFixedPortID (C++) is true exactly when the type has a fixed port id (0 included) *)
Theorem exported_port_flag_exact : forall p svc,
  exported_flag TgtC n_c_has_port p svc = Some (match p with Some _ => true | None => false end) /\
  exported_flag TgtCpp n_cpp_has_port p svc = Some (match p with Some _ => true | None => false end).
Proof. intros [[|q|q]|] [|]; split; vm_compute; reflexivity. Qed.

(* _traits_::IsServiceType is true exactly for the request / response types of a service *)
Theorem cpp_is_service_type_exact : forall p svc, exported_flag TgtCpp n_cpp_is_service_type p svc = Some svc.
Proof. intros [[|q|q]|] [|]; vm_compute; reflexivity. Qed.

(* the C++ service wrapper `Svc_M_m::_traits_` (cpp/templates/ServiceType.j2): a service type, the service itself, neither request
   nor response *)
Theorem cpp_service_wrapper_traits_exact : forall p svc,
  exported_flag TgtCpp (n_cpp_svc n_cpp_is_service_type) p svc = Some true /\
  exported_flag TgtCpp (n_cpp_svc n_IsService) p svc = Some true /\
  exported_flag TgtCpp (n_cpp_svc n_IsRequest) p svc = Some false /\
  exported_flag TgtCpp (n_cpp_svc n_IsResponse) p svc = Some false.
Proof. intros [[|q|q]|] [|]; vm_compute; repeat split; reflexivity. Qed.

(* ---- the flat macro namespace of a C header (finding F-C-MACRO-CLASH) ---- *)
Lemma lstr_eqb_eq a : forall b, lstr_eqb a b = true <-> a = b.
Proof.
  induction a as [|x a IH]; intros [|y b]; cbn [lstr_eqb]; split; intro H; try discriminate; try reflexivity.
  - apply andb_true_iff in H. destruct H as [H1 H2]. apply N.eqb_eq in H1. apply IH in H2. subst. reflexivity.
  - injection H as -> ->. apply andb_true_iff. split; [apply N.eqb_refl|apply IH; reflexivity].
Qed.

Lemma last_def_absent l nm : existsb (fun '(k', _) => lstr_eqb nm k') l = false -> last_def l nm = None.
Proof.
  induction l as [|[k v] r IH]; cbn [existsb last_def]; intro H; [reflexivity|].
  apply orb_false_iff in H. destruct H as [H1 H2]. rewrite (IH H2).
  destruct (lstr_eqb k nm) eqn:E; [|reflexivity]. apply lstr_eqb_eq in E. subst k.
  assert (lstr_eqb nm nm = true) by (apply lstr_eqb_eq; reflexivity). congruence.
Qed.

Lemma distinct_last_def l : keys_distinct l = true -> forall nm v, In (nm, v) l -> last_def l nm = Some v.
Proof.
  induction l as [|[k w] r IH]; intros Hd nm v Hin; [destruct Hin|].
  cbn [keys_distinct] in Hd. apply andb_true_iff in Hd. destruct Hd as [Hk Hr]. apply negb_true_iff in Hk.
  cbn [last_def]. destruct Hin as [E|Hin].
  - injection E as -> ->. rewrite (last_def_absent r nm Hk).
    assert (H : lstr_eqb nm nm = true) by (apply lstr_eqb_eq; reflexivity). rewrite H. reflexivity.
  - rewrite (IH Hr nm v Hin). reflexivity.
Qed.

(* PARTIAL (strongest true statement): when no two macros of the type share a name, every name a user reads resolves to the
   definition the model attributes to it *)
Theorem c_header_effective_partial : forall consts fields, c_macros_distinct consts fields = true ->
  forall nm src, In (nm, src) (c_header consts fields) -> last_def (c_header consts fields) nm = Some src.
Proof. intros consts fields H. apply distinct_last_def. exact H. Qed.

(* REFUTED without the premise: a type with a DSDL constant called EXTENT_BYTES_ exports the CONSTANT under <T>_EXTENT_BYTES_ *)
Theorem c_header_effective_refuted : exists consts fields,
  c_macros_distinct consts fields = false /\
  In ([95; 69; 88; 84; 69; 78; 84; 95; 66; 89; 84; 69; 83; 95]%N, SrcRow RExtentBytes) (c_header consts fields) /\
  last_def (c_header consts fields) [95; 69; 88; 84; 69; 78; 84; 95; 66; 89; 84; 69; 83; 95]%N = Some (SrcConstant [69; 88; 84; 69; 78; 84; 95; 66; 89; 84; 69; 83; 95]%N).
Proof.
  exists [[69; 88; 84; 69; 78; 84; 95; 66; 89; 84; 69; 83; 95]%N], []. vm_compute. split; [reflexivity|]. split; [|reflexivity]. tauto.
Qed.

(* ---- the up-front capacity check ---- *)
Definition good_capcheck (cc : capcheck) : bool :=
  cc_first cc && xorb (cc_cap_in_bits cc) (cc_lhs_times8 cc)
  && match cc_op cc with CmpLt => true | _ => false end
  && match cc_rhs cc with MSrc SrcInnerMax | MSrc SrcInnerExtent => true | _ => false end.

Lemma good_capcheck_spec cc t v cap : good_capcheck cc = true -> ser_model cc t v cap = Some (ser_spec t v cap).
Proof.
  unfold good_capcheck, ser_model, capcheck_refuses, ser_spec. intro H.
  apply andb_true_iff in H. destruct H as [H Hrhs]. apply andb_true_iff in H. destruct H as [H Hop].
  apply andb_true_iff in H. destruct H as [Hf Hx].
  rewrite Hf, Hx. cbn [negb].
  destruct (cc_op cc); try discriminate.
  assert (Hr : meval (cc_rhs cc) t = Some (Z.of_nat (bmax t))).
  { destruct (cc_rhs cc) as [[]| | |]; try discriminate; reflexivity. }
  rewrite Hr. cbn [cmp_eval].
  destruct (Z.ltb_spec (8 * Z.of_nat cap) (Z.of_nat (bmax t))); destruct (Nat.ltb_spec (8 * cap) (bmax t)); try lia; reflexivity.
Qed.

Theorem c_capcheck_is_spec : forall t v cap, ser_model c_capcheck t v cap = Some (ser_spec t v cap).
Proof. intros. apply good_capcheck_spec. vm_compute. reflexivity. Qed.

Theorem cpp_capcheck_is_spec : forall t v cap, ser_model cpp_capcheck t v cap = Some (ser_spec t v cap).
Proof. intros. apply good_capcheck_spec. vm_compute. reflexivity. Qed.

(* the size handed to the serializer of a nested composite (C `size_bytes`) is the nested type's advertised buffer size *)
Theorem c_nested_size_is_buffer_bytes : forall t, is_comp t = true ->
  exists q, meval c_nested_size_bytes t = Some q /\ 8 * q = Z.of_nat (bmax t).
Proof.
  intros t Hc.
  assert (Hm : (bmax t mod 8 = 0)%nat) by (destruct t; try discriminate; apply comp_bmax_mod8).
  assert (Hg : bytes_of_src c_nested_size_bytes (fun s => msrc_eqb s SrcInnerExtent || msrc_eqb s SrcInnerMax) = true)
    by (vm_compute; reflexivity).
  destruct (bytes_of_src_eval _ _ t Hg) as [s [Hs Hv]].
  - intros s Hs. destruct s; try discriminate; cbn [src_val]; pose proof (of_nat_div8 _ Hm); lia.
  - rewrite Hv. eexists; split; [reflexivity|]. destruct s; try discriminate; cbn [src_val]; apply (of_nat_div8 _ Hm).
Qed.

(* ---- sufficiency of the advertised buffer ---- *)
Theorem ser_buffer_suffices : forall tg t v q, In tg buffer_targets -> wf_ty t = true -> is_comp t = true ->
  exported tg KBufferBytes t = Some q ->
  ser_spec t v (Z.to_nat q) = enc_body t v /\
  (forall b, ser_spec t v (Z.to_nat q) = Ok b -> (length b <= 8 * Z.to_nat q)%nat /\ (length b <= bmax t)%nat) /\
  (valid_val t v = true -> exists b, ser_spec t v (Z.to_nat q) = Ok b).
Proof.
  intros tg t v q Htg Hwf Hc Hq.
  destruct (exported_buffer_bytes tg t Htg Hc) as [q' [Hq' H8]]. rewrite Hq in Hq'. injection Hq' as <-.
  assert (Hcap : (8 * Z.to_nat q = bmax t)%nat) by lia.
  assert (Hs : ser_spec t v (Z.to_nat q) = enc_body t v).
  { unfold ser_spec. destruct (Nat.ltb_spec (8 * Z.to_nat q) (bmax t)); [lia|reflexivity]. }
  split; [exact Hs|]. split.
  - intros b Hb. destruct (ser_spec_ok_size _ _ _ _ Hwf Hb) as [H1 [_ H2]]. split; assumption.
  - intro Hv. rewrite Hs. apply enc_ok_iff_valid. exact Hv.
Qed.

Theorem buffer_le_extent : forall tg t qb qe, In tg buffer_targets -> wf_ty t = true -> is_comp t = true ->
  exported tg KBufferBytes t = Some qb -> exported tg KExtentBytes t = Some qe -> 0 <= qb <= qe.
Proof.
  intros tg t qb qe Htg Hwf Hc Hb He.
  destruct (exported_buffer_bytes tg t Htg Hc) as [q1 [Hq1 H1]]. rewrite Hb in Hq1. injection Hq1 as <-.
  assert (Htg' : In tg all_targets) by (cbn in Htg |- *; tauto).
  destruct (exported_extent_bytes tg t Htg' Hwf Hc) as [q2 [Hq2 H2]]. rewrite He in Hq2. injection Hq2 as <-.
  pose proof (max_le_extent t Hwf). lia.
Qed.

(* ---- undersized buffers ---- *)
(* "nothing written" is C04's theorem about the instrumented walker (Codec/WalkerSafe.v: the access log is empty) *)
Theorem too_small_refused : forall tg P c t v o buf cap q, In tg buffer_targets -> is_comp t = true ->
  exported tg KBufferBytes t = Some q -> Z.of_nat cap < q -> plan_ok c -> up_front c = true ->
  ser_spec t v cap = Err ETooSmall /\ walk_ser P t v buf cap = Err ETooSmall /\ walk_ser_safe c t o cap = (Err ETooSmall, []).
Proof.
  intros tg P c t v o buf cap q Htg Hc Hq Hlt Hpl Hup.
  destruct (exported_buffer_bytes tg t Htg Hc) as [q' [Hq' H8]]. rewrite Hq in Hq'. injection Hq' as <-.
  assert (Hcap : (8 * cap < bmax t)%nat) by lia.
  split; [|split].
  - unfold ser_spec. destruct (Nat.ltb_spec (8 * cap) (bmax t)); [reflexivity|lia].
  - unfold walk_ser. destruct (Nat.ltb_spec (8 * cap) (bmax t)); [reflexivity|lia].
  - apply too_small_no_write; assumption.
Qed.

Theorem too_small_iff : forall tg t v cap q, In tg buffer_targets -> is_comp t = true ->
  exported tg KBufferBytes t = Some q ->
  (ser_spec t v cap = Err ETooSmall <-> Z.of_nat cap < q \/ enc_body t v = Err ETooSmall).
Proof.
  intros tg t v cap q Htg Hc Hq.
  destruct (exported_buffer_bytes tg t Htg Hc) as [q' [Hq' H8]]. rewrite Hq in Hq'. injection Hq' as <-.
  unfold ser_spec. destruct (Nat.ltb_spec (8 * cap) (bmax t)).
  - split; [intros _; left; lia | intros _; reflexivity].
  - split; [intro H'; right; exact H' | intros [H'|H']; [lia | exact H']].
Qed.
