(* C18 theorems about the data-object model PyObj.v instantiated with the facts the translator extracted
   (Generated/Gen_PyObj.v: tmpl_gen, pick_width_gen).  Every use of a template fact goes through a
   `reflexivity`/`vm_compute` on tmpl_gen, so a generated `false` (or another comparison operator, bound, ...)
   breaks the proofs. *)
From Coq Require Import List NArith ZArith Bool Arith Lia ZifyBool.
From Verif Require Import PyObj Gen_PyObj.
Import ListNotations.
Open Scope Z_scope.

Notation TG := tmpl_gen.
Notation PW := pick_width_gen.

Definition wf (s : bool) (db : tdb) (v : pyval) : Prop := wfv PW db s v = true.

(* ================================================================ 1. pick_width *)
Lemma pw_cases : forall w,
  (w <= 8 /\ PW w = Some 8) \/ (8 < w <= 16 /\ PW w = Some 16) \/ (16 < w <= 32 /\ PW w = Some 32) \/
  (32 < w <= 64 /\ PW w = Some 64) \/ (64 < w /\ PW w = None).
Proof.
  intros w. unfold pick_width_gen. cbn [find].
  destruct (w <=? 8) eqn:E1; [left; split; [lia|reflexivity]|].
  destruct (w <=? 16) eqn:E2; [right; left; split; [lia|reflexivity]|].
  destruct (w <=? 32) eqn:E3; [right; right; left; split; [lia|reflexivity]|].
  destruct (w <=? 64) eqn:E4; [right; right; right; left; split; [lia|reflexivity]|].
  right; right; right; right; split; [lia|reflexivity].
Qed.

Theorem pick_width_spec : forall w, 1 <= w <= 64 ->
  exists o, pick_width_gen w = Some o /\ In o [8;16;32;64] /\ w <= o /\
            (forall o', In o' [8;16;32;64] -> w <= o' -> o <= o').
Proof.
  intros w Hw.
  destruct (pw_cases w) as [[H E]|[[H E]|[[H E]|[[H E]|[H E]]]]]; [| | | |lia];
    eexists; (split; [exact E|]); cbn [In]; (split; [tauto|]); (split; [lia|]);
    intros o' Ho'; intuition lia.
Qed.

Theorem pick_width_none : forall w, 64 < w -> pick_width_gen w = None.
Proof.
  intros w Hw. destruct (pw_cases w) as [[H E]|[[H E]|[[H E]|[[H E]|[H E]]]]]; try lia. exact E.
Qed.

Lemma pwd_cases : forall w,
  (w <= 8 /\ pwd PW w = 8) \/ (8 < w <= 16 /\ pwd PW w = 16) \/ (16 < w <= 32 /\ pwd PW w = 32) \/
  (32 < w <= 64 /\ pwd PW w = 64) \/ (64 < w /\ pwd PW w = 0).
Proof.
  intros w. unfold pwd.
  destruct (pw_cases w) as [[H E]|[[H E]|[[H E]|[[H E]|[H E]]]]]; rewrite E; tauto.
Qed.

(* ================================================================ generic list facts *)
Lemma length_update_nth {A} : forall (l : list A) i v, length (update_nth i v l) = length l.
Proof. induction l as [|a r IH]; intros [|i] v; cbn [update_nth length]; auto. Qed.

Lemma nth_error_update_nth_eq {A} : forall (l : list A) i v, (i < length l)%nat -> nth_error (update_nth i v l) i = Some v.
Proof.
  induction l as [|a r IH]; intros [|i] v H; cbn [update_nth length nth_error] in *; try lia; auto.
  apply IH; lia.
Qed.

Lemma nth_error_update_nth_neq {A} : forall (l : list A) i j v, i <> j -> nth_error (update_nth i v l) j = nth_error l j.
Proof.
  induction l as [|a r IH]; intros [|i] [|j] v H; cbn [update_nth nth_error]; auto; try congruence.
Qed.

Lemma forallb_update_nth {A} (p : A -> bool) : forall l i v,
  forallb p l = true -> p v = true -> forallb p (update_nth i v l) = true.
Proof.
  induction l as [|a r IH]; intros [|i] v H Hv; cbn [update_nth forallb] in *; auto;
    apply andb_true_iff in H; destruct H as [Ha Hr]; apply andb_true_iff; split; auto.
Qed.

Lemma nth_error_map_const {A B} (b : B) : forall (l : list A) j s, nth_error (map (fun _ => b) l) j = Some s -> s = b.
Proof. induction l as [|a r IH]; intros [|j] s H; cbn [map nth_error] in H; try discriminate; [congruence|eauto]. Qed.

Lemma forallb_map_const {A B} (p : B -> bool) (b : B) : forall (l : list A), p b = true -> forallb p (map (fun _ => b) l) = true.
Proof. induction l; intros; cbn [map forallb]; auto. rewrite H. auto. Qed.

Lemma length_clear_others : forall l i, length (clear_others i l) = length l.
Proof. induction l as [|a r IH]; intros [|i]; cbn [clear_others length]; auto. rewrite map_length; auto. Qed.

Lemma nth_error_clear_others_eq : forall l i, nth_error (clear_others i l) i = nth_error l i.
Proof. induction l as [|a r IH]; intros [|i]; cbn [clear_others nth_error]; auto. Qed.

Lemma nth_error_clear_others_neq : forall l i j s, i <> j -> nth_error (clear_others i l) j = Some s -> s = PNone.
Proof.
  induction l as [|a r IH]; intros [|i] [|j] s H E; cbn [clear_others nth_error] in E; try discriminate; try congruence.
  - eapply nth_error_map_const; eauto.
  - eapply IH; [|eauto]. congruence.
Qed.

Lemma forallb_clear_others (p : pyval -> bool) : forall l i, p PNone = true -> forallb p l = true -> forallb p (clear_others i l) = true.
Proof.
  induction l as [|a r IH]; intros [|i] Hn H; cbn [clear_others forallb] in *; auto;
    apply andb_true_iff in H; destruct H as [Ha Hr]; apply andb_true_iff; split; auto.
  apply forallb_map_const; auto.
Qed.

Lemma count_active_blank {A} : forall (l : list A), count_active (map (fun _ => PNone) l) = 0%nat.
Proof. unfold count_active. induction l; cbn [map filter is_none negb length]; auto. Qed.

Lemma count_active_cons : forall a r, count_active (a :: r) = ((if is_none a then 0 else 1) + count_active r)%nat.
Proof. intros. unfold count_active. cbn [filter]. destruct (is_none a); reflexivity. Qed.

Lemma count_active_clear_others : forall l i v,
  nth_error l i = Some v -> is_none v = false -> count_active (clear_others i l) = 1%nat.
Proof.
  induction l as [|a r IH]; intros [|i] v E N; cbn [nth_error clear_others] in *; try discriminate.
  - inversion E; subst. rewrite count_active_cons, N, count_active_blank. reflexivity.
  - rewrite count_active_cons. cbn [is_none]. eapply IH; eauto.
Qed.

Lemma count_active_update_nth : forall l i v0 v,
  nth_error l i = Some v0 -> is_none v0 = is_none v -> count_active (update_nth i v l) = count_active l.
Proof.
  induction l as [|a r IH]; intros [|i] v0 v E N; cbn [nth_error update_nth] in *; try discriminate.
  - inversion E; subst. rewrite !count_active_cons, N. reflexivity.
  - rewrite !count_active_cons. erewrite IH; eauto.
Qed.

(* ================================================================ induction on Python values *)
Section pyval_nested_ind.
  Variable P : pyval -> Prop.
  Hypothesis HNone : P PNone.
  Hypothesis HBool : forall b, P (PBool b).
  Hypothesis HInt : forall z, P (PInt z).
  Hypothesis HFloat : forall x, P (PFloat x).
  Hypothesis HStr : forall s, P (PStr s).
  Hypothesis HBytes : forall s, P (PBytes s).
  Hypothesis HList : forall l, Forall P l -> P (PList l).
  Hypothesis HDict : forall l, Forall (fun p => P (snd p)) l -> P (PDict l).
  Hypothesis HArr : forall dt l, Forall P l -> P (PArr dt l).
  Hypothesis HObj : forall t l, Forall P l -> P (PObj t l).
  Fixpoint pyval_nested_ind (v : pyval) : P v :=
    match v with
    | PNone => HNone | PBool b => HBool b | PInt z => HInt z | PFloat x => HFloat x
    | PStr s => HStr s | PBytes s => HBytes s
    | PList l => HList l ((fix go (l : list pyval) : Forall P l :=
                             match l with [] => Forall_nil P | x :: r => Forall_cons x (pyval_nested_ind x) (go r) end) l)
    | PDict l => HDict l ((fix go (l : list (nat * pyval)) : Forall (fun p => P (snd p)) l :=
                             match l with
                             | [] => Forall_nil _
                             | x :: r => Forall_cons (P := fun p => P (snd p)) x (pyval_nested_ind (snd x)) (go r)
                             end) l)
    | PArr dt l => HArr dt l ((fix go (l : list pyval) : Forall P l :=
                             match l with [] => Forall_nil P | x :: r => Forall_cons x (pyval_nested_ind x) (go r) end) l)
    | PObj t l => HObj t l ((fix go (l : list pyval) : Forall P l :=
                             match l with [] => Forall_nil P | x :: r => Forall_cons x (pyval_nested_ind x) (go r) end) l)
    end.
End pyval_nested_ind.

(* ================================================================ NumPy conversion facts *)
Lemma dtype_eqb_eq : forall a b, dtype_eqb a b = true -> a = b.
Proof. destruct a, b; cbn [dtype_eqb]; intros H; try discriminate; try reflexivity; apply Z.eqb_eq in H; subst; reflexivity. Qed.

Lemma dtype_eqb_refl : forall a, dtype_eqb a a = true.
Proof. destruct a; cbn [dtype_eqb]; auto using Z.eqb_refl. Qed.

Definition is_leafval (y : pyval) : bool := match y with PBool _ | PInt _ | PFloat _ => true | _ => false end.

Lemma leafval_wf : forall db s y, is_leafval y = true -> wfv PW db s y = true.
Proof. intros db s y; destruct y; cbn [is_leafval wfv]; intros; try discriminate; reflexivity. Qed.

Lemma leafval_not_none : forall y, is_leafval y = true -> is_none y = false.
Proof. destruct y; cbn; intros; try discriminate; reflexivity. Qed.

Lemma py_float_DF : forall w x y, conv_leaf (DF w) x = Ok y -> exists b, y = PFloat b.
Proof.
  intros w x y. unfold conv_leaf. destruct x; cbn [py_float bind]; intros H; try discriminate;
    try (inversion H; eexists; reflexivity).
  - destruct (f_of_Z z); cbn [bind] in H; [inversion H; eexists; reflexivity | discriminate].
  - destruct (parse_float_text s); cbn [bind] in H; [inversion H; eexists; reflexivity | discriminate].
  - destruct (parse_float_text s); cbn [bind] in H; [inversion H; eexists; reflexivity | discriminate].
Qed.

Lemma conv_leaf_ok : forall dt x y, conv_leaf dt x = Ok y -> fits dt y = true /\ (y = x \/ is_leafval y = true).
Proof.
  intros dt x y H. destruct dt.
  - cbn [conv_leaf] in H. inversion H; subst. auto.
  - cbn [conv_leaf] in H. destruct (py_int x) as [z|e]; cbn [bind] in H; [|discriminate].
    destruct (urange w z) eqn:E; inversion H; subst. cbn [fits is_leafval]. auto.
  - cbn [conv_leaf] in H. destruct (py_int x) as [z|e]; cbn [bind] in H; [|discriminate].
    destruct (srange w z) eqn:E; inversion H; subst. cbn [fits is_leafval]. auto.
  - apply py_float_DF in H. destruct H as [b ->]. cbn [fits is_leafval]. auto.
  - cbn [conv_leaf] in H. inversion H; subst. auto.
Qed.

Lemma mapM_Forall2 {A B} (f : A -> res B) : forall l l', mapM f l = Ok l' -> Forall2 (fun a b => f a = Ok b) l l'.
Proof.
  induction l as [|a r IH]; cbn [mapM]; intros l' H.
  - inversion H; constructor.
  - destruct (f a) as [b|e] eqn:Ea; cbn [bind] in H; [|discriminate].
    destruct (mapM f r) as [bs|e] eqn:Er; cbn [bind] in H; [|discriminate].
    inversion H; subst. constructor; auto.
Qed.

Lemma conv_all : forall dt s db l l', Forall2 (fun a b => conv_leaf dt a = Ok b) l l' ->
  forallb (wfv PW db s) l = true ->
  length l' = length l /\ forallb (fits dt) l' = true /\ forallb (wfv PW db s) l' = true.
Proof.
  intros dt s db l l' H. induction H as [|a b l l' Hab _ IH]; intros W; cbn [forallb length] in *; auto.
  apply andb_true_iff in W. destruct W as [Wa Wl]. destruct (IH Wl) as (L & F & W').
  apply conv_leaf_ok in Hab. destruct Hab as [Fb Hb]. rewrite L, Fb, F, W'.
  assert (wfv PW db s b = true) as -> by (destruct Hb as [->|Hb]; auto using leafval_wf). auto.
Qed.

Definition np_go := fix go (l : list pyval) : res (list (list nat * list pyval)) :=
  match l with
  | [] => Ok []
  | a :: r => s <- np_flat a ;; ss <- go r ;; Ok (s :: ss)
  end.

Lemma np_flat_PList : forall l, np_flat (PList l) =
  (subs <- np_go l ;;
   match subs with
   | [] => Ok ([0%nat], [])
   | (s0, _) :: _ => if all_eq_shape s0 subs then Ok (length subs :: s0, flat_map snd subs) else Raise ValueError
   end).
Proof. reflexivity. Qed.

Lemma np_go_cons : forall a r, np_go (a :: r) = (s <- np_flat a ;; ss <- np_go r ;; Ok (s :: ss)).
Proof. reflexivity. Qed.

Lemma np_flat_PArr : forall dt l, exists sh, np_flat (PArr dt l) = Ok (sh, l).
Proof. intros dt l. destruct l as [|e [|e2 r]]; eexists; reflexivity. Qed.

Lemma np_flat_wf : forall s db x sl, np_flat x = Ok sl -> wfv PW db s x = true -> forallb (wfv PW db s) (snd sl) = true.
Proof.
  intros s db x. induction x using pyval_nested_ind; intros sl E W.
  1-6, 8, 10: cbn [np_flat] in E; inversion E; subst; cbn [snd forallb]; rewrite W; reflexivity.
  - rewrite np_flat_PList in E. cbn [wfv] in W.
    assert (G : forall subs, np_go l = Ok subs -> forallb (wfv PW db s) (flat_map snd subs) = true).
    { clear E. induction H as [|a r Ha _ IH]; intros subs G.
      - inversion G. reflexivity.
      - rewrite np_go_cons in G. cbn [forallb] in W. apply andb_true_iff in W. destruct W as [Wa Wr].
        destruct (np_flat a) as [sa|] eqn:Ea; cbn [bind] in G; [|discriminate].
        destruct (np_go r) as [ss|] eqn:Er; cbn [bind] in G; [|discriminate].
        inversion G; subst. cbn [flat_map]. rewrite forallb_app, (Ha _ eq_refl Wa), (IH Wr _ eq_refl). reflexivity. }
    destruct (np_go l) as [subs|] eqn:Eg; cbn [bind] in E; [|discriminate].
    destruct subs as [|[s0 lv0] rest].
    + inversion E; reflexivity.
    + destruct (all_eq_shape s0 _); inversion E; subst. cbn [snd]. exact (G _ eq_refl).
  - destruct (np_flat_PArr dt l) as [sh E']. rewrite E' in E. inversion E; subst. cbn [snd]. cbn [wfv] in W.
    apply andb_true_iff in W. tauto.
Qed.

(* ---------------------------------------------------------------- the tagged traversal np.array uses, and the untagged one *)
Definition np_go_t := fix go (l : list pyval) : res (list (list nat * list (bool * pyval))) :=
  match l with
  | [] => Ok []
  | a :: r => s <- np_flat_t a ;; ss <- go r ;; Ok (s :: ss)
  end.

Lemma np_flat_t_PList : forall l, np_flat_t (PList l) =
  (subs <- np_go_t l ;;
   match subs with
   | [] => Ok ([0%nat], [])
   | (s0, _) :: _ =>
       if forallb (fun p => if list_eq_dec Nat.eq_dec s0 (fst p) then true else false) subs
       then Ok (length subs :: s0, flat_map snd subs) else Raise ValueError
   end).
Proof. reflexivity. Qed.

Lemma np_go_t_cons : forall a r, np_go_t (a :: r) = (s <- np_flat_t a ;; ss <- np_go_t r ;; Ok (s :: ss)).
Proof. reflexivity. Qed.

Definition untag (p : list nat * list (bool * pyval)) : list nat * list pyval := (fst p, map snd (snd p)).
Definition untag_res (r : res (list nat * list (bool * pyval))) : res (list nat * list pyval) :=
  match r with Ok p => Ok (untag p) | Raise e => Raise e end.

Lemma all_eq_shape_untag : forall s0 subs,
  all_eq_shape s0 (map untag subs) = forallb (fun p => if list_eq_dec Nat.eq_dec s0 (fst p) then true else false) subs.
Proof.
  intros s0. induction subs as [|[s' tl] r IH]; [reflexivity|]. cbn [map untag all_eq_shape forallb fst]. rewrite IH. reflexivity.
Qed.

Lemma flat_map_untag : forall subs, flat_map snd (map untag subs) = map snd (flat_map snd subs).
Proof.
  induction subs as [|[s' tl] r IH]; [reflexivity|]. cbn [map untag flat_map snd fst]. rewrite IH, map_app. reflexivity.
Qed.

(* np_flat is np_flat_t with the tags forgotten (same shape, same leaves, same exception) *)
Lemma np_flat_untag : forall x, np_flat x = untag_res (np_flat_t x).
Proof.
  intros x. induction x using pyval_nested_ind; try reflexivity.
  - rewrite np_flat_PList, np_flat_t_PList.
    assert (G : np_go l = match np_go_t l with Ok subs => Ok (map untag subs) | Raise e => Raise e end).
    { induction H as [|a r Ha _ IH]; [reflexivity|]. rewrite np_go_cons, np_go_t_cons, Ha, IH.
      destruct (np_flat_t a) as [sa|]; cbn [untag_res bind]; [|reflexivity].
      destruct (np_go_t r) as [ss|]; cbn [bind]; reflexivity. }
    rewrite G. destruct (np_go_t l) as [subs|]; cbn [bind untag_res]; [|reflexivity].
    destruct subs as [|[s0 tl0] rest]; [reflexivity|].
    change (map untag ((s0, tl0) :: rest)) with ((s0, map snd tl0) :: map untag rest).
    cbv iota beta.
    change ((s0, map snd tl0) :: map untag rest) with (map untag ((s0, tl0) :: rest)).
    rewrite all_eq_shape_untag, flat_map_untag, map_length.
    destruct (forallb _ ((s0, tl0) :: rest)); reflexivity.
  - destruct l as [|e [|e2 r]]; try reflexivity.
    cbn [np_flat np_flat_t untag_res]. unfold untag. cbn [fst snd]. rewrite map_map. cbn [snd]. rewrite map_id. reflexivity.
Qed.

Lemma np_flat_t_flat : forall x sh tl, np_flat_t x = Ok (sh, tl) -> np_flat x = Ok (sh, map snd tl).
Proof. intros x sh tl H. rewrite np_flat_untag, H. reflexivity. Qed.

Lemma np_flat_t_of_flat : forall x sh l, np_flat x = Ok (sh, l) -> exists tl, np_flat_t x = Ok (sh, tl) /\ map snd tl = l.
Proof.
  intros x sh l H. rewrite np_flat_untag in H. destruct (np_flat_t x) as [[sh' tl]|]; [|discriminate].
  cbn [untag_res untag fst snd] in H. inversion H; subst. eauto.
Qed.

(* a list of Python values that are neither lists nor arrays: every leaf is converted by the checked conversion *)
Definition is_pyatom (x : pyval) : bool := match x with PList _ | PArr _ _ => false | _ => true end.

Lemma np_flat_t_atom : forall x, is_pyatom x = true -> np_flat_t x = Ok ([], [(false, x)]).
Proof. destruct x; cbn [is_pyatom]; intros; try discriminate; reflexivity. Qed.

Lemma np_flat_t_atoms : forall l, forallb is_pyatom l = true -> exists sh, np_flat_t (PList l) = Ok (sh, map (fun x => (false, x)) l).
Proof.
  intros l H. rewrite np_flat_t_PList.
  assert (G : np_go_t l = Ok (map (fun x => (@nil nat, [(false, x)])) l)).
  { induction l as [|a r IH]; [reflexivity|]. cbn [forallb] in H. apply andb_true_iff in H. destruct H as [Ha Hr].
    cbn [map]. rewrite np_go_t_cons, (np_flat_t_atom a Ha), (IH Hr). reflexivity. }
  rewrite G. cbn [bind]. destruct l as [|a r]; [eexists; reflexivity|].
  change (map (fun x => (@nil nat, [(false, x)])) (a :: r)) with ((@nil nat, [(false, a)]) :: map (fun x => (@nil nat, [(false, x)])) r).
  cbv iota beta.
  change ((@nil nat, [(false, a)]) :: map (fun x => (@nil nat, [(false, x)])) r) with (map (fun x => (@nil nat, [(false, x)])) (a :: r)).
  assert (A : forall l0 : list pyval, forallb (fun p : list nat * list (bool * pyval) => if list_eq_dec Nat.eq_dec (@nil nat) (fst p) then true else false)
                (map (fun x => (@nil nat, [(false, x)])) l0) = true).
  { induction l0 as [|x l0 IH0]; [reflexivity|]. cbn [map forallb fst]. rewrite IH0.
    destruct (list_eq_dec Nat.eq_dec (@nil nat) []) as [_|n]; [reflexivity|congruence]. }
  assert (B : forall l0 : list pyval, flat_map snd (map (fun x => (@nil nat, [(false, x)])) l0) = map (fun x => (false, x)) l0).
  { induction l0 as [|x l0 IH0]; [reflexivity|]. cbn [map flat_map snd app]. rewrite IH0. reflexivity. }
  rewrite A, B. eexists; reflexivity.
Qed.

Lemma np_array_pylist : forall dt l, forallb is_pyatom l = true -> np_array dt (PList l) = mapM (conv_leaf dt) l.
Proof.
  intros dt l H. cbn [np_array]. destruct (np_flat_t_atoms l H) as [sh ->]. cbn [bind snd].
  clear H. induction l as [|a r IH]; [reflexivity|]. cbn [map mapM conv_tagged fst snd]. rewrite IH. reflexivity.
Qed.

(* C cast of the elements of an ndarray of another dtype: lands in the storage range when the dtype has a sane width *)
Definition dt_wok (dt : dtype) : Prop := match dt with DU w => 0 <= w | DS w => 1 <= w | _ => True end.

Lemma wrap_u_range : forall w z, 0 <= w -> urange w (z mod 2 ^ w) = true.
Proof.
  intros w z Hw. unfold urange. assert (0 < 2 ^ w) by (apply Z.pow_pos_nonneg; lia).
  pose proof (Z.mod_pos_bound z (2 ^ w) H). lia.
Qed.

Lemma wrap_s_range : forall w z, 1 <= w -> srange w ((z + 2 ^ (w - 1)) mod 2 ^ w - 2 ^ (w - 1)) = true.
Proof.
  intros w z Hw. unfold srange. assert (P : 0 < 2 ^ (w - 1)) by (apply Z.pow_pos_nonneg; lia).
  assert (E : 2 ^ w = 2 * 2 ^ (w - 1)).
  { replace w with (Z.succ (w - 1)) at 1 by lia. apply Z.pow_succ_r. lia. }
  rewrite E. pose proof (Z.mod_pos_bound (z + 2 ^ (w - 1)) (2 * 2 ^ (w - 1))).
  generalize dependent (2 ^ (w - 1)). intros P0 HP _ Hm. lia.
Qed.

Lemma conv_elem_ok : forall dt x y, dt_wok dt -> conv_elem dt x = Ok y -> fits dt y = true /\ (y = x \/ is_leafval y = true).
Proof.
  intros dt x y Hd H.
  destruct dt, x; cbn [conv_elem] in H; try (apply conv_leaf_ok in H; exact H); cbn [dt_wok] in Hd.
  - inversion H; subst. cbn [fits wrap_int is_leafval]. split; [apply wrap_u_range; exact Hd|auto].
  - destruct (f_isfinite bits); [|apply conv_leaf_ok in H; exact H].
    inversion H; subst. cbn [fits wrap_int is_leafval]. split; [apply wrap_u_range; exact Hd|auto].
  - inversion H; subst. cbn [fits wrap_int is_leafval]. split; [apply wrap_s_range; exact Hd|auto].
  - destruct (f_isfinite bits); [|apply conv_leaf_ok in H; exact H].
    inversion H; subst. cbn [fits wrap_int is_leafval]. split; [apply wrap_s_range; exact Hd|auto].
Qed.

Lemma conv_elem_all : forall dt s db l l', dt_wok dt -> Forall2 (fun a b => conv_elem dt a = Ok b) l l' ->
  forallb (wfv PW db s) l = true ->
  length l' = length l /\ forallb (fits dt) l' = true /\ forallb (wfv PW db s) l' = true.
Proof.
  intros dt s db l l' Hd H. induction H as [|a b l l' Hab _ IH]; intros W; cbn [forallb length] in *; auto.
  apply andb_true_iff in W. destruct W as [Wa Wl]. destruct (IH Wl) as (L & F & W').
  apply conv_elem_ok in Hab; [|exact Hd]. destruct Hab as [Fb Hb]. rewrite L, Fb, F, W'.
  assert (wfv PW db s b = true) as -> by (destruct Hb as [->|Hb]; auto using leafval_wf). auto.
Qed.

Lemma conv_tagged_all : forall dt s db tl l', dt_wok dt -> Forall2 (fun a b => conv_tagged dt a = Ok b) tl l' ->
  forallb (wfv PW db s) (map snd tl) = true ->
  length l' = length tl /\ forallb (fits dt) l' = true /\ forallb (wfv PW db s) l' = true.
Proof.
  intros dt s db tl l' Hd H. induction H as [|a b l l' Hab _ IH]; intros W; cbn [map forallb length] in *; auto.
  apply andb_true_iff in W. destruct W as [Wa Wl]. destruct (IH Wl) as (L & F & W').
  assert (Hb : fits dt b = true /\ (b = snd a \/ is_leafval b = true)).
  { unfold conv_tagged in Hab. destruct (fst a); [apply conv_elem_ok in Hab; auto | apply conv_leaf_ok in Hab; auto]. }
  destruct Hb as [Fb Hb]. rewrite L, Fb, F, W'.
  assert (wfv PW db s b = true) as -> by (destruct Hb as [->|Hb]; auto using leafval_wf). auto.
Qed.

Lemma np_array_ok : forall dt s db y l, dt_wok dt -> wfv PW db s y = true -> np_array dt y = Ok l ->
  forallb (fits dt) l = true /\ forallb (wfv PW db s) l = true.
Proof.
  intros dt s db y l Hd W H.
  assert (Old : (sl <- np_flat_t y ;; mapM (conv_tagged dt) (snd sl)) = Ok l ->
                forallb (fits dt) l = true /\ forallb (wfv PW db s) l = true).
  { intros H'. destruct (np_flat_t y) as [[sh tl]|] eqn:N; cbn [bind snd] in H'; [|discriminate].
    apply mapM_Forall2 in H'. pose proof (np_flat_wf _ _ _ _ (np_flat_t_flat _ _ _ N) W) as Wl. cbn [snd] in Wl.
    destruct (conv_tagged_all _ _ _ _ _ Hd H' Wl) as (_ & F & W'). auto. }
  destruct y; try (apply Old; exact H).
  cbn [np_array] in H. apply mapM_Forall2 in H. cbn [wfv] in W. apply andb_true_iff in W. destruct W as [_ W].
  destruct (conv_elem_all _ _ _ _ _ Hd H W) as (_ & F & W'). auto.
Qed.

(* a signed array element wider than 64 bit has no storage dtype (pick_width is undefined, the model uses width 0) *)
Definition ftype_wok (f : ftype) : bool := match f with FArr _ _ _ (EPrim (KS w)) => w <=? 64 | _ => true end.

Lemma dtype_of_wok : forall fixed cap sl e, ftype_wok (FArr fixed cap sl e) = true -> dt_wok (dtype_of PW e).
Proof.
  intros fixed cap sl e H. destruct e as [[|w|w|w]|t]; cbn [dtype_of dt_wok]; auto.
  - destruct (pwd_cases w) as [[? E]|[[? E]|[[? E]|[[? E]|[? E]]]]]; rewrite E; lia.
  - cbn [ftype_wok] in H. destruct (pwd_cases w) as [[? E]|[[? E]|[[? E]|[[? E]|[? E]]]]]; rewrite E; lia.
Qed.

(* ================================================================ the setters at the generated template *)
Definition lenG (fixed : bool) (n cap : nat) : bool := if fixed then Nat.eqb n cap else Nat.leb n cap.
Definition chkG (q : bool) (e : etype) (l : list pyval) : res pyval :=
  if q || forallb (elem_in_dsdl_range e) l then Ok (PArr (dtype_of PW e) l) else Raise ValueError.
Definition slowG (q fixed : bool) (cap : nat) (e : etype) (y : pyval) : res pyval :=
  if int_src_ok TG e y then
    l <- np_array (dtype_of PW e) y ;;
    if lenG fixed (length l) cap then (if float_src_ok TG q e y then chkG q e l else Raise ValueError) else Raise ValueError
  else Raise ValueError.
Definition fast_bytesG (e : etype) : bool := match e with EPrim (KU w) => w <=? 8 | _ => false end.
Definition strconv (sl : bool) (x : pyval) : pyval :=
  if sl then match x with PStr s => PBytes (utf8_encode s) | _ => x end else x.
Definition assignG (q fixed : bool) (cap : nat) (e : etype) (x1 : pyval) : res pyval :=
  match x1 with
  | PBytes s => if fast_bytesG e && lenG fixed (length s) cap
                then chkG q e (map (fun c => PInt (Z.of_N (c mod 256))) s)
                else if t_text_guard TG then Raise ValueError else slowG q fixed cap e x1
  | PStr _ => if t_text_guard TG then Raise ValueError else slowG q fixed cap e x1
  | PArr dt' l => if dtype_eqb dt' (dtype_of PW e) && lenG fixed (length l) cap then chkG q e l else slowG q fixed cap e x1
  | _ => slowG q fixed cap e x1
  end.

(* these three equations are where the facts of tmpl_gen are computed *)
Lemma assign_array_gen : forall q fixed cap sl e x,
  assign_array TG PW q fixed cap sl e x = assignG q fixed cap e (strconv sl x).
Proof. intros. destruct fixed; reflexivity. Qed.

Lemma set_prim_gen : forall k x, set_prim TG k x =
  match k with
  | KBool => Ok (PBool (py_bool x))
  | KU _ | KS _ => z <- py_int x ;; if int_in_range k z then Ok (PInt z) else Raise ValueError
  | KF w => f <- py_float x ;;
            if w <? 64 then if f_in_range w f || negb (f_isfinite f) then Ok (PFloat f) else Raise ValueError
            else Ok (PFloat f)
  end.
Proof. intros. destruct k; reflexivity. Qed.

Lemma set_comp_gen : forall tid x, set_comp TG tid x =
  match x with PObj tid' _ => if Nat.eqb tid' tid then Ok x else Raise ValueError | _ => Raise ValueError end.
Proof. reflexivity. Qed.

Lemma set_slot_gen : forall q c slots i x, set_slot TG PW q c slots i x =
  match nth_error (c_fields c) i with
  | None => (slots, Some AttributeError)
  | Some f => match field_value TG PW q f x with
              | Ok v => ((if c_union c then clear_others i (update_nth i v slots) else update_nth i v slots), None)
              | Raise e => (slots, Some e)
              end
  end.
Proof.
  intros. unfold set_slot. destruct (nth_error (c_fields c) i); [|reflexivity].
  destruct (c_union c); reflexivity.
Qed.

(* ================================================================ 2. soundness of a setter's validation *)
Definition sideF (strict q : bool) (f : ftype) : Prop :=
  (strict = false \/ q = false \/ ftype_std PW f = true) /\ ftype_wok f = true.

Lemma fits_elem_ok_false : forall e v, fits (dtype_of PW e) v = elem_ok PW false e v.
Proof. intros e v. destruct e as [[|w|w|w]|t]; destruct v; reflexivity. Qed.

Lemma elem_ok_true : forall e v, fits (dtype_of PW e) v = true -> elem_in_dsdl_range e v = true -> elem_ok PW true e v = true.
Proof.
  intros e v. destruct e as [[|w|w|w]|t]; destruct v; cbn [dtype_of fits elem_in_dsdl_range elem_ok]; intros; try discriminate; auto.
Qed.

Lemma elem_ok_std : forall fixed cap sl e v, ftype_std PW (FArr fixed cap sl e) = true -> elem_ok PW true e v = elem_ok PW false e v.
Proof.
  intros fixed cap sl e v. destruct e as [[|w|w|w]|t]; destruct v; cbn [ftype_std elem_ok]; intros H; try reflexivity;
    apply Z.eqb_eq in H; rewrite H; reflexivity.
Qed.

Lemma chkG_ok : forall strict q db fixed cap sl e l v,
  sideF strict q (FArr fixed cap sl e) ->
  lenG fixed (length l) cap = true -> forallb (fits (dtype_of PW e)) l = true -> forallb (wfv PW db strict) l = true ->
  chkG q e l = Ok v ->
  field_ok PW strict (FArr fixed cap sl e) v = true /\ wfv PW db strict v = true /\ is_none v = false.
Proof.
  intros strict q db fixed cap sl e l v S L F W H. unfold chkG in H.
  destruct (q || forallb (elem_in_dsdl_range e) l) eqn:C; [|discriminate]. inversion H; subst v; clear H.
  split; [|split; [|reflexivity]].
  - cbn [field_ok]. rewrite dtype_eqb_refl. unfold lenG in L. rewrite L. cbn [andb].
    apply forallb_forall. intros y Hy. rewrite forallb_forall in F. specialize (F y Hy).
    destruct S as [[S|[S|S]] _].
    + subst strict. rewrite <- fits_elem_ok_false. exact F.
    + subst q. cbn [orb] in C. rewrite forallb_forall in C.
      destruct strict; [apply elem_ok_true; auto | rewrite <- fits_elem_ok_false; exact F].
    + destruct strict; [rewrite (elem_ok_std _ _ _ _ _ S)|]; rewrite <- fits_elem_ok_false; exact F.
  - cbn [wfv]. rewrite F, W. reflexivity.
Qed.

Lemma slowG_ok : forall strict q db fixed cap sl e y v,
  sideF strict q (FArr fixed cap sl e) -> wfv PW db strict y = true -> slowG q fixed cap e y = Ok v ->
  field_ok PW strict (FArr fixed cap sl e) v = true /\ wfv PW db strict v = true /\ is_none v = false.
Proof.
  intros strict q db fixed cap sl e y v S W H. unfold slowG in H.
  destruct (int_src_ok TG e y); [|discriminate].
  destruct (np_array (dtype_of PW e) y) as [l|] eqn:M; cbn [bind] in H; [|discriminate].
  destruct (lenG fixed (length l) cap) eqn:L; [|discriminate].
  destruct (float_src_ok TG q e y); [|discriminate].
  destruct (np_array_ok _ _ _ _ _ (dtype_of_wok _ _ _ _ (proj2 S)) W M) as (F & W').
  exact (chkG_ok _ _ _ _ _ _ _ _ _ S L F W' H).
Qed.

Lemma byte_fits : forall w s, w <= 8 -> forallb (fits (DU (pwd PW w))) (map (fun c => PInt (Z.of_N (c mod 256))) s) = true.
Proof.
  intros w s Hw. destruct (pwd_cases w) as [[_ E]|[[H _]|[[H _]|[[H _]|[H _]]]]]; try lia. rewrite E.
  apply forallb_forall. intros y Hy. apply in_map_iff in Hy. destruct Hy as (c & <- & _).
  cbn [fits]. unfold urange. change (2 ^ 8 - 1) with 255.
  assert (Hc : 0 <= Z.of_N (c mod 256) < 256).
  { split; [apply N2Z.is_nonneg|]. change 256 with (Z.of_N 256). apply N2Z.inj_lt. apply N.mod_lt. discriminate. }
  generalize dependent (Z.of_N (c mod 256)). intros; lia.
Qed.

Lemma assign_array_ok : forall strict q db fixed cap sl e x v,
  sideF strict q (FArr fixed cap sl e) -> wfv PW db strict x = true -> assign_array TG PW q fixed cap sl e x = Ok v ->
  field_ok PW strict (FArr fixed cap sl e) v = true /\ wfv PW db strict v = true /\ is_none v = false.
Proof.
  intros strict q db fixed cap sl e x v S W H. rewrite assign_array_gen in H.
  assert (W1 : wfv PW db strict (strconv sl x) = true).
  { unfold strconv. destruct sl; auto. destruct x; auto. }
  destruct (strconv sl x) as [| | | | |s| | |dt' l|] eqn:X; cbn [assignG] in H; try (eapply slowG_ok; eauto; fail);
    try (destruct (t_text_guard TG); [discriminate|]; eapply slowG_ok; eauto; fail).
  - destruct (fast_bytesG e && lenG fixed (length s) cap) eqn:C;
      [|destruct (t_text_guard TG); [discriminate|]; eapply slowG_ok; eauto].
    apply andb_true_iff in C. destruct C as [Cb Cl].
    destruct e as [[|w|w|w]|t]; cbn [fast_bytesG] in Cb; try discriminate.
    eapply chkG_ok; [exact S| | | |exact H].
    + rewrite map_length. exact Cl.
    + cbn [dtype_of]. apply byte_fits. lia.
    + apply forallb_forall. intros y Hy. apply in_map_iff in Hy. destruct Hy as (c & <- & _). reflexivity.
  - destruct (dtype_eqb dt' (dtype_of PW e) && lenG fixed (length l) cap) eqn:C; [|eapply slowG_ok; eauto].
    apply andb_true_iff in C. destruct C as [Cd Cl]. apply dtype_eqb_eq in Cd. subst dt'.
    cbn [wfv] in W1. apply andb_true_iff in W1. destruct W1 as [F Wl].
    exact (chkG_ok _ _ _ _ _ _ _ _ _ S Cl F Wl H).
Qed.

Lemma field_value_sound : forall strict q db f x v,
  sideF strict q f -> wfv PW db strict x = true -> field_value TG PW q f x = Ok v ->
  field_ok PW strict f v = true /\ wfv PW db strict v = true /\ is_none v = false.
Proof.
  intros strict q db f x v S W H. destruct f as [[k|t]|fixed cap sl e]; cbn [field_value] in H.
  - rewrite set_prim_gen in H. destruct k as [|w|w|w].
    + inversion H; subst. auto.
    + destruct (py_int x) as [z|]; cbn [bind] in H; [|discriminate].
      destruct (int_in_range (KU w) z) eqn:R; inversion H; subst. cbn [field_ok prim_ok int_in_range] in *. auto.
    + destruct (py_int x) as [z|]; cbn [bind] in H; [|discriminate].
      destruct (int_in_range (KS w) z) eqn:R; inversion H; subst. cbn [field_ok prim_ok int_in_range] in *. auto.
    + destruct (py_float x) as [b|]; cbn [bind] in H; [|discriminate]. cbn [field_ok prim_ok].
      destruct (w <? 64) eqn:L; [|inversion H; subst; auto].
      destruct (f_in_range w b || negb (f_isfinite b)) eqn:R; inversion H; subst. auto.
  - rewrite set_comp_gen in H. destruct x; try discriminate.
    destruct (Nat.eqb tid t) eqn:E; inversion H; subst. cbn [field_ok is_none]. auto.
  - eapply assign_array_ok; eauto.
Qed.

Theorem field_value_ok : forall q db f x v, ftype_wok f = true -> wf false db x -> field_value TG PW q f x = Ok v ->
  field_ok PW false f v = true /\ wf false db v /\ is_none v = false.
Proof. intros q db f x v Hw W H. eapply field_value_sound; eauto. split; [left; reflexivity|exact Hw]. Qed.

Theorem field_value_ok_strict : forall q db f x v, q = false \/ ftype_std PW f = true -> ftype_wok f = true ->
  wf true db x -> field_value TG PW q f x = Ok v ->
  field_ok PW true f v = true /\ wf true db v /\ is_none v = false.
Proof. intros q db f x v S Hw W H. eapply field_value_sound; eauto. split; [right; exact S|exact Hw]. Qed.

(* the premise ftype_wok is needed since the C cast was modelled: an ndarray of another dtype assigned to an array of int65
   is cast to the width-0 dtype of the model, whose zero does not fit *)
Theorem field_value_needs_wok : forall q,
  field_value TG PW q (FArr false 2 false (EPrim (KS 65))) (PArr (DU 8) [PInt 5]) = Ok (PArr (DS 0) [PInt 0]) /\
  field_ok PW false (FArr false 2 false (EPrim (KS 65))) (PArr (DS 0) [PInt 0]) = false.
Proof.
  intros q. split; [|vm_compute; reflexivity]. cbn [field_value]. rewrite assign_array_gen.
  cbn [strconv assignG dtype_of]. unfold slowG, int_src_ok. rewrite orb_true_r by idtac.
  destruct q; vm_compute; reflexivity.
Qed.

Lemma chkG_not_none : forall q e l v, chkG q e l = Ok v -> is_none v = false.
Proof. intros q e l v. unfold chkG. destruct (q || forallb (elem_in_dsdl_range e) l); intros H; inversion H; reflexivity. Qed.

Lemma slowG_not_none : forall q fixed cap e y v, slowG q fixed cap e y = Ok v -> is_none v = false.
Proof.
  intros q fixed cap e y v. unfold slowG. destruct (int_src_ok TG e y); [|discriminate].
  destruct (np_array (dtype_of PW e) y) as [l|]; cbn [bind]; [|discriminate].
  destruct (lenG fixed (length l) cap); [|discriminate].
  destruct (float_src_ok TG q e y); [apply chkG_not_none|discriminate].
Qed.

Lemma field_value_not_none : forall q f x v, field_value TG PW q f x = Ok v -> is_none v = false.
Proof.
  intros q f x v H. destruct f as [[k|t]|fixed cap sl e]; cbn [field_value] in H.
  - rewrite set_prim_gen in H. destruct k as [|w|w|w].
    + inversion H; reflexivity.
    + destruct (py_int x) as [z|]; cbn [bind] in H; [|discriminate].
      destruct (int_in_range (KU w) z); inversion H; reflexivity.
    + destruct (py_int x) as [z|]; cbn [bind] in H; [|discriminate].
      destruct (int_in_range (KS w) z); inversion H; reflexivity.
    + destruct (py_float x) as [b|]; cbn [bind] in H; [|discriminate].
      destruct (w <? 64); [|inversion H; reflexivity].
      destruct (f_in_range w b || negb (f_isfinite b)); inversion H; reflexivity.
  - rewrite set_comp_gen in H. destruct x; try discriminate.
    destruct (Nat.eqb tid t); inversion H; reflexivity.
  - rewrite assign_array_gen in H.
    destruct (strconv sl x) as [| | | | |s| | |dt' l|]; cbn [assignG] in H; try (eapply slowG_not_none; eauto; fail);
      try (destruct (t_text_guard TG); [discriminate|]; eapply slowG_not_none; eauto; fail).
    + destruct (fast_bytesG e && lenG fixed (length s) cap); [eapply chkG_not_none; eauto|].
      destruct (t_text_guard TG); [discriminate|]. eapply slowG_not_none; eauto.
    + destruct (dtype_eqb dt' (dtype_of PW e) && lenG fixed (length l) cap); [eapply chkG_not_none|eapply slowG_not_none]; eauto.
Qed.

(* ================================================================ 3. the property setter keeps the object contract *)
Definition fok (strict u : bool) (f : ftype) (s : pyval) : bool := (u && is_none s) || field_ok PW strict f s.

Lemma fields_ok_nth : forall strict u fs sl, fields_ok PW strict u fs sl = true <->
  (length fs = length sl /\
   forall j f s, nth_error fs j = Some f -> nth_error sl j = Some s -> fok strict u f s = true).
Proof.
  intros strict u. induction fs as [|f fs IH]; intros [|s sl]; cbn [fields_ok length].
  - split; [intros _; split; [reflexivity|] | reflexivity]. intros [|j] ? ? H; discriminate.
  - split; [discriminate | intros [H _]; discriminate].
  - split; [discriminate | intros [H _]; discriminate].
  - rewrite andb_true_iff, IH. split.
    + intros (H0 & L & Hn). split; [congruence|]. intros [|j] f' s' Ef Es; cbn [nth_error] in *.
      * inversion Ef; inversion Es; subst. exact H0.
      * eauto.
    + intros (L & Hn). split; [apply (Hn 0%nat); reflexivity|]. split; [congruence|].
      intros j f' s' Ef Es. apply (Hn (S j)); auto.
Qed.

Lemma fields_ok_length : forall strict u fs sl, fields_ok PW strict u fs sl = true -> length sl = length fs.
Proof. intros strict u fs sl H. apply fields_ok_nth in H. symmetry; tauto. Qed.

Lemma set_slot_cases : forall q c slots i x s' r, set_slot TG PW q c slots i x = (s', r) ->
  (s' = slots /\ exists e, r = Some e) \/
  (r = None /\ exists f v, nth_error (c_fields c) i = Some f /\ field_value TG PW q f x = Ok v /\
     s' = if c_union c then clear_others i (update_nth i v slots) else update_nth i v slots).
Proof.
  intros q c slots i x s' r H. rewrite set_slot_gen in H. destruct (nth_error (c_fields c) i) as [f|] eqn:E.
  - destruct (field_value TG PW q f x) as [v|e] eqn:V; inversion H; subst.
    + right. split; auto. exists f, v. auto.
    + left; eauto.
  - inversion H; subst. left; eauto.
Qed.

Lemma union_after_set : forall strict c slots i f v,
  c_union c = true -> length slots = length (c_fields c) -> nth_error (c_fields c) i = Some f ->
  field_ok PW strict f v = true -> is_none v = false ->
  obj_ok PW strict c (clear_others i (update_nth i v slots)) = true /\
  count_active (clear_others i (update_nth i v slots)) = 1%nat /\
  nth_error (clear_others i (update_nth i v slots)) i = Some v.
Proof.
  intros strict c slots i f v U L Ef Fo Nv.
  assert (Hi : (i < length slots)%nat) by (rewrite L; apply nth_error_Some; congruence).
  assert (Ei : nth_error (update_nth i v slots) i = Some v) by (apply nth_error_update_nth_eq; exact Hi).
  assert (C : count_active (clear_others i (update_nth i v slots)) = 1%nat) by (eapply count_active_clear_others; eauto).
  split; [|split; [exact C | rewrite nth_error_clear_others_eq; exact Ei]].
  unfold obj_ok. rewrite U, C. rewrite andb_true_r.
  apply fields_ok_nth. split.
  - rewrite length_clear_others, length_update_nth. congruence.
  - intros j f' s Ef' Es. unfold fok. destruct (Nat.eq_dec i j) as [<-|Hne].
    + rewrite nth_error_clear_others_eq, Ei in Es. inversion Es; subst. rewrite Ef in Ef'. inversion Ef'; subst.
      rewrite Fo. apply orb_true_r.
    + apply nth_error_clear_others_neq in Es; [|exact Hne]. subst s. reflexivity.
Qed.

Lemma struct_after_set : forall strict u fs slots i f v,
  fields_ok PW strict u fs slots = true -> nth_error fs i = Some f -> field_ok PW strict f v = true ->
  fields_ok PW strict u fs (update_nth i v slots) = true.
Proof.
  intros strict u fs slots i f v H Ef Fo. apply fields_ok_nth in H. destruct H as [L Hn].
  apply fields_ok_nth. split; [rewrite length_update_nth; exact L|].
  intros j f' s Ef' Es. destruct (Nat.eq_dec i j) as [<-|Hne].
  - rewrite nth_error_update_nth_eq in Es by (rewrite <- L; apply nth_error_Some; congruence).
    inversion Es; subst. rewrite Ef in Ef'. inversion Ef'; subst. unfold fok. rewrite Fo. apply orb_true_r.
  - rewrite nth_error_update_nth_neq in Es by exact Hne. eauto.
Qed.

Lemma wf_after_set : forall db strict (u : bool) slots i v,
  forallb (wfv PW db strict) slots = true -> wfv PW db strict v = true ->
  forallb (wfv PW db strict) (if u then clear_others i (update_nth i v slots) else update_nth i v slots) = true.
Proof.
  intros. destruct u; [apply forallb_clear_others; [reflexivity|]|]; apply forallb_update_nth; auto.
Qed.

Definition sideC (strict q : bool) (c : comp) : Prop :=
  (strict = false \/ q = false \/ forallb (ftype_std PW) (c_fields c) = true) /\ forallb ftype_wok (c_fields c) = true.

Lemma sideC_F : forall strict q c i f, sideC strict q c -> nth_error (c_fields c) i = Some f -> sideF strict q f.
Proof.
  intros strict q c i f [S Sw] E. split.
  - destruct S as [S|[S|S]]; [left; exact S | right; left; exact S | right; right].
    rewrite forallb_forall in S. apply S. eapply nth_error_In; eauto.
  - rewrite forallb_forall in Sw. apply Sw. eapply nth_error_In; eauto.
Qed.

(* a successful set, with what is needed to re-establish the invariants *)
Lemma set_slot_success : forall strict q db c slots i x s',
  sideC strict q c -> wfv PW db strict x = true -> set_slot TG PW q c slots i x = (s', None) ->
  exists f v, nth_error (c_fields c) i = Some f /\ field_ok PW strict f v = true /\ wfv PW db strict v = true /\
              is_none v = false /\
              s' = if c_union c then clear_others i (update_nth i v slots) else update_nth i v slots.
Proof.
  intros strict q db c slots i x s' S W H. apply set_slot_cases in H.
  destruct H as [[_ [e He]]|[_ (f & v & Ef & V & ->)]]; [discriminate|].
  destruct (field_value_sound strict q db f x v (sideC_F _ _ _ _ _ S Ef) W V) as (Fo & Wv & Nv).
  exists f, v. auto.
Qed.

Theorem set_slot_ok : forall q db c slots i x s' r (strict : bool),
  (strict = false \/ q = false \/ forallb (ftype_std PW) (c_fields c) = true) -> forallb ftype_wok (c_fields c) = true ->
  obj_ok PW strict c slots = true -> forallb (wfv PW db strict) slots = true -> wfv PW db strict x = true ->
  set_slot TG PW q c slots i x = (s', r) ->
  obj_ok PW strict c s' = true /\ forallb (wfv PW db strict) s' = true.
Proof.
  intros q db c slots i x s' r strict S0 Sw O Ws Wx H. assert (S : sideC strict q c) by (split; assumption).
  destruct r as [e|].
  - apply set_slot_cases in H. destruct H as [[-> _]|[H _]]; [auto|discriminate].
  - destruct (set_slot_success strict q db c slots i x s' S Wx H) as (f & v & Ef & Fo & Wv & Nv & ->).
    split; [|apply wf_after_set; auto].
    unfold obj_ok in O. apply andb_true_iff in O. destruct O as [Of Oc].
    destruct (c_union c) eqn:U.
    + eapply union_after_set; eauto. eapply fields_ok_length; eauto.
    + unfold obj_ok. rewrite U, andb_true_r. eapply struct_after_set; eauto.
Qed.

Theorem set_slot_reject_unchanged : forall q c slots i x s' e, set_slot TG PW q c slots i x = (s', Some e) -> s' = slots.
Proof. intros q c slots i x s' e H. apply set_slot_cases in H. destruct H as [[-> _]|[H _]]; [reflexivity|discriminate]. Qed.

Theorem union_single_option : forall q c slots i x s',
  c_union c = true -> length slots = length (c_fields c) -> set_slot TG PW q c slots i x = (s', None) ->
  count_active s' = 1%nat /\
  (exists v, nth_error s' i = Some v /\ is_none v = false) /\
  (forall j s, j <> i -> nth_error s' j = Some s -> s = PNone).
Proof.
  intros q c slots i x s' U L H. apply set_slot_cases in H.
  destruct H as [[_ [e He]]|[_ (f & v & Ef & V & ->)]]; [discriminate|]. rewrite U.
  pose proof (field_value_not_none _ _ _ _ V) as Nv.
  assert (Hi : (i < length slots)%nat) by (rewrite L; apply nth_error_Some; congruence).
  assert (Ei : nth_error (update_nth i v slots) i = Some v) by (apply nth_error_update_nth_eq; exact Hi).
  split; [eapply count_active_clear_others; eauto|]. split.
  - exists v. rewrite nth_error_clear_others_eq. auto.
  - intros j s Hj Es. eapply nth_error_clear_others_neq; [|exact Es]. congruence.
Qed.

(* ================================================================ 4. constructors and default instances *)
(* Two facts about the type data base that pydsdl guarantees and the statements below need (see the refutations
   construct_needs_union_option / construct_needs_signed_width at the end of this section):
   a union has at least one option, and a signed array element is not wider than 64 bit
   (pick_width is undefined above 64; the model then uses dtype width 0, and the zero of np.zeros does not fit int0). *)
Definition comp_wok (c : comp) : bool :=
  (negb (c_union c) || negb (Nat.eqb (length (c_fields c)) 0)) && forallb ftype_wok (c_fields c).
Definition db_wok (db : tdb) : bool := forallb comp_wok db.

Definition side (strict q : bool) (db : tdb) : Prop := strict = false \/ q = false \/ db_std_elems PW db = true.

Lemma db_wok_C : forall db tid c, db_wok db = true -> nth_error db tid = Some c -> comp_wok c = true.
Proof. intros db tid c H E. unfold db_wok in H. rewrite forallb_forall in H. apply H. eapply nth_error_In; eauto. Qed.

Lemma side_C : forall strict q db tid c, side strict q db -> db_wok db = true -> nth_error db tid = Some c -> sideC strict q c.
Proof.
  intros strict q db tid c S Wdb E. split.
  - destruct S as [S|[S|S]]; [left; exact S | right; left; exact S | right; right].
    unfold db_std_elems in S. rewrite forallb_forall in S. apply S. eapply nth_error_In; eauto.
  - pose proof (db_wok_C _ _ _ Wdb E) as WC. unfold comp_wok in WC. apply andb_true_iff in WC. tauto.
Qed.

Lemma forallb_repeat {A} (p : A -> bool) : forall a n, p a = true -> forallb p (repeat a n) = true.
Proof. induction n; intros; cbn [repeat forallb]; auto. rewrite H; auto. Qed.

Lemma nth_wf : forall db strict l i, forallb (wfv PW db strict) l = true -> wfv PW db strict (nth i l PNone) = true.
Proof.
  intros db strict l i H. destruct (nth_in_or_default i l PNone) as [Hin|E]; [|rewrite E; reflexivity].
  rewrite forallb_forall in H; auto.
Qed.

Lemma default_elem_wf : forall db strict defs e, forallb (wfv PW db strict) defs = true -> wfv PW db strict (default_elem defs e) = true.
Proof. intros db strict defs e H. destruct e as [[|w|w|w]|t]; cbn [default_elem wfv]; auto. apply nth_wf; auto. Qed.

Lemma default_elem_fits : forall defs e, match e with EPrim (KS w) => w <= 64 | _ => True end ->
  fits (dtype_of PW e) (default_elem defs e) = true.
Proof.
  intros defs e H. destruct e as [[|w|w|w]|t]; cbn [dtype_of default_elem fits]; auto.
  - destruct (pwd_cases w) as [[_ E]|[[_ E]|[[_ E]|[[_ E]|[_ E]]]]]; rewrite E; reflexivity.
  - destruct (pwd_cases w) as [[_ E]|[[_ E]|[[_ E]|[[_ E]|[H' _]]]]]; [| | | |lia]; rewrite E; reflexivity.
Qed.

Lemma default_arg_wf : forall db strict defs f, ftype_wok f = true -> forallb (wfv PW db strict) defs = true ->
  wfv PW db strict (default_arg PW defs f) = true.
Proof.
  intros db strict defs f Hf Hd. destruct f as [e|fixed cap sl e]; cbn [default_arg].
  - apply default_elem_wf; auto.
  - destruct fixed; [|reflexivity]. cbn [wfv]. rewrite !forallb_repeat; auto.
    + apply default_elem_wf; auto.
    + apply default_elem_fits. destruct e as [[|w|w|w]|t]; auto. cbn [ftype_wok] in Hf. lia.
Qed.

Definition kwarg (kw : list pyval) (i : nat) (d : pyval) : pyval := match nth i kw PNone with PNone => d | v => v end.

Lemma kwarg_wf : forall db strict kw i d, forallb (wfv PW db strict) kw = true -> wfv PW db strict d = true ->
  wfv PW db strict (kwarg kw i d) = true.
Proof.
  intros db strict kw i d Hk Hd. unfold kwarg. pose proof (nth_wf db strict kw i Hk) as Hn.
  destruct (nth i kw PNone); auto.
Qed.

Lemma ctor_struct_cons : forall q defs c f fs' i kw slots,
  ctor_struct TG PW q defs c (f :: fs') i kw slots =
  match set_slot TG PW q c slots i (kwarg kw i (default_arg PW defs f)) with
  | (s', None) => ctor_struct TG PW q defs c fs' (S i) kw s'
  | (_, Some e) => Raise e
  end.
Proof. reflexivity. Qed.

Definition part_ok (strict : bool) (fs : list ftype) (slots : list pyval) (i : nat) : Prop :=
  length slots = length fs /\
  forall j f s, (j < i)%nat -> nth_error fs j = Some f -> nth_error slots j = Some s -> field_ok PW strict f s = true.

Lemma ctor_struct_ok : forall strict q db defs c,
  sideC strict q c -> c_union c = false -> forallb (wfv PW db strict) defs = true ->
  forall fs i kw slots out,
  forallb (wfv PW db strict) kw = true -> forallb ftype_wok fs = true -> (i + length fs = length (c_fields c))%nat ->
  part_ok strict (c_fields c) slots i -> forallb (wfv PW db strict) slots = true ->
  ctor_struct TG PW q defs c fs i kw slots = Ok out ->
  obj_ok PW strict c out = true /\ forallb (wfv PW db strict) out = true.
Proof.
  intros strict q db defs c S U Wd. induction fs as [|f fs IH]; intros i kw slots out Wk Hw Hi [L P] Ws H.
  - cbn [ctor_struct] in H. inversion H; subst out. split; [|exact Ws].
    unfold obj_ok. rewrite U, andb_true_r. apply fields_ok_nth. split; [congruence|].
    intros j f s Ef Es. unfold fok. cbn [andb orb]. eapply P; eauto.
    cbn [length] in Hi. rewrite Nat.add_0_r in Hi. rewrite Hi. apply nth_error_Some. congruence.
  - rewrite ctor_struct_cons in H. cbn [forallb] in Hw. apply andb_true_iff in Hw. destruct Hw as [Hwf Hws].
    destruct (set_slot TG PW q c slots i (kwarg kw i (default_arg PW defs f))) as [s' [e|]] eqn:SS; [discriminate|].
    apply (set_slot_success strict q db) in SS; auto; [|apply kwarg_wf; auto; apply default_arg_wf; auto].
    destruct SS as (f' & v & Ef & Fo & Wv & Nv & ->). rewrite U in H.
    apply (IH _ _ _ _ Wk Hws) in H; [exact H | cbn [length] in Hi; clear - Hi; lia | | ].
    + split; [rewrite length_update_nth; exact L|].
      intros j f0 s Hj Ef0 Es. destruct (Nat.eq_dec i j) as [<-|Hne].
      * rewrite nth_error_update_nth_eq in Es by (rewrite L; apply nth_error_Some; congruence).
        inversion Es; subst. congruence.
      * rewrite nth_error_update_nth_neq in Es by exact Hne. eapply P; eauto. clear - Hj Hne; lia.
    + apply forallb_update_nth; auto.
Qed.

Lemma ctor_union_cons : forall q c f fs' i kw slots cnt,
  ctor_union_args TG PW q c (f :: fs') i kw slots cnt =
  if is_none (nth i kw PNone) then ctor_union_args TG PW q c fs' (S i) kw slots cnt
  else match set_slot TG PW q c slots i (nth i kw PNone) with
       | (s', None) => ctor_union_args TG PW q c fs' (S i) kw s' (S cnt)
       | (_, Some e) => Raise e
       end.
Proof. intros. cbn [ctor_union_args]. destruct (nth i kw PNone); reflexivity. Qed.

Lemma set_slot_union_ok : forall strict q db c slots i x s',
  sideC strict q c -> c_union c = true -> length slots = length (c_fields c) ->
  forallb (wfv PW db strict) slots = true -> wfv PW db strict x = true ->
  set_slot TG PW q c slots i x = (s', None) ->
  obj_ok PW strict c s' = true /\ forallb (wfv PW db strict) s' = true /\ length s' = length slots.
Proof.
  intros strict q db c slots i x s' S U L Ws Wx H.
  destruct (set_slot_success strict q db c slots i x s' S Wx H) as (f & v & Ef & Fo & Wv & Nv & ->).
  split; [|split; [apply wf_after_set; auto|]].
  - rewrite U. eapply union_after_set; eauto.
  - rewrite U, length_clear_others, length_update_nth. reflexivity.
Qed.

Lemma ctor_union_ok : forall strict q db c, sideC strict q c -> c_union c = true ->
  forall fs i kw slots cnt out cnt',
  forallb (wfv PW db strict) kw = true -> length slots = length (c_fields c) ->
  forallb (wfv PW db strict) slots = true -> (cnt <> 0%nat -> obj_ok PW strict c slots = true) ->
  ctor_union_args TG PW q c fs i kw slots cnt = Ok (out, cnt') ->
  length out = length (c_fields c) /\ forallb (wfv PW db strict) out = true /\
  (cnt' <> 0%nat -> obj_ok PW strict c out = true).
Proof.
  intros strict q db c S U. induction fs as [|f fs IH]; intros i kw slots cnt out cnt' Wk L Ws O H.
  - cbn [ctor_union_args] in H. inversion H; subst. auto.
  - rewrite ctor_union_cons in H. destruct (is_none (nth i kw PNone)) eqn:N.
    + exact (IH _ _ _ _ _ _ Wk L Ws O H).
    + destruct (set_slot TG PW q c slots i (nth i kw PNone)) as [s' [e|]] eqn:SS; [discriminate|].
      apply (set_slot_union_ok strict q db) in SS; auto using nth_wf. destruct SS as (O' & W' & L').
      apply (IH _ _ _ _ _ _ Wk) in H; [exact H | congruence | exact W' | intros _; exact O'].
Qed.

Lemma construct_with_ok : forall strict q db, side strict q db -> db_wok db = true ->
  forall defs tid kw o, forallb (wfv PW db strict) defs = true -> forallb (wfv PW db strict) kw = true ->
  construct_with TG PW q db defs tid kw = Ok o ->
  wfv PW db strict o = true /\ exists sl, o = PObj tid sl.
Proof.
  intros strict q db S Wdb defs tid kw o Wd Wk H. unfold construct_with in H.
  destruct (nth_error db tid) as [c|] eqn:Ec; [|discriminate].
  pose proof (side_C _ _ _ _ _ S Wdb Ec) as SC. pose proof (db_wok_C _ _ _ Wdb Ec) as WC.
  unfold comp_wok in WC. apply andb_true_iff in WC. destruct WC as [WU WF].
  assert (Hblank : forallb (wfv PW db strict) (map (fun _ : ftype => PNone) (c_fields c)) = true)
    by (apply forallb_map_const; reflexivity).
  assert (Fin : forall sl, obj_ok PW strict c sl = true -> forallb (wfv PW db strict) sl = true ->
                           wfv PW db strict (PObj tid sl) = true /\ exists sl', PObj tid sl = PObj tid sl').
  { intros sl O W. split; [|eauto]. cbn [wfv]. rewrite Ec, O, W. reflexivity. }
  destruct (c_union c) eqn:U.
  - destruct (ctor_union_args TG PW q c (c_fields c) 0 kw (map (fun _ : ftype => PNone) (c_fields c)) 0)
      as [[slots cnt]|] eqn:CU; cbn [bind] in H; [|discriminate].
    apply (ctor_union_ok strict q db c SC U _ _ _ _ _ _ _ Wk (map_length _ _) Hblank) in CU; [|intros X; exfalso; apply X; reflexivity].
    destruct CU as (L & Ws & O).
    destruct cnt as [|[|n]].
    + destruct (c_fields c) as [|f0 fs] eqn:F; [discriminate|].
      destruct (set_slot TG PW q c slots 0 (default_arg PW defs f0)) as [s' [e|]] eqn:SS; [discriminate|].
      inversion H; subst o.
      apply (set_slot_union_ok strict q db) in SS; auto.
      * apply Fin; tauto.
      * congruence.
      * apply default_arg_wf; auto. cbn [forallb] in WF. apply andb_true_iff in WF. tauto.
    + inversion H; subst o. apply Fin; auto.
    + change (t_union_ctor_count TG) with true in H. discriminate.
  - destruct (ctor_struct TG PW q defs c (c_fields c) 0 kw (map (fun _ : ftype => PNone) (c_fields c)))
      as [slots|] eqn:CS; cbn [bind] in H; [|discriminate].
    inversion H; subst o.
    apply (ctor_struct_ok strict q db defs c SC U Wd) in CS; auto.
    + apply Fin; tauto.
    + split; [apply map_length|]. intros j f s Hj. lia.
Qed.

Lemma defaults_aux_ok : forall strict q db, side strict q db -> db_wok db = true ->
  forall n tid acc, forallb (wfv PW db strict) acc = true ->
  forallb (wfv PW db strict) (defaults_aux TG PW q db n tid acc) = true.
Proof.
  intros strict q db S Wdb. induction n as [|n IH]; intros tid acc Wa; cbn [defaults_aux]; [exact Wa|].
  apply IH. rewrite forallb_app, Wa. cbn [forallb andb]. rewrite andb_true_r.
  destruct (construct_with TG PW q db acc tid []) as [o|] eqn:E; [|reflexivity].
  eapply construct_with_ok in E; eauto. tauto.
Qed.

Theorem defaults_ok : forall q db (strict : bool),
  (strict = false \/ q = false \/ db_std_elems PW db = true) -> db_wok db = true ->
  forallb (wfv PW db strict) (defaults TG PW q db) = true.
Proof. intros q db strict S Wdb. unfold defaults. apply defaults_aux_ok; auto. Qed.

Lemma default_obj_ok : forall q db strict, side strict q db -> db_wok db = true ->
  forall t, wfv PW db strict (default_obj TG PW q db t) = true.
Proof. intros. unfold default_obj. apply nth_wf. apply defaults_ok; auto. Qed.

Theorem construct_ok : forall q db (strict : bool),
  (strict = false \/ q = false \/ db_std_elems PW db = true) -> db_wok db = true ->
  forall tid kw o, forallb (wfv PW db strict) kw = true -> construct TG PW q db tid kw = Ok o ->
  wfv PW db strict o = true.
Proof.
  intros q db strict S Wdb tid kw o Wk H. unfold construct in H.
  eapply construct_with_ok in H; eauto; [tauto|]. apply defaults_ok; auto.
Qed.

Lemma construct_tid : forall q db tid kw o, construct TG PW q db tid kw = Ok o -> exists sl, o = PObj tid sl.
Proof.
  intros q db tid kw o H. unfold construct, construct_with in H.
  destruct (nth_error db tid) as [c|]; [|discriminate].
  destruct (c_union c).
  - destruct (ctor_union_args _ _ _ _ _ _ _ _ _) as [[slots cnt]|]; cbn [bind] in H; [|discriminate].
    destruct cnt as [|[|n]].
    + destruct (c_fields c); [inversion H; eauto|].
      destruct (set_slot _ _ _ _ _ _ _) as [s' [e|]]; inversion H; eauto.
    + inversion H; eauto.
    + destruct (t_union_ctor_count TG); inversion H; eauto.
  - destruct (ctor_struct _ _ _ _ _ _ _ _ _) as [slots|]; cbn [bind] in H; inversion H; eauto.
Qed.

(* both extra hypotheses are needed *)
Theorem construct_needs_union_option : exists q db tid o,
  construct TG PW q db tid [] = Ok o /\ wfv PW db false o = false.
Proof. exists true, [{| c_union := true; c_fields := [] |}], 0%nat. eexists. split; vm_compute; reflexivity. Qed.

Theorem construct_needs_signed_width : exists q db tid o,
  construct TG PW q db tid [] = Ok o /\ wfv PW db false o = false.
Proof.
  exists true, [{| c_union := false; c_fields := [FArr true 1 false (EPrim (KS 65))] |}], 0%nat. eexists.
  split; vm_compute; reflexivity.
Qed.

(* ================================================================ 8. exactness of the scalar and length checks *)
Theorem int_setter_exact : forall k z, (exists w, k = KU w \/ k = KS w) ->
  set_prim TG k (PInt z) = if int_in_range k z then Ok (PInt z) else Raise ValueError.
Proof. intros k z [w [->| ->]]; rewrite set_prim_gen; reflexivity. Qed.

Theorem float_setter_exact : forall w x, w < 64 ->
  set_prim TG (KF w) (PFloat x) = if f_in_range w x || negb (f_isfinite x) then Ok (PFloat x) else Raise ValueError.
Proof. intros w x H. rewrite set_prim_gen. cbn [py_float bind]. destruct (w <? 64) eqn:E; [reflexivity|lia]. Qed.

Theorem float_setter_wide : forall w x, 64 <= w -> set_prim TG (KF w) (PFloat x) = Ok (PFloat x).
Proof. intros w x H. rewrite set_prim_gen. cbn [py_float bind]. destruct (w <? 64) eqn:E; [lia|reflexivity]. Qed.

Lemma np_go_ints : forall zs, np_go (map PInt zs) = Ok (map (fun z => (@nil nat, [PInt z])) zs).
Proof. induction zs as [|z r IH]; [reflexivity|]. cbn [map]. rewrite np_go_cons, IH. reflexivity. Qed.

Lemma all_eq_shape_ints : forall zs, all_eq_shape [] (map (fun z => (@nil nat, [PInt z])) zs) = true.
Proof.
  induction zs as [|z r IH]; [reflexivity|]. cbn [map all_eq_shape]. rewrite IH.
  destruct (list_eq_dec Nat.eq_dec (@nil nat) []) as [_|n]; [reflexivity|congruence].
Qed.

Lemma flat_map_ints : forall zs, flat_map snd (map (fun z => (@nil nat, [PInt z])) zs) = map PInt zs.
Proof. induction zs as [|z r IH]; [reflexivity|]. cbn [map flat_map snd app]. rewrite IH. reflexivity. Qed.

Lemma np_flat_ints : forall zs, exists sh, np_flat (PList (map PInt zs)) = Ok (sh, map PInt zs).
Proof.
  intros zs. rewrite np_flat_PList, np_go_ints. cbn [bind]. destruct zs as [|z r].
  - eexists; reflexivity.
  - change (map (fun z0 => (@nil nat, [PInt z0])) (z :: r)) with ((@nil nat, [PInt z]) :: map (fun z0 => (@nil nat, [PInt z0])) r).
    cbv iota beta.
    change ((@nil nat, [PInt z]) :: map (fun z0 => (@nil nat, [PInt z0])) r) with (map (fun z0 => (@nil nat, [PInt z0])) (z :: r)).
    rewrite all_eq_shape_ints, flat_map_ints. eexists; reflexivity.
Qed.

Lemma urange_pwd : forall w z, 1 <= w <= 64 -> urange w z = true -> urange (pwd PW w) z = true.
Proof.
  intros w z Hw H. unfold urange in *.
  assert (2 ^ w <= 2 ^ pwd PW w).
  { apply Z.pow_le_mono_r; [lia|]. destruct (pwd_cases w) as [[? E]|[[? E]|[[? E]|[[? E]|[? E]]]]]; lia. }
  lia.
Qed.

Lemma mapM_conv_ints : forall W zs, Forall (fun z => urange W z = true) zs ->
  mapM (conv_leaf (DU W)) (map PInt zs) = Ok (map PInt zs).
Proof.
  intros W zs H. induction H as [|z r Hz _ IH]; [reflexivity|].
  cbn [map mapM conv_leaf py_int bind]. rewrite Hz, IH. reflexivity.
Qed.

(* the float check of the conformant variant only concerns float16/float32 element types *)
Lemma float_src_ok_other : forall q e y, match e with EPrim (KF w) => 64 <= w | _ => True end ->
  float_src_ok TG q e y = true.
Proof.
  intros q e y He. unfold float_src_ok. destruct q; [reflexivity|]. cbn [orb].
  destruct (np_flat y) as [sl|]; [|reflexivity]. apply forallb_forall. intros x _.
  destruct e as [[|w|w|w]|t]; cbn [float_leaf_ok]; try reflexivity.
  change (t_float_check_below TG) with 64. destruct (w <? 64) eqn:E; [lia|reflexivity].
Qed.

(* with the pre-check (whatever the generated flag is): Python ints within the field range pass it *)
Lemma int_src_ok_ints : forall w zs, Forall (fun z => urange w z = true) zs ->
  int_src_ok TG (EPrim (KU w)) (PList (map PInt zs)) = true.
Proof.
  intros w zs H. unfold int_src_ok. destruct (t_arr_precheck TG); [|reflexivity]. cbn [negb orb].
  assert (A : forall p : etype -> pyval -> bool, (forall z, urange w z = true -> p (EPrim (KU w)) (PInt z) = true) ->
              forallb (p (EPrim (KU w))) (map PInt zs) = true).
  { intros p Hp. apply forallb_forall. intros y Hy. apply in_map_iff in Hy. destruct Hy as (z & <- & Hin).
    rewrite Forall_forall in H. auto. }
  destruct (np_flat_ints zs) as [sh E]. destruct (t_src_exact TG); rewrite E; cbn [snd].
  - apply A. intros z Hz. exact Hz.
  - apply orb_true_iff. right. apply A. intros z Hz. exact Hz.
Qed.

Lemma int_src_ok_other : forall e y, match e with EPrim (KU _) | EPrim (KS _) => False | _ => True end ->
  int_src_ok TG e y = true.
Proof.
  intros e y He. unfold int_src_ok. destruct (t_arr_precheck TG); [|reflexivity]. cbn [negb orb].
  assert (A : forall l, forallb (int_leaf_ok e) l = true).
  { intros l. apply forallb_forall. intros x _. destruct e as [[|w|w|w]|t]; try contradiction; reflexivity. }
  assert (B : forall l, forallb (int_leaf_exact e) l = true).
  { intros l. apply forallb_forall. intros x _. destruct e as [[|w|w|w]|t]; try contradiction; reflexivity. }
  destruct (t_src_exact TG).
  - destruct (np_flat y) as [sl|]; [apply B|reflexivity].
  - destruct y; try (destruct (np_flat _) as [sl|]; [|reflexivity]); rewrite ?A, ?orb_true_r; reflexivity.
Qed.

Lemma pyatom_ints : forall zs, forallb is_pyatom (map PInt zs) = true.
Proof. induction zs as [|z r IH]; [reflexivity|]. cbn [map forallb is_pyatom]. exact IH. Qed.

Theorem array_length_exact : forall q fixed cap sl w zs, 1 <= w <= 64 -> Forall (fun z => urange w z = true) zs ->
  assign_array TG PW q fixed cap sl (EPrim (KU w)) (PList (map PInt zs)) =
  if (if fixed then Nat.eqb (length zs) cap else Nat.leb (length zs) cap)
  then Ok (PArr (DU (pwd PW w)) (map PInt zs)) else Raise ValueError.
Proof.
  intros q fixed cap sl w zs Hw Hz. rewrite assign_array_gen.
  replace (strconv sl (PList (map PInt zs))) with (PList (map PInt zs)) by (destruct sl; reflexivity).
  cbn [assignG]. unfold slowG. rewrite (int_src_ok_ints w zs Hz). rewrite np_array_pylist by apply pyatom_ints. cbn [dtype_of].
  rewrite mapM_conv_ints by (eapply Forall_impl; [|exact Hz]; intros; apply urange_pwd; auto).
  cbn [bind]. rewrite map_length. unfold lenG.
  destruct (if fixed then Nat.eqb (length zs) cap else Nat.leb (length zs) cap); [|reflexivity].
  rewrite float_src_ok_other by exact I.
  unfold chkG.
  assert (forallb (elem_in_dsdl_range (EPrim (KU w))) (map PInt zs) = true) as ->.
  { apply forallb_forall. intros y Hy. apply in_map_iff in Hy. destruct Hy as (z & <- & Hin).
    cbn [elem_in_dsdl_range]. rewrite Forall_forall in Hz. auto. }
  rewrite orb_true_r. reflexivity.
Qed.

(* ================================================================ 7b. the range of array elements is not enforced *)
Theorem array_elem_range_refuted : exists db tid ops, wfv PW db true (run TG PW true db tid ops) = false.
Proof.
  exists [{| c_union := false; c_fields := [FArr false 3 false (EPrim (KU 4))] |}], 0%nat,
         [OSet 0 (XNd (DU 8) [XVal (PInt 200); XVal (PInt 3)])].   (* a uint8 ndarray: bound without conversion *)
  vm_compute. reflexivity.
Qed.

Theorem array_elem_bytes_refuted : exists db tid ops, wfv PW db true (run TG PW true db tid ops) = false.
Proof.
  exists [{| c_union := false; c_fields := [FArr false 3 false (EPrim (KU 4))] |}], 0%nat,
         [OSet 0 (XVal (PBytes [255%N; 1%N]))].
  vm_compute. reflexivity.
Qed.

(* 1e6 = 0x412E848000000000 assigned to a float16 array element is stored as +inf = 0x7FF0000000000000 without an
   exception, while the scalar setter of a float16 field rejects it *)
Theorem float_array_elem_unchecked :
  assign_array TG PW true false 2 false (EPrim (KF 16)) (PList [PFloat 4696837146684686336])
  = Ok (PArr (DF 16) [PFloat 9218868437227405312]).
Proof. vm_compute. reflexivity. Qed.

(* the conformant variant applies the scalar rule to every element: 1e6 is rejected, 65504.0 and +inf pass *)
Theorem float_array_elem_checked_noquirk :
  assign_array TG PW false false 2 false (EPrim (KF 16)) (PList [PFloat 4696837146684686336]) = Raise ValueError.
Proof. vm_compute. reflexivity. Qed.

Theorem float_array_elem_boundary_noquirk :
  assign_array TG PW false false 2 false (EPrim (KF 16)) (PList [PFloat 4679235614791434240; PFloat 9218868437227405312])
  = Ok (PArr (DF 16) [PFloat 4679235614791434240; PFloat 9218868437227405312]).
Proof. vm_compute. reflexivity. Qed.

Theorem float_scalar_checked : set_prim TG (KF 16) (PFloat 4696837146684686336) = Raise ValueError.
Proof. vm_compute. reflexivity. Qed.

Theorem float_consts_ok : 4696837146684686336%N = 0x412E848000000000%N /\ 9218868437227405312%N = 0x7FF0000000000000%N.
Proof. split; vm_compute; reflexivity. Qed.

Theorem reject_means_unchanged : forall q db tid o i e o' ex,
  step TG PW q db tid o (OSet i e) = (o', Some ex) -> o' = o.
Proof.
  intros q db tid o i e o' ex H. cbn [step] in H.
  destruct (eval TG PW q db e) as [x|ex']; [|inversion H; reflexivity].
  destruct o as [| | | | | | | | |t slots]; try (inversion H; reflexivity).
  destruct (nth_error db tid) as [c|]; [|inversion H; reflexivity].
  destruct (set_slot TG PW q c slots i x) as [s' r] eqn:SS. inversion H; subst.
  apply set_slot_reject_unchanged in SS. subst. reflexivity.
Qed.

(* ================================================================ 5. evaluation of value expressions *)
Section vexpr_nested_ind.
  Variable P : vexpr -> Prop.
  Hypothesis HVal : forall v, P (XVal v).
  Hypothesis HList : forall l, Forall P l -> P (XList l).
  Hypothesis HDict : forall l, Forall (fun p => P (snd p)) l -> P (XDict l).
  Hypothesis HNd : forall dt l, Forall P l -> P (XNd dt l).
  Hypothesis HNew : forall t l, Forall P l -> P (XNew t l).
  Fixpoint vexpr_nested_ind (e : vexpr) : P e :=
    match e with
    | XVal v => HVal v
    | XList l => HList l ((fix go (l : list vexpr) : Forall P l :=
                             match l with [] => Forall_nil P | x :: r => Forall_cons x (vexpr_nested_ind x) (go r) end) l)
    | XDict l => HDict l ((fix go (l : list (nat * vexpr)) : Forall (fun p => P (snd p)) l :=
                             match l with
                             | [] => Forall_nil _
                             | x :: r => Forall_cons (P := fun p => P (snd p)) x (vexpr_nested_ind (snd x)) (go r)
                             end) l)
    | XNd dt l => HNd dt l ((fix go (l : list vexpr) : Forall P l :=
                             match l with [] => Forall_nil P | x :: r => Forall_cons x (vexpr_nested_ind x) (go r) end) l)
    | XNew t l => HNew t l ((fix go (l : list vexpr) : Forall P l :=
                             match l with [] => Forall_nil P | x :: r => Forall_cons x (vexpr_nested_ind x) (go r) end) l)
    end.
End vexpr_nested_ind.

Lemma no_obj_wf : forall db strict v, no_obj v = true -> wfv PW db strict v = true.
Proof.
  intros db strict v. induction v using pyval_nested_ind; cbn [no_obj wfv]; intros N; try reflexivity; try discriminate.
  - induction H as [|a r Ha _ IH]; [reflexivity|]. cbn [forallb] in *. apply andb_true_iff in N. destruct N as [Na Nr].
    rewrite (Ha Na), (IH Nr). reflexivity.
  - induction H as [|a r Ha _ IH]; [reflexivity|]. cbn [forallb] in *. apply andb_true_iff in N. destruct N as [Na Nr].
    rewrite (Ha Na), (IH Nr). reflexivity.
Qed.

Definition ev_list (q : bool) (db : tdb) := fix go (l : list vexpr) : res (list pyval) :=
  match l with [] => Ok [] | a :: r => v <- eval TG PW q db a ;; vs <- go r ;; Ok (v :: vs) end.
Definition ev_dict (q : bool) (db : tdb) := fix go (l : list (nat * vexpr)) : res (list (nat * pyval)) :=
  match l with [] => Ok [] | (k, a) :: r => v <- eval TG PW q db a ;; vs <- go r ;; Ok ((k, v) :: vs) end.

Lemma eval_XList : forall q db l, eval TG PW q db (XList l) = (vs <- ev_list q db l ;; Ok (PList vs)).
Proof. reflexivity. Qed.
Lemma eval_XDict : forall q db l, eval TG PW q db (XDict l) = (vs <- ev_dict q db l ;; Ok (PDict vs)).
Proof. reflexivity. Qed.
Lemma eval_XNd : forall q db dt l, eval TG PW q db (XNd dt l) =
  (vs <- ev_list q db l ;; es <- mapM (conv_leaf dt) vs ;; Ok (PArr dt es)).
Proof. reflexivity. Qed.
Lemma eval_XNew : forall q db tid kw, eval TG PW q db (XNew tid kw) = (vs <- ev_list q db kw ;; construct TG PW q db tid vs).
Proof. reflexivity. Qed.
Lemma ev_list_cons : forall q db a r, ev_list q db (a :: r) = (v <- eval TG PW q db a ;; vs <- ev_list q db r ;; Ok (v :: vs)).
Proof. reflexivity. Qed.
Lemma ev_dict_cons : forall q db k a r, ev_dict q db ((k, a) :: r) = (v <- eval TG PW q db a ;; vs <- ev_dict q db r ;; Ok ((k, v) :: vs)).
Proof. reflexivity. Qed.

Lemma ev_list_ok : forall q db strict l,
  Forall (fun a => forall v, eval TG PW q db a = Ok v -> wfv PW db strict v = true) l ->
  forall vs, ev_list q db l = Ok vs -> forallb (wfv PW db strict) vs = true.
Proof.
  intros q db strict l H. induction H as [|a r Ha _ IH]; intros vs E.
  - inversion E; reflexivity.
  - rewrite ev_list_cons in E. destruct (eval TG PW q db a) as [v|] eqn:Ea; cbn [bind] in E; [|discriminate].
    destruct (ev_list q db r) as [vs'|] eqn:Er; cbn [bind] in E; [|discriminate].
    inversion E; subst. cbn [forallb]. rewrite (Ha _ eq_refl), (IH _ eq_refl). reflexivity.
Qed.

Theorem eval_ok : forall q db (strict : bool),
  (strict = false \/ q = false \/ db_std_elems PW db = true) -> db_wok db = true ->
  forall e v, eval TG PW q db e = Ok v -> wfv PW db strict v = true.
Proof.
  intros q db strict Sd Wdb e. induction e using vexpr_nested_ind; intros out E.
  - cbn [eval] in E. destruct (no_obj v) eqn:N; inversion E; subst. apply no_obj_wf; exact N.
  - rewrite eval_XList in E. destruct (ev_list q db l) as [vs|] eqn:El; cbn [bind] in E; inversion E; subst.
    cbn [wfv]. eapply ev_list_ok; eauto.
  - rewrite eval_XDict in E. destruct (ev_dict q db l) as [vs|] eqn:El; cbn [bind] in E; inversion E; subst.
    cbn [wfv]. clear E. revert vs El. induction H as [|[k a] r Ha _ IH]; intros vs El.
    + inversion El; reflexivity.
    + rewrite ev_dict_cons in El. cbn [snd] in Ha.
      destruct (eval TG PW q db a) as [v|] eqn:Ea; cbn [bind] in El; [|discriminate].
      destruct (ev_dict q db r) as [vs'|] eqn:Er; cbn [bind] in El; [|discriminate].
      inversion El; subst. cbn [forallb snd]. rewrite (Ha _ eq_refl), (IH _ eq_refl). reflexivity.
  - rewrite eval_XNd in E. destruct (ev_list q db l) as [vs|] eqn:El; cbn [bind] in E; [|discriminate].
    destruct (mapM (conv_leaf dt) vs) as [es|] eqn:M; cbn [bind] in E; inversion E; subst.
    apply mapM_Forall2 in M. eapply conv_all in M; [|eapply ev_list_ok; eauto].
    destruct M as (_ & F & W). cbn [wfv]. rewrite F, W. reflexivity.
  - rewrite eval_XNew in E. destruct (ev_list q db l) as [vs|] eqn:El; cbn [bind] in E; [|discriminate].
    eapply construct_ok; eauto. eapply ev_list_ok; eauto.
Qed.

(* ================================================================ 6. update_from_builtin *)
Definition Rok (strict : bool) (db : tdb) (rec : pyval -> pyval -> pyval * option exc) : Prop :=
  forall o src, wfv PW db strict o = true -> wfv PW db strict src = true ->
    wfv PW db strict (fst (rec o src)) = true /\
    (forall t sl, o = PObj t sl -> exists sl', fst (rec o src) = PObj t sl').

Lemma ufb_elems_ok : forall strict q db rec t,
  Rok strict db rec -> wfv PW db strict (default_obj TG PW q db t) = true ->
  forall l os, forallb (wfv PW db strict) l = true -> ufb_elems TG PW q db rec t l = Ok os ->
  forallb (wfv PW db strict) os = true.
Proof.
  intros strict q db rec t R Wd. induction l as [|s r IH]; intros os Wl E; cbn [ufb_elems] in E.
  - inversion E; reflexivity.
  - cbn [forallb] in Wl. apply andb_true_iff in Wl. destruct Wl as [Ws Wr].
    destruct (R _ _ Wd Ws) as [Wo _].
    destruct (rec (default_obj TG PW q db t) s) as [o [e|]]; [discriminate|].
    destruct (ufb_elems TG PW q db rec t r) as [os'|] eqn:Er; cbn [bind] in E; [|discriminate].
    inversion E; subst. cbn [forallb fst] in *. rewrite Wo, (IH _ Wr eq_refl). reflexivity.
Qed.

Definition ufb_step (q : bool) (db : tdb) (rec : pyval -> pyval -> pyval * option exc) (c : comp) (f : ftype) (i : nat)
  (value : pyval) (slots : list pyval) : list pyval * option exc :=
  match f with
  | FScalar (EComp t) =>
      let cur := nth i slots PNone in
      let '(s1, cur1, r1) :=
          if is_none cur then
            let d := default_obj TG PW q db t in
            let '(s1, r1) := set_slot TG PW q c slots i d in (s1, d, r1)
          else (slots, cur, None) in
      match r1 with
      | Some e => (s1, Some e)
      | None => let '(o', r) := rec cur1 value in (update_nth i o' s1, r)
      end
  | FArr _ _ _ (EComp t) =>
      match value with
      | PList l =>
          match ufb_elems TG PW q db rec t l with
          | Ok os => set_slot TG PW q c slots i (PList os)
          | Raise e => (slots, Some e)
          end
      | _ => (slots, Some TypeError)
      end
  | _ => set_slot TG PW q c slots i value
  end.

Lemma ufb_loop_cons : forall q db rec c f fs' i kv slots,
  ufb_loop TG PW q db rec c (f :: fs') i kv slots =
  match lookup i kv with
  | None => ufb_loop TG PW q db rec c fs' (S i) kv slots
  | Some value =>
      match ufb_step q db rec c f i value slots with
      | (s', None) => ufb_loop TG PW q db rec c fs' (S i) kv s'
      | (s', Some e) => (s', Some e)
      end
  end.
Proof. reflexivity. Qed.

Lemma obj_ok_update : forall strict c slots i f v0 v,
  obj_ok PW strict c slots = true -> nth_error (c_fields c) i = Some f -> nth_error slots i = Some v0 ->
  is_none v0 = false -> is_none v = false -> field_ok PW strict f v = true ->
  obj_ok PW strict c (update_nth i v slots) = true.
Proof.
  intros strict c slots i f v0 v O Ef Es N0 Nv Fo. unfold obj_ok in *. apply andb_true_iff in O. destruct O as [Hf Hc].
  rewrite (struct_after_set _ _ _ _ _ _ _ Hf Ef Fo). cbn [andb].
  rewrite (count_active_update_nth _ _ v0 v Es) by congruence. exact Hc.
Qed.

Lemma after_set_nth : forall (u : bool) slots i v, (i < length slots)%nat ->
  nth_error (if u then clear_others i (update_nth i v slots) else update_nth i v slots) i = Some v.
Proof.
  intros u slots i v Hi. destruct u; [rewrite nth_error_clear_others_eq|]; apply nth_error_update_nth_eq; exact Hi.
Qed.

Lemma set_comp_ok : forall q t x v, field_value TG PW q (FScalar (EComp t)) x = Ok v -> v = x /\ exists sl, x = PObj t sl.
Proof.
  intros q t x v H. cbn [field_value] in H. rewrite set_comp_gen in H. destruct x; try discriminate.
  destruct (Nat.eqb tid t) eqn:E; inversion H; subst. apply Nat.eqb_eq in E. subst. eauto.
Qed.

Lemma lookup_wf : forall db strict kv i v, forallb (fun p => wfv PW db strict (snd p)) kv = true ->
  lookup i kv = Some v -> wfv PW db strict v = true.
Proof.
  intros db strict. induction kv as [|[k a] r IH]; intros i v W E; cbn [lookup] in E; [discriminate|].
  cbn [forallb snd] in W. apply andb_true_iff in W. destruct W as [Wa Wr].
  destruct (Nat.eqb i k); [inversion E; subst; exact Wa | eauto].
Qed.

Lemma enum_from_wf : forall db strict l i, forallb (wfv PW db strict) l = true ->
  forallb (fun p => wfv PW db strict (snd p)) (enum_from i l) = true.
Proof.
  intros db strict. induction l as [|a r IH]; intros i W; cbn [enum_from forallb snd] in *; [reflexivity|].
  apply andb_true_iff in W. destruct W as [Wa Wr]. rewrite Wa, (IH _ Wr). reflexivity.
Qed.

Lemma ufb_step_ok : forall strict q db rec c f i value slots s' r,
  Rok strict db rec -> (forall t, wfv PW db strict (default_obj TG PW q db t) = true) -> sideC strict q c ->
  nth_error (c_fields c) i = Some f -> wfv PW db strict value = true ->
  obj_ok PW strict c slots = true -> forallb (wfv PW db strict) slots = true ->
  ufb_step q db rec c f i value slots = (s', r) ->
  obj_ok PW strict c s' = true /\ forallb (wfv PW db strict) s' = true.
Proof.
  intros strict q db rec c f i value slots s' r R Wd SC Ef Wv O Ws H.
  assert (L : length slots = length (c_fields c)).
  { unfold obj_ok in O. apply andb_true_iff in O. destruct O as [O _]. eapply fields_ok_length; eauto. }
  assert (Hi : (i < length slots)%nat) by (rewrite L; apply nth_error_Some; congruence).
  assert (Generic : forall x, wfv PW db strict x = true -> set_slot TG PW q c slots i x = (s', r) ->
                              obj_ok PW strict c s' = true /\ forallb (wfv PW db strict) s' = true).
  { intros x Wx SS. exact (set_slot_ok q db c slots i x s' r strict (proj1 SC) (proj2 SC) O Ws Wx SS). }
  destruct f as [[k|t]|fixed cap sl [k|t]]; cbn [ufb_step] in H; try (eapply Generic; eauto; fail).
  - (* a composite-typed field: the nested instance is updated in place *)
    destruct (is_none (nth i slots PNone)) eqn:N.
    + destruct (set_slot TG PW q c slots i (default_obj TG PW q db t)) as [s1 r1] eqn:SS.
      cbv beta iota zeta in H.
      destruct (set_slot_ok q db c slots i _ s1 r1 strict (proj1 SC) (proj2 SC) O Ws (Wd t) SS) as [O1 W1].
      destruct r1 as [e|]; [inversion H; subst; auto|].
      pose proof SS as SS'. apply set_slot_cases in SS'.
      destruct SS' as [[_ [e He]]|[_ (f' & v & Ef' & V & E1)]]; [discriminate|].
      rewrite Ef in Ef'. inversion Ef'; subst f'. apply set_comp_ok in V. destruct V as [-> [sl0 Ed]].
      destruct (R _ value (Wd t) Wv) as [Wo Ht]. destruct (Ht _ _ Ed) as [sl' Eo].
      destruct (rec (default_obj TG PW q db t) value) as [o' r'] eqn:Rr. cbn [fst] in *. subst o'.
      inversion H; subst s' r. split; [|apply forallb_update_nth; auto].
      eapply obj_ok_update; [exact O1 | exact Ef | rewrite E1; apply after_set_nth; exact Hi | | | ].
      * rewrite Ed; reflexivity.
      * reflexivity.
      * cbn [field_ok]. apply Nat.eqb_refl.
    + cbv beta iota zeta in H.
      assert (Es : nth_error slots i = Some (nth i slots PNone)) by (apply nth_error_nth'; exact Hi).
      assert (Wc : wfv PW db strict (nth i slots PNone) = true) by (apply nth_wf; exact Ws).
      assert (exists sl0, nth i slots PNone = PObj t sl0) as [sl0 Ed].
      { unfold obj_ok in O. apply andb_true_iff in O. destruct O as [Hf _]. apply fields_ok_nth in Hf.
        destruct Hf as [_ Hf]. specialize (Hf _ _ _ Ef Es). unfold fok in Hf. rewrite N, andb_false_r in Hf.
        cbn [orb field_ok] in Hf. destruct (nth i slots PNone); try discriminate.
        apply Nat.eqb_eq in Hf. subst. eauto. }
      destruct (R _ value Wc Wv) as [Wo Ht]. destruct (Ht _ _ Ed) as [sl' Eo].
      destruct (rec (nth i slots PNone) value) as [o' r'] eqn:Rr. cbn [fst] in *. subst o'.
      inversion H; subst s' r. split; [|apply forallb_update_nth; auto].
      eapply obj_ok_update; [exact O | exact Ef | exact Es | exact N | reflexivity | ].
      cbn [field_ok]. apply Nat.eqb_refl.
  - (* array of composites *)
    destruct value as [| | | | | |l| | |]; try (inversion H; subst; auto; fail).
    destruct (ufb_elems TG PW q db rec t l) as [os|e] eqn:Eo; [|inversion H; subst; auto].
    eapply (Generic (PList os)); [|exact H]. cbn [wfv] in *. exact (ufb_elems_ok strict q db rec t R (Wd t) l os Wv Eo).
Qed.

Lemma ufb_loop_ok : forall strict q db rec c,
  Rok strict db rec -> (forall t, wfv PW db strict (default_obj TG PW q db t) = true) -> sideC strict q c ->
  forall fs i kv slots, (forall j, nth_error fs j = nth_error (c_fields c) (i + j)) ->
  forallb (fun p => wfv PW db strict (snd p)) kv = true ->
  obj_ok PW strict c slots = true -> forallb (wfv PW db strict) slots = true ->
  obj_ok PW strict c (fst (ufb_loop TG PW q db rec c fs i kv slots)) = true /\
  forallb (wfv PW db strict) (fst (ufb_loop TG PW q db rec c fs i kv slots)) = true.
Proof.
  intros strict q db rec c R Wd SC. induction fs as [|f fs IH]; intros i kv slots Hfs Wkv O Ws.
  - cbn [ufb_loop fst]. auto.
  - rewrite ufb_loop_cons.
    assert (Hfs' : forall j, nth_error fs j = nth_error (c_fields c) (Datatypes.S i + j)).
    { intros j. specialize (Hfs (Datatypes.S j)). cbn [nth_error] in Hfs. rewrite Hfs. f_equal. clear; lia. }
    assert (Ef : nth_error (c_fields c) i = Some f).
    { specialize (Hfs 0%nat). cbn [nth_error] in Hfs. rewrite Nat.add_0_r in Hfs. auto. }
    destruct (lookup i kv) as [value|] eqn:Lk; [|apply IH; auto].
    pose proof (lookup_wf _ _ _ _ _ Wkv Lk) as Wv.
    destruct (ufb_step q db rec c f i value slots) as [s' r] eqn:St.
    destruct (ufb_step_ok strict q db rec c f i value slots s' r R Wd SC Ef Wv O Ws St) as [O' W'].
    destruct r as [e|]; [cbn [fst]; auto | apply IH; auto].
Qed.

Definition ufb_kv_seq (c : comp) (sq : list pyval) : res (list (nat * pyval)) :=
  let fs := c_fields c in
  let too_many := Nat.ltb (if c_union c then 1%nat else length fs) (length sq) in
  let sq' := if is_propagating fs && too_many then [PList sq] else sq in
  if Nat.ltb (length fs) (length sq') then Raise TypeError else Ok (enum_from 0 sq').
Definition ufb_kv (c : comp) (src : pyval) : res (list (nat * pyval)) :=
  match src with PDict kv => Ok kv | PList l => ufb_kv_seq c l | _ => ufb_kv_seq c [src] end.

Lemma ufb_S : forall q db fuel tid slots src,
  ufb TG PW q db (S fuel) (PObj tid slots) src =
  match nth_error db tid with
  | None => (PObj tid slots, Some AttributeError)
  | Some c =>
      match ufb_kv c src with
      | Raise e => (PObj tid slots, Some e)
      | Ok kv =>
          match ufb_loop TG PW q db (ufb TG PW q db fuel) c (c_fields c) 0 kv slots with
          | (s', Some e) => (PObj tid s', Some e)
          | (s', None) =>
              if existsb (fun p => Nat.leb (length (c_fields c)) (fst p)) kv
              then (PObj tid s', Some ValueError) else (PObj tid s', None)
          end
      end
  end.
Proof. intros. destruct src; reflexivity. Qed.

Lemma ufb_kv_wf : forall db strict c src kv, wfv PW db strict src = true -> ufb_kv c src = Ok kv ->
  forallb (fun p => wfv PW db strict (snd p)) kv = true.
Proof.
  intros db strict c src kv W E.
  assert (Seq : forall sq, forallb (wfv PW db strict) sq = true -> ufb_kv_seq c sq = Ok kv ->
                           forallb (fun p => wfv PW db strict (snd p)) kv = true).
  { intros sq Wsq Es. unfold ufb_kv_seq in Es. cbv zeta in Es.
    set (sq' := if is_propagating (c_fields c) && _ then [PList sq] else sq) in Es.
    assert (W' : forallb (wfv PW db strict) sq' = true).
    { subst sq'. destruct (is_propagating (c_fields c) && _); [cbn [forallb wfv]; rewrite Wsq; reflexivity | exact Wsq]. }
    clearbody sq'. destruct (Nat.ltb (length (c_fields c)) (length sq')); [discriminate|].
    injection Es as <-. apply enum_from_wf; exact W'. }
  destruct src as [| | | | | |l0|l0| |]; cbn [ufb_kv] in E; try (apply (Seq _) in E; [exact E | cbn [forallb]; rewrite W; reflexivity]; fail).
  - apply (Seq l0); auto.
  - inversion E; subst. exact W.
Qed.

Lemma ufb_Rok : forall strict q db, side strict q db -> db_wok db = true -> forall fuel, Rok strict db (ufb TG PW q db fuel).
Proof.
  intros strict q db Sd Wdb. induction fuel as [|fuel IH]; intros o src Wo Wsrc.
  - cbn [ufb fst]. split; [exact Wo|]. intros t sl ->. eauto.
  - destruct o as [| | | | | | | | |tid slots]; try (cbn [ufb fst]; split; [exact Wo | intros t sl E; discriminate]).
    rewrite ufb_S. cbn [wfv] in Wo. destruct (nth_error db tid) as [c|] eqn:Ec; [|discriminate].
    apply andb_true_iff in Wo. destruct Wo as [O Ws].
    assert (Fin : forall s' r, obj_ok PW strict c s' = true -> forallb (wfv PW db strict) s' = true ->
              wfv PW db strict (fst (PObj tid s', r : option exc)) = true /\
              (forall t sl, PObj tid slots = PObj t sl -> exists sl', fst (PObj tid s', r) = PObj t sl')).
    { intros s' r O' W'. cbn [fst wfv]. rewrite Ec, O', W'. split; [reflexivity|]. intros t sl E. inversion E; subst. eauto. }
    destruct (ufb_kv c src) as [kv|e] eqn:Ek; [|apply Fin; auto].
    pose proof (ufb_kv_wf _ _ _ _ _ Wsrc Ek) as Wkv.
    destruct (ufb_loop_ok strict q db (ufb TG PW q db fuel) c IH (default_obj_ok q db strict Sd Wdb)
                (side_C _ _ _ _ _ Sd Wdb Ec) (c_fields c) 0 kv slots (fun j => eq_refl) Wkv O Ws) as [O' W'].
    destruct (ufb_loop TG PW q db (ufb TG PW q db fuel) c (c_fields c) 0 kv slots) as [s' [e|]]; cbn [fst] in O', W'.
    + apply Fin; auto.
    + destruct (existsb _ kv); apply Fin; auto.
Qed.

Theorem ufb_ok : forall q db (strict : bool),
  (strict = false \/ q = false \/ db_std_elems PW db = true) -> db_wok db = true ->
  forall fuel o src, wfv PW db strict o = true -> wfv PW db strict src = true ->
  wfv PW db strict (fst (ufb TG PW q db fuel o src)) = true.
Proof. intros q db strict Sd Wdb fuel o src Wo Ws. apply (ufb_Rok strict q db Sd Wdb fuel o src Wo Ws). Qed.

Theorem ufb_keeps_tid : forall q db fuel tid sl src, exists sl', fst (ufb TG PW q db fuel (PObj tid sl) src) = PObj tid sl'.
Proof.
  intros q db fuel tid sl src. destruct fuel as [|fuel]; [cbn [ufb fst]; eauto|].
  rewrite ufb_S. destruct (nth_error db tid) as [c|]; [|cbn [fst]; eauto].
  destruct (ufb_kv c src) as [kv|e]; [|cbn [fst]; eauto].
  destruct (ufb_loop _ _ _ _ _ _ _ _ _ _) as [s' [e|]]; [cbn [fst]; eauto|].
  destruct (existsb _ kv); cbn [fst]; eauto.
Qed.

(* ================================================================ 7. the contract holds along every run *)
Definition tid_ok (tid : nat) (o : pyval) : Prop := match o with PObj t _ => t = tid | _ => True end.

Lemma construct_with_tid : forall q db defs tid kw o, construct_with TG PW q db defs tid kw = Ok o -> exists sl, o = PObj tid sl.
Proof.
  intros q db defs tid kw o H. unfold construct_with in H.
  destruct (nth_error db tid) as [c|]; [|discriminate].
  destruct (c_union c).
  - destruct (ctor_union_args _ _ _ _ _ _ _ _ _) as [[slots cnt]|]; cbn [bind] in H; [|discriminate].
    destruct cnt as [|[|n]].
    + destruct (c_fields c); [inversion H; eauto|].
      destruct (set_slot _ _ _ _ _ _ _) as [s' [e|]]; inversion H; eauto.
    + inversion H; eauto.
    + destruct (t_union_ctor_count TG); inversion H; eauto.
  - destruct (ctor_struct _ _ _ _ _ _ _ _ _) as [slots|]; cbn [bind] in H; inversion H; eauto.
Qed.

Lemma defaults_aux_tid : forall q db n tid acc, length acc = tid -> (forall j, tid_ok j (nth j acc PNone)) ->
  forall j, tid_ok j (nth j (defaults_aux TG PW q db n tid acc) PNone).
Proof.
  intros q db. induction n as [|n IH]; intros tid acc L Ha j; cbn [defaults_aux]; [apply Ha|].
  apply IH.
  - rewrite app_length. cbn [length]. clear - L. lia.
  - intros k. destruct (Nat.lt_ge_cases k (length acc)) as [Hk|Hk].
    + rewrite app_nth1 by exact Hk. apply Ha.
    + rewrite app_nth2 by exact Hk. destruct (k - length acc)%nat as [|m] eqn:D.
      * cbn [nth]. assert (k = tid) by (clear - L Hk D; lia). subst k.
        destruct (construct_with TG PW q db acc tid []) as [o|] eqn:E; [|exact I].
        apply construct_with_tid in E. destruct E as [sl ->]. reflexivity.
      * cbn [nth]. destruct m; exact I.
Qed.

Lemma default_obj_tid : forall q db tid, tid_ok tid (default_obj TG PW q db tid).
Proof.
  intros q db tid. unfold default_obj, defaults. apply defaults_aux_tid; [reflexivity|].
  intros j. destruct j; exact I.
Qed.

Lemma step_ok : forall strict q db, side strict q db -> db_wok db = true ->
  forall tid o p, wfv PW db strict o = true -> tid_ok tid o ->
  wfv PW db strict (fst (step TG PW q db tid o p)) = true /\ tid_ok tid (fst (step TG PW q db tid o p)).
Proof.
  intros strict q db Sd Wdb tid o p Wo To. destruct p as [i e|fuel e|kw]; cbn [step].
  - destruct (eval TG PW q db e) as [x|] eqn:Ee; [|cbn [fst]; auto].
    pose proof (eval_ok q db strict Sd Wdb _ _ Ee) as Wx.
    destruct o as [| | | | | | | | |t slots]; try (cbn [fst]; auto; fail).
    destruct (nth_error db tid) as [c|] eqn:Ec; [|cbn [fst]; auto].
    destruct (set_slot TG PW q c slots i x) as [s' r] eqn:SS. cbn [fst].
    cbn [tid_ok] in To. subst t. cbn [wfv] in Wo. rewrite Ec in Wo. apply andb_true_iff in Wo. destruct Wo as [O Ws].
    destruct (side_C _ _ _ _ _ Sd Wdb Ec) as [Sc Sw]. destruct (set_slot_ok q db c slots i x s' r strict Sc Sw O Ws Wx SS) as [O' W'].
    split; [cbn [wfv]; rewrite Ec, O', W'; reflexivity | reflexivity].
  - destruct (eval TG PW q db e) as [x|] eqn:Ee; [|cbn [fst]; auto].
    pose proof (eval_ok q db strict Sd Wdb _ _ Ee) as Wx.
    split; [apply ufb_ok; auto|].
    destruct o as [| | | | | | | | |t slots]; try (destruct fuel; cbn [ufb fst]; exact I).
    destruct (ufb_keeps_tid q db fuel t slots x) as [sl' ->]. exact To.
  - destruct (eval TG PW q db (XNew tid kw)) as [o'|] eqn:Ee; cbn [fst]; [|auto].
    split; [eapply eval_ok; eauto|].
    rewrite eval_XNew in Ee. destruct (ev_list q db kw) as [vs|]; cbn [bind] in Ee; [|discriminate].
    apply construct_tid in Ee. destruct Ee as [sl ->]. reflexivity.
Qed.

Lemma run_ok : forall strict q db, side strict q db -> db_wok db = true ->
  forall tid ops, wfv PW db strict (run TG PW q db tid ops) = true.
Proof.
  intros strict q db Sd Wdb tid ops. unfold run.
  assert (G : forall ops o, wfv PW db strict o = true -> tid_ok tid o ->
              wfv PW db strict (fold_left (fun o p => fst (step TG PW q db tid o p)) ops o) = true).
  { clear ops. induction ops as [|p ops IH]; intros o Wo To; cbn [fold_left]; [exact Wo|].
    destruct (step_ok strict q db Sd Wdb tid o p Wo To) as [W' T']. apply IH; auto. }
  apply G; [apply default_obj_ok; auto | apply default_obj_tid].
Qed.

(* shape-level contract: every quirk setting *)
Theorem obj_invariant : forall q db tid ops, db_wok db = true -> wfv PW db false (run TG PW q db tid ops) = true.
Proof. intros q db tid ops Wdb. apply run_ok; auto. left; reflexivity. Qed.

(* full contract (array elements inside the DSDL range) of the conformant variant *)
Theorem obj_invariant_strict_noquirk : forall db tid ops, db_wok db = true ->
  wfv PW db true (run TG PW false db tid ops) = true.
Proof. intros db tid ops Wdb. apply run_ok; auto. right; left; reflexivity. Qed.

(* full contract of the shipped code when no integer array has a non-standard element width *)
Theorem obj_invariant_partial : forall db tid ops, db_wok db = true -> db_std_elems PW db = true ->
  wfv PW db true (run TG PW true db tid ops) = true.
Proof. intros db tid ops Wdb Hs. apply run_ok; auto. right; right; exact Hs. Qed.

(* the tree that was scanned: whatever the generated quirk flag is, the full contract holds when the flag is off or
   no integer array has a non-standard element width *)
Theorem obj_invariant_live : forall db tid ops, db_wok db = true ->
  (arrelem_quirk_gen = false \/ db_std_elems PW db = true) ->
  wfv PW db true (run TG PW arrelem_quirk_gen db tid ops) = true.
Proof.
  intros db tid ops Wdb H. destruct arrelem_quirk_gen eqn:Q.
  - destruct H as [H|H]; [discriminate|]. apply obj_invariant_partial; auto.
  - apply obj_invariant_strict_noquirk; auto.
Qed.

(* ... and db_wok cannot be dropped: the default instance of these types already violates the contract *)
Theorem obj_invariant_needs_wok : forall q,
  wfv PW [{| c_union := true; c_fields := [] |}] false (run TG PW q [{| c_union := true; c_fields := [] |}] 0 []) = false /\
  wfv PW [{| c_union := false; c_fields := [FArr true 1 false (EPrim (KS 65))] |}] false
      (run TG PW q [{| c_union := false; c_fields := [FArr true 1 false (EPrim (KS 65))] |}] 0 []) = false.
Proof. intros q; destruct q; split; vm_compute; reflexivity. Qed.
