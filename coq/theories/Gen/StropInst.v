(* C09 -- the stropping model instantiated with the configuration regenerated from /repo
   (Generated/Gen_Strop.v) and with the Unicode tables of the running interpreter
   (Generated/Gen_Uni.v).  Executable part only. *)
From Verif Require Export Strop Gen_Uni Gen_Strop.
Open Scope N_scope.

Inductive lang := LC | LCpp | LPy.

Definition cfg_of (l : lang) : strop_cfg :=
  match l with LC => cfg_c | LCpp => cfg_cpp | LPy => cfg_py end.

(* Language.filter_id(instance, id_type) for a string instance, per target language *)
Definition strop_c := strop py_uni py_isspace cfg_c.
Definition strop_cpp := strop py_uni py_isspace cfg_cpp.
Definition strop_py := strop py_uni py_isspace cfg_py.

Definition strop_lang (l : lang) : str -> str -> res := strop py_uni py_isspace (cfg_of l).

(* intermediate stages, exported for the branch counters of the correspondence driver *)
Definition stage_encode (l : lang) (ty tok : str) : tres :=
  do_for_type_and_all (encode py_uni py_isspace (cfg_of l)) tok (lower ty) false.
Definition stage_keyword (l : lang) (ty tok : str) : tres :=
  do_for_type_and_all (strop_by_keyword (cfg_of l)) tok (lower ty) false.
Definition stage_pattern (l : lang) (ty tok : str) : tres :=
  do_for_type_and_all (strop_by_pattern py_uni (cfg_of l)) tok (lower ty) false.

Definition reserved_lang (l : lang) (t : str) : bool := is_reserved (cfg_of l) t.
Definition pattern_lang (l : lang) (ty t : str) : bool := matches_reserved_pattern py_uni (cfg_of l) ty t.

(* ---- configuration overrides as data (Generated/Gen_Strop.v: cfgs_ov); index 0 = the shipped configuration ---- *)
Definition pick (l : lang) (t : strop_cfg * strop_cfg * strop_cfg) : strop_cfg :=
  match t, l with (c, _, _), LC => c | (_, c, _), LCpp => c | (_, _, c), LPy => c end.

Definition cfg_sel (k : nat) (l : lang) : strop_cfg :=
  match k with
  | O => cfg_of l
  | S k' => match nth_error cfgs_ov k' with Some t => pick l t | None => cfg_of l end
  end.

Definition strop_sel (k : nat) (l : lang) : str -> str -> res := strop py_uni py_isspace (cfg_sel k l).
Definition sel_encode (k : nat) (l : lang) (ty tok : str) : tres :=
  do_for_type_and_all (encode py_uni py_isspace (cfg_sel k l)) tok (lower ty) false.
Definition sel_keyword (k : nat) (l : lang) (ty tok : str) : tres :=
  do_for_type_and_all (strop_by_keyword (cfg_sel k l)) tok (lower ty) false.
Definition sel_pattern (k : nat) (l : lang) (ty tok : str) : tres :=
  do_for_type_and_all (strop_by_pattern py_uni (cfg_sel k l)) tok (lower ty) false.
Definition reserved_sel (k : nat) (l : lang) (t : str) : bool := is_reserved (cfg_sel k l) t.
Definition pattern_sel (k : nat) (l : lang) (ty t : str) : bool := matches_reserved_pattern py_uni (cfg_sel k l) ty t.
(* the same call through the regenerated step list *)
Definition strop_sel_pipeline (k : nat) (l : lang) : str -> str -> res :=
  run_pipeline py_uni py_isspace (cfg_sel k l) strop_pipeline.

(* Language.filter_id(instance, id_type) of the three targets: strop(default_filter_id_for_target(instance), id_type) *)
Definition filter_id (l : lang) (i : inst) (id_type : str) : res := strop_lang l id_type (default_filter_id i).

(* the affix-override configurations (Gen_Strop.cfgs_aff), for the model correspondence of the illegal-affix sweep *)
Definition cfg_aff (k : nat) (l : lang) : strop_cfg :=
  match nth_error cfgs_aff k with Some t => pick l t | None => cfg_of l end.
Definition strop_aff (k : nat) (l : lang) : str -> str -> res := strop py_uni py_isspace (cfg_aff k l).
