(* Proofs about the generic line-buffer model (no dependency on translated code). *)
From Verif Require Import LinePP.
Open Scope N_scope.

Section Generic.
  Variable S : Type.
  Variable step : S -> line -> S * line.

  Notation feed := (feed step).
  Notation emit := (emit step).

  (* ---- feed over a concatenation ------------------------------------------------------ *)
  Definition crlf_seam (p1 p2 : str) : bool :=
    match p1, p2 with
    | _ :: _, d :: _ => (last p1 0 =? CR) && (d =? LF)
    | _, _ => false
    end.

  Lemma last_cons2 (c d : chr) (l : str) : last (c :: d :: l) 0 = last (d :: l) 0.
  Proof. reflexivity. Qed.

  Lemma feed_app p1 : forall p2 lb st out,
      crlf_seam p1 p2 = false ->
      feed (p1 ++ p2) lb st out =
      let '(lb', st', out') := feed p1 lb st out in feed p2 lb' st' out'.
  Proof.
    remember (length p1) as n eqn:Hn. revert p1 Hn.
    induction n as [n IH] using lt_wf_ind. intros p1 Hn p2 lb st out Hseam.
    destruct p1 as [|c rest]; [reflexivity|].
    cbn [app]. cbn [LinePP.feed].
    destruct (c =? LF) eqn:Hc.
    - destruct (emit st out (lb, [LF])) as [st' out'].
      apply (IH (length rest)); [subst n; cbn; lia | reflexivity |].
      destruct rest as [|d r]; [reflexivity|]. destruct p2; [reflexivity|]. exact Hseam.
    - destruct rest as [|d rest'].
      + (* p1 = [c]: the seam condition says that c is not a CR followed by LF *)
        cbn [app]. destruct p2 as [|d p2']; [reflexivity|].
        cbn in Hseam. rewrite Hseam. cbn [LinePP.feed]. reflexivity.
      + cbn [app].
        destruct ((c =? CR) && (d =? LF)) eqn:Hcd.
        * destruct (emit st out (lb, [CR; LF])) as [st' out'].
          apply (IH (length rest')); [subst n; cbn; lia | reflexivity |].
          destruct rest' as [|e r]; [reflexivity|]. destruct p2; [reflexivity|].
          cbn [crlf_seam] in *. rewrite !last_cons2 in Hseam. exact Hseam.
        * change (d :: rest' ++ p2) with ((d :: rest') ++ p2).
          apply (IH (length (d :: rest'))); [subst n; cbn; lia | reflexivity |].
          destruct p2; [reflexivity|]. cbn [crlf_seam] in *. rewrite last_cons2 in Hseam. exact Hseam.
  Qed.

  Lemma feed_nil lb st out : feed [] lb st out = (lb, st, out).
  Proof. reflexivity. Qed.

  (* ---- chunk independence (under the no-split condition) ------------------------------ *)
  Lemma last_app_nonempty (a b : str) : b <> [] -> last (a ++ b) 0 = last b 0.
  Proof.
    intros Hb; induction a as [|x a IH]; [reflexivity|].
    cbn [app]. destruct (a ++ b) eqn:E; [destruct a; [contradiction|discriminate]|].
    rewrite <- IH. reflexivity.
  Qed.

  Lemma feed_all_concat chunks : forall pre lb st out,
      no_split_crlf (match pre with [] => false | _ => last pre 0 =? CR end) chunks = true ->
      feed_all step chunks (fst (fst (feed pre lb st out))) (snd (fst (feed pre lb st out))) (snd (feed pre lb st out))
      = feed (pre ++ concat chunks) lb st out.
  Proof.
    induction chunks as [|p ps IH]; intros pre lb st out Hns.
    - cbn. rewrite app_nil_r. destruct (feed pre lb st out) as [[a b] c]; reflexivity.
    - cbn [concat]. destruct p as [|c p'].
      + cbn [no_split_crlf] in Hns. cbn [app]. cbn [feed_all fold_left].
        destruct (feed pre lb st out) as [[a b] c0] eqn:E. cbn [fst snd]. cbn [LinePP.feed].
        specialize (IH pre lb st out Hns). rewrite E in IH. exact IH.
      + cbn [no_split_crlf] in Hns. apply andb_prop in Hns as [Hseam Hns].
        rewrite app_assoc.
        rewrite <- (IH (pre ++ c :: p') lb st out).
        2:{ destruct (pre ++ c :: p') eqn:E; [destruct pre; discriminate|]. rewrite <- E.
            rewrite last_app_nonempty by discriminate. exact Hns. }
        rewrite (feed_app pre (c :: p')).
        2:{ destruct pre as [|x pre']; [reflexivity|]. cbn [crlf_seam].
            apply negb_true_iff in Hseam. exact Hseam. }
        cbn [feed_all fold_left].
        destruct (feed pre lb st out) as [[a b] c0]. cbn [fst snd].
        destruct (feed (c :: p') a b c0) as [[a' b'] c1]. reflexivity.
  Qed.

  Theorem write_chunks_partial chunks st :
    no_split_crlf false chunks = true ->
    write step chunks st = write step [concat chunks] st.
  Proof.
    intros Hns. unfold write. f_equal.
    pose proof (feed_all_concat chunks [] [] st [] Hns) as H. cbn [LinePP.feed fst snd app] in H.
    rewrite H. reflexivity.
  Qed.

  (* ---- a single chunk is processed line by line ----------------------------------------- *)
  Lemma feed_linewise text : forall lb st out,
      finish step (feed text lb st out) =
      linewise_from step st out (split_lines_aux text lb).
  Proof.
    remember (length text) as n eqn:Hn. revert text Hn.
    induction n as [n IH] using lt_wf_ind. intros text Hn lb st out.
    destruct text as [|c rest].
    - cbn. destruct lb; reflexivity.
    - cbn [LinePP.feed split_lines_aux].
      destruct (c =? LF).
      + cbn [linewise_from fold_left fst snd].
        destruct (emit st out (lb, [LF])) as [st' out'] eqn:E. cbn [fst snd].
        apply (IH (length rest)); [subst n; cbn; lia | reflexivity].
      + destruct rest as [|d rest'].
        * apply (IH 0%nat); [subst n; cbn; lia | reflexivity].
        * destruct ((c =? CR) && (d =? LF)).
          -- cbn [linewise_from fold_left fst snd].
             destruct (emit st out (lb, [CR; LF])) as [st' out'] eqn:E. cbn [fst snd].
             apply (IH (length rest')); [subst n; cbn; lia | reflexivity].
          -- apply (IH (length (d :: rest'))); [subst n; cbn; lia | reflexivity].
  Qed.

  Theorem write_single_linewise text st :
    write step [text] st = linewise step st text.
  Proof.
    unfold write, linewise, split_lines. cbn [feed_all fold_left]. apply feed_linewise.
  Qed.

  (* ---- identity pipelines: the file is the concatenation, for every chunking ------------ *)
  Hypothesis step_id : forall st l, step st l = (st, l).

  Lemma feed_id part : forall lb st out,
      let '(lb', _, out') := feed part lb st out in out' ++ lb' = out ++ lb ++ part.
  Proof.
    remember (length part) as n eqn:Hn. revert part Hn.
    induction n as [n IH] using lt_wf_ind. intros part Hn lb st out.
    destruct part as [|c rest]; [cbn; rewrite app_nil_r; reflexivity|].
    cbn [LinePP.feed].
    destruct (N.eqb_spec c LF) as [->|Hc].
    - unfold LinePP.emit. rewrite step_id. cbn [fst snd].
      specialize (IH (length rest) ltac:(subst n; cbn; lia) rest eq_refl [] st (out ++ lb ++ [LF])).
      destruct (feed rest [] st (out ++ lb ++ [LF])) as [[a b] c0]. rewrite IH.
      cbn [app]. rewrite <- ?app_assoc. reflexivity.
    - destruct rest as [|d rest'].
      + cbn. rewrite <- ?app_assoc. reflexivity.
      + destruct (N.eqb_spec c CR) as [->|Hcr]; cbn [andb].
        * destruct (N.eqb_spec d LF) as [->|Hd].
          -- unfold LinePP.emit. rewrite step_id. cbn [fst snd].
             specialize (IH (length rest') ltac:(subst n; cbn; lia) rest' eq_refl [] st (out ++ lb ++ [CR; LF])).
             destruct (feed rest' [] st (out ++ lb ++ [CR; LF])) as [[a b] c0]. rewrite IH.
             cbn [app]. rewrite <- ?app_assoc. reflexivity.
          -- specialize (IH (length (d :: rest')) ltac:(subst n; cbn; lia) (d :: rest') eq_refl (lb ++ [CR]) st out).
             destruct (feed (d :: rest') (lb ++ [CR]) st out) as [[a b] c0]. rewrite IH.
             rewrite <- ?app_assoc. reflexivity.
        * specialize (IH (length (d :: rest')) ltac:(subst n; cbn; lia) (d :: rest') eq_refl (lb ++ [c]) st out).
          destruct (feed (d :: rest') (lb ++ [c]) st out) as [[a b] c0]. rewrite IH.
          rewrite <- ?app_assoc. reflexivity.
  Qed.

  Lemma feed_all_id chunks : forall lb st out,
      let '(lb', _, out') := feed_all step chunks lb st out in out' ++ lb' = out ++ lb ++ concat chunks.
  Proof.
    induction chunks as [|p ps IH]; intros lb st out.
    - cbn. rewrite app_nil_r. reflexivity.
    - cbn [feed_all fold_left concat].
      pose proof (feed_id p lb st out) as Hp.
      destruct (feed p lb st out) as [[a b] c0].
      specialize (IH a b c0). unfold feed_all in IH.
      destruct (fold_left _ ps (a, b, c0)) as [[a' b'] c1].
      rewrite IH. rewrite (app_assoc c0 a), Hp. rewrite <- ?app_assoc. reflexivity.
  Qed.

  Theorem identity_pipeline chunks st :
    snd (write step chunks st) = concat chunks.
  Proof.
    unfold write. pose proof (feed_all_id chunks [] st []) as H.
    destruct (feed_all step chunks [] st []) as [[lb st'] out]. cbn [app] in H.
    unfold finish. destruct lb as [|c lb'].
    - cbn. rewrite app_nil_r in H. exact H.
    - unfold LinePP.emit. rewrite step_id. cbn [fst snd]. rewrite app_nil_r. exact H.
  Qed.
End Generic.
