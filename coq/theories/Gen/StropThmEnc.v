(* C09 -- lemmas about the encoding stage of TokenEncoder.strop (Gen/Strop.v: re_sub, encoding_filter,
   encode_rules): what every rule preserves, what the two recognised rule shapes establish, and when a
   rule is a no-op.  Configuration-independent; the side conditions are booleans evaluated on the
   regenerated configuration in StropThm.v. *)
From Verif Require Import Strop StropThmRe.
Open Scope N_scope.

Definition all_ident (s : str) : bool := forallb ident_char s.
Definition hd_ok (s : str) : bool := match s with c :: _ => negb (is_digit c) | [] => false end.

Definition ident_list : list chr := map N.of_nat (seq 48 10 ++ seq 65 26 ++ [95%nat] ++ seq 97 26).
Definition digits_list : list chr := map N.of_nat (seq 48 10).

Lemma ident_char_iff c :
  ident_char c = true <-> (48 <= c <= 57 \/ 65 <= c <= 90 \/ c = 95 \/ 97 <= c <= 122).
Proof.
  unfold ident_char, in_ranges, ident_ranges; cbn [existsb fst snd].
  rewrite !orb_true_iff, !andb_true_iff, !N.leb_le. split; [intros [H|[H|[H|[H|H]]]]|]; try lia; try discriminate.
Qed.

Lemma is_digit_iff c : is_digit c = true <-> 48 <= c <= 57.
Proof. unfold is_digit; rewrite andb_true_iff, !N.leb_le; reflexivity. Qed.

Lemma is_upper_iff c : is_upper c = true <-> 65 <= c <= 90.
Proof. unfold is_upper; rewrite andb_true_iff, !N.leb_le; reflexivity. Qed.

Lemma ident_list_in c : ident_char c = true -> In c ident_list.
Proof.
  rewrite ident_char_iff; intros H. unfold ident_list. apply in_map_iff; exists (N.to_nat c); split; [apply N2Nat.id|].
  rewrite !in_app_iff, !in_seq; cbn [In]. lia.
Qed.

Lemma digits_list_in c : is_digit c = true -> In c digits_list.
Proof.
  rewrite is_digit_iff; intros H. unfold digits_list. apply in_map_iff; exists (N.to_nat c); split; [apply N2Nat.id|].
  rewrite in_seq; lia.
Qed.

Lemma all_ident_app a b : all_ident (a ++ b) = all_ident a && all_ident b.
Proof. apply forallb_app. Qed.

Lemma hd_ok_app a b : hd_ok a = true -> hd_ok (a ++ b) = true.
Proof. destruct a; cbn; [discriminate|auto]. Qed.

(* ---- f"{ord(c):04X}" only produces identifier characters ---- *)
Lemma hex_digit_ident d : d < 16 -> ident_char (hex_digit d) = true.
Proof.
  intros H; apply ident_char_iff; unfold hex_digit. destruct (N.ltb_spec d 10); lia.
Qed.

Lemma hex_fuel_ident fuel : forall n acc, all_ident acc = true -> all_ident (hex_fuel fuel n acc) = true.
Proof.
  induction fuel as [|f IH]; intros n acc H; cbn [hex_fuel]; [assumption|].
  destruct (n =? 0); [assumption|]. apply IH. cbn [all_ident forallb]. fold (all_ident acc).
  rewrite H, hex_digit_ident; [reflexivity|]. apply N.mod_lt; lia.
Qed.

Lemma hex04_ident n : all_ident (hex04 n) = true.
Proof.
  unfold hex04, hex_of. rewrite all_ident_app. apply andb_true_intro; split.
  - apply forallb_forall; intros x Hx. apply repeat_spec in Hx; subst x. reflexivity.
  - apply hex_fuel_ident; reflexivity.
Qed.

Section Enc.
  Variable u : uni.
  Variable sp : ranges.
  Variable cfg : strop_cfg.

  Definition chk_enc_out : bool :=
    all_ident (sc_enc_prefix cfg) && hd_ok (sc_enc_prefix cfg)
    && match sc_ws_char cfg with Some w => all_ident w && hd_ok w | None => true end.

  Hypothesis Hout : chk_enc_out = true.

  Lemma Hpre_id : all_ident (sc_enc_prefix cfg) = true.
  Proof. unfold chk_enc_out in Hout. apply andb_prop in Hout as [H _]; apply andb_prop in H as [H _]; exact H. Qed.
  Lemma Hpre_hd : hd_ok (sc_enc_prefix cfg) = true.
  Proof. unfold chk_enc_out in Hout. apply andb_prop in Hout as [H _]; apply andb_prop in H as [_ H]; exact H. Qed.
  Lemma Hws : match sc_ws_char cfg with Some w => all_ident w = true /\ hd_ok w = true | None => True end.
  Proof.
    unfold chk_enc_out in Hout. apply andb_prop in Hout as [_ H]. destruct (sc_ws_char cfg); [|exact I].
    apply andb_prop in H; exact H.
  Qed.

  Lemma encode_character_ok c :
    all_ident (encode_character sp cfg c) = true /\ hd_ok (encode_character sp cfg c) = true.
  Proof.
    unfold encode_character. pose proof Hws as Hw.
    assert (Hx : all_ident (sc_enc_prefix cfg ++ hex04 c) = true /\ hd_ok (sc_enc_prefix cfg ++ hex04 c) = true).
    { split; [rewrite all_ident_app, Hpre_id, hex04_ident; reflexivity|apply hd_ok_app, Hpre_hd]. }
    destruct (sc_ws_char cfg) as [w|]; [|exact Hx]. destruct (in_ranges sp c); [exact Hw|exact Hx].
  Qed.

  Lemma flat_map_enc_ident span : all_ident (flat_map (encode_character sp cfg) span) = true.
  Proof.
    induction span as [|c span IH]; cbn [flat_map]; [reflexivity|].
    rewrite all_ident_app, IH, (proj1 (encode_character_ok c)); reflexivity.
  Qed.

  Lemma encoding_filter_ident span : all_ident (encoding_filter sp cfg span) = true.
  Proof.
    unfold encoding_filter. pose proof Hws as Hw.
    destruct (sc_collapse cfg && span_isspace sp span); [|apply flat_map_enc_ident].
    destruct (sc_ws_char cfg); [exact (proj1 Hw)|exact (proj1 (encode_character_ok 32))].
  Qed.

  Lemma encoding_filter_hd span : span <> [] -> hd_ok (encoding_filter sp cfg span) = true.
  Proof.
    intros Hne. unfold encoding_filter. pose proof Hws as Hw.
    destruct (sc_collapse cfg && span_isspace sp span).
    - destruct (sc_ws_char cfg); [exact (proj2 Hw)|exact (proj2 (encode_character_ok 32))].
    - destruct span as [|c span]; [congruence|]. cbn [flat_map]. apply hd_ok_app, encode_character_ok.
  Qed.

  Lemma encoding_filter_nil : encoding_filter sp cfg [] = [].
  Proof. unfold encoding_filter; cbn [span_isspace]. rewrite andb_false_r; reflexivity. Qed.

  Let f := encoding_filter sp cfg.
  Let krest : bool -> str -> option str := fun _ rest => Some rest.

  (* what one unfolding of re_sub_from looks like *)
  Lemma firstn_span (s rest : str) :
    (length rest < length s)%nat -> firstn (length s - length rest) s <> [].
  Proof.
    intros H E. apply (f_equal (@length _)) in E. rewrite firstn_length in E. cbn in E. lia.
  Qed.

  (* every rule keeps the identifier alphabet *)
  Lemma re_sub_from_ident r : forall fuel at0 s,
      all_ident s = true -> all_ident (re_sub_from u r f fuel at0 s) = true.
  Proof.
    induction fuel as [|fu IH]; intros at0 s Hs; cbn [re_sub_from]; [assumption|].
    destruct s as [|c s']; [reflexivity|].
    assert (Hc : ident_char c = true /\ all_ident s' = true) by (cbn in Hs; apply andb_prop in Hs; exact Hs).
    destruct (mt u r (Strop.krest) at0 (c :: s')) as [rest|] eqn:E.
    - apply mt_cont in E as (at1 & s1 & Hsf & Hk). injection Hk as ->.
      apply sfx_app in Hsf as (pre & Hpre).
      assert (Hrest : all_ident rest = true).
      { unfold all_ident in Hs; rewrite Hpre, forallb_app in Hs. apply andb_prop in Hs; exact (proj2 Hs). }
      destruct (Nat.ltb (length rest) (length (c :: s'))).
      + rewrite all_ident_app. unfold f at 1. rewrite encoding_filter_ident. apply IH; assumption.
      + rewrite all_ident_app. unfold f at 1. rewrite encoding_filter_ident. cbn [all_ident forallb andb].
        rewrite (proj1 Hc). apply IH; exact (proj2 Hc).
    - cbn [all_ident forallb]. rewrite (proj1 Hc). apply IH; exact (proj2 Hc).
  Qed.

  (* every rule keeps "non-empty and does not start with a digit" *)
  Lemma re_sub_from_hd r fuel at0 s :
    hd_ok s = true -> hd_ok (re_sub_from u r f (S fuel) at0 s) = true.
  Proof.
    intros Hs; cbn [re_sub_from]. destruct s as [|c s']; [discriminate|].
    destruct (mt u r (Strop.krest) at0 (c :: s')) as [rest|] eqn:E; [|exact Hs].
    destruct (Nat.ltb (length rest) (length (c :: s'))) eqn:L.
    - apply hd_ok_app. apply encoding_filter_hd, firstn_span. apply Nat.ltb_lt; exact L.
    - unfold f; rewrite encoding_filter_nil. exact Hs.
  Qed.

  (* every rule keeps "non-empty" *)
  Lemma re_sub_from_ne r fuel at0 s :
    s <> [] -> re_sub_from u r f (S fuel) at0 s <> [].
  Proof.
    intros Hs; cbn [re_sub_from]. destruct s as [|c s']; [congruence|].
    destruct (mt u r (Strop.krest) at0 (c :: s')) as [rest|] eqn:E; [|discriminate].
    destruct (Nat.ltb (length rest) (length (c :: s'))) eqn:L.
    - intros E2. apply app_eq_nil in E2 as [E2 _].
      assert (H : hd_ok (f (firstn (length (c :: s') - length rest) (c :: s'))) = true)
        by (apply encoding_filter_hd, firstn_span, Nat.ltb_lt; exact L).
      rewrite E2 in H; discriminate.
    - unfold f; rewrite encoding_filter_nil. discriminate.
  Qed.

  (* shape 1 establishes the alphabet: after  X a*  with  not X  within the identifier characters *)
  Lemma re_sub_from_clsplus k a : (forall c, cls_mem u k c = false -> ident_char c = true) ->
    forall fuel at0 s, (length s <= fuel)%nat ->
                       all_ident (re_sub_from u (Seq (Cls k) (Star a)) f fuel at0 s) = true.
  Proof.
    intros Hk; induction fuel as [|fu IH]; intros at0 s Hl; cbn [re_sub_from].
    - destruct s; [reflexivity|cbn in Hl; lia].
    - destruct s as [|c s']; [reflexivity|]. cbn [length] in Hl.
      destruct (cls_mem u k c) eqn:Hc.
      + destruct (clsplus_match u k a at0 c s' Hc) as (rest & E). unfold Strop.krest; rewrite E.
        assert (Hr : (length rest <= length s')%nat).
        { cbn [mt] in E; rewrite Hc in E. apply (star_cont (mt u a)) in E as (at1 & s1 & Hsf & Hk1).
          - injection Hk1 as ->. eapply sfx_len; exact Hsf.
          - intros k' a1 s0 v0; apply mt_cont. }
        replace (Nat.ltb (length rest) (length (c :: s'))) with true
          by (symmetry; apply Nat.ltb_lt; cbn [length]; lia).
        rewrite all_ident_app. unfold f at 1; rewrite encoding_filter_ident. apply IH; lia.
      + unfold Strop.krest; rewrite (clsplus_nomatch u k a at0 c s' Hc).
        cbn [all_ident forallb]. rewrite (Hk c Hc). apply IH; lia.
  Qed.

  (* shape 2 establishes a non-digit head: after  ^X  with the ASCII digits within X *)
  Lemma re_sub_boldigit k s : (forall c, is_digit c = true -> cls_mem u k c = true) ->
    s <> [] -> hd_ok (re_sub u (Seq Bol (Cls k)) f s) = true.
  Proof.
    intros Hk Hs. unfold re_sub. destruct s as [|c s']; [congruence|]. cbn [length re_sub_from].
    unfold Strop.krest; rewrite bolcls_mt. cbn [andb].
    destruct (cls_mem u k c) eqn:Hc.
    - replace (Nat.ltb (length s') (S (length s'))) with true
        by (symmetry; apply Nat.ltb_lt; lia).
      apply hd_ok_app. apply encoding_filter_hd. apply (firstn_span (c :: s') s'). cbn [length]; lia.
    - cbn [hd_ok]. destruct (is_digit c) eqn:Hd; [rewrite (Hk c Hd) in Hc; discriminate|reflexivity].
  Qed.

  (* a rule that matches nowhere leaves the token alone *)
  Fixpoint nomatch_all (r : re) (at0 : bool) (s : str) : Prop :=
    match s with
    | [] => True
    | _ :: s' => mt u r (Strop.krest) at0 s = None /\ nomatch_all r false s'
    end.

  Lemma re_sub_from_noop r : forall fuel at0 s, nomatch_all r at0 s -> re_sub_from u r f fuel at0 s = s.
  Proof.
    induction fuel as [|fu IH]; intros at0 s H; cbn [re_sub_from]; [reflexivity|].
    destruct s as [|c s']; [reflexivity|]. cbn [nomatch_all] in H. destruct H as [E H].
    rewrite E, (IH _ _ H); reflexivity.
  Qed.

  (* ---- the loop over the rules (non-dry) ---- *)
  Definition sub_all (rules : list re) (s : str) : str := fold_left (fun acc r => re_sub u r f acc) rules s.

  Lemma encode_rules_nd rules : forall s, encode_rules u sp cfg rules false s = TOk (sub_all rules s).
  Proof. induction rules as [|r rs IH]; intros s; cbn [encode_rules sub_all fold_left]; [reflexivity|apply IH]. Qed.

  Lemma re_sub_ident r s : all_ident s = true -> all_ident (re_sub u r f s) = true.
  Proof. apply re_sub_from_ident. Qed.

  Lemma re_sub_hd r s : hd_ok s = true -> hd_ok (re_sub u r f s) = true.
  Proof.
    intros H; unfold re_sub. destruct s as [|c s']; [discriminate|]. cbn [length]. apply re_sub_from_hd; exact H.
  Qed.

  Lemma re_sub_ne r s : s <> [] -> re_sub u r f s <> [].
  Proof.
    intros H; unfold re_sub. destruct s as [|c s']; [congruence|]. cbn [length]. apply re_sub_from_ne; exact H.
  Qed.

  Lemma sub_all_ident rules : forall s, all_ident s = true -> all_ident (sub_all rules s) = true.
  Proof. induction rules as [|r rs IH]; intros s H; cbn [sub_all fold_left]; [assumption|apply IH, re_sub_ident, H]. Qed.

  Lemma sub_all_hd rules : forall s, hd_ok s = true -> hd_ok (sub_all rules s) = true.
  Proof. induction rules as [|r rs IH]; intros s H; cbn [sub_all fold_left]; [assumption|apply IH, re_sub_hd, H]. Qed.

  Lemma sub_all_ne rules : forall s, s <> [] -> sub_all rules s <> [].
  Proof. induction rules as [|r rs IH]; intros s H; cbn [sub_all fold_left]; [assumption|apply IH, re_sub_ne, H]. Qed.

  (* recognisers of the two shapes *)
  Definition ranges_sub (a b : ranges) : bool :=
    forallb (fun r => existsb (fun q => (fst q <=? fst r) && (snd r <=? snd q)) b) a.

  Lemma ranges_sub_in a b c : ranges_sub a b = true -> in_ranges a c = true -> in_ranges b c = true.
  Proof.
    unfold ranges_sub, in_ranges; intros Hs Hc. apply existsb_exists in Hc as (r & Hr & Hc).
    rewrite forallb_forall in Hs. specialize (Hs r Hr). apply existsb_exists in Hs as (q & Hq & Hs).
    apply existsb_exists; exists q; split; [assumption|].
    apply andb_prop in Hc as [H1 H2]; apply andb_prop in Hs as [H3 H4].
    apply N.leb_le in H1, H2, H3, H4. apply andb_true_intro; split; apply N.leb_le; lia.
  Qed.

  Definition good_clsplus (r : re) : bool :=
    match r with
    | Seq (Cls k) (Star _) =>
        c_neg k && negb (c_space k) && negb (c_digit k) && negb (c_word k) && ranges_sub (c_ranges k) ident_ranges
    | _ => false
    end.

  Definition good_boldigit (r : re) : bool :=
    match r with
    | Seq Bol (Cls k) => forallb (cls_mem u k) digits_list
    | _ => false
    end.

  Lemma good_clsplus_ident r s : good_clsplus r = true -> all_ident (re_sub u r f s) = true.
  Proof.
    destruct r as [|?|[|k|? ?|? ?|?| |] [|?|? ?|? ?|a| |]|? ?|?| |]; cbn [good_clsplus]; try discriminate.
    intros H. repeat (apply andb_prop in H as [H ?]).
    apply re_sub_from_clsplus; [|apply Nat.le_refl].
    intros c Hc. unfold cls_mem in Hc.
    destruct (c_neg k); [|discriminate]. destruct (c_space k); [discriminate|].
    destruct (c_digit k); [discriminate|]. destruct (c_word k); [discriminate|].
    cbn [andb orb xorb] in Hc. rewrite !orb_false_r in Hc. apply negb_false_iff in Hc.
    unfold ident_char. eapply ranges_sub_in; eassumption.
  Qed.

  Lemma good_boldigit_mem r : good_boldigit r = true ->
    exists k, r = Seq Bol (Cls k) /\ forall c, is_digit c = true -> cls_mem u k c = true.
  Proof.
    destruct r as [|?|[|?|? ?|? ?|?| |] [|k|? ?|? ?|?| |]|? ?|?| |]; cbn [good_boldigit]; try discriminate.
    intros H. exists k; split; [reflexivity|]. intros c Hc. rewrite forallb_forall in H. apply H, digits_list_in, Hc.
  Qed.

  Lemma sub_all_est_ident rules : existsb good_clsplus rules = true -> forall s, all_ident (sub_all rules s) = true.
  Proof.
    induction rules as [|r rs IH]; cbn [existsb]; [discriminate|]. intros H s. cbn [sub_all fold_left].
    destruct (good_clsplus r) eqn:G.
    - apply (sub_all_ident rs), good_clsplus_ident, G.
    - apply IH; exact H.
  Qed.

  Lemma sub_all_est_hd rules : existsb good_boldigit rules = true -> forall s, s <> [] -> hd_ok (sub_all rules s) = true.
  Proof.
    induction rules as [|r rs IH]; cbn [existsb]; [discriminate|]. intros H s Hs. cbn [sub_all fold_left].
    destruct (good_boldigit r) eqn:G.
    - apply good_boldigit_mem in G as (k & -> & Hk). apply (sub_all_hd rs), re_sub_boldigit; assumption.
    - apply IH; [exact H|apply re_sub_ne, Hs].
  Qed.

  Lemma sub_all_noop rules : forall s, (forall r, In r rules -> nomatch_all r true s) -> sub_all rules s = s.
  Proof.
    induction rules as [|r rs IH]; intros s H; cbn [sub_all fold_left]; [reflexivity|].
    unfold re_sub. rewrite re_sub_from_noop by (apply H; left; reflexivity).
    apply IH. intros r' Hr'; apply H; right; exact Hr'.
  Qed.
End Enc.
