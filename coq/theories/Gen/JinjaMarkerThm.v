(* C19: the delimiter-aware marker test (design_notes/C19_marker_delimiter_fix.patch) -- prefix = exactly what precedes `<start>*`
   for EVERY start string, and hypothesis 2 of the pipeline theorem DISCHARGED from it: on a source where no marker alternative
   matches, no begin token is taken for a marker.  The legacy test (endswith('*'), [:-3]) is refuted for other delimiters. *)
From Verif Require Import JinjaPipe JinjaRxThm JinjaPipeThm.
From Coq Require Import Lia.
Open Scope N_scope.

Lemma skipn_len_app (w suf : str) : skipn (length (w ++ suf) - length suf) (w ++ suf) = suf.
Proof.
  rewrite app_length. replace (length w + length suf - length suf)%nat with (length w) by lia.
  rewrite skipn_app, Nat.sub_diag, skipn_all. reflexivity.
Qed.

Lemma ends_with_str_app (w suf : str) : ends_with_str suf (w ++ suf) = true.
Proof.
  unfold ends_with_str. rewrite skipn_len_app, str_eqb_refl, andb_true_r. apply Nat.leb_le. rewrite app_length. lia.
Qed.

Lemma ends_with_str_inv (suf s : str) : ends_with_str suf s = true -> s = firstn (length s - length suf) s ++ suf.
Proof.
  unfold ends_with_str. intros H. apply andb_prop in H as [_ H]. destruct (str_eqb_spec (skipn (length s - length suf) s) suf) as [E|]; [|discriminate].
  rewrite <- E at 2. symmetry. apply firstn_skipn.
Qed.

Lemma in_insert_by_len x y l : In y (insert_by_len x l) -> y = x \/ In y l.
Proof.
  induction l as [|z l IH]; cbn [insert_by_len]; intros H.
  - destruct H as [H|[]]; auto.
  - destruct (Nat.leb (length z) (length x)).
    + destruct H as [H|H]; auto.
    + destruct H as [H|H]; [right; left; exact H|]. destruct (IH H) as [E|E]; [left; exact E|right; right; exact E].
Qed.

Lemma in_sort_starts y l : In y (sort_starts l) -> In y l.
Proof.
  induction l as [|x l IH]; cbn [sort_starts fold_right]; intros H; [exact H|].
  apply in_insert_by_len in H as [->|H]; [left; reflexivity|right; apply IH; exact H].
Qed.

(* soundness for every list of start strings: the prefix is exactly what precedes `<start>*`, <start> one of the environment's own *)
Theorem marker_aware_sound_lemma (starts : list str) (v p : str) :
  marker_m true starts v = Some p -> exists st, In st starts /\ st <> [] /\ v = p ++ st ++ [42].
Proof.
  unfold marker_m. destruct (marker_start_of starts v) as [st|] eqn:E; [|discriminate]. intros H. inversion H; subst p.
  unfold marker_start_of in E. apply find_some in E as [Hin He]. apply in_sort_starts in Hin. apply filter_In in Hin as [Hin Hne].
  exists st. split; [exact Hin|]. split; [destruct st; [discriminate|discriminate]|].
  apply ends_with_str_inv in He. rewrite app_length in He. cbn [length] in He. rewrite Nat.add_1_r in He. exact He.
Qed.

(* completeness for one start string, whatever its length (default "{%", "\VAR{", "<<<", "#", "<*" ...) *)
Theorem marker_aware_single_lemma (D w : str) : D <> [] -> marker_m true [D] (w ++ D ++ [42]) = Some w.
Proof.
  intros HD. unfold marker_m, marker_start_of. destruct D as [|c D]; [contradiction|]. cbn [filter sort_starts fold_right insert_by_len find].
  rewrite (ends_with_str_app w ((c :: D) ++ [42])). f_equal.
  rewrite !app_length. cbn [length]. replace (length w + (S (length D) + 1) - S (S (length D)))%nat with (length w) by lia.
  rewrite firstn_app, Nat.sub_diag, firstn_all. cbn. apply app_nil_r.
Qed.

Lemma marker_default_token_lemma (aware : bool) (w : str) (x : N) : marker_m aware [[LBRACE; x]] (w ++ [LBRACE; x; STAR]) = Some w.
Proof.
  destruct aware.
  - exact (marker_aware_single_lemma [LBRACE; x] w ltac:(discriminate)).
  - unfold marker_m. rewrite JinjaScanThm.marker_token_is_marker, JinjaScanThm.autoindent_prefix_opener. reflexivity.
Qed.

(* the legacy code: the 3-character slice is wrong for other delimiter lengths (D1) and a plain opener ending in `*` is taken
   for a marker (D2) *)
Lemma legacy_prefix_refuted : exists D w : str, D <> [] /\ marker_m false [D] (w ++ D ++ [42]) <> Some w.
Proof. exists [92; 86; 65; 82; 123], [32; 32]. split; [discriminate|]. vm_compute. discriminate. Qed.

Lemma legacy_plain_opener_refuted :
  exists D : str, marker_m false [D] D <> None /\ marker_m true [D] D = None.
Proof. exists [60; 42]. split; [vm_compute; discriminate|vm_compute; reflexivity]. Qed.

(* ------------------------------------------------------------------------------------------------------------------ *)
Section Hyp2.
  Variable u : uni.

  Definition is_litx (r : rx) (c : N) : bool :=
    match r with
    | XCls k => negb (x_neg k) && negb (x_space k) && negb (x_nonspace k) && negb (x_digit k) && negb (x_word k)
                && match x_ranges k with [(lo, hi)] => (lo =? c) && (hi =? c) | _ => false end
    | _ => false
    end.
  Fixpoint lits_eq (l : str) (t : rx) : bool :=
    match l with
    | [] => false
    | [c] => is_litx t c
    | c :: l' => match t with XSeq a b => is_litx a c && lits_eq l' b | _ => false end
    end.
  (* the rule list has a marker alternative  [class]* <D> \*  spelled with literal characters *)
  Definition marker_alt_for (D : str) (b : rx) : bool :=
    match b with XSeq (XStar (XCls _)) t => lits_eq (D ++ [42]) t | _ => false end.
  Definition covers (rs : xrules) (D : str) : bool :=
    existsb (fun nr => match marker_of (snd nr) with Some b => marker_alt_for D b | None => false end) rs.

  Lemma is_litx_match r c (A : Type) (k : option N -> str -> option A) p s :
    is_litx r c = true -> mx u A r k p (c :: s) = k (Some c) s.
  Proof.
    destruct r as [|kc| | | | | |]; try discriminate. cbn [is_litx mx]. intros H.
    repeat (apply andb_prop in H as [H ?]). destruct (x_ranges kc) as [|[lo hi] [|]] eqn:Er; try discriminate.
    match goal with H0 : (_ =? c) && (_ =? c) = true |- _ => apply andb_prop in H0 as [Hlo Hhi] end.
    apply N.eqb_eq in Hlo, Hhi. subst lo hi.
    assert (Hm : xcls_mem u kc c = true).
    { unfold xcls_mem. rewrite Er. apply negb_true_iff in H. rewrite H. cbn [in_ranges existsb fst snd]. rewrite N.leb_refl. reflexivity. }
    rewrite Hm. reflexivity.
  Qed.

  Lemma lits_match : forall (l : str) (t : rx) p rest,
      lits_eq l t = true -> mx u unit t (fun _ _ => Some tt) p (l ++ rest) = Some tt.
  Proof.
    induction l as [|c l IH]; intros t p rest H; [discriminate|]. destruct l as [|c2 l].
    - cbn [lits_eq] in H. cbn [app]. rewrite (is_litx_match t c unit _ p rest H). reflexivity.
    - cbn [lits_eq] in H. destruct t as [| |a b| | | | |]; try discriminate. apply andb_prop in H as [Ha Hb].
      cbn [mx app]. rewrite (is_litx_match a c unit _ p _ Ha). apply (IH b (Some c) rest Hb).
  Qed.

  Lemma xstar_ge (A : Type) m (k : option N -> str -> option A) fuel p s : k p s <> None -> xstar_loop m k fuel p s <> None.
  Proof. intros H. destruct fuel as [|f]; cbn [xstar_loop]; [exact H|]. destruct (m _ p s); [discriminate|exact H]. Qed.

  Lemma covers_hit rs D p rest : covers rs D = true -> marker_hit u rs p (D ++ [42] ++ rest) = true.
  Proof.
    unfold covers, marker_hit. intros H. apply existsb_exists in H as (nr & Hin & H). apply existsb_exists. exists nr. split; [exact Hin|].
    destruct (marker_of (snd nr)) as [b|]; [|discriminate]. unfold marker_alt_for in H.
    destruct b as [| |a t| | | | |]; try discriminate. destruct a as [| | | |a0| | |]; try discriminate. destruct a0; try discriminate.
    assert (Hm : mx u unit (XSeq (XStar (XCls k)) t) (fun _ _ => Some tt) p (D ++ [42] ++ rest) <> None).
    { cbn [mx]. apply xstar_ge. rewrite app_assoc. rewrite (lits_match _ t p rest H). discriminate. }
    destruct (mx u unit _ _ p (D ++ [42] ++ rest)); [reflexivity|contradiction].
  Qed.

  Lemma marker_free_no_hit rs pre : forall p t, marker_free u rs p (pre ++ t) = true -> marker_hit u rs (lastp p pre) t = false.
  Proof.
    intros p t H. apply marker_free_app in H. destruct t; cbn [marker_free] in H; apply andb_prop in H as [H _]; apply negb_true_iff in H; exact H.
  Qed.

  (* every root-state begin token of the scanner sits in the source *)
  Definition root_begin (k : str) : bool := str_eqb k n_variable || str_eqb k n_block || str_eqb k K_LSBEGIN.
  Definition located (s : str) (t : xtok) : Prop := root_begin (fst t) = true -> exists pre rest, s = pre ++ snd t ++ rest.

  Lemma root_searchx_spec rs : forall s acc p d n v p' rest,
      root_searchx u rs acc p s = Some (d, n, v, p', rest) -> exists pre, d = rev acc ++ pre /\ s = pre ++ v ++ rest.
  Proof.
    assert (Hit : forall s acc p d n v p' rest n0 p0 r0,
               first_altx u rs p s = Some (n0, p0, r0) ->
               Some (rev acc, n0, firstn (length s - length r0) s, p0, r0) = Some (d, n, v, p', rest) ->
               exists pre, d = rev acc ++ pre /\ s = pre ++ v ++ rest).
    { intros s acc p d n v p' rest n0 p0 r0 E H. inversion H; subst. destruct (first_altx_suffix u rs _ _ _ _ _ E) as (w & -> & _).
      exists []. rewrite app_nil_r. split; [reflexivity|]. cbn [app]. f_equal.
      rewrite app_length. replace (length w + length rest - length rest)%nat with (length w) by lia.
      rewrite firstn_app, Nat.sub_diag, firstn_all. cbn. rewrite app_nil_r. reflexivity. }
    induction s as [|c s IH]; intros acc p d n v p' rest H; cbn [root_searchx] in H.
    - destruct (first_altx u rs p []) as [[[n0 p0] r0]|] eqn:E; [eapply Hit; eauto|discriminate].
    - destruct (first_altx u rs p (c :: s)) as [[[n0 p0] r0]|] eqn:E; [eapply Hit; eauto|].
      apply IH in H as (pre & Hd & Hs). exists (c :: pre). cbn [rev] in Hd. rewrite <- app_assoc in Hd. cbn [app] in *. rewrite Hs at 1. auto.
  Qed.

  Variable inner : str -> option N -> str -> option (list xtok * nat).
  (* the pushed states never yield a begin token of the root state *)
  Hypothesis inner_no_begin : forall n p rest toks k, inner n p rest = Some (toks, k) -> forallb (fun t => negb (root_begin (fst t))) toks = true.

  Lemma scanx_located rs : forall fuel p s toks, scanx u rs inner fuel p s = Some toks -> Forall (located s) toks.
  Proof.
    induction fuel as [|f IH]; intros p s toks H; cbn [scanx] in H; [discriminate|].
    destruct (root_searchx u rs [] p s) as [[[[[d n] v] p'] rest]|] eqn:E.
    - destruct (inner n p' rest) as [[itoks k]|] eqn:Ei; [|discriminate].
      destruct (scanx u rs inner f (lastp p' (firstn k rest)) (skipn k rest)) as [r|] eqn:Er; [|discriminate]. inversion H; subst toks.
      apply root_searchx_spec in E as (pre & Hd & Hs). cbn [rev app] in Hd. subst pre.
      apply Forall_app. split.
      + unfold xdata. destruct d; constructor; [|constructor]. intros Hk. discriminate.
      + constructor; [intros _; exists d, rest; exact Hs|]. apply Forall_app. split.
        * apply inner_no_begin in Ei. rewrite forallb_forall in Ei. apply Forall_forall. intros t Ht Hk.
          specialize (Ei t Ht). rewrite Hk in Ei. discriminate.
        * apply IH in Er. eapply Forall_impl; [|exact Er]. intros t Ht Hk. destruct (Ht Hk) as (pre & rest' & Hsk).
          exists (d ++ v ++ firstn k rest ++ pre), rest'. rewrite Hs. rewrite <- (firstn_skipn k rest) at 1. rewrite Hsk.
          rewrite <- !app_assoc. reflexivity.
    - inversion H; subst. unfold xdata. destruct s; constructor; [|constructor]. intros Hk. discriminate.
  Qed.

  (* HYPOTHESIS 2 DISCHARGED for the delimiter-aware parser *)
  Theorem aware_no_marker_tokens_lemma (rs rs' : xrules) (sv sb : list str) (src : str) (toks : list xtok) :
    (forall st, In st (sv ++ sb) -> st <> [] -> covers rs st = true) ->
    marker_free u rs None src = true ->
    scanx_all u rs' inner src = Some toks ->
    no_marker_tokens (marker_m true sv) (marker_m true sb) (wrap toks) = true.
  Proof.
    intros Hcov Hfree Hscan. unfold scanx_all in Hscan. apply scanx_located in Hscan. rewrite Forall_forall in Hscan.
    unfold no_marker_tokens. apply forallb_forall. intros t' Ht'. unfold wrap in Ht'. apply in_map_iff in Ht' as (t & <- & Ht).
    apply filter_In in Ht as [Ht _]. specialize (Hscan t Ht).
    assert (Hcontra : forall starts p, (forall st, In st starts -> In st (sv ++ sb)) -> root_begin (fst t) = true ->
                                       marker_m true starts (snd t) = Some p -> False).
    { intros starts p Hsub Hk Hm. apply marker_aware_sound_lemma in Hm as (st & Hin & Hne & Hv).
      destruct (Hscan Hk) as (pre & rest & Hs). rewrite Hv in Hs.
      assert (Hs' : src = (pre ++ p) ++ st ++ [42] ++ rest) by (rewrite Hs, <- !app_assoc; reflexivity).
      rewrite Hs' in Hfree. apply marker_free_no_hit in Hfree.
      rewrite (covers_hit rs st _ rest (Hcov st (Hsub st Hin) Hne)) in Hfree. discriminate. }
    unfold wrap_rename. destruct (str_eqb (fst t) K_LSBEGIN) eqn:Els; cbn [fst snd].
    - replace (str_eqb n_block n_variable) with false by reflexivity. cbn [negb orb].
      replace (str_eqb n_block n_block) with true by reflexivity. cbn [negb orb andb].
      destruct (marker_m true sb (snd t)) eqn:Em; [|reflexivity]. exfalso.
      eapply (Hcontra sb); [intros; apply in_or_app; right; assumption| |exact Em]. unfold root_begin. rewrite Els. apply orb_true_r.
    - destruct (str_eqb (fst t) K_LSEND) eqn:Ele; cbn [fst snd].
      + reflexivity.
      + apply andb_true_intro. split.
        * destruct (str_eqb (fst t) n_variable) eqn:Ev; [|reflexivity]. cbn [negb orb].
          destruct (marker_m true sv (snd t)) eqn:Em; [|reflexivity]. exfalso.
          eapply (Hcontra sv); [intros; apply in_or_app; left; assumption| |exact Em]. unfold root_begin. rewrite Ev. reflexivity.
        * destruct (str_eqb (fst t) n_block) eqn:Eb; [|reflexivity]. cbn [negb orb].
          destruct (marker_m true sb (snd t)) eqn:Em; [|reflexivity]. exfalso.
          eapply (Hcontra sb); [intros; apply in_or_app; right; assumption| |exact Em]. unfold root_begin. rewrite Eb. destruct (str_eqb (fst t) n_variable); reflexivity.
  Qed.
End Hyp2.
