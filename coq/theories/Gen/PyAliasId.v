(* C18: the aliases `Name_major` of a generated Python package as TEXT.  In Gen/PyAlias.v names are numbers, so two identifiers are
   equal only if name and version are; as text, the alias of one type can spell the class name of another one:
       type Foo version 1.0      -> class Foo_1_0, alias Foo_1
       type Foo_1 version 0.1    -> class Foo_1_0_1, alias Foo_1_0   (== the class of Foo 1.0)
   Model-level statement for the guarded filter: an alias whose identifier is the identifier of a class of the namespace is not
   emitted; hence no emitted alias ever shadows a class.  Self-contained apart from PyAlias. *)
From Coq Require Import List Arith Bool Lia.
From Verif Require Import PyAlias.
Import ListNotations.

Definition ident := list nat.                                  (* ASCII codes *)
Record sver := { s_name : ident; s_major : nat; s_minor : nat }.

(* str(n): decimal digits, most significant first *)
Fixpoint dec_aux (fuel n : nat) (acc : ident) : ident :=
  match fuel with
  | O => acc
  | S f => let acc' := (48 + n mod 10) :: acc in if Nat.eqb (n / 10) 0 then acc' else dec_aux f (n / 10) acc'
  end.
Definition dec (n : nat) : ident := dec_aux (S n) n [].

Definition class_id (name : ident) (major minor : nat) : ident := name ++ [95] ++ dec major ++ [95] ++ dec minor.
Definition alias_id (name : ident) (major : nat) : ident := name ++ [95] ++ dec major.

Fixpoint id_eqb (a b : ident) : bool :=
  match a, b with
  | [], [] => true
  | x :: a', y :: b' => Nat.eqb x y && id_eqb a' b'
  | _, _ => false
  end.
Lemma id_eqb_eq : forall a b, id_eqb a b = true <-> a = b.
Proof.
  induction a as [|x a IH]; intros [|y b]; cbn [id_eqb]; split; intros H; try discriminate; try reflexivity.
  - apply andb_true_iff in H. destruct H as [Hx Hr]. apply Nat.eqb_eq in Hx. apply IH in Hr. congruence.
  - inversion H; subst. rewrite Nat.eqb_refl. cbn [andb]. apply IH. reflexivity.
Qed.

(* one alias (name, major) per type (duplicates are harmless for what is stated) *)
Definition aliases_s (tys : list sver) : list (ident * nat) := map (fun t => (s_name t, s_major t)) tys.

Definition clashes (tys : list sver) (a : ident * nat) : bool :=
  existsb (fun t => id_eqb (alias_id (fst a) (snd a)) (class_id (s_name t) (s_major t) (s_minor t))) tys.

(* the guarded filter: an alias that spells the name of a class of the namespace is dropped *)
Definition aliases_guarded (tys : list sver) : list (ident * nat) := filter (fun a => negb (clashes tys a)) (aliases_s tys).

Theorem alias_never_shadows_class : forall tys a, In a (aliases_guarded tys) ->
  forall t, In t tys -> alias_id (fst a) (snd a) <> class_id (s_name t) (s_major t) (s_minor t).
Proof.
  intros tys a Ha t Ht E. unfold aliases_guarded in Ha. apply filter_In in Ha. destruct Ha as [_ Hc].
  apply negb_true_iff in Hc. unfold clashes in Hc.
  assert (existsb (fun t0 => id_eqb (alias_id (fst a) (snd a)) (class_id (s_name t0) (s_major t0) (s_minor t0))) tys = true).
  { apply existsb_exists. exists t. split; [exact Ht|]. apply id_eqb_eq. exact E. }
  congruence.
Qed.

(* nothing else is dropped: an alias that spells no class name is emitted *)
Theorem alias_kept_unless_clash : forall tys t, In t tys -> clashes tys (s_name t, s_major t) = false ->
  In (s_name t, s_major t) (aliases_guarded tys).
Proof.
  intros tys t Ht Hc. unfold aliases_guarded. apply filter_In. split.
  - unfold aliases_s. apply in_map_iff. exists t. auto.
  - rewrite Hc. reflexivity.
Qed.

(* without the guard the clash exists: Foo 1.0 and Foo_1 0.1 *)
Definition Foo : ident := [70; 111; 111].
Definition Foo_1 : ident := [70; 111; 111; 95; 49].
Definition clash_ns : list sver := [ {| s_name := Foo; s_major := 1; s_minor := 0 |}; {| s_name := Foo_1; s_major := 0; s_minor := 1 |} ].

Theorem alias_clash_witness :
  In (Foo_1, 0) (aliases_s clash_ns) /\
  alias_id Foo_1 0 = class_id Foo 1 0 /\
  alias_id Foo_1 0 = [70; 111; 111; 95; 49; 95; 48] /\                  (* "Foo_1_0" *)
  aliases_guarded clash_ns = [(Foo, 1)].                                   (* the guard drops exactly the clashing alias *)
Proof. split; [right; left; reflexivity|]. split; [vm_compute; reflexivity|]. split; vm_compute; reflexivity. Qed.

Theorem dec_examples : dec 0 = [48] /\ dec 7 = [55] /\ dec 10 = [49; 48] /\ dec 255 = [50; 53; 53].
Proof. repeat split; vm_compute; reflexivity. Qed.
