(* Proofs about the generator-process model Gen/GenState.v (C10). *)
From Verif Require Import GenState.
From Coq Require Import Lia.
Open Scope N_scope.

(* ================= dictionaries ================= *)
Lemma dict_get_set {V} (d : dict V) k v k' :
  dict_get (dict_set d k v) k' = if str_eqb k' k then Some v else dict_get d k'.
Proof.
  induction d as [|[k0 v0] d IH]; cbn [dict_set dict_get].
  - reflexivity.
  - destruct (str_eqb_spec k k0) as [->|Hne]; cbn [dict_get].
    + destruct (str_eqb_spec k' k0); reflexivity.
    + rewrite IH. destruct (str_eqb_spec k' k0) as [->|]; [|reflexivity].
      destruct (str_eqb_spec k0 k); [congruence|reflexivity].
Qed.

(* ================= the translated UniqueNameGenerator ================= *)
Open Scope Z_scope.

(* the counter the generator holds for (key, base); an absent entry counts as 0 *)
Definition uq_lookup (u : UniqueNameGenerator_state) (key base : str) : Z :=
  match dict_get (UniqueNameGenerator_index_map u) key with
  | Some m => match dict_get m base with Some n => n | None => 0 end
  | None => 0
  end.

Lemma uniq_call_spec u k b p s :
  snd (UniqueNameGenerator_call u k b p s) = p ++ b ++ dec_of_Z (uq_lookup u k b) ++ s /\
  forall k' b', uq_lookup (fst (UniqueNameGenerator_call u k b p s)) k' b' =
                if str_eqb k' k && str_eqb b' b then uq_lookup u k b + 1 else uq_lookup u k' b'.
Proof.
  unfold UniqueNameGenerator_call, uq_lookup, dict_sub.
  destruct (dict_get (UniqueNameGenerator_index_map u) k) as [m|] eqn:Hk; cbn [UniqueNameGenerator_index_map].
  - rewrite Hk. destruct (dict_get m b) as [n|] eqn:Hb; cbn [fst snd UniqueNameGenerator_index_map]; (split; [reflexivity|]);
      intros k' b'; rewrite dict_get_set; destruct (str_eqb_spec k' k) as [->|]; cbn [andb]; try reflexivity;
      rewrite dict_get_set; destruct (str_eqb_spec b' b) as [->|]; try reflexivity; rewrite ?Hk, ?Hb; reflexivity.
  - rewrite dict_get_set, str_eqb_refl. cbn [dict_get fst snd UniqueNameGenerator_index_map]. split; [reflexivity|].
    intros k' b'. rewrite !dict_get_set. destruct (str_eqb_spec k' k) as [->|]; cbn [andb].
    + rewrite dict_get_set. cbn [dict_get]. rewrite Hk. destruct (str_eqb_spec b' b); reflexivity.
    + reflexivity.
Qed.

Definition ucall := (str * str * str * str)%type.     (* key, base_token, prefix, suffix *)

Fixpoint uniq_run (u : UniqueNameGenerator_state) (calls : list ucall) : list str :=
  match calls with
  | [] => []
  | (k, b, p, s) :: r => let '(u', name) := UniqueNameGenerator_call u k b p s in name :: uniq_run u' r
  end.

Definition same_counter (a b : str * str) : bool := str_eqb (fst a) (fst b) && str_eqb (snd a) (snd b).
Definition occurrences (seen : list (str * str)) (kb : str * str) : nat := length (filter (same_counter kb) seen).

(* the specification: the number in a name is the number of EARLIER calls of this file with the same (key, base) *)
Fixpoint names_spec (seen : list (str * str)) (calls : list ucall) : list str :=
  match calls with
  | [] => []
  | (k, b, p, s) :: r => (p ++ b ++ dec_of_Z (Z.of_nat (occurrences seen (k, b))) ++ s) :: names_spec ((k, b) :: seen) r
  end.

Lemma uniq_run_spec calls : forall u seen,
  (forall k b, uq_lookup u k b = Z.of_nat (occurrences seen (k, b))) ->
  uniq_run u calls = names_spec seen calls.
Proof.
  induction calls as [|[[[k b] p] s] r IH]; intros u seen Hinv; cbn [uniq_run names_spec]; [reflexivity|].
  destruct (uniq_call_spec u k b p s) as [Hn Hu].
  destruct (UniqueNameGenerator_call u k b p s) as [u' name] eqn:E. cbn [fst snd] in *.
  rewrite Hn, Hinv. f_equal. apply IH. intros k' b'. rewrite Hu.
  unfold occurrences. cbn [filter]. unfold same_counter at 1. cbn [fst snd].
  destruct (str_eqb_spec k' k) as [->|]; cbn [andb]; [destruct (str_eqb_spec b' b) as [->|]|]; cbn [andb].
  - cbn [length]. rewrite Hinv. unfold occurrences. lia.
  - apply Hinv.
  - apply Hinv.
Qed.

Theorem uniq_reset_lemma (calls : list ucall) : uniq_run UniqueNameGenerator_init calls = names_spec [] calls.
Proof. apply uniq_run_spec. intros k b. reflexivity. Qed.

Open Scope N_scope.

(* ================= memo tables ================= *)
Lemma ckey_eqb_eq a b : ckey_eqb a b = true -> a = b.
Proof.
  destruct a as [a1 a2], b as [b1 b2]. unfold ckey_eqb. cbn [fst snd]. intros H.
  apply andb_true_iff in H as [H1 H2]. apply N.eqb_eq in H1. destruct (str_eqb_spec a2 b2); congruence.
Qed.

Definition cache_ok (f : ckey -> str) (c : cache) : Prop := Forall (fun e => snd e = f (fst e)) c.

Lemma cache_get_ok f c k v : cache_ok f c -> cache_get c k = Some v -> v = f k.
Proof.
  induction 1 as [|[k0 v0] c H0 _ IH]; cbn [cache_get]; [discriminate|].
  destruct (ckey_eqb k k0) eqn:E.
  - intros [= <-]. apply ckey_eqb_eq in E. subst. exact H0.
  - exact IH.
Qed.

Lemma cache_remove_ok f c k : cache_ok f c -> cache_ok f (cache_remove c k).
Proof.
  induction 1 as [|[k0 v0] c H0 Hc IH]; cbn [cache_remove]; [constructor|].
  destruct (ckey_eqb k k0); [exact Hc | constructor; assumption].
Qed.

Lemma firstn_Forall {A} (P : A -> Prop) n l : Forall P l -> Forall P (firstn n l).
Proof. revert l; induction n; intros l H; cbn; [constructor|]. destruct H; constructor; auto. Qed.

(* a call through the cache returns what the function returns, whatever was called before, whatever maxsize *)
Theorem lru_call_transparent f maxsize c k :
  cache_ok f c -> snd (lru_call f maxsize c k) = f k /\ cache_ok f (fst (lru_call f maxsize c k)).
Proof.
  intros Hc. unfold lru_call. destruct (cache_get c k) as [v|] eqn:E; cbn [fst snd].
  - pose proof (cache_get_ok f c k v Hc E) as ->. split; [reflexivity|].
    constructor; [reflexivity | apply cache_remove_ok, Hc].
  - split; [reflexivity|]. assert (H : cache_ok f ((k, f k) :: c)) by (constructor; [reflexivity|exact Hc]).
    destruct maxsize; cbn [cache_trim]; [apply firstn_Forall|]; exact H.
Qed.

(* ================= rendering ================= *)
Section RunThm.
  Variable U : universe.
  Variable render : N -> tyobj -> prog.
  Variable cfun : ckey -> str.
  Variable maxsize : option nat.

  (* the program run without any memo table *)
  Fixpoint prog_out (self : N) (p : prog) (u : UniqueNameGenerator_state) : UniqueNameGenerator_state * list str :=
    match p with
    | PDone => (u, [])
    | PEmit s k => let '(u', out) := prog_out self k u in (u', s :: out)
    | PUniq key base pre suf k =>
        let '(u1, name) := UniqueNameGenerator_call u key base pre suf in prog_out self (k name) u1
    | PMemo q k => prog_out self (k (cfun (self, q))) u
    end.

  Lemma run_prog_transparent self p : forall u c,
    cache_ok cfun c ->
    (fst (fst (run_prog cfun maxsize self p u c)), snd (run_prog cfun maxsize self p u c)) = prog_out self p u /\
    cache_ok cfun (snd (fst (run_prog cfun maxsize self p u c))).
  Proof.
    induction p as [|s k IH|key base pre suf k IH|q k IH]; intros u c Hc; cbn [run_prog prog_out].
    - split; [reflexivity|exact Hc].
    - destruct (IH u c Hc) as [H1 H2]. destruct (run_prog cfun maxsize self k u c) as [[u' c'] out].
      cbn [fst snd] in *. rewrite <- H1. split; [reflexivity|exact H2].
    - destruct (UniqueNameGenerator_call u key base pre suf) as [u1 name]. apply IH, Hc.
    - destruct (lru_call_transparent cfun maxsize c (self, q) Hc) as [Hv Hc'].
      destruct (lru_call cfun maxsize c (self, q)) as [c1 v]. cbn [fst snd] in *. subst v. apply IH, Hc'.
  Qed.

  Variable lel_shared : bool.

  Notation gen_file := (gen_file render cfun maxsize true lel_shared).
  Notation alone := (alone render cfun maxsize true lel_shared).

  Definition pure_chunks (cf : N) (o : tyobj) : list str := snd (prog_out cf (render cf o) UniqueNameGenerator_init).

  (* with reset() in place the file and the processor state after it are a function of (configuration, type object,
     processor state before) -- not of the unique-name state, not of the memo table *)
  Lemma gen_file_spec cf u c ps o :
    cache_ok cfun c ->
    cache_ok cfun (snd (fst (fst (gen_file cf u c ps o)))) /\
    (snd (fst (gen_file cf u c ps o)), snd (gen_file cf u c ps o)) =
      write_file (if lel_shared then ps else map pp_fresh ps) (pure_chunks cf o).
  Proof.
    intros Hc. unfold GenState.gen_file, pure_chunks.
    destruct (run_prog_transparent cf (render cf o) UniqueNameGenerator_init c Hc) as [H1 H2].
    destruct (run_prog cfun maxsize cf (render cf o) UniqueNameGenerator_init c) as [[u1 c1] chunks].
    cbn [fst snd] in *. rewrite <- H1. cbn [snd].
    destruct (write_file (if lel_shared then ps else map pp_fresh ps) chunks) as [ps1 text]. cbn [fst snd].
    split; [exact H2|reflexivity].
  Qed.

  Lemma alone_spec cf pps0 o :
    alone cf pps0 o = snd (write_file (if lel_shared then pps0 else map pp_fresh pps0) (pure_chunks cf o)).
  Proof.
    unfold GenState.alone. destruct (gen_file_spec cf UniqueNameGenerator_init [] pps0 o (Forall_nil _)) as [_ H].
    rewrite <- H. reflexivity.
  Qed.

  Lemma pp_fresh_clean p : pp_clean p = true -> pp_fresh p = p.
  Proof.
    destruct p as [|[m c]]; cbn; [reflexivity|]. intros H. apply Z.eqb_eq in H. subst. reflexivity.
  Qed.

  Lemma pps_fresh_clean ps : pps_clean ps = true -> map pp_fresh ps = ps.
  Proof.
    induction ps as [|p ps IH]; cbn; [reflexivity|]. intros H. apply andb_true_iff in H as [H1 H2].
    rewrite pp_fresh_clean, IH; auto.
  Qed.

  Lemma pp_fresh_idem p : pp_fresh (pp_fresh p) = pp_fresh p.
  Proof. destruct p as [|[m c]]; reflexivity. Qed.

  Lemma pps_fresh_idem ps : map pp_fresh (map pp_fresh ps) = map pp_fresh ps.
  Proof. rewrite map_map. apply map_ext, pp_fresh_idem. Qed.

  (* what the statements say about one written file *)
  Definition entry_ok (e : entry) : Prop :=
    (exists ins, resolve_in U ins (e_key e) = Some (e_obj e)) /\
    ((lel_shared = false \/ e_clean e = true) -> e_text e = alone (e_cfg e) (e_pps0 e) (e_obj e)).

  Notation run_types := (run_types U render cfun maxsize true lel_shared).

  Lemma run_types_ok cf ins order : forall u c ps,
    cache_ok cfun c ->
    cache_ok cfun (snd (fst (fst (run_types cf ins u c ps order)))) /\
    Forall entry_ok (snd (run_types cf ins u c ps order)).
  Proof.
    induction order as [|k order IH]; intros u c ps Hc; cbn [GenState.run_types].
    - split; [exact Hc|constructor].
    - destruct (resolve_in U ins k) as [o|] eqn:Hr; [|apply IH, Hc].
      destruct (gen_file_spec cf u c ps o Hc) as [Hc1 Hw].
      destruct (gen_file cf u c ps o) as [[[u1 c1] ps1] text]. cbn [fst snd] in *.
      destruct (IH u1 c1 ps1 Hc1) as [Hc2 Hes].
      destruct (run_types cf ins u1 c1 ps1 order) as [[[u2 c2] ps2] es]. cbn [fst snd] in *.
      split; [exact Hc2|]. constructor; [|exact Hes].
      split; cbn [e_key e_obj e_clean e_text e_cfg e_pps0].
      + exists ins. exact Hr.
      + intros Hside. rewrite alone_spec. destruct lel_shared.
        * destruct Hside as [Hf|Hcl]; [discriminate|]. rewrite (pps_fresh_clean ps Hcl). rewrite <- Hw. reflexivity.
        * rewrite pps_fresh_idem, <- Hw. reflexivity.
  Qed.

  Notation op_step := (op_step U render cfun maxsize true lel_shared).
  Notation exec := (exec U render cfun maxsize true lel_shared).

  Lemma op_step_ok s o :
    cache_ok cfun (p_cache s) ->
    cache_ok cfun (p_cache (fst (op_step s o))) /\ Forall entry_ok (snd (op_step s o)).
  Proof.
    intros Hc. destruct o as [cf pps ins|gid order|]; cbn [GenState.op_step fst snd p_cache].
    - split; [exact Hc|constructor].
    - destruct (nth_error (p_gens s) gid) as [g|]; [|split; [exact Hc|constructor]].
      destruct (run_types_ok (go_cfg g) (go_inputs g) order (p_uniq s) (p_cache s) (go_pps g) Hc) as [H1 H2].
      destruct (run_types (go_cfg g) (go_inputs g) (p_uniq s) (p_cache s) (go_pps g) order) as [[[u1 c1] ps1] es].
      cbn [fst snd p_cache] in *. split; assumption.
    - split; constructor.
  Qed.

  Lemma exec_ok h : forall s,
    cache_ok cfun (p_cache s) -> Forall entry_ok (snd (exec s h)).
  Proof.
    induction h as [|o h IH]; intros s Hc; cbn [GenState.exec]; [constructor|].
    destruct (op_step_ok s o Hc) as [H1 H2]. destruct (op_step s o) as [s1 es1]. cbn [fst snd] in *.
    specialize (IH s1 H1). destruct (exec s1 h) as [s2 es2]. cbn [snd] in *.
    apply Forall_app. split; assumption.
  Qed.

  Theorem log_entries_ok h : Forall entry_ok (log U render cfun maxsize true lel_shared h).
  Proof. unfold log. apply exec_ok. constructor. Qed.
End RunThm.

(* ================= the dependency closure ================= *)
Lemma map_opt_indep {A B} (f g : A -> option B) l : forall r1 r2,
  (forall a b1 b2, In a l -> f a = Some b1 -> g a = Some b2 -> b1 = b2) ->
  map_opt f l = Some r1 -> map_opt g l = Some r2 -> r1 = r2.
Proof.
  induction l as [|a l IH]; cbn [map_opt]; intros r1 r2 H H1 H2.
  - congruence.
  - destruct (f a) as [b1|] eqn:Ef; [|discriminate]. destruct (map_opt f l) as [bs1|] eqn:E1; [|discriminate].
    destruct (g a) as [b2|] eqn:Eg; [|discriminate]. destruct (map_opt g l) as [bs2|] eqn:E2; [|discriminate].
    injection H1 as <-. injection H2 as <-. f_equal.
    + apply (H a); [left; reflexivity|assumption|assumption].
    + apply IH; [|reflexivity|reflexivity]. intros a' b1' b2' Hin. apply H. right. exact Hin.
Qed.

(* the object built for k is the same in every input set that contains k's dependency closure *)
Theorem resolve_indep_lemma U : forall f1 f2 I1 I2 k o1 o2,
  resolve f1 U I1 k = Some o1 -> resolve f2 U I2 k = Some o2 -> o1 = o2.
Proof.
  induction f1 as [|f1 IH]; intros f2 I1 I2 k o1 o2 H1 H2; [discriminate|].
  destruct f2 as [|f2]; [discriminate|]. cbn [resolve] in H1, H2.
  destruct (str_in k I1); [|discriminate]. destruct (str_in k I2); [|discriminate].
  destruct (dict_get U k) as [d|]; [|discriminate].
  destruct (map_opt (resolve f1 U I1) (d_deps d)) as [os1|] eqn:E1; [|discriminate].
  destruct (map_opt (resolve f2 U I2) (d_deps d)) as [os2|] eqn:E2; [|discriminate].
  injection H1 as <-. injection H2 as <-. f_equal.
  eapply map_opt_indep; [|exact E1|exact E2]. intros a b1 b2 _ Ha Hb. eapply IH; eassumption.
Qed.

(* ================= per-type independence ================= *)
Section Indep.
  Variable U : universe.
  Variable render : N -> tyobj -> prog.
  Variable cfun : ckey -> str.

  Theorem file_indep_lemma (lel_shared : bool) (m1 m2 : option nat) (h1 h2 : list op) (e1 e2 : entry) :
    In e1 (log U render cfun m1 true lel_shared h1) -> In e2 (log U render cfun m2 true lel_shared h2) ->
    e_cfg e1 = e_cfg e2 -> e_pps0 e1 = e_pps0 e2 -> e_key e1 = e_key e2 ->
    (lel_shared = false \/ (e_clean e1 = true /\ e_clean e2 = true)) ->
    e_text e1 = e_text e2.
  Proof.
    intros H1 H2 Hc Hp Hk Hside.
    pose proof (log_entries_ok U render cfun m1 lel_shared h1) as F1.
    pose proof (log_entries_ok U render cfun m2 lel_shared h2) as F2.
    rewrite Forall_forall in F1, F2. destruct (F1 e1 H1) as [[i1 R1] A1]. destruct (F2 e2 H2) as [[i2 R2] A2].
    rewrite Hk in R1. pose proof (resolve_indep_lemma U _ _ _ _ _ _ _ R1 R2) as Ho.
    rewrite A1, A2 by (destruct Hside as [?|[? ?]]; auto).
    rewrite !alone_spec, Hc, Hp, Ho. reflexivity.
  Qed.
End Indep.

(* ================= the witness of F-LEL-LEAK ================= *)
Definition w_U : universe := [([65], {| d_body := []; d_deps := [] |}); ([66], {| d_body := []; d_deps := [] |})].
Definition w_tab : list (ckey * list item) :=
  [((1, [65]), [IText [97; 10; 10]]); ((1, [66]), [IText [10; 98]])].
Definition w_pps : list pp := [PLimit (LimitEmptyLines_init 1)].
Definition w_hist_whole : list op := [ONew 1 w_pps [[65]; [66]]; ORun 0 [[65]; [66]]].
Definition w_hist_subset : list op := [ONew 1 w_pps [[66]]; ORun 0 [[66]]].

Lemma lel_leak_witness :
  map e_text (exec_table w_U w_tab None true true w_hist_whole) = [[97; 10; 10]; [98]] /\
  map e_text (exec_table w_U w_tab None true true w_hist_subset) = [[10; 98]].
Proof. vm_compute. split; reflexivity. Qed.

(* the unrestricted statement is false of the model of the code as it is *)
Theorem lel_leak_refuted_lemma :
  exists (U : universe) (render : N -> tyobj -> prog) (cfun : ckey -> str) (h1 h2 : list op) (e1 e2 : entry),
    In e1 (log U render cfun None true true h1) /\ In e2 (log U render cfun None true true h2) /\
    e_cfg e1 = e_cfg e2 /\ e_pps0 e1 = e_pps0 e2 /\ e_key e1 = e_key e2 /\ e_text e1 <> e_text e2.
Proof.
  exists w_U, (table_render w_tab), table_cfun, w_hist_whole, w_hist_subset.
  pose (d := {| e_cfg := 0; e_pps0 := []; e_key := []; e_obj := TyObj [] [] []; e_clean := true; e_text := [] |}).
  exists (nth 1 (log w_U (table_render w_tab) table_cfun None true true w_hist_whole) d).
  exists (nth 0 (log w_U (table_render w_tab) table_cfun None true true w_hist_subset) d).
  vm_compute. repeat split; try (right; left; reflexivity); try (left; reflexivity). discriminate.
Qed.
