(* Proofs about the generator-process model Gen/GenState.v (C10). *)
From Verif Require Import GenState.
From Verif Require Lookup LookupThm.
From Coq Require Import Lia.
Open Scope N_scope.

(* ================= dictionaries ================= *)
Lemma dict_get_set {V} (d : dict V) k v k' :
  dict_get (dict_set d k v) k' = if str_eqb k' k then Some v else dict_get d k'.
Proof.
  induction d as [|[k0 v0] d IH]; cbn [dict_set dict_get].
  - reflexivity.
  - destruct (str_eqb_spec k k0) as [->|Hne]; cbn [dict_get].
    + destruct (str_eqb_spec k' k0); reflexivity.
    + rewrite IH. destruct (str_eqb_spec k' k0) as [->|]; [|reflexivity].
      destruct (str_eqb_spec k0 k); [congruence|reflexivity].
Qed.

(* ================= the translated UniqueNameGenerator ================= *)
Open Scope Z_scope.

(* the counter the generator holds for (key, base); an absent entry counts as 0 *)
Definition uq_lookup (u : UniqueNameGenerator_state) (key base : str) : Z :=
  match dict_get (UniqueNameGenerator_index_map u) key with
  | Some m => match dict_get m base with Some n => n | None => 0 end
  | None => 0
  end.

Lemma uniq_call_spec u k b p s :
  snd (UniqueNameGenerator_call u k b p s) = p ++ b ++ dec_of_Z (uq_lookup u k b) ++ s /\
  forall k' b', uq_lookup (fst (UniqueNameGenerator_call u k b p s)) k' b' =
                if str_eqb k' k && str_eqb b' b then uq_lookup u k b + 1 else uq_lookup u k' b'.
Proof.
  unfold UniqueNameGenerator_call, uq_lookup, dict_sub.
  destruct (dict_get (UniqueNameGenerator_index_map u) k) as [m|] eqn:Hk; cbn [UniqueNameGenerator_index_map].
  - rewrite Hk. destruct (dict_get m b) as [n|] eqn:Hb; cbn [fst snd UniqueNameGenerator_index_map]; (split; [reflexivity|]);
      intros k' b'; rewrite dict_get_set; destruct (str_eqb_spec k' k) as [->|]; cbn [andb]; try reflexivity;
      rewrite dict_get_set; destruct (str_eqb_spec b' b) as [->|]; try reflexivity; rewrite ?Hk, ?Hb; reflexivity.
  - rewrite dict_get_set, str_eqb_refl. cbn [dict_get fst snd UniqueNameGenerator_index_map]. split; [reflexivity|].
    intros k' b'. rewrite !dict_get_set. destruct (str_eqb_spec k' k) as [->|]; cbn [andb].
    + rewrite dict_get_set. cbn [dict_get]. rewrite Hk. destruct (str_eqb_spec b' b); reflexivity.
    + reflexivity.
Qed.

Definition ucall := (str * str * str * str)%type.     (* key, base_token, prefix, suffix *)

Fixpoint uniq_run (u : UniqueNameGenerator_state) (calls : list ucall) : list str :=
  match calls with
  | [] => []
  | (k, b, p, s) :: r => let '(u', name) := UniqueNameGenerator_call u k b p s in name :: uniq_run u' r
  end.

Definition same_counter (a b : str * str) : bool := str_eqb (fst a) (fst b) && str_eqb (snd a) (snd b).
Definition occurrences (seen : list (str * str)) (kb : str * str) : nat := length (filter (same_counter kb) seen).

(* the specification: the number in a name is the number of EARLIER calls of this file with the same (key, base) *)
Fixpoint names_spec (seen : list (str * str)) (calls : list ucall) : list str :=
  match calls with
  | [] => []
  | (k, b, p, s) :: r => (p ++ b ++ dec_of_Z (Z.of_nat (occurrences seen (k, b))) ++ s) :: names_spec ((k, b) :: seen) r
  end.

Lemma uniq_run_spec calls : forall u seen,
  (forall k b, uq_lookup u k b = Z.of_nat (occurrences seen (k, b))) ->
  uniq_run u calls = names_spec seen calls.
Proof.
  induction calls as [|[[[k b] p] s] r IH]; intros u seen Hinv; cbn [uniq_run names_spec]; [reflexivity|].
  destruct (uniq_call_spec u k b p s) as [Hn Hu].
  destruct (UniqueNameGenerator_call u k b p s) as [u' name] eqn:E. cbn [fst snd] in *.
  rewrite Hn, Hinv. f_equal. apply IH. intros k' b'. rewrite Hu.
  unfold occurrences. cbn [filter]. unfold same_counter at 1. cbn [fst snd].
  destruct (str_eqb_spec k' k) as [->|]; cbn [andb]; [destruct (str_eqb_spec b' b) as [->|]|]; cbn [andb].
  - cbn [length]. rewrite Hinv. unfold occurrences. lia.
  - apply Hinv.
  - apply Hinv.
Qed.

Theorem uniq_reset_lemma (calls : list ucall) : uniq_run UniqueNameGenerator_init calls = names_spec [] calls.
Proof. apply uniq_run_spec. intros k b. reflexivity. Qed.

Open Scope N_scope.

(* ================= memo tables ================= *)
Lemma ckey_eqb_eq a b : ckey_eqb a b = true -> a = b.
Proof.
  destruct a as [a1 a2], b as [b1 b2]. unfold ckey_eqb. cbn [fst snd]. intros H.
  apply andb_true_iff in H as [H1 H2]. apply N.eqb_eq in H1. destruct (str_eqb_spec a2 b2); congruence.
Qed.

Definition cache_ok (f : ckey -> str) (c : cache) : Prop := Forall (fun e => snd e = f (fst e)) c.

Lemma cache_get_ok f c k v : cache_ok f c -> cache_get c k = Some v -> v = f k.
Proof.
  induction 1 as [|[k0 v0] c H0 _ IH]; cbn [cache_get]; [discriminate|].
  destruct (ckey_eqb k k0) eqn:E.
  - intros [= <-]. apply ckey_eqb_eq in E. subst. exact H0.
  - exact IH.
Qed.

Lemma cache_remove_ok f c k : cache_ok f c -> cache_ok f (cache_remove c k).
Proof.
  induction 1 as [|[k0 v0] c H0 Hc IH]; cbn [cache_remove]; [constructor|].
  destruct (ckey_eqb k k0); [exact Hc | constructor; assumption].
Qed.

Lemma firstn_Forall {A} (P : A -> Prop) n l : Forall P l -> Forall P (firstn n l).
Proof. revert l; induction n; intros l H; cbn; [constructor|]. destruct H; constructor; auto. Qed.

(* a call through the cache returns what the function returns, whatever was called before, whatever maxsize *)
Theorem lru_call_transparent f maxsize c k :
  cache_ok f c -> snd (lru_call f maxsize c k) = f k /\ cache_ok f (fst (lru_call f maxsize c k)).
Proof.
  intros Hc. unfold lru_call. destruct (cache_get c k) as [v|] eqn:E; cbn [fst snd].
  - pose proof (cache_get_ok f c k v Hc E) as ->. split; [reflexivity|].
    constructor; [reflexivity | apply cache_remove_ok, Hc].
  - split; [reflexivity|]. assert (H : cache_ok f ((k, f k) :: c)) by (constructor; [reflexivity|exact Hc]).
    destruct maxsize; cbn [cache_trim]; [apply firstn_Forall|]; exact H.
Qed.

(* ================= rendering ================= *)
Section RunThm.
  Variable U : universe.
  Variable bases : N -> list N.
  Variable cname : N -> str.
  Variable fuel : nat.
  Variable rank : N -> nat.
  (* the pydsdl class graph is a forest (single inheritance below object) of depth < fuel; C16 proves these hypotheses of
     the regenerated class table (C16_real_forest_hypotheses), the C10 check tests them on the table it hands to the model *)
  Hypothesis Hsingle : forall c, (length (bases c) <= 1)%nat.
  Hypothesis Hrank : forall c p, In p (bases c) -> (rank p < rank c)%nat.
  Hypothesis Hfuel : forall c, (rank c < fuel)%nat.
  (* the regenerated inventories and the premises about them *)
  Variable sites : list site.
  Variable stores : list store.
  Variable rfacts : bool.
  Hypothesis Hsites : forallb site_ok sites = true.                 (* every memoisation site is keyed by identity/value, values unmodified *)
  Hypothesis Hstores : forallb (store_ok rfacts) stores = true.     (* every render-phase store is reset per file / per call / a memo *)
  Variable reads : list wread.
  Hypothesis Hreads : forallb read_ok reads = true.                 (* every read beyond a type's closure is accounted for *)
  Variable render : ambient -> list (list N) -> N -> option str -> tyobj -> prog.
  (* NAMED PREMISE: which program a template is does not depend on the process state -- rendering consults the process only
     through unique names, memoised callables and inventoried long-lived attributes (the operations of `prog`) *)
  Hypothesis render_pure : forall (a1 a2 : ambient) I cf tmpl o, render a1 I cf tmpl o = render a2 I cf tmpl o.
  Variable cfun : ckey -> str.
  Variable maxsize : option nat.

  Lemma reads_no_leak : reads_leak reads = false.
  Proof. unfold reads_leak. rewrite Hreads. reflexivity. Qed.

  Definition amb0 : ambient := (UniqueNameGenerator_init, [], [], [], []).

  Lemma memo_proj_id i k : memo_proj sites i k = k.
  Proof.
    unfold memo_proj. destruct (nth_error sites i) as [st|] eqn:E; [|reflexivity].
    rewrite forallb_forall in Hsites. rewrite (Hsites st (nth_error_In _ _ E)). reflexivity.
  Qed.

  Lemma stores_no_leak : stores_leak rfacts stores = false.
  Proof. unfold stores_leak. rewrite Hstores. reflexivity. Qed.

  (* the program run without any memo table, seeing nothing of earlier files *)
  Fixpoint prog_out (self : N) (p : prog) (u : UniqueNameGenerator_state) : UniqueNameGenerator_state * list str :=
    match p with
    | PDone => (u, [])
    | PEmit s k => let '(u', out) := prog_out self k u in (u', s :: out)
    | PUniq key base pre suf k =>
        let '(u1, name) := UniqueNameGenerator_call u key base pre suf in prog_out self (k name) u1
    | PMemo i q k => prog_out self (k (cfun (self, q))) u
    | PPeek k => prog_out self (k []) u
    end.

  Notation run_prog := (run_prog sites cfun maxsize).

  Lemma run_prog_transparent self p : forall u c,
    cache_ok cfun c ->
    (fst (fst (run_prog [] self p u c)), snd (run_prog [] self p u c)) = prog_out self p u /\
    cache_ok cfun (snd (fst (run_prog [] self p u c))).
  Proof.
    induction p as [|s k IH|key base pre suf k IH|i q k IH|k IH]; intros u c Hc; cbn [GenState.run_prog prog_out].
    - split; [reflexivity|exact Hc].
    - destruct (IH u c Hc) as [H1 H2]. destruct (run_prog [] self k u c) as [[u' c'] out].
      cbn [fst snd] in *. rewrite <- H1. split; [reflexivity|exact H2].
    - destruct (UniqueNameGenerator_call u key base pre suf) as [u1 name]. apply IH, Hc.
    - assert (Hp : proj_call (memo_proj sites i) cfun maxsize c (self, q) = lru_call cfun maxsize c (self, q)).
      { unfold proj_call, lru_call. rewrite memo_proj_id. reflexivity. }
      rewrite Hp. destruct (lru_call_transparent cfun maxsize c (self, q) Hc) as [Hv Hc'].
      destruct (lru_call cfun maxsize c (self, q)) as [c1 v]. cbn [fst snd] in *. subst v. apply IH, Hc'.
    - apply IH, Hc.
  Qed.

  (* ---- template selection: the template is the one of the nearest class of the inheritance chain that has one in the
     listing -- a function of (class, listing) only, whatever the loader memo has seen before (C16's lemmas) ---- *)
  Definition spec_select (ts : list (str * str)) (cl : N) : option str :=
    Lookup.nearest (Lookup.tmap cname ts) (LookupThm.chain bases rank cl).

  Definition memo_ok (ts : list (str * str)) (memo : Lookup.cache) : Prop := LookupThm.consistent (Lookup.tmap cname ts) Lookup.W_FS memo.

  Lemma select_transparent ts memo cl :
    memo_ok ts memo ->
    snd (select bases cname fuel ts memo cl) = spec_select ts cl /\ memo_ok ts (fst (select bases cname fuel ts memo cl)).
  Proof.
    intros Hm. unfold select.
    rewrite (LookupThm.bfs_scan bases rank Hsingle Hrank (Lookup.tmap cname ts) Lookup.W_FS fuel cl [] memo (Hfuel cl))
      by (intros d []).
    destruct (LookupThm.scan (Lookup.tmap cname ts) Lookup.W_FS memo (LookupThm.chain bases rank cl)) as [m' r] eqn:E.
    destruct (LookupThm.scan_consistent _ _ _ _ _ _ Hm E) as [H1 H2]. cbn [fst snd]. split; assumption.
  Qed.

  Variable lel_shared : bool.

  Notation gen_file := (gen_file bases cname fuel sites stores rfacts reads render cfun maxsize true lel_shared).
  Notation alone := (alone bases cname fuel sites stores rfacts reads render cfun maxsize true lel_shared).

  Definition pure_chunks (cf : N) (tmpl : option str) (o : tyobj) : list str :=
    snd (prog_out cf (render amb0 [] cf tmpl o) UniqueNameGenerator_init).

  (* what a file must be: selected template and text as a function of (configuration, listing, type object, processors) *)
  Definition file_spec (cf : N) (ts : list (str * str)) (ps : list pp) (o : tyobj) : list pp * (option str * str) :=
    let tmpl := spec_select ts (obj_cls o) in
    let '(ps1, text) := write_file (if lel_shared then ps else map pp_fresh ps) (pure_chunks cf tmpl o) in
    (ps1, (tmpl, text)).

  (* with reset() in place the file, the template chosen for it and the processor state after it are a function of
     (configuration, template listing, type object, processor state before) -- not of the unique-name state, not of the
     memo tables, not of the loader memo *)
  Lemma gen_file_spec cf ts I memo u c ps sc o :
    cache_ok cfun c -> memo_ok ts memo ->
    let r := gen_file cf ts I memo u c ps sc o in
    memo_ok ts (fst (fst (fst (fst r)))) /\ cache_ok cfun (snd (fst (fst r))) /\
    (snd (fst r), snd r) = file_spec cf ts ps o.
  Proof.
    intros Hc Hm. unfold GenState.gen_file, file_spec, pure_chunks.
    destruct (select_transparent ts memo (obj_cls o) Hm) as [Hs Hm1].
    destruct (select bases cname fuel ts memo (obj_cls o)) as [memo1 tmpl]. cbn [fst snd] in Hs, Hm1. subst tmpl.
    rewrite stores_no_leak, reads_no_leak. rewrite (render_pure (u, c, memo, ps, sc) amb0).
    destruct (run_prog_transparent cf (render amb0 [] cf (spec_select ts (obj_cls o)) o) UniqueNameGenerator_init c Hc) as [H1 H2].
    destruct (run_prog [] cf (render amb0 [] cf (spec_select ts (obj_cls o)) o) UniqueNameGenerator_init c) as [[u1 c1] chunks].
    cbn [fst snd] in *. rewrite <- H1. cbn [snd].
    destruct (write_file (if lel_shared then ps else map pp_fresh ps) chunks) as [ps1 text]. cbn [fst snd].
    split; [exact Hm1|]. split; [exact H2|reflexivity].
  Qed.

  Lemma alone_spec cf ts pps0 o : alone cf ts pps0 o = snd (file_spec cf ts pps0 o).
  Proof.
    unfold GenState.alone.
    destruct (gen_file_spec cf ts [] [] UniqueNameGenerator_init [] pps0 [] o (Forall_nil _) (LookupThm.consistent_nil _ _)) as (_ & _ & H).
    rewrite <- H. reflexivity.
  Qed.

  Lemma pp_fresh_clean p : pp_clean p = true -> pp_fresh p = p.
  Proof.
    destruct p as [|[m c]]; cbn; [reflexivity|]. intros H. apply Z.eqb_eq in H. subst. reflexivity.
  Qed.

  Lemma pps_fresh_clean ps : pps_clean ps = true -> map pp_fresh ps = ps.
  Proof.
    induction ps as [|p ps IH]; cbn; [reflexivity|]. intros H. apply andb_true_iff in H as [H1 H2].
    rewrite pp_fresh_clean, IH; auto.
  Qed.

  Lemma pp_fresh_idem p : pp_fresh (pp_fresh p) = pp_fresh p.
  Proof. destruct p as [|[m c]]; reflexivity. Qed.

  Lemma pps_fresh_idem ps : map pp_fresh (map pp_fresh ps) = map pp_fresh ps.
  Proof. rewrite map_map. apply map_ext, pp_fresh_idem. Qed.

  Lemma file_spec_fresh cf ts ps o :
    (lel_shared = false \/ pps_clean ps = true) -> snd (file_spec cf ts (map pp_fresh ps) o) = snd (file_spec cf ts ps o).
  Proof.
    intros Hside. unfold file_spec. destruct lel_shared.
    - destruct Hside as [Hf|Hcl]; [discriminate|]. rewrite (pps_fresh_clean ps Hcl). reflexivity.
    - rewrite pps_fresh_idem. reflexivity.
  Qed.

  (* what the statements say about one written file *)
  Definition entry_ok (e : entry) : Prop :=
    (exists ins, resolve_in U ins (e_key e) = Some (e_obj e)) /\
    e_tmpl e = spec_select (e_tset e) (obj_cls (e_obj e)) /\
    ((lel_shared = false \/ e_clean e = true) -> (e_tmpl e, e_text e) = alone (e_cfg e) (e_tset e) (e_pps0 e) (e_obj e)).

  Notation run_types := (run_types U bases cname fuel sites stores rfacts reads render cfun maxsize true lel_shared).

  Lemma run_types_ok cf ts ins order : forall memo u c ps sc,
    cache_ok cfun c -> memo_ok ts memo ->
    let r := run_types cf ts ins memo u c ps sc order in
    memo_ok ts (fst (fst (fst (fst (fst r))))) /\ cache_ok cfun (snd (fst (fst (fst r)))) /\ Forall entry_ok (snd r).
  Proof.
    induction order as [|k order IH]; intros memo u c ps sc Hc Hm; cbn [GenState.run_types].
    - cbn [fst snd]. repeat split; [exact Hm|exact Hc|constructor].
    - destruct (resolve_in U ins k) as [o|] eqn:Hr; [|apply IH; assumption].
      pose proof (gen_file_spec cf ts ins memo u c ps sc o Hc Hm) as Hg. cbv zeta in Hg.
      destruct (gen_file cf ts ins memo u c ps sc o) as [[[[m1 u1] c1] ps1] res]. cbn [fst snd] in Hg.
      destruct Hg as (Hm1 & Hc1 & Hw).
      pose proof (IH m1 u1 c1 ps1 (sc ++ [k]) Hc1 Hm1) as Hi. cbv zeta in Hi.
      destruct (run_types cf ts ins m1 u1 c1 ps1 (sc ++ [k]) order) as [[[[[m2 u2] c2] ps2] sc2] es]. cbn [fst snd] in *.
      destruct Hi as (Hm2 & Hc2 & Hes).
      split; [exact Hm2|]. split; [exact Hc2|]. constructor; [|exact Hes].
      assert (Hres : res = snd (file_spec cf ts ps o)) by (rewrite <- Hw; reflexivity).
      split; [|split]; cbn [e_key e_obj e_clean e_text e_cfg e_pps0 e_tset e_tmpl].
      + exists ins. exact Hr.
      + rewrite Hres. unfold file_spec.
        destruct (write_file (if lel_shared then ps else map pp_fresh ps) (pure_chunks cf (spec_select ts (obj_cls o)) o)).
        reflexivity.
      + intros Hside. rewrite alone_spec, (file_spec_fresh cf ts ps o Hside), <- Hres. destruct res; reflexivity.
  Qed.

  Lemma dry_types_ok ts ins order : forall memo, memo_ok ts memo -> memo_ok ts (dry_types U bases cname fuel ts ins memo order).
  Proof.
    induction order as [|k order IH]; intros memo Hm; cbn [dry_types]; [exact Hm|].
    destruct (resolve_in U ins k) as [o|]; [|apply IH, Hm].
    apply IH. exact (proj2 (select_transparent ts memo (obj_cls o) Hm)).
  Qed.

  Notation op_step := (op_step U bases cname fuel sites stores rfacts reads render cfun maxsize true lel_shared).
  Notation exec := (exec U bases cname fuel sites stores rfacts reads render cfun maxsize true lel_shared).

  (* invariant of the process state: the function memo and every generator's loader memo only hold true entries *)
  Definition pstate_ok (s : pstate) : Prop :=
    cache_ok cfun (p_cache s) /\ Forall (fun g => memo_ok (go_tset g) (go_memo g)) (p_gens s).

  Lemma set_nth_Forall {A} (P : A -> Prop) n x l : Forall P l -> P x -> Forall P (set_nth n x l).
  Proof.
    revert n; induction l as [|y l IH]; intros n Hl Hx; destruct n; cbn [set_nth]; try constructor;
      inversion Hl; subst; auto.
  Qed.

  Lemma op_step_ok s o : pstate_ok s -> pstate_ok (fst (op_step s o)) /\ Forall entry_ok (snd (op_step s o)).
  Proof.
    intros [Hc Hg]. destruct o as [cf ts pps ins|gid args dry order|]; cbn [GenState.op_step fst snd].
    - split; [|constructor]. split; cbn [p_cache p_gens]; [exact Hc|].
      apply Forall_app. split; [exact Hg|]. constructor; [|constructor]. apply LookupThm.consistent_nil.
    - destruct (nth_error (p_gens s) gid) as [g|] eqn:En; [|split; [split; assumption|constructor]].
      assert (Hmg : memo_ok (go_tset g) (go_memo g)).
      { rewrite Forall_forall in Hg. apply Hg. eapply nth_error_In. exact En. }
      destruct dry.
      { cbn [fst snd]. split; [|constructor]. split; cbn [p_cache p_gens]; [exact Hc|].
        apply set_nth_Forall; [exact Hg|]. cbn [go_tset go_memo]. apply dry_types_ok, Hmg. }
      pose proof (run_types_ok (ecfg (go_cfg g) args) (go_tset g) (go_inputs g) order (go_memo g) (p_uniq s) (p_cache s) (go_pps g)
                               (p_scratch s) Hc Hmg) as Hr.
      cbv zeta in Hr.
      destruct (run_types (ecfg (go_cfg g) args) (go_tset g) (go_inputs g) (go_memo g) (p_uniq s) (p_cache s) (go_pps g)
                          (p_scratch s) order)
        as [[[[[m1 u1] c1] ps1] sc1] es]. cbn [fst snd] in *. destruct Hr as (H1 & H2 & H3).
      split; [|exact H3]. split; cbn [p_cache p_gens]; [exact H2|].
      apply set_nth_Forall; [exact Hg|]. cbn [go_tset go_memo]. exact H1.
    - split; [|constructor]. split; cbn [p_cache p_gens]; [constructor|exact Hg].
  Qed.

  Lemma exec_ok h : forall s, pstate_ok s -> Forall entry_ok (snd (exec s h)).
  Proof.
    induction h as [|o h IH]; intros s Hs; cbn [GenState.exec]; [constructor|].
    destruct (op_step_ok s o Hs) as [H1 H2]. destruct (op_step s o) as [s1 es1]. cbn [fst snd] in *.
    specialize (IH s1 H1). destruct (exec s1 h) as [s2 es2]. cbn [snd] in *.
    apply Forall_app. split; assumption.
  Qed.

  Theorem log_entries_ok h : Forall entry_ok (log U bases cname fuel sites stores rfacts reads render cfun maxsize true lel_shared h).
  Proof. unfold log. apply exec_ok. split; constructor. Qed.
End RunThm.

(* ================= the dependency closure ================= *)
Lemma map_opt_indep {A B} (f g : A -> option B) l : forall r1 r2,
  (forall a b1 b2, In a l -> f a = Some b1 -> g a = Some b2 -> b1 = b2) ->
  map_opt f l = Some r1 -> map_opt g l = Some r2 -> r1 = r2.
Proof.
  induction l as [|a l IH]; cbn [map_opt]; intros r1 r2 H H1 H2.
  - congruence.
  - destruct (f a) as [b1|] eqn:Ef; [|discriminate]. destruct (map_opt f l) as [bs1|] eqn:E1; [|discriminate].
    destruct (g a) as [b2|] eqn:Eg; [|discriminate]. destruct (map_opt g l) as [bs2|] eqn:E2; [|discriminate].
    injection H1 as <-. injection H2 as <-. f_equal.
    + apply (H a); [left; reflexivity|assumption|assumption].
    + apply IH; [|reflexivity|reflexivity]. intros a' b1' b2' Hin. apply H. right. exact Hin.
Qed.

(* the object built for k is the same in every input set that contains k's dependency closure *)
Theorem resolve_indep_lemma U : forall f1 f2 I1 I2 k o1 o2,
  resolve f1 U I1 k = Some o1 -> resolve f2 U I2 k = Some o2 -> o1 = o2.
Proof.
  induction f1 as [|f1 IH]; intros f2 I1 I2 k o1 o2 H1 H2; [discriminate|].
  destruct f2 as [|f2]; [discriminate|]. cbn [resolve] in H1, H2.
  destruct (str_in k I1); [|discriminate]. destruct (str_in k I2); [|discriminate].
  destruct (dict_get U k) as [d|]; [|discriminate].
  destruct (map_opt (resolve f1 U I1) (d_deps d)) as [os1|] eqn:E1; [|discriminate].
  destruct (map_opt (resolve f2 U I2) (d_deps d)) as [os2|] eqn:E2; [|discriminate].
  injection H1 as <-. injection H2 as <-. f_equal.
  eapply map_opt_indep; [|exact E1|exact E2]. intros a b1 b2 _ Ha Hb. eapply IH; eassumption.
Qed.

(* ================= per-type independence ================= *)
(* resolve is monotone in the input set: whatever a dependency-closed subset resolves, the larger set resolves to the same object *)
Lemma map_opt_mono {A B} (f g : A -> option B) l : forall r,
  (forall a b, In a l -> f a = Some b -> g a = Some b) -> map_opt f l = Some r -> map_opt g l = Some r.
Proof.
  induction l as [|a l IH]; cbn [map_opt]; intros r H Hr; [exact Hr|].
  destruct (f a) as [b|] eqn:Ef; [|discriminate]. destruct (map_opt f l) as [bs|] eqn:El; [|discriminate].
  rewrite (H a b (or_introl eq_refl) Ef), (IH bs (fun a' b' Hin => H a' b' (or_intror Hin)) eq_refl). exact Hr.
Qed.

Lemma str_in_incl k (I2 I1 : list (list N)) : incl I2 I1 -> str_in k I2 = true -> str_in k I1 = true.
Proof. intros Hi H. apply str_in_spec. apply Hi. apply str_in_spec. exact H. Qed.

Lemma resolve_mono U (I2 I1 : list (list N)) : incl I2 I1 -> forall f k o, resolve f U I2 k = Some o -> resolve f U I1 k = Some o.
Proof.
  intros Hi. induction f as [|f IH]; intros k o H; [discriminate|]. cbn [resolve] in *.
  destruct (str_in k I2) eqn:E2; [|discriminate]. rewrite (str_in_incl k I2 I1 Hi E2).
  destruct (dict_get U k) as [d|]; [|discriminate].
  destruct (map_opt (resolve f U I2) (d_deps d)) as [os|] eqn:Em; [|discriminate].
  rewrite (map_opt_mono (resolve f U I2) (resolve f U I1) (d_deps d) os (fun a b _ Ha => IH a b Ha) Em). exact H.
Qed.

Section Indep.
  Variable U : universe.
  Variable bases : N -> list N.
  Variable cname : N -> str.
  Variable fuel : nat.
  Variable rank : N -> nat.
  Hypothesis Hsingle : forall c, (length (bases c) <= 1)%nat.
  Hypothesis Hrank : forall c p, In p (bases c) -> (rank p < rank c)%nat.
  Hypothesis Hfuel : forall c, (rank c < fuel)%nat.
  Variable sites : list site.
  Variable stores : list store.
  Variable rfacts : bool.
  Hypothesis Hsites : forallb site_ok sites = true.
  Hypothesis Hstores : forallb (store_ok rfacts) stores = true.
  Variable reads : list wread.
  Hypothesis Hreads : forallb read_ok reads = true.
  Variable render : ambient -> list (list N) -> N -> option str -> tyobj -> prog.
  Hypothesis render_pure : forall (a1 a2 : ambient) I cf tmpl o, render a1 I cf tmpl o = render a2 I cf tmpl o.
  Variable cfun : ckey -> str.

  Notation log := (log U bases cname fuel sites stores rfacts reads render cfun).
  Notation entries_ok := (log_entries_ok U bases cname fuel rank Hsingle Hrank Hfuel sites stores rfacts Hsites Hstores reads Hreads render render_pure cfun).

  Theorem file_indep_lemma (lel_shared : bool) (m1 m2 : option nat) (h1 h2 : list op) (e1 e2 : entry) :
    In e1 (log m1 true lel_shared h1) ->
    In e2 (log m2 true lel_shared h2) ->
    e_cfg e1 = e_cfg e2 -> e_tset e1 = e_tset e2 -> e_pps0 e1 = e_pps0 e2 -> e_key e1 = e_key e2 ->
    (lel_shared = false \/ (e_clean e1 = true /\ e_clean e2 = true)) ->
    e_tmpl e1 = e_tmpl e2 /\ e_text e1 = e_text e2.
  Proof.
    intros H1 H2 Hc Ht Hp Hk Hside.
    pose proof (entries_ok m1 lel_shared h1) as F1.
    pose proof (entries_ok m2 lel_shared h2) as F2.
    rewrite Forall_forall in F1, F2. destruct (F1 e1 H1) as ([i1 R1] & _ & A1). destruct (F2 e2 H2) as ([i2 R2] & _ & A2).
    rewrite Hk in R1. pose proof (resolve_indep_lemma U _ _ _ _ _ _ _ R1 R2) as Ho.
    assert (E : (e_tmpl e1, e_text e1) = (e_tmpl e2, e_text e2)).
    { rewrite A1, A2 by (destruct Hside as [?|[? ?]]; auto).
      rewrite !(alone_spec bases cname fuel rank Hsingle Hrank Hfuel sites stores rfacts Hsites Hstores reads Hreads render render_pure), Hc, Ht, Hp, Ho.
      reflexivity. }
    injection E as E1 E2. split; assumption.
  Qed.

  (* the template chosen for a file is a function of (class of the type, template listing) in every history *)
  Theorem template_selection_lemma (lel_shared : bool) (m : option nat) (h : list op) (e : entry) :
    In e (log m true lel_shared h) ->
    e_tmpl e = spec_select bases cname rank (e_tset e) (obj_cls (e_obj e)).
  Proof.
    intros H. pose proof (entries_ok m lel_shared h) as F.
    rewrite Forall_forall in F. exact (proj1 (proj2 (F e H))).
  Qed.

End Indep.

(* ================= dry runs ================= *)
(* generate_all(is_dryrun=True) writes nothing and leaves the unique-name generator, the memo tables and every line processor
   as they were (only the loader memo of that generator may grow -- which template_selection_lemma shows to be unobservable) *)
Lemma dry_run_lemma U bases cname fuel sites stores rfacts reads render cfun maxsize resets lel s gid args order :
  let r := op_step U bases cname fuel sites stores rfacts reads render cfun maxsize resets lel s (ORun gid args true order) in
  snd r = [] /\ p_uniq (fst r) = p_uniq s /\ p_cache (fst r) = p_cache s /\ p_scratch (fst r) = p_scratch s /\
  map go_pps (p_gens (fst r)) = map go_pps (p_gens s).
Proof.
  cbn [op_step]. destruct (nth_error (p_gens s) gid) as [g|] eqn:E; cbn [fst snd p_uniq p_cache p_gens p_scratch]; repeat split; try reflexivity.
  revert gid E. induction (p_gens s) as [|x l IH]; intros [|n] E; cbn [nth_error] in E; try discriminate; cbn [set_nth map].
  - injection E as ->. reflexivity.
  - f_equal. apply IH, E.
Qed.

(* ================= LimitEmptyLines.reset ================= *)
(* what the model calls a freshly constructed processor is what the translated reset() produces: the state the processor had
   when it was constructed (same limit, counter 0) *)
Lemma lel_reset_fresh (s : LimitEmptyLines_state) :
  pp_fresh (PLimit s) = PLimit (LimitEmptyLines_reset s) /\
  LimitEmptyLines_reset s = LimitEmptyLines_init (LimitEmptyLines_max_empty_lines s).
Proof. destruct s. split; reflexivity. Qed.

(* ================= witnesses ================= *)
(* class forest of the witnesses: 0 = CompositeType, 1 = StructureType : CompositeType, 2 = UnionType : CompositeType *)
Definition w_ct : ctable := [(0, ([67], [])); (1, ([83], [0])); (2, ([85], [0]))].
Definition w_rank (c : N) : nat := if c =? 0 then 0%nat else 1%nat.
Definition w_ts : list (str * str) := [([83], [83; 46; 106; 50])].      (* S -> "S.j2" *)
Definition w_U : universe :=
  [([65], {| d_cls := 1; d_body := []; d_deps := [] |}); ([66], {| d_cls := 1; d_body := []; d_deps := [] |})].
Definition w_tab : list (ckey * list item) :=
  [((16, [65]), [IText [97; 10; 10]]); ((16, [66]), [IText [10; 98]])].     (* 16 = ecfg 1 0 *)
Definition w_pps : list pp := [PLimit (LimitEmptyLines_init 1)].
Definition w_hist_whole : list op := [ONew 1 w_ts w_pps [[65]; [66]]; ORun 0 0 false [[65]; [66]]].
Definition w_hist_subset : list op := [ONew 1 w_ts w_pps [[66]]; ORun 0 0 false [[66]]].

Lemma w_forest_ok :
  (forall c, (length (ct_bases w_ct c) <= 1)%nat) /\
  (forall c p, In p (ct_bases w_ct c) -> (w_rank p < w_rank c)%nat) /\ (forall c, (w_rank c < 4)%nat).
Proof.
  split; [|split]; intros c.
  - unfold ct_bases, w_ct. cbn [ct_get]. destruct (0 =? c); [cbn; lia|]. destruct (1 =? c); [cbn; lia|].
    destruct (2 =? c); cbn; lia.
  - intros p. unfold ct_bases, w_ct, w_rank. cbn [ct_get].
    destruct (N.eqb_spec 0 c) as [<-|]; [intros []|]. destruct (N.eqb_spec 1 c) as [<-|].
    { intros [<-|[]]. cbn. lia. }
    destruct (N.eqb_spec 2 c) as [<-|]; [|intros []]. intros [<-|[]]. cbn. lia.
  - unfold w_rank. destruct (c =? 0); lia.
Qed.

Lemma lel_leak_witness :
  map e_text (exec_table w_ct w_U false w_tab None true true w_hist_whole) = [[97; 10; 10]; [98]] /\
  map e_text (exec_table w_ct w_U false w_tab None true true w_hist_subset) = [[10; 98]].
Proof. vm_compute. split; reflexivity. Qed.

(* the unrestricted statement is false of the model of the code as it is *)
Theorem lel_leak_refuted_lemma :
  exists (U : universe) (render : ambient -> list (list N) -> N -> option str -> tyobj -> prog) (cfun : ckey -> str) (h1 h2 : list op) (e1 e2 : entry),
    (forall a1 a2 I cf t o, render a1 I cf t o = render a2 I cf t o) /\
    In e1 (log U (ct_bases w_ct) (ct_name w_ct) 4 [] [] true [] render cfun None true true h1) /\
    In e2 (log U (ct_bases w_ct) (ct_name w_ct) 4 [] [] true [] render cfun None true true h2) /\
    e_cfg e1 = e_cfg e2 /\ e_tset e1 = e_tset e2 /\ e_pps0 e1 = e_pps0 e2 /\ e_key e1 = e_key e2 /\ e_text e1 <> e_text e2.
Proof.
  exists w_U, (table_render false w_tab), table_cfun, w_hist_whole, w_hist_subset.
  pose (d := {| e_cfg := 0; e_tset := []; e_pps0 := []; e_key := []; e_obj := TyObj [] 0 [] []; e_tmpl := None;
                e_clean := true; e_text := [] |}).
  exists (nth 1 (log w_U (ct_bases w_ct) (ct_name w_ct) 4 [] [] true [] (table_render false w_tab) table_cfun None true true w_hist_whole) d).
  exists (nth 0 (log w_U (ct_bases w_ct) (ct_name w_ct) 4 [] [] true [] (table_render false w_tab) table_cfun None true true w_hist_subset) d).
  split; [reflexivity|].
  vm_compute. repeat split; try (right; left; reflexivity); try (left; reflexivity). discriminate.
Qed.
