(* C20 -- anchors identify types: filter_tag_id is injective and no other id on a page equals a type's tag id
   (for the '-' id scheme of design_notes/C20_tag_id_fix.patch; the '_' scheme is refuted by witness). *)
From Verif Require Import HtmlModel HtmlThm HtmlThmTree HtmlThmLinks HtmlThmLinksAll HtmlThmOk.
Open Scope N_scope.
(* the proofs below must not look into the regenerated separator: they are run in both states of the working tree *)
Opaque nested_id_sep.
Ltac nilr := repeat match goal with |- context [?l ++ @nil (list N)] => rewrite (app_nil_r l) end.

(* ---------- strings ---------- *)
Lemma split_first c a1 : forall a2 r1 r2,
  forallb (fun x => negb (x =? c)) a1 = true -> forallb (fun x => negb (x =? c)) a2 = true ->
  a1 ++ c :: r1 = a2 ++ c :: r2 -> a1 = a2 /\ r1 = r2.
Proof.
  induction a1 as [|x a1 IH]; intros a2 r1 r2 H1 H2 E.
  - destruct a2 as [|y a2]; cbn in *; [injection E as ->; auto|]. injection E as <- _. rewrite N.eqb_refl in H2. discriminate.
  - destruct a2 as [|y a2]; cbn in *.
    + injection E as -> _. rewrite N.eqb_refl in H1. discriminate.
    + injection E as -> E. apply andb_prop in H1 as [_ H1]. apply andb_prop in H2 as [_ H2]. destruct (IH _ _ _ H1 H2 E) as [-> ->]. auto.
Qed.

Lemma split_last c b1 b2 x1 x2 :
  forallb (fun x => negb (x =? c)) b1 = true -> forallb (fun x => negb (x =? c)) b2 = true ->
  x1 ++ c :: b1 = x2 ++ c :: b2 -> x1 = x2 /\ b1 = b2.
Proof.
  intros H1 H2 E. apply (f_equal (@rev N)) in E. rewrite !rev_app_distr in E. cbn [rev] in E. rewrite <- !app_assoc in E. cbn [app] in E.
  rewrite <- (forallb_rev _ b1) in H1. rewrite <- (forallb_rev _ b2) in H2.
  destruct (split_first c _ _ _ _ H1 H2 E) as [A B]. split; [|].
  - rewrite <- (rev_involutive x1), <- (rev_involutive x2), B. reflexivity.
  - rewrite <- (rev_involutive b1), <- (rev_involutive b2), A. reflexivity.
Qed.

Lemma dec_fuel_digits f : forall n acc, forallb is_digit acc = true -> forallb is_digit (dec_fuel f n acc) = true.
Proof.
  induction f as [|f IH]; intros n acc H; [exact H|]. cbn [dec_fuel].
  assert (Hd : forallb is_digit ((48 + n mod 10) :: acc) = true).
  { cbn [forallb]. rewrite H, andb_true_r. assert (H0 : n mod 10 < 10) by (apply N.mod_lt; discriminate).
    remember (n mod 10) as x eqn:Ex. clear Ex. unfold is_digit. destruct (N.leb_spec 48 (48 + x)), (N.leb_spec (48 + x) 57); try lia; reflexivity. }
  destruct (n / 10 =? 0); [exact Hd|]. apply IH, Hd.
Qed.
Lemma dec_Z_digits z : (0 <= z)%Z -> forallb is_digit (dec_of_Z z) = true.
Proof. destruct z; intros H; [reflexivity| |lia]. cbn [dec_of_Z]. unfold dec_of_N. apply dec_fuel_digits. reflexivity. Qed.
Lemma digits_no_dash s : forallb is_digit s = true -> no_dash s = true.
Proof.
  unfold no_dash. intros H. rewrite forallb_forall in *. intros c Hc. specialize (H c Hc). unfold is_digit in H.
  destruct (N.eqb_spec c 45) as [->|]; [discriminate|reflexivity].
Qed.

(* printed versions identify versions (DSDL versions are 0..255) *)
Lemma dec_inj_small : forallb (fun a => forallb (fun b => negb (str_eqb (dec_of_N a) (dec_of_N b)) || (a =? b))
                                           (map N.of_nat (seq 0 256))) (map N.of_nat (seq 0 256)) = true.
Proof. vm_compute. reflexivity. Qed.
Lemma dec_Z_inj a b : (0 <= a < 256)%Z -> (0 <= b < 256)%Z -> dec_of_Z a = dec_of_Z b -> a = b.
Proof.
  intros Ha Hb E. pose proof dec_inj_small as H. rewrite forallb_forall in H.
  assert (Ia : In (Z.to_N a) (map N.of_nat (seq 0 256))) by (apply in_map_iff; exists (Z.to_nat a); split; [lia|apply in_seq; lia]).
  assert (Ib : In (Z.to_N b) (map N.of_nat (seq 0 256))) by (apply in_map_iff; exists (Z.to_nat b); split; [lia|apply in_seq; lia]).
  specialize (H _ Ia). rewrite forallb_forall in H. specialize (H _ Ib).
  assert (Da : dec_of_Z a = dec_of_N (Z.to_N a)) by (destruct a; [reflexivity|reflexivity|lia]).
  assert (Db : dec_of_Z b = dec_of_N (Z.to_N b)) by (destruct b; [reflexivity|reflexivity|lia]).
  rewrite Da, Db in E. rewrite E, str_eqb_refl in H. cbn in H. apply N.eqb_eq in H. lia.
Qed.

Lemma replace_dot_dash_inj a : forall b, no_dash a = true -> no_dash b = true ->
  str_replace1 46 [45] a = str_replace1 46 [45] b -> a = b.
Proof.
  unfold str_replace1, no_dash. induction a as [|x a IH]; intros [|y b] Ha Hb E; cbn in *; try reflexivity.
  - destruct (y =? 46); discriminate.
  - destruct (x =? 46); discriminate.
  - apply andb_prop in Ha as [Hx Ha]. apply andb_prop in Hb as [Hy Hb].
    destruct (N.eqb_spec x 46) as [->|Nx], (N.eqb_spec y 46) as [->|Ny]; cbn [app] in E.
    + injection E as E. rewrite (IH b Ha Hb E). reflexivity.
    + injection E as Ey E. subst y. discriminate.
    + injection E as Ex E. subst x. discriminate.
    + injection E as Exy E. subst y. rewrite (IH b Ha Hb E). reflexivity.
Qed.
Lemma replace_dot_dash_rest a : forallb (fun x => negb (x =? 46)) (str_replace1 46 [45] a) = true.
Proof. unfold str_replace1. apply forallb_flat_map. intros c. destruct (N.eqb_spec c 46); [reflexivity|]. cbn. rewrite (neqb _ _ n). reflexivity. Qed.

Lemma version_ok_spec t : version_ok t = true -> (0 <= ti_major t < 256)%Z /\ (0 <= ti_minor t < 256)%Z.
Proof.
  unfold version_ok. intros H. apply andb_prop in H as [H D]. apply andb_prop in H as [H C]. apply andb_prop in H as [A B].
  apply Z.leb_le in A. apply Z.ltb_lt in B. apply Z.leb_le in C. apply Z.ltb_lt in D. lia.
Qed.

Definition dash_shape (t : tinfo) : str :=
  (str_replace1 46 [45] (ti_full_name t) ++ 45 :: dec_of_Z (ti_major t)) ++ 45 :: dec_of_Z (ti_minor t).
(* the only step that looks at the translated filter: in the '-' scheme it has this shape (vacuous in the '_' scheme) *)
Lemma tag_id_shape : tag_id_dashed = true -> forall t, ti_is_array t = false -> filter_tag_id t = dash_shape t.
Proof.
  intros Hd. first [ discriminate Hd
                   | (intros t Ht; unfold filter_tag_id, dash_shape; rewrite Ht; cbn [concat app]; rewrite !app_nil_r, <- !app_assoc; reflexivity) ].
Qed.

(* ---------- (1) filter_tag_id is injective ---------- *)
Theorem tag_id_injective :
  tag_id_dashed = true ->
  forall t1 t2, ti_is_array t1 = false -> ti_is_array t2 = false ->
    no_dash (ti_full_name t1) = true -> no_dash (ti_full_name t2) = true -> version_ok t1 = true -> version_ok t2 = true ->
    filter_tag_id t1 = filter_tag_id t2 ->
    ti_full_name t1 = ti_full_name t2 /\ ti_major t1 = ti_major t2 /\ ti_minor t1 = ti_minor t2.
Proof.
  intros Hd t1 t2 A1 A2 N1 N2 V1 V2 E.
  destruct (version_ok_spec _ V1) as [[Ma1 Ma1'] [Mi1 Mi1']]. destruct (version_ok_spec _ V2) as [[Ma2 Ma2'] [Mi2 Mi2']].
  rewrite (tag_id_shape Hd t1 A1), (tag_id_shape Hd t2 A2) in E. unfold dash_shape in E. rename E into E'.
  destruct (split_last 45 _ _ _ _ (digits_no_dash _ (dec_Z_digits _ Mi1)) (digits_no_dash _ (dec_Z_digits _ Mi2)) E') as [E1 Em].
  destruct (split_last 45 _ _ _ _ (digits_no_dash _ (dec_Z_digits _ Ma1)) (digits_no_dash _ (dec_Z_digits _ Ma2)) E1) as [En EM].
  split; [apply replace_dot_dash_inj; assumption|]. split; apply dec_Z_inj; (assumption || lia).
Qed.

(* the '_' scheme of the pinned tree is not even collision free on one page: witness T v1.1 nested once + T v1.10 *)
Theorem ids_collide_without_dashes :
  tag_id_dashed = false -> nodup_str (page_ids faithful_cfg w_site_collision) = false.
Proof. intros H. first [discriminate H | vm_compute; reflexivity]. Qed.
Theorem ids_unique_on_witness_with_dashes :
  tag_id_dashed = true -> nested_id_sep = s_dash_n -> nodup_str (page_ids faithful_cfg w_site_collision) = true.
Proof. intros H. first [discriminate H | intros _; vm_compute; reflexivity]. Qed.

(* ---------- (2) every id of a page falls in one of four classes ---------- *)
Notation ids := (vals_of k_id).
Lemma ids_toggle b h i t : ids (toggle_anchor b h i t) = []. Proof. reflexivity. Qed.
Lemma ids_doc_docs b d : ids (doc_pre b [(k_class, s_docs)] d) = []. Proof. reflexivity. Qed.
Lemma ids_doc_plain b d : ids (doc_pre b [] d) = []. Proof. reflexivity. Qed.
Lemma ids_span c t : ids (span_cls c t) = []. Proof. reflexivity. Qed.
Lemma ids_disp_type d : ids (disp_type d) = [].
Proof. induction d; cbn [disp_type]; rewrite ?vals_of_app, ?IHd; reflexivity. Qed.
Lemma ids_disp_inst di : ids (disp_inst di) = [].
Proof. destruct di; cbn [disp_inst]; rewrite ?vals_of_app, ?ids_disp_type; reflexivity. Qed.
Lemma ids_tx_markup b ps : ids ps = [] -> ids (tx_markup b ps) = [].
Proof. intros H. unfold tx_markup. destruct b; [reflexivity|exact H]. Qed.
Lemma ids_if (b : bool) x y : ids x = [] -> ids y = [] -> ids (if b then x else y) = [].
Proof. destruct b; auto. Qed.
Lemma ids_opt {A} (o : option A) f y : (forall a, ids (f a) = []) -> ids y = [] -> ids (match o with Some a => f a | None => y end) = [].
Proof. destruct o; auto. Qed.
Lemma ids_docp (d : str) (b : bool) x : ids x = [] -> ids (match d with [] => [] | _ :: _ => if b then [] else x end) = [].
Proof. destruct d; [reflexivity|]. destruct b; auto. Qed.

Lemma html_escape_app a b : html_escape (a ++ b) = html_escape a ++ html_escape b.
Proof. unfold html_escape. apply flat_map_app. Qed.
Lemma drop_while_pref_all p d : forall r, forallb p d = true -> drop_while p (d ++ r) = drop_while p r.
Proof. induction d as [|x d IH]; intros r H; [reflexivity|]. cbn in *. apply andb_prop in H as [Hx Hd]. rewrite Hx. apply IH, Hd. Qed.
Lemma dec_N_digits k : forallb is_digit (dec_of_N k) = true.
Proof. unfold dec_of_N. apply dec_fuel_digits. reflexivity. Qed.

Lemma make_unique_shape st s : nested_shape (snd (filter_make_unique st (s ++ s_dash_n))) = true.
Proof.
  assert (G : forall st0 X, nested_shape (snd (ung_call st0 [104; 116; 109; 108] (html_escape (X ++ s_dash_n)) [] [])) = true).
  { intros st0 X. unfold ung_call. cbn [snd app]. rewrite app_nil_r, html_escape_app. change (html_escape s_dash_n) with s_dash_n.
    unfold nested_shape. rewrite !rev_app_distr. rewrite (drop_while_pref_all is_digit _ _ (eq_trans (forallb_rev _ _) (dec_N_digits _))).
    reflexivity. }
  unfold filter_make_unique. destruct (Z.gtb _ _); cbv zeta; [|apply G].
  destruct s as [|c r]; [exact (G st [])|]. cbn [app skipn firstn py_lower_ascii map].
  exact (G st (ascii_lower_chr c :: r)).
Qed.

Lemma ends_with_sfx x sfx : ends_with (x ++ sfx) sfx = true.
Proof.
  unfold ends_with. rewrite rev_app_distr. induction (rev sfx) as [|c l IH]; [reflexivity|]. cbn. rewrite N.eqb_refl. exact IH.
Qed.
Section IdClass.
Variable cf : cfg.
Hypothesis Hti : ae_ti cf = false.
Hypothesis Hni : ae_ni cf = false.
Hypothesis Hsb : ae_sb cf = false.
Hypothesis Hsep : nested_id_sep = s_dash_n.
Variable up : str.
Variables L LN ST : list str.

Lemma class_nested st s : id_class L LN ST (snd (filter_make_unique st (s ++ nested_id_sep))) = true.
Proof. unfold id_class. rewrite Hsep, make_unique_shape, !orb_true_r. reflexivity. Qed.

Lemma emit_ty_attrs_ids :
  (forall t st nm nested, (nested = false -> exists c a, t = Comp c a /\ str_in (filter_tag_id (ci_t c)) L = true) ->
                          forallb (id_class L LN ST) (ids (snd (emit_ty cf up st t nm nested))) = true)
  /\ (forall a st, forallb (id_class L LN ST) (ids (snd (emit_attrs cf up st a))) = true).
Proof.
  apply ty_attrs_ind.
  - intros c a IHa st nm nested H. cbn [emit_ty]. cbv zeta. cbn [snd].
    assert (Hid : id_class L LN ST (tx (ae_ti cf) (snd (if nested then filter_make_unique st (filter_tag_id (ci_t c) ++ nested_id_sep) else (st, filter_tag_id (ci_t c))))) = true).
    { rewrite Hti. cbn [tx]. destruct nested; [apply class_nested|]. cbn [snd]. destruct (H eq_refl) as (c0 & a0 & E & Hin). injection E as <- _. unfold id_class. rewrite Hin. reflexivity. }
    destruct nested;
      rewrite !vals_of_app, !vals_of_elem, !vals_of_app;
      rewrite (ids_opt (ci_port c)), !ids_if, ids_docp, ids_toggle by reflexivity;
      change (attr_vals k_id [(k_class, dep_class (ae_ti cf) (ci_deprecated c))]) with (@nil str);
      match goal with |- context [attr_vals k_id [(k_class, ?x); (k_id, ?y)]] =>
        change (attr_vals k_id [(k_class, x); (k_id, y)]) with [y] end;
      cbn [app]; nilr; rewrite ?vals_of_elem; cbn [app vals_of flat_map attr_vals]; nilr;
      try change (str_eqb k_id k_href) with false; cbv iota; cbn [app];
      cbn [forallb]; rewrite Hid; cbn [andb]; rewrite ?forallb_app;
      repeat (apply andb_true_intro; split);
      first [ reflexivity | (destruct a; [reflexivity|exact (IHa _)|exact (IHa _)]) | idtac ].
  - intros es dep d e IHe st nm nested H. destruct nested; [|destruct (H eq_refl) as (c0 & a0 & E & _); discriminate E].
    cbn [emit_ty]. cbv zeta. cbn [snd].
    assert (Hid : id_class L LN ST (tx (ae_ti cf) (snd (filter_make_unique st (filter_tag_id (arr_tinfo es) ++ nested_id_sep)))) = true)
      by (rewrite Hti; apply class_nested).
    rewrite !vals_of_app, !vals_of_elem, !vals_of_app.
    rewrite ids_toggle, (ids_tx_markup _ _ (ids_disp_type _)), ids_span.
    change (attr_vals k_id [(k_class, dep_class (ae_ti cf) dep)]) with (@nil str).
    match goal with |- context [attr_vals k_id [(k_class, ?x); (k_id, ?y)]] => change (attr_vals k_id [(k_class, x); (k_id, y)]) with [y] end.
    cbn [app vals_of flat_map attr_vals]. nilr. cbn [forallb]. rewrite Hid. cbn [andb].
    apply IHe. intros D. discriminate D.
  - intros s st nm nested H. destruct nested; [reflexivity|destruct (H eq_refl) as (c0 & a0 & E & _); discriminate E].
  - intros st. reflexivity.
  - intros nm doc t IHt rest IHr st. cbn [emit_attrs]. cbv zeta. cbn [snd]. rewrite !vals_of_app, ids_doc_docs. cbn [app]. rewrite forallb_app.
    apply andb_true_intro. split; [apply IHt; intros D; discriminate D|apply IHr].
  - intros di isf lb doc rest IHr st. cbn [emit_attrs]. cbv zeta. cbn [snd]. rewrite !vals_of_app, !vals_of_elem, !vals_of_app, ids_doc_docs.
    rewrite (ids_tx_markup _ _ (ids_disp_inst _)), ids_if by reflexivity. cbn [app]. apply IHr.
Qed.
End IdClass.

Section IdClassPage.
Variable cf : cfg.
Hypothesis Hti : ae_ti cf = false.
Hypothesis Hni : ae_ni cf = false.
Hypothesis Hsb : ae_sb cf = false.
Hypothesis Hsep : nested_id_sep = s_dash_n.
Variable up : str.
Variables L LN ST : list str.

Lemma emit_types_ids_class ts : forallb (fun e => is_comp (snd e)) ts = true ->
  (forall c, In c (listed ts) -> str_in (filter_tag_id (ci_t c)) L = true) ->
  forall st, forallb (id_class L LN ST) (ids (snd (emit_types cf up st ts))) = true.
Proof.
  induction ts as [|[sn t] r IH]; intros Hc HL st; [reflexivity|]. cbn [forallb snd] in Hc. apply andb_prop in Hc as [Ht Hr].
  unfold listed in HL. cbn [flat_map fst snd] in HL. fold (listed r) in HL. cbn [emit_types].
  destruct (str_eqb sn namespace_doc_key); [apply IH; assumption|]. cbv zeta. cbn [snd]. rewrite vals_of_app, forallb_app.
  apply andb_true_intro. split.
  - apply (proj1 (emit_ty_attrs_ids cf Hti Hsep up L LN ST)). intros _. destruct t as [c a| |]; try discriminate Ht.
    exists c, a. split; [reflexivity|]. apply HL. apply in_or_app. left. left. reflexivity.
  - apply IH; [exact Hr|]. intros c Hc. apply HL, in_or_app. right. exact Hc.
Qed.

Lemma class_ns x : str_in x LN = true -> id_class L LN ST x = true.
Proof. intros H. unfold id_class. rewrite H, !orb_true_r. reflexivity. Qed.
Lemma class_static x : str_in x ST = true -> id_class L LN ST x = true.
Proof. intros H. unfold id_class. rewrite H, !orb_true_r. reflexivity. Qed.
Lemma class_sidebar x : id_class L LN ST (x ++ s_sidebar_sfx) = true.
Proof. unfold id_class. rewrite ends_with_sfx, !orb_true_r. reflexivity. Qed.

Lemma emit_ns_ids_class :
  (forall n st, tops_ok n = true -> (forall c, In c (all_listed n) -> str_in (filter_tag_id (ci_t c)) L = true) ->
                (forall n', In n' (all_ns n) -> str_in (ns_id (ns_name n')) LN = true) ->
                forallb (id_class L LN ST) (ids (snd (emit_ns cf up st n))) = true)
  /\ (forall l st, tops_ok_l l = true -> (forall c, In c (all_listed_l l) -> str_in (filter_tag_id (ci_t c)) L = true) ->
                   (forall n', In n' (all_nsl l) -> str_in (ns_id (ns_name n')) LN = true) ->
                   forallb (id_class L LN ST) (ids (snd (emit_nsl cf up st l))) = true).
Proof.
  apply nst_nsl_ind.
  - intros name docs types subs IH st H HL HN. cbn [tops_ok] in H. apply andb_prop in H as [Ht Hs].
    cbn [all_listed] in HL. cbn [all_ns] in HN. cbn [emit_ns]. cbv zeta. cbn [snd].
    assert (Hid : id_class L LN ST (tx (ae_ni cf) (ns_id name)) = true)
      by (rewrite Hni; apply class_ns; apply (HN (NS name docs types subs)); left; reflexivity).
    rewrite !vals_of_app, !vals_of_elem, !vals_of_app, ids_toggle.
    change (attr_vals k_id [(k_class, s_fstitalic)]) with (@nil str).
    match goal with |- context [attr_vals k_id [(k_class, ?x); (k_id, ?y)]] => change (attr_vals k_id [(k_class, x); (k_id, y)]) with [y] end.
    cbn [app vals_of flat_map]. nilr. cbn [forallb]. rewrite Hid. cbn [andb]. rewrite !forallb_app.
    apply andb_true_intro. split; [|apply andb_true_intro; split].
    + destruct (filter_namespace_doc docs); reflexivity.
    + apply emit_types_ids_class; [exact Ht|]. intros c Hc. apply HL, in_or_app. left. exact Hc.
    + apply IH; [exact Hs| |]; [intros c Hc; apply HL, in_or_app; right; exact Hc|intros n' Hn'; apply HN; right; exact Hn'].
  - intros st _ _ _. reflexivity.
  - intros n IHn r IHr st H HL HN. cbn [tops_ok_l] in H. apply andb_prop in H as [Hn Hr]. cbn [all_listed_l] in HL. cbn [all_nsl] in HN.
    cbn [emit_nsl]. cbv zeta. cbn [snd]. rewrite vals_of_app, forallb_app. apply andb_true_intro.
    split; [apply IHn|apply IHr]; try assumption; intros x Hx; (apply HL || apply HN); apply in_or_app; [left|left|right|right]; exact Hx.
Qed.

Lemma sidebar_types_ids_class ts : forallb (id_class L LN ST) (ids (sidebar_types cf ts)) = true.
Proof.
  induction ts as [|[sn t] r IH]; [reflexivity|]. cbn [sidebar_types]. rewrite vals_of_app, forallb_app, IH, andb_true_r.
  destruct (str_eqb sn namespace_doc_key); [reflexivity|]. destruct (comp_info t) as [c|]; [|reflexivity].
  rewrite !vals_of_elem.
  match goal with |- context [attr_vals k_id [(k_id, ?x); (k_href, ?h); (k_class, ?y)]] =>
    change (attr_vals k_id [(k_id, x); (k_href, h); (k_class, y)]) with [x] end.
  match goal with |- context [attr_vals k_id [(k_class, ?x)]] => change (attr_vals k_id [(k_class, x)]) with (@nil str) end.
  cbn [app vals_of flat_map forallb]. rewrite class_sidebar. reflexivity.
Qed.

Lemma emit_sidebar_ids_class :
  (forall n, forallb (id_class L LN ST) (ids (emit_sidebar cf n)) = true) /\ (forall l, forallb (id_class L LN ST) (ids (emit_sidebar_l cf l)) = true).
Proof.
  apply nst_nsl_ind.
  - intros name docs types subs IH. cbn [emit_sidebar]. cbv zeta.
    rewrite !vals_of_app, !vals_of_elem, !vals_of_app, !vals_of_elem.
    match goal with |- context [attr_vals k_id [(k_target, ?x); (k_onclick, ?y); (k_controls, ?z)]] =>
      change (attr_vals k_id [(k_target, x); (k_onclick, y); (k_controls, z)]) with (@nil str) end.
    match goal with |- context [attr_vals k_id [(k_href, ?h); (k_class, ?y)]] => change (attr_vals k_id [(k_href, h); (k_class, y)]) with (@nil str) end.
    change (attr_vals k_id [(k_class, s_textnowrap)]) with (@nil str).
    match goal with |- context [attr_vals k_id [(k_class, ?x); (k_id, ?y)]] => change (attr_vals k_id [(k_class, x); (k_id, y)]) with [y] end.
    cbn [app vals_of flat_map]. nilr. cbn [forallb]. rewrite class_sidebar. cbn [andb]. rewrite !forallb_app.
    apply andb_true_intro. split; [|apply andb_true_intro; split].
    + destruct (filter_namespace_doc docs); reflexivity.
    + apply sidebar_types_ids_class.
    + apply IH.
  - reflexivity.
  - intros n IHn r IHr. cbn [emit_sidebar_l]. rewrite vals_of_app, forallb_app. apply andb_true_intro. split; [apply IHn|apply IHr].
Qed.
End IdClassPage.

(* every id of a namespace page is the tag id of a type listed on the page, or the id of a namespace at or below the page's
   namespace, or one of the two static ids of the modelled regions, or ends in _sidebar, or is a nesting occurrence X-n<k> *)
Definition page_L (n : nst) : list str := map (fun c => filter_tag_id (ci_t c)) (all_listed n).
Definition page_LN (n : nst) : list str := map (fun n' => ns_id (ns_name n')) (all_ns n).
Definition page_ST : list str := [s_sidebar; s_nsinfo].
Theorem page_ids_classified cf n :
  ae_ti cf = false -> ae_ni cf = false -> ae_sb cf = false -> nested_id_sep = s_dash_n -> tops_ok n = true ->
  forallb (id_class (page_L n) (page_LN n) page_ST) (page_ids cf n) = true.
Proof.
  intros Hti Hni Hsb Hsep Hok. unfold page_ids, ns_page, ns_page_sidebar, ns_page_main.
  rewrite !vals_of_app, !vals_of_elem, !forallb_app.
  change (attr_vals k_id [(k_id, s_sidebar)]) with [s_sidebar]. change (attr_vals k_id [(k_id, s_nsinfo)]) with [s_nsinfo].
  change (attr_vals k_id []) with (@nil str). cbn [app forallb vals_of flat_map andb].
  rewrite (class_static _ _ page_ST s_sidebar eq_refl), (class_static _ _ page_ST s_nsinfo eq_refl). cbn [andb].
  apply andb_true_intro. split.
  - apply (proj1 (emit_sidebar_ids_class cf _ _ _)).
  - apply (proj1 (emit_ns_ids_class cf Hti Hni Hsep _ _ _ _)); [exact Hok| |].
    + intros c Hc. apply str_in_spec, in_map_iff. exists c. split; [reflexivity|exact Hc].
    + intros n' Hn'. apply str_in_spec, in_map_iff. exists n'. split; [reflexivity|exact Hn'].
Qed.

(* ---------- (3) a type's tag id is carried by nothing but the main element of a listed type with the same name and version ---------- *)
Lemma dec_fuel_len f : forall n acc, (length acc <= length (dec_fuel f n acc))%nat.
Proof.
  induction f as [|f IH]; intros n acc; [apply le_n|]. cbn [dec_fuel]. destruct (n / 10 =? 0); [cbn; lia|].
  etransitivity; [|apply IH]. cbn. lia.
Qed.
Lemma dec_Z_nonempty z : (0 <= z)%Z -> exists d r, rev (dec_of_Z z) = d :: r /\ is_digit d = true.
Proof.
  intros H. pose proof (dec_Z_digits z H) as D. rewrite <- forallb_rev in D.
  destruct (rev (dec_of_Z z)) as [|d r] eqn:E.
  - exfalso. apply (f_equal (@length N)) in E. rewrite rev_length in E. destruct z; [discriminate E| |lia].
    cbn [dec_of_Z] in E. unfold dec_of_N in E. pose proof (dec_fuel_len (N.to_nat (N.log2 (N.pos p))) (N.pos p / 10) [48 + N.pos p mod 10]) as G.
    cbn [dec_fuel] in E. destruct (N.pos p / 10 =? 0); [discriminate E|]. rewrite E in G. cbn in G. lia.
  - exists d, r. split; [reflexivity|]. cbn in D. apply andb_prop in D as [D _]. exact D.
Qed.

Lemma no_dash_replace_us name : no_dash name = true -> no_dash (str_replace1 46 s_us name) = true.
Proof.
  unfold str_replace1, no_dash. induction name as [|c r IH]; intros H; [reflexivity|]. cbn [forallb flat_map] in *.
  apply andb_prop in H as [Hc Hr]. rewrite forallb_app, (IH Hr), andb_true_r. destruct (c =? 46); [reflexivity|]. cbn. rewrite Hc. reflexivity.
Qed.

Theorem type_anchor_exclusive cf n t :
  tag_id_dashed = true ->
  ae_ti cf = false -> ae_ni cf = false -> ae_sb cf = false -> nested_id_sep = s_dash_n -> tops_ok n = true ->
  (forall n', In n' (all_ns n) -> no_dash (ns_name n') = true) ->
  ti_is_array t = false -> version_ok t = true ->
  In (filter_tag_id t) (page_ids cf n) ->
  exists c, In c (all_listed n) /\ filter_tag_id (ci_t c) = filter_tag_id t.
Proof.
  intros Hd Hti Hni Hsb Hsep Hok Hnn Harr Hv Hin.
  pose proof (page_ids_classified cf n Hti Hni Hsb Hsep Hok) as H. rewrite forallb_forall in H. specialize (H _ Hin).
  destruct (version_ok_spec _ Hv) as [[Ma _] [Mi _]].
  pose proof (tag_id_shape Hd t Harr) as Shape. unfold dash_shape in Shape.
  destruct (dec_Z_nonempty _ Mi) as (d & r & Er & Hdg).
  unfold id_class in H. rewrite Shape in H.
  set (X := (str_replace1 46 [45] (ti_full_name t) ++ 45 :: dec_of_Z (ti_major t)) ++ 45 :: dec_of_Z (ti_minor t)) in *.
  assert (RX : rev X = d :: r ++ 45 :: rev (str_replace1 46 [45] (ti_full_name t) ++ 45 :: dec_of_Z (ti_major t))).
  { unfold X. rewrite rev_app_distr. cbn [rev]. rewrite <- app_assoc, Er. reflexivity. }
  assert (N1 : no_dash X = false).
  { unfold X, no_dash. rewrite forallb_app. cbn [forallb]. rewrite N.eqb_refl. cbn. apply andb_false_r. }
  assert (N2 : ends_with X s_sidebar_sfx = false).
  { unfold ends_with. rewrite RX. cbn [rev s_sidebar_sfx app starts_with].
    unfold is_digit in Hdg. destruct (N.eqb_spec 114 d) as [<-|]; [discriminate Hdg|reflexivity]. }
  assert (N3 : nested_shape X = false).
  { unfold nested_shape, X. rewrite rev_app_distr. cbn [rev]. rewrite <- app_assoc.
    rewrite (drop_while_pref_all is_digit _ _ (eq_trans (forallb_rev _ _) (dec_Z_digits _ Mi))). reflexivity. }
  assert (N4 : str_in X page_ST = false).
  { destruct (str_in X page_ST) eqn:E; [|reflexivity]. apply str_in_spec in E. destruct E as [E|[E|[]]]; rewrite <- E in N1; discriminate N1. }
  assert (N5 : str_in X (page_LN n) = false).
  { destruct (str_in X (page_LN n)) eqn:E; [|reflexivity]. exfalso. apply str_in_spec, in_map_iff in E. destruct E as (n' & E & Hn').
    unfold ns_id in E. destruct ns_ids_dashed.
    - apply (f_equal (@rev N)) in E. rewrite RX, rev_app_distr in E. cbn [rev s_ddns app] in E. injection E as E _. subst d. discriminate Hdg.
    - rewrite <- E, (no_dash_replace_us _ (Hnn _ Hn')) in N1. discriminate N1. }
  rewrite N2, N3, N4, N5, !orb_false_r in H. apply str_in_spec, in_map_iff in H. destruct H as (c & E & Hc).
  exists c. split; [exact Hc|]. rewrite E, Shape. reflexivity.
Qed.

(* ---------- (4) the kind of an id can be read off its end: the classes are pairwise disjoint ---------- *)
Lemma kind_sidebar x : id_kind (x ++ s_sidebar_sfx) = 3.
Proof. unfold id_kind. rewrite ends_with_sfx. reflexivity. Qed.

Lemma kind_type t : tag_id_dashed = true -> ti_is_array t = false -> version_ok t = true -> id_kind (filter_tag_id t) = 1.
Proof.
  intros Hd Harr Hv. destruct (version_ok_spec _ Hv) as [[Ma _] [Mi _]]. rewrite (tag_id_shape Hd t Harr). unfold dash_shape.
  destruct (dec_Z_nonempty _ Mi) as (d & r & Er & Hdg).
  set (X := (str_replace1 46 [45] (ti_full_name t) ++ 45 :: dec_of_Z (ti_major t)) ++ 45 :: dec_of_Z (ti_minor t)).
  assert (RX : rev X = d :: r ++ 45 :: rev (str_replace1 46 [45] (ti_full_name t) ++ 45 :: dec_of_Z (ti_major t))).
  { unfold X. rewrite rev_app_distr. cbn [rev]. rewrite <- app_assoc, Er. reflexivity. }
  assert (N3 : nested_shape X = false).
  { unfold nested_shape, X. rewrite rev_app_distr. cbn [rev]. rewrite <- app_assoc.
    rewrite (drop_while_pref_all is_digit _ _ (eq_trans (forallb_rev _ _) (dec_Z_digits _ Mi))). reflexivity. }
  unfold id_kind, ends_with, last_is_digit. rewrite N3, RX. cbn [rev s_sidebar_sfx s_ddns app starts_with].
  pose proof Hdg as Hdg'. unfold is_digit in Hdg'.
  destruct (N.eqb_spec 114 d) as [<-|]; [discriminate Hdg'|]. destruct (N.eqb_spec 115 d) as [<-|]; [discriminate Hdg'|]. cbn [andb].
  rewrite Hdg. reflexivity.
Qed.

Lemma kind_ns name : ns_ids_dashed = true -> id_kind (ns_id name) = 2.
Proof.
  intros Hd. unfold ns_id. rewrite Hd. unfold id_kind. rewrite ends_with_sfx.
  unfold ends_with. rewrite rev_app_distr. reflexivity.
Qed.

(* namespace ids of the '-' scheme are injective on dash-free names *)
Theorem ns_id_injective : ns_ids_dashed = true -> forall a b, no_dash a = true -> no_dash b = true -> ns_id a = ns_id b -> a = b.
Proof.
  intros Hd a b Ha Hb E. unfold ns_id in E. rewrite Hd in E. apply app_inv_tail in E. apply replace_dot_dash_inj; assumption.
Qed.

(* namespace ids by state: '_'-joined components collide (a.b_c / a.b.c: finding F-HTML-NS-ID-COLLISION), the '-' scheme does not *)
Theorem ns_ids_by_state : nodup_str (page_ids faithful_cfg w_site_nsdup) = ns_ids_dashed.
Proof. vm_compute. reflexivity. Qed.

(* hypothesis-free versions for the landed id scheme *)
Theorem id_scheme_now : tag_id_dashed = true /\ nested_id_sep = s_dash_n.
Proof. vm_compute. split; reflexivity. Qed.

Theorem ns_scheme_now : ns_ids_dashed = true.
Proof. vm_compute. reflexivity. Qed.
