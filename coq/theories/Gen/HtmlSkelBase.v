(* C20 -- types of the template skeletons and the output-site table that tools/translators/gen_c20.py (generator
   'htmlskel') regenerates from the HTML templates of /repo.  No proofs. *)
From Verif Require Export Str.
Open Scope N_scope.

(* literal tags a template contributes, with the Jinja control structure as a tree *)
Inductive skn :=
| KOpen (n : str)            (* <n ...> of a non-void element *)
| KClose (n : str)           (* </n> *)
| KVoid (n : str)            (* <n ...> of a void element *)
| KText                      (* literal character data / raw text of script, style, title / declarations, comments *)
| KSite (i : nat)            (* {{ expr }} in a text position: index into html_sites *)
| KIf (a : alts)             (* if / elif / else: exactly one alternative (an absent else is an empty alternative) *)
| KFor (b : skl)             (* for: zero or more repetitions *)
| KCall (key : str)          (* macro call or {% include %}: key of html_skeletons *)
with skl := SNil | SCons (k : skn) (r : skl)
with alts := ANone | AAlt (b : skl) (r : alts).

(* Jinja output expressions, as far as the classification looks into them *)
Inductive jexpr :=
| JStr (s : str)                       (* string literal *)
| JNum                                 (* numeric literal *)
| JName (x : str)                      (* variable *)
| JCond (a b : jexpr)                  (* a if _ else b  (absent else: the empty string) *)
| JOr (a b : jexpr)                    (* a or b / a and b: the value is one of the operands *)
| JBoolean                             (* not / comparison / test *)
| JCat (a b : jexpr)                   (* a ~ b, a + b *)
| JRepeat (a b : jexpr)                (* a * b *)
| JArith (a b : jexpr)                 (* - / // % ** and unary minus *)
| JAttr (e : jexpr) (name : str)       (* e.name *)
| JItemVersion (e : jexpr)             (* e.version[k] *)
| JReplace (e : jexpr) (c : N) (r : str)   (* e.replace("c", "r") *)
| JCount (e : jexpr)                   (* e.count(..) / index / find *)
| JFilter (name : str) (e : jexpr)     (* e | name  (no arguments) *)
| JOther.                              (* anything else *)

Record site := {
  st_template : str;
  st_line : N;
  st_ctx : N;     (* 0 text, 1 quoted attribute value, 2 script, 3 style, 4 title/textarea *)
  st_cls : N;     (* 0 template constant, 1 numeric, 2 DSDL identifier / type name, 3 ends in an escaping filter (e, escape,
                     forceescape, make_unique) applied to the WHOLE expression, 4 markup-producing filter (display_type),
                     8 DSDL documentation text not escaped as a whole, 9 not classified *)
  st_safe_filter : bool;  (* a `safe` filter occurs in the expression (directly or through a variable): autoescape is bypassed *)
  st_scope : str;         (* "file" or "file:macro": where the variables of the expression are bound *)
  st_expr : jexpr
}.
