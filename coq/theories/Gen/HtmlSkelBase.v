(* C20 -- types of the template skeletons and the output-site table that tools/translators/gen_c20.py (generator
   'htmlskel') regenerates from the HTML templates of /repo.  No proofs. *)
From Verif Require Export Str.
Open Scope N_scope.

(* literal tags a template contributes, with the Jinja control structure as a tree *)
Inductive skn :=
| KOpen (n : str)            (* <n ...> of a non-void element *)
| KClose (n : str)           (* </n> *)
| KVoid (n : str)            (* <n ...> of a void element *)
| KText                      (* literal character data / raw text of script, style, title / declarations, comments *)
| KSite (i : nat)            (* {{ expr }} in a text position: index into html_sites *)
| KIf (a : alts)             (* if / elif / else: exactly one alternative (an absent else is an empty alternative) *)
| KFor (b : skl)             (* for: zero or more repetitions *)
| KCall (key : str)          (* macro call or {% include %}: key of html_skeletons *)
with skl := SNil | SCons (k : skn) (r : skl)
with alts := ANone | AAlt (b : skl) (r : alts).

Record site := {
  st_template : str;
  st_line : N;
  st_ctx : N;     (* 0 text, 1 quoted attribute value, 2 script, 3 style, 4 title/textarea *)
  st_cls : N;     (* 0 template constant, 1 numeric, 2 DSDL identifier / type name, 3 ends in an escaping filter (e, escape,
                     forceescape, make_unique) applied to the WHOLE expression, 4 markup-producing filter (display_type),
                     8 DSDL documentation text not escaped as a whole, 9 not classified *)
  st_safe_filter : bool   (* a `safe` filter occurs in the expression (directly or through a variable): autoescape is bypassed *)
}.
