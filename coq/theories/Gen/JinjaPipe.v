(* C19: the template pipeline as ONE function of the template text: root-state scanner (Gen/JinjaRx.v, any rule list / option
   combination) -> Lexer.wrap -> Parser.subparse (the loop Nunavut modified; print statements, block statements and their nested
   bodies) -> rendering with an explicit context.  Everything Nunavut did not touch is a parameter: the non-root lexer states
   (`inner`), parse_tuple, parse_statement (which receives the recursive subparse for the bodies), expression evaluation, the
   text conversion of printed values (any Python value: `text` = soft_unicode / to_string) and statement rendering.
   `mark_v`/`mark_b` are the only switch: the bundled parser's marker decision (JinjaScan.code_marker with the environment's start
   strings), `never` for the upstream one. *)
From Verif Require Export JinjaScan JinjaRx.
Open Scope N_scope.

Definition K_DATA : str := [100; 97; 116; 97].
Definition K_VAREND : str := [118; 97; 114; 105; 97; 98; 108; 101; 95; 101; 110; 100].
Definition K_BLOCKEND : str := [98; 108; 111; 99; 107; 95; 101; 110; 100].
Definition K_NAME : str := [110; 97; 109; 101].
Definition K_WS : str := [119; 104; 105; 116; 101; 115; 112; 97; 99; 101].

(* Lexer.wrap: tokens the parser never sees *)
Definition wrap_drop (k : str) : bool :=
  str_in k [K_WS; k_comment; k_comment_end; n_comment; n_raw; k_raw_end;
            [108; 105; 110; 101; 99; 111; 109; 109; 101; 110; 116]; [108; 105; 110; 101; 99; 111; 109; 109; 101; 110; 116; 95; 98; 101; 103; 105; 110];
            [108; 105; 110; 101; 99; 111; 109; 109; 101; 110; 116; 95; 101; 110; 100]].
Definition K_LSBEGIN : str := [108; 105; 110; 101; 115; 116; 97; 116; 101; 109; 101; 110; 116; 95; 98; 101; 103; 105; 110].
Definition K_LSEND : str := [108; 105; 110; 101; 115; 116; 97; 116; 101; 109; 101; 110; 116; 95; 101; 110; 100].
Definition K_BLOCKEND0 : str := [98; 108; 111; 99; 107; 95; 101; 110; 100].
(* ... and line statements become ordinary blocks *)
Definition wrap_rename (t : xtok) : xtok :=
  if str_eqb (fst t) K_LSBEGIN then (n_block, snd t) else if str_eqb (fst t) K_LSEND then (K_BLOCKEND0, snd t) else t.
Definition wrap (toks : list xtok) : list xtok := map wrap_rename (filter (fun t => negb (wrap_drop (fst t))) toks).

Definition is_none {A} (o : option A) : bool := match o with None => true | Some _ => false end.
Definition K_OPERATOR : str := [111; 112; 101; 114; 97; 116; 111; 114].
Definition minus_first (toks : list xtok) : bool :=
  match toks with (k, v) :: _ => str_eqb k K_OPERATOR && str_eqb v [45] | [] => false end.

Inductive pnode (E St : Type) :=
| PData (d : str)                                    (* TemplateData *)
| PPrint (e : jnode E)                               (* print statement: plain, or Filter(rv, 'lineprefix', [Const prefix]) *)
| PStmt (s : St)                                     (* statement node returned by parse_statement *)
| PFilterBlock (body : list St) (name prefix : str).  (* FilterBlock(body = rv, filter = Filter(None, 'lineprefix', [Const prefix])) *)
Arguments PData {E St}. Arguments PPrint {E St}. Arguments PStmt {E St}. Arguments PFilterBlock {E St}.

Section Pipe.
  Variables E St C V : Type.
  (* the parser's marker decision for a variable_begin / block_begin token value: Some prefix = auto-indent (upstream: never) *)
  Variables mark_v mark_b : str -> option str.
  (* the print-statement guard of design_notes/C19_marker_minus_fix.patch: marker directly followed by the operator '-' -> syntax error *)
  Variable guard : bool.
  Variable parse_tuple : list xtok -> option (E * list xtok).
  Variable parse_statement : (list str -> list xtok -> option (list (pnode E St) * list xtok)) -> list xtok -> option (list St * list xtok).

  Definition is_end_name (ends : list str) (t : xtok) : bool := str_eqb (fst t) K_NAME && str_in (snd t) ends.

  (* Parser.subparse(end_tokens): returns the body and the remaining tokens (positioned at the end name when it stops there) *)
  Fixpoint subparse (fuel : nat) (ends : list str) (toks : list xtok) : option (list (pnode E St) * list xtok) :=
    match fuel with
    | O => None
    | S f =>
        match toks with
        | [] => Some ([], [])
        | (k, v) :: rest =>
            if str_eqb k K_DATA then
              match subparse f ends rest with Some (ns, r) => Some (PData v :: ns, r) | None => None end
            else if str_eqb k n_variable then
              if guard && negb (is_none (mark_v v)) && minus_first rest then None else
              match parse_tuple rest with
              | Some (e, (k2, _) :: rest2) =>
                  if str_eqb k2 K_VAREND then
                    let node := subparse_variable (mark_v v) e in
                    match subparse f ends rest2 with Some (ns, r) => Some (PPrint node :: ns, r) | None => None end
                  else None
              | _ => None
              end
            else if str_eqb k n_block then
              match rest with
              | t :: _ =>
                  if is_end_name ends t then Some ([], rest)
                  else
                    match parse_statement (subparse f) rest with
                    | Some (stmts, (k2, _) :: rest2) =>
                        if str_eqb k2 K_BLOCKEND then
                          let ns1 := match mark_b v with Some p => [PFilterBlock stmts autoindent_filter_name p] | None => map PStmt stmts end in
                          match subparse f ends rest2 with Some (ns, r) => Some (ns1 ++ ns, r) | None => None end
                        else None
                    | _ => None
                    end
              | [] => None
              end
            else None     (* AssertionError('internal parsing error') *)
        end
    end.

  (* rendering: output text and the context after the node (assignments, macros and imports change it) *)
  Variable ev : E -> C -> option V.
  Variable text : V -> str.       (* what a print statement emits for a value, and what soft_unicode gives lineprefix: ANY value *)
  Variable render_stmt : (list (pnode E St) -> C -> option (str * C)) -> St -> C -> option (str * C).

  Fixpoint render_stmts (cb : list (pnode E St) -> C -> option (str * C)) (ss : list St) (c : C) : option (str * C) :=
    match ss with
    | [] => Some ([], c)
    | s :: r => match render_stmt cb s c with
                | Some (o1, c1) => match render_stmts cb r c1 with Some (o2, c2) => Some (o1 ++ o2, c2) | None => None end
                | None => None
                end
    end.

  Definition render_one (cb : list (pnode E St) -> C -> option (str * C)) (n : pnode E St) (c : C) : option (str * C) :=
    match n with
    | PData d => Some (d, c)
    | PPrint (NPlain e) => match ev e c with Some v => Some (text v, c) | None => None end
    | PPrint (NFilter e name a) =>
        match ev e c, builtin_filters name with Some v, Some f => Some (f (text v) a, c) | _, _ => None end
    | PPrint (NFilterBlock _ _ _) => None
    | PStmt s => render_stmt cb s c
    | PFilterBlock ss name a =>
        (* the body is rendered in an inner frame: its output is filtered, its bindings do not leave the block *)
        match render_stmts cb ss c, builtin_filters name with Some (o, _), Some f => Some (f o a, c) | _, _ => None end
    end.

  Fixpoint render_list (cb : list (pnode E St) -> C -> option (str * C)) (ns : list (pnode E St)) (c : C) : option (str * C) :=
    match ns with
    | [] => Some ([], c)
    | n :: r => match render_one cb n c with
                | Some (o1, c1) => match render_list cb r c1 with Some (o2, c2) => Some (o1 ++ o2, c2) | None => None end
                | None => None
                end
    end.

  Fixpoint render (fuel : nat) (ns : list (pnode E St)) (c : C) : option (str * C) :=
    match fuel with
    | O => None
    | S f => render_list (render f) ns c
    end.

  (* template text -> output *)
  Variable u : uni.
  Variable rules : xrules.
  Variable inner : str -> option N -> str -> option (list xtok * nat).

  Definition pipeline (fuel : nat) (src : str) (c : C) : option str :=
    match scanx_all u rules inner src with
    | None => None
    | Some toks =>
        match subparse fuel [] (wrap toks) with
        | Some (ns, _) => match render fuel ns c with Some (o, _) => Some o | None => None end
        | None => None
        end
    end.
End Pipe.

Definition is_begin_kind (k : str) : bool := str_eqb k n_variable || str_eqb k n_block.
(* no begin token is taken for a marker by the parser *)
Definition no_marker_tokens (mv mb : str -> option str) (toks : list xtok) : bool :=
  forallb (fun t => (negb (str_eqb (fst t) n_variable) || is_none (mv (snd t))) && (negb (str_eqb (fst t) n_block) || is_none (mb (snd t)))) toks.
Definition never : str -> option str := fun _ => None.
