(* Proofs about Gen/LinePPOrder.v. *)
From Verif Require Import LinePP LinePPThm LinePPRejoinThm LinePPInst LinePPInstThm LinePPOrder.
From Coq Require Import Lia.
Open Scope N_scope.

(* ------------------------------------------------------------------------------------------------ *)
(* (a) the regex loop of the source = the character scan of the hand model                          *)
(* ------------------------------------------------------------------------------------------------ *)
Section Loop.
  Variable S : Type.
  Variable step : S -> line -> S * line.

  Lemma feed_first_nl s : forall i lb st out,
      match first_nl i s with
      | None => feed step s lb st out = (lb ++ s, st, out)
      | Some (j, after) =>
          exists pre nl, s = pre ++ nl ++ after /\ j = (i + length pre)%nat /\ (nl = [LF] \/ nl = [CR; LF]) /\
                         feed step s lb st out
                         = (let '(st', out') := emit step st out (lb ++ pre, nl) in feed step after [] st' out')
      end.
  Proof.
    induction s as [|c s IH]; intros i lb st out.
    - cbn. rewrite app_nil_r. reflexivity.
    - cbn [first_nl feed].
      destruct (c =? LF) eqn:EL.
      + exists [], [LF]. apply N.eqb_eq in EL. subst c. cbn [app length]. rewrite app_nil_r, Nat.add_0_r.
        repeat split; auto.
      + destruct s as [|d s'].
        * cbn. reflexivity.
        * destruct ((c =? CR) && (d =? LF)) eqn:ECR.
          -- apply andb_prop in ECR. destruct ECR as [E1 E2]. apply N.eqb_eq in E1, E2. subst c d.
             exists [], [CR; LF]. cbn [app length]. rewrite app_nil_r, Nat.add_0_r. repeat split; auto.
          -- specialize (IH (Datatypes.S i) (lb ++ [c]) st out).
             destruct (first_nl (Datatypes.S i) (d :: s')) as [[j after]|].
             ++ destruct IH as (pre & nl & Hs & Hj & Hnl & Hf).
                exists (c :: pre), nl. cbn [app length]. rewrite Hs at 1. repeat split; auto; [lia|].
                rewrite Hf. rewrite <- app_assoc. reflexivity.
             ++ rewrite IH. rewrite <- app_assoc. reflexivity.
  Qed.

  Lemma nl_length nl : nl = [LF] \/ nl = [CR; LF] -> (0 < length nl)%nat.
  Proof. intros [->| ->]; cbn; lia. Qed.

  Theorem feed_loop_is_feed : forall fuel rest lb st out,
      (length rest < fuel)%nat -> feed_loop step fuel rest lb st out = Some (feed step rest lb st out).
  Proof.
    induction fuel as [|f IH]; intros rest lb st out Hf; [lia|].
    cbn [feed_loop]. destruct rest as [|c r]; [reflexivity|].
    rewrite newline_pattern_spec.
    pose proof (feed_first_nl (c :: r) 0%nat lb st out) as H.
    destruct (first_nl 0 (c :: r)) as [[j after]|].
    - destruct H as (pre & nl & Hs & Hj & Hnl & Hfd). cbn [Nat.add] in Hj. subst j.
      rewrite Hfd, Hs.
      rewrite firstn_app, Nat.sub_diag, firstn_O, app_nil_r, firstn_all.
      rewrite skipn_app, Nat.sub_diag, skipn_O, skipn_all, app_nil_l.
      replace (length (pre ++ nl ++ after) - length pre - length after)%nat with (length nl)
        by (rewrite !app_length; lia).
      rewrite firstn_app, Nat.sub_diag, firstn_O, app_nil_r, firstn_all.
      destruct (emit step st out (lb ++ pre, nl)) as [st' out'].
      apply IH. pose proof (nl_length nl Hnl). rewrite Hs in Hf. rewrite !app_length in Hf. lia.
    - rewrite H. reflexivity.
  Qed.

  (* one part, with the fuel the code's loop needs at most *)
  Corollary feed_loop_part part lb st out :
    feed_loop step (Datatypes.S (length part)) part lb st out = Some (feed step part lb st out).
  Proof. apply feed_loop_is_feed. lia. Qed.
End Loop.

(* ------------------------------------------------------------------------------------------------ *)
(* (b) _handle_post_processors: the trimmer ends up before every limiter                             *)
(* ------------------------------------------------------------------------------------------------ *)
Lemma Some_inj {A} (x y : A) : Some x = Some y -> x = y.
Proof. intros H. injection H. auto. Qed.

Lemma limiter_indices_none l : forall i, existsb is_limit l = false -> limiter_indices i l = [].
Proof.
  induction l as [|k l IH]; intros i H; [reflexivity|]. cbn in *.
  apply orb_false_elim in H. destruct H as [H1 H2]. rewrite H1. apply IH. exact H2.
Qed.

Lemma limiter_indices_first l : forall i j rest,
    limiter_indices i l = j :: rest ->
    exists n, j = (i + n)%nat /\ (n < length l)%nat /\ existsb is_limit (firstn n l) = false /\
              exists k tl, skipn n l = k :: tl /\ is_limit k = true.
Proof.
  induction l as [|k l IH]; intros i j rest H; [discriminate|]. cbn [limiter_indices] in H.
  destruct (is_limit k) eqn:E.
  - inversion H; subst. exists 0%nat. cbn. repeat split; try lia. exists k, l. auto.
  - destruct (IH _ _ _ H) as (n & Hj & Hn & Hpre & k' & tl & Hsk & Hk).
    exists (Datatypes.S n). cbn [firstn skipn existsb length]. rewrite E, Hpre. repeat split; try lia.
    exists k', tl. auto.
Qed.

(* Where the trimmer is put: *)
Theorem augment_trim_shape l :
  existsb is_trim l = false ->
  exists pre post, augment_trim (Some l) = pre ++ KTrim :: post /\ l = pre ++ post /\ existsb is_limit pre = false.
Proof.
  intros Ht. unfold augment_trim. rewrite Ht.
  destruct (limiter_indices 0 l) as [|j rest] eqn:E.
  - exists l, []. unfold insert_at. rewrite firstn_all, skipn_all, app_nil_r. repeat split; auto.
    clear -E. revert E. generalize 0%nat. induction l as [|k l IH]; intros i E; [reflexivity|].
    cbn in *. destruct (is_limit k); [discriminate|]. cbn. eapply IH. exact E.
  - destruct (limiter_indices_first _ _ _ _ E) as (n & Hj & Hn & Hpre & _). cbn in Hj. subst j.
    exists (firstn n l), (skipn n l). unfold insert_at. repeat split; auto. symmetry. apply firstn_skipn.
Qed.

Definition trim_before_limits (l : list pk) : Prop :=
  exists pre post, l = pre ++ KTrim :: post /\ existsb is_limit pre = false.

(* the list _handle_post_processors returns when trimming is configured and the caller did not supply a trimmer of their own *)
Theorem handle_trim_before_limit cfg_limit given l :
  (forall g, given = Some g -> existsb is_trim g = false) ->
  handle_pps cfg_limit true given = Some l -> trim_before_limits l.
Proof.
  intros Hg H. unfold handle_pps, handle_pps_with in H. inversion H as [Hl]. clear H.
  assert (Hshape : forall g, existsb is_trim g = false -> trim_before_limits (augment_trim (Some g))).
  { intros g Hgt. destruct (augment_trim_shape g Hgt) as (pre & post & E & _ & Hp). exists pre, post. auto. }
  destruct cfg_limit as [n|].
  - apply Hshape. unfold augment_limit. destruct given as [g|]; [|reflexivity].
    specialize (Hg g eq_refl). destruct (existsb is_limit g); [exact Hg|].
    rewrite existsb_app, Hg. reflexivity.
  - destruct given as [g|].
    + apply Hshape. apply Hg. reflexivity.
    + exists [], []. split; reflexivity.
Qed.

(* nothing the caller supplied is dropped or reordered *)
Theorem handle_keeps_given cfg_limit cfg_trim g l :
  handle_pps cfg_limit cfg_trim (Some g) = Some l ->
  filter (fun k => negb (is_trim k) && negb (is_limit k)) l = filter (fun k => negb (is_trim k) && negb (is_limit k)) g.
Proof.
  unfold handle_pps, handle_pps_with. intros H.
  assert (A : forall g' n, filter (fun k => negb (is_trim k) && negb (is_limit k)) (augment_limit (Some g') n)
                           = filter (fun k => negb (is_trim k) && negb (is_limit k)) g').
  { intros g' n. unfold augment_limit. destruct (existsb is_limit g'); [reflexivity|].
    rewrite filter_app. cbn. apply app_nil_r. }
  assert (B : forall g', filter (fun k => negb (is_trim k) && negb (is_limit k)) (augment_trim (Some g'))
                         = filter (fun k => negb (is_trim k) && negb (is_limit k)) g').
  { intros g'. unfold augment_trim. destruct (existsb is_trim g'); [reflexivity|]. unfold insert_at.
    rewrite filter_app. cbn [filter is_trim negb andb]. rewrite <- filter_app, firstn_skipn. reflexivity. }
  destruct cfg_limit as [n|], cfg_trim; cbv beta iota zeta in H; apply Some_inj in H; rewrite <- H, ?B, ?A; reflexivity.
Qed.

(* the default of nnvg: both options configured, no line processor supplied by the caller *)
Theorem handle_default N g :
  existsb is_trim g = false -> existsb is_limit g = false ->
  exists l, handle_pps (Some N) true (Some g) = Some l /\ to_pps l = [PTrim; PLimit (LimitEmptyLines_init N)].
Proof.
  intros Ht Hl. unfold handle_pps, handle_pps_with, augment_limit. rewrite Hl.
  eexists. split; [reflexivity|].
  unfold augment_trim. rewrite existsb_app, Ht. cbn [existsb is_trim orb].
  assert (E : forall i, limiter_indices i (g ++ [KLimit N]) = [(i + length g)%nat]).
  { clear Ht. induction g as [|k g IH]; intros i; cbn in *.
    - rewrite Nat.add_0_r. reflexivity.
    - apply orb_false_elim in Hl. destruct Hl as [H1 H2]. rewrite H1. rewrite (IH H2). f_equal. lia. }
  rewrite E. cbn [Nat.add]. unfold insert_at.
  rewrite firstn_app, Nat.sub_diag, firstn_O, app_nil_r, firstn_all.
  rewrite skipn_app, Nat.sub_diag, skipn_O, skipn_all, app_nil_l.
  assert (T : forall g', existsb is_trim g' = false -> existsb is_limit g' = false -> to_pps g' = []).
  { induction g' as [|k g' IH]; intros A B; [reflexivity|]. cbn in *.
    apply orb_false_elim in A. apply orb_false_elim in B. destruct A as [A1 A2], B as [B1 B2].
    destruct k; try discriminate. cbn. apply IH; assumption. }
  unfold to_pps. rewrite flat_map_app. fold (to_pps g). rewrite (T g Ht Hl). reflexivity.
Qed.

(* nnvg end to end: whatever the command line and the language configuration say, if the final list trims at all, it
   trims before it limits *)
Theorem cli_then_handle_order t lim ext cfg_limit cfg_trim l :
  handle_pps cfg_limit cfg_trim (Some (cli_list t lim ext)) = Some l ->
  existsb is_trim l = true -> trim_before_limits l.
Proof.
  intros H Ht. destruct t.
  - (* the command line put the trimmer first; nothing is ever inserted before it *)
    exists [], (match lim with Some n => [KLimit n] | None => [] end ++ (if ext then [KOther] else []) ++ [KOther]
                ++ (match cfg_limit, lim with Some n, None => [KLimit n] | _, _ => [] end)).
    split; [|reflexivity].
    unfold handle_pps, handle_pps_with in H.
    destruct cfg_limit as [n|], cfg_trim, lim as [m|], ext; cbv in H; apply Some_inj in H; rewrite <- H; reflexivity.
  - destruct cfg_trim.
    + apply (handle_trim_before_limit cfg_limit (Some (cli_list false lim ext)) l); [|exact H].
      intros g Hg. apply Some_inj in Hg. subst g. destruct lim, ext; reflexivity.
    + exfalso. unfold handle_pps, handle_pps_with in H.
      destruct cfg_limit as [n|], lim as [m|], ext; cbv in H; apply Some_inj in H; rewrite <- H in Ht; discriminate.
Qed.

(* the order before fix 436c2bd *)
Example handle_old_order :
  option_map to_pps (handle_pps_old (Some 1%Z) true None) = Some [PLimit (LimitEmptyLines_init 1); PTrim].
Proof. reflexivity. Qed.

(* ------------------------------------------------------------------------------------------------ *)
(* (c) the file as a list of lines                                                                   *)
(* ------------------------------------------------------------------------------------------------ *)
Section Emitted.
  Variable S : Type.
  Variable step : S -> line -> S * line.

  Lemma linewise_from_emitted ls : forall st out,
      snd (linewise_from step st out ls) = out ++ concat (map flat (emitted step st ls)).
  Proof.
    induction ls as [|l ls IH]; intros st out.
    - cbn. rewrite app_nil_r. reflexivity.
    - unfold linewise_from in *. cbn [fold_left emitted fst snd]. unfold emit at 2.
      destruct (step st l) as [st' l'] eqn:E. cbn [fst snd]. rewrite IH. cbn [map concat]. unfold flat at 2.
      rewrite <- !app_assoc. reflexivity.
  Qed.

  Theorem linewise_is_concat_emitted st text :
    snd (linewise step st text) = concat (map flat (emitted step st (split_lines text))).
  Proof. unfold linewise. rewrite linewise_from_emitted. reflexivity. Qed.
End Emitted.

Lemma pipe_step_app a : forall b l,
    pipe_step (a ++ b) l
    = (let '(a', l1) := pipe_step a l in let '(b', l2) := pipe_step b l1 in (a' ++ b', l2)).
Proof.
  induction a as [|p a IH]; intros b l.
  - cbn. destruct (pipe_step b l). reflexivity.
  - cbn [app pipe_step]. destruct (pp_step p l) as [p' l1]. rewrite IH.
    destruct (pipe_step a l1) as [a' l2]. destruct (pipe_step b l2) as [b' l3]. reflexivity.
Qed.

Lemma emitted_app ls : forall a b,
    emitted pipe_step (a ++ b) ls = emitted pipe_step b (emitted pipe_step a ls).
Proof.
  induction ls as [|l ls IH]; intros a b; [reflexivity|].
  cbn [emitted]. rewrite pipe_step_app.
  destruct (pipe_step a l) as [a' l1]. cbn [emitted]. destruct (pipe_step b l1) as [b' l2]. rewrite IH. reflexivity.
Qed.

Lemma emitted_limit s ls : emitted pipe_step [PLimit s] ls = limit_lines s ls.
Proof.
  revert s. induction ls as [|l ls IH]; intros s; [reflexivity|].
  cbn [emitted pipe_step pp_step limit_lines]. destruct (LimitEmptyLines_call s l) as [s' l']. rewrite IH. reflexivity.
Qed.

Definition trim_line (l : line) : line := (rstrip py_ws (fst l), snd l).

Lemma emitted_trim ls : emitted pipe_step [PTrim] ls = map trim_line ls.
Proof.
  induction ls as [|[c t] ls IH]; [reflexivity|].
  cbn [emitted pipe_step pp_step map]. rewrite trim_exact_lemma, IH. reflexivity.
Qed.

(* a line no trailing whitespace is left on *)
Definition trimmed (l : line) : Prop := rstrip py_ws (fst l) = fst l.

Lemma rstrip_idem p s : rstrip p (rstrip p s) = rstrip p s.
Proof.
  induction s as [|c s IH]; [reflexivity|]. cbn [rstrip].
  destruct (rstrip p s) as [|x t] eqn:E.
  - destruct (p c) eqn:Ep; [reflexivity|]. cbn. rewrite Ep. reflexivity.
  - change (rstrip p (c :: x :: t)) with (match rstrip p (x :: t) with [] => if p c then [] else [c] | t' => c :: t' end).
    rewrite IH. reflexivity.
Qed.

Lemma rstrip_all_gen (p : chr -> bool) s : forallb p s = true -> rstrip p s = [].
Proof.
  induction s as [|c s IH]; cbn; [reflexivity|]. intros H; apply andb_prop in H as [Hc Hs].
  rewrite (IH Hs), Hc. reflexivity.
Qed.

Lemma trimmed_builtin p l : trimmed l -> trimmed (snd (pp_step p l)).
Proof.
  intros H. destruct p as [|s]; cbn [pp_step].
  - destruct l as [c t]. rewrite trim_exact_lemma. unfold trimmed in *. cbn [fst snd] in *. rewrite H. exact H.
  - unfold LimitEmptyLines_call.
    repeat match goal with |- context [if ?b then _ else _] => destruct b end; cbn [snd]; try exact H; reflexivity.
Qed.

Lemma trimmed_pipe ps : forall l, trimmed l -> trimmed (snd (pipe_step ps l)).
Proof.
  induction ps as [|p ps IH]; intros l H; [exact H|].
  cbn [pipe_step]. pose proof (trimmed_builtin p l H) as H1. destruct (pp_step p l) as [p' l1]. cbn [snd] in H1.
  specialize (IH l1 H1). destruct (pipe_step ps l1) as [ps' l2]. exact IH.
Qed.

Lemma trimmed_emitted ls : forall ps, Forall trimmed ls -> Forall trimmed (emitted pipe_step ps ls).
Proof.
  induction ls as [|l ls IH]; intros ps H; [constructor|].
  inversion H as [|? ? Hl Hls]; subst. cbn [emitted].
  pose proof (trimmed_pipe ps l Hl) as H1. destruct (pipe_step ps l) as [ps' l']. constructor; [exact H1|].
  apply IH. exact Hls.
Qed.

Lemma trim_line_trimmed l : trimmed (trim_line l).
Proof. unfold trimmed, trim_line. cbn [fst]. apply rstrip_idem. Qed.

(* on a trimmed line blank = empty *)
Lemma blank_trimmed l : trimmed l -> blank l = empty_content l.
Proof.
  unfold trimmed, blank, empty_content. intros H. destruct (fst l) as [|c s] eqn:E; [reflexivity|].
  destruct (forallb py_ws_chr (c :: s)) eqn:F; [|reflexivity].
  exfalso. rewrite (rstrip_all_gen py_ws (c :: s) F) in H. discriminate.
Qed.

Lemma elided_same l : is_elided l = elided l.
Proof. reflexivity. Qed.

Lemma blank_runs_trimmed N ls : forall c, Forall trimmed ls -> blank_runs_ok N c ls = runs_ok N c ls.
Proof.
  induction ls as [|l ls IH]; intros c H; [reflexivity|].
  inversion H as [|? ? Hl Hls]; subst. cbn [blank_runs_ok runs_ok]. rewrite elided_same, (blank_trimmed l Hl), !IH by assumption.
  reflexivity.
Qed.

(* THE FILE-LEVEL BOUND: any pipeline of built-in processors in which a trimmer runs before the last stage and the last
   stage is the limiter -- in particular the pipeline _handle_post_processors builds -- writes at most N consecutive
   blank (empty or whitespace-only) lines. *)
Theorem file_blank_bound (N : Z) (pre mid : list pp) (ls : list line) :
  (0 <= N)%Z ->
  blank_runs_ok N 0 (emitted pipe_step (pre ++ PTrim :: mid ++ [PLimit (LimitEmptyLines_init N)]) ls) = true.
Proof.
  intros HN.
  change (PTrim :: mid ++ [PLimit (LimitEmptyLines_init N)]) with ([PTrim] ++ mid ++ [PLimit (LimitEmptyLines_init N)]).
  rewrite !emitted_app, emitted_limit, emitted_trim.
  rewrite blank_runs_trimmed.
  - apply limit_bound_lemma. exact HN.
  - rewrite <- emitted_limit. apply trimmed_emitted. apply trimmed_emitted.
    apply Forall_forall. intros l Hin. apply in_map_iff in Hin. destruct Hin as (x & <- & _). apply trim_line_trimmed.
Qed.

(* ... and every non-blank line survives, in order, with exactly its trailing whitespace removed (default pipeline) *)
Lemma filter_nonempty_trim ls :
  filter (fun l => negb (empty_content l)) (map trim_line ls) = map trim_line (filter (fun l => negb (blank l)) ls).
Proof.
  induction ls as [|l ls IH]; [reflexivity|]. cbn [map filter].
  assert (E : empty_content (trim_line l) = blank l).
  { rewrite <- (blank_trimmed _ (trim_line_trimmed l)). unfold blank, trim_line. cbn [fst].
    destruct (forallb py_ws_chr (fst l)) eqn:F.
    - rewrite (rstrip_all_gen py_ws _ F). reflexivity.
    - destruct (rstrip_decomp py_ws (fst l)) as (w & Hw & Hall).
      destruct (forallb py_ws_chr (rstrip py_ws (fst l))) eqn:G; [|reflexivity].
      exfalso. rewrite Hw in F. rewrite forallb_app in F. change py_ws_chr with py_ws in *. rewrite G, Hall in F. discriminate. }
  rewrite E. destruct (blank l); cbn [negb map]; rewrite IH; reflexivity.
Qed.

Theorem default_pipeline_keeps_nonblank (N : Z) (ls : list line) :
  (0 <= N)%Z ->
  filter (fun l => negb (empty_content l)) (emitted pipe_step [PTrim; PLimit (LimitEmptyLines_init N)] ls)
  = map trim_line (filter (fun l => negb (blank l)) ls).
Proof.
  intros HN. change [PTrim; PLimit (LimitEmptyLines_init N)] with ([PTrim] ++ [PLimit (LimitEmptyLines_init N)]).
  rewrite emitted_app, emitted_limit, emitted_trim, limit_nonempty_subsequence_lemma by exact HN.
  apply filter_nonempty_trim.
Qed.

(* the other order does not bound the blank lines of the file: "a\n \n \n \nb\n", limit 1 *)
Example limit_before_trim_unbounded :
  blank_runs_ok 1 0 (emitted pipe_step [PLimit (LimitEmptyLines_init 1); PTrim]
                            (split_lines [97; 10; 32; 10; 32; 10; 32; 10; 98; 10])) = false.
Proof. vm_compute. reflexivity. Qed.

Example trim_before_limit_same_text :
  snd (write_builtin [PTrim; PLimit (LimitEmptyLines_init 1)] [[97; 10; 32; 10; 32]; [10; 32; 10; 98; 10]])
  = [97; 10; 10; 98; 10].
Proof. vm_compute. reflexivity. Qed.

(* boundary of the limiter's contract (outside the property's quantifier N >= 0): a negative limit elides every line *)
Lemma limit_negative_gen ls : forall s,
    (LimitEmptyLines_max_empty_lines s < 0)%Z -> (0 <= LimitEmptyLines_empty_line_count s)%Z ->
    limit_lines s ls = map (fun _ => ([], [])) ls.
Proof.
  induction ls as [|l ls IH]; intros s HN Hc; [reflexivity|].
  cbn [limit_lines map]. unfold LimitEmptyLines_call.
  destruct s as [N cnt]; cbn [LimitEmptyLines_max_empty_lines LimitEmptyLines_empty_line_count] in *.
  destruct (Z.of_nat (length (fst l)) =? 0)%Z.
  - destruct (Z.gtb_spec (cnt + 1) N); [|lia]. rewrite IH; [reflexivity|cbn; lia|cbn; lia].
  - destruct (Z.gtb_spec 0 N); [|lia]. rewrite IH; [reflexivity|cbn; lia|cbn; lia].
Qed.

Theorem limit_negative_deletes_all (N : Z) ls :
  (N < 0)%Z -> limit_lines (LimitEmptyLines_init N) ls = map (fun _ => ([], [])) ls.
Proof. intros H. apply limit_negative_gen; cbn; lia. Qed.

(* the translated limiter does exactly what limit_spec says: in particular it keeps the first N empty lines of every run
   (a limiter that elided every empty line would satisfy the bound but not this) *)
Lemma limit_lines_exact_gen ls : forall s,
    (0 <= LimitEmptyLines_max_empty_lines s)%Z ->
    limit_lines s ls = limit_spec (LimitEmptyLines_max_empty_lines s) (LimitEmptyLines_empty_line_count s) ls.
Proof.
  induction ls as [|l ls IH]; intros s HN; [reflexivity|].
  cbn [limit_lines limit_spec]. unfold LimitEmptyLines_call. rewrite length_zero_iff.
  destruct s as [N cnt]; cbn [LimitEmptyLines_max_empty_lines LimitEmptyLines_empty_line_count] in *.
  destruct (fst l) as [|x content] eqn:E.
  - destruct (Z.gtb_spec (cnt + 1) N) as [Hgt|Hle].
    + replace (cnt + 1 <=? N)%Z with false by (symmetry; apply Z.leb_gt; lia).
      rewrite (IH {| LimitEmptyLines_max_empty_lines := N; LimitEmptyLines_empty_line_count := cnt + 1 |}) by (cbn; lia). reflexivity.
    + replace (cnt + 1 <=? N)%Z with true by (symmetry; apply Z.leb_le; lia).
      rewrite (IH {| LimitEmptyLines_max_empty_lines := N; LimitEmptyLines_empty_line_count := cnt + 1 |}) by (cbn; lia). reflexivity.
  - destruct (Z.gtb_spec 0 N); [lia|].
    rewrite (IH {| LimitEmptyLines_max_empty_lines := N; LimitEmptyLines_empty_line_count := 0 |}) by (cbn; lia). reflexivity.
Qed.

Theorem limit_lines_exact (N : Z) (ls : list line) :
  (0 <= N)%Z -> limit_lines (LimitEmptyLines_init N) ls = limit_spec N 0 ls.
Proof. intros HN. apply (limit_lines_exact_gen ls (LimitEmptyLines_init N)). exact HN. Qed.

Example limit_spec_keeps_first_n :
  limit_spec 2 0 [([97], [10]); ([], [10]); ([], [10]); ([], [10]); ([], [10]); ([98], [10])]
  = [([97], [10]); ([], [10]); ([], [10]); ([], []); ([], []); ([98], [10])].
Proof. reflexivity. Qed.
