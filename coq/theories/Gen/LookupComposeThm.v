(* Gen/LookupComposeThm.v -- C16: which FILE is rendered for a class.  _generate_type takes type_to_template(type(T)).name and
   hands that NAME to get_source, which searches the user search paths in order and then the package.  Composition of the two,
   against the property's reading "most specific class of the chain that has a template in ANY root; file of the first root that
   has it", with the two deviations of the code as boolean triggers.  No axioms. *)
From Verif Require Import Str Lookup LookupThm LookupSortThm Gen_Lookup LookupInst LookupInstThm.
Import ListNotations.
Open Scope N_scope.

Definition index_ok_ids : bool :=
  forallb (fun k => let n := p_name k in
                    str_eqb (py_stem (n ++ g_template_suffix)) n && str_eqb (py_suffix (n ++ g_template_suffix)) g_template_suffix
                    && str_eqb (basename (n ++ g_template_suffix)) (n ++ g_template_suffix)) p_ids.
Lemma index_ok_ids_true : index_ok_ids = true. Proof. vm_compute. reflexivity. Qed.

Lemma index_ok k : In k p_ids ->
  py_stem (p_exact_name k) = p_name k /\ py_suffix (p_exact_name k) = g_template_suffix /\ basename (p_exact_name k) = p_exact_name k.
Proof.
  intros H. pose proof index_ok_ids_true as F. unfold index_ok_ids in F. rewrite forallb_forall in F. specialize (F k H). cbn zeta in F.
  apply andb_prop in F. destruct F as [F F3]. apply andb_prop in F. destruct F as [F1 F2]. unfold p_exact_name.
  destruct (str_eqb_spec (py_stem (p_name k ++ g_template_suffix)) (p_name k)); [|discriminate F1].
  destruct (str_eqb_spec (py_suffix (p_name k ++ g_template_suffix)) g_template_suffix); [|discriminate F2].
  destruct (str_eqb_spec (basename (p_name k ++ g_template_suffix)) (p_name k ++ g_template_suffix)); [|discriminate F3].
  repeat split; assumption.
Qed.

Lemma chain_ids : forall n c, In c p_ids -> forall k, In k (chain_n p_bases n c) -> In k p_ids.
Proof.
  induction n as [|n IH]; intros c Hc k Hk; cbn [chain_n] in Hk.
  - destruct Hk as [<-|[]]. exact Hc.
  - destruct Hk as [<-|Hk]; [exact Hc|].
    destruct (p_bases c) as [|p l] eqn:B; [destruct Hk|]. apply (IH p); [|exact Hk].
    unfold p_bases in B. destruct (g_chain_ends_at_any && (c =? g_cls_Any)); [discriminate B|]. unfold tbl_bases in B.
    destruct (tbl_get g_classes c) as [[nm [b r]]|] eqn:G; [|discriminate B]. subst b.
    pose proof (forest_entry c nm (p :: l) r G) as F. destruct l as [|p' l]; [|contradiction F].
    apply andb_prop in F. destruct F as [F _]. apply andb_prop in F. destruct F as [F _]. apply memN_In. exact F.
Qed.

Lemma aget_some_of_In {A} (l : list (str * A)) n v : In (n, v) l -> aget l n <> None.
Proof.
  induction l as [|[k w] l IH]; intros H; [destruct H|]. cbn [aget].
  destruct (aget l n) eqn:G; [discriminate|]. destruct H as [E|H]; [|exfalso; apply (IH H); reflexivity].
  inversion E; subst. rewrite str_eqb_refl. discriminate.
Qed.

Lemma flatb_concat : forall rs, forallb flatb rs = true -> flatb (concat rs) = true.
Proof.
  induction rs as [|r rs IH]; cbn [forallb concat]; [reflexivity|]. intros H. apply andb_prop in H. destruct H as [H1 H2].
  unfold flatb in *. rewrite forallb_app, H1. apply IH. exact H2.
Qed.

(* the index of a flat listing: class k is indexed iff the listing has the file <k><suffix>, and then that file is the entry *)
Lemma idx_fwd raw k p : In k p_ids -> g_index_top_level_only = true \/ flatb raw = true -> p_idx raw k = Some p ->
  p = p_exact_name k /\ In p raw.
Proof.
  intros Hk Hf H. destruct (p_only_exact_names raw k p H) as [Hin Hb]. split; [|exact Hin].
  destruct Hf as [Ht|Hf].
  { unfold p_idx, tmap, p_tset in H. rewrite Ht in H. apply mk_tset_top in H. rewrite <- H. exact Hb. }
  unfold flatb in Hf. rewrite forallb_forall in Hf. specialize (Hf p Hin). fold (p_exact_name k) in Hb.
  destruct (index_ok k Hk) as [_ [S2 _]]. rewrite Hb, S2, str_eqb_refl in Hf. cbn [negb orb] in Hf.
  destruct (str_eqb_spec (p_exact_name k) p) as [E|]; [symmetry; exact E | discriminate Hf].
Qed.

Lemma idx_bwd raw k : In k p_ids -> In (p_exact_name k) raw -> p_idx raw k <> None.
Proof.
  intros Hk Hin. destruct (index_ok k Hk) as [S1 [S2 S3]]. unfold p_idx, tmap, p_tset, mk_tset.
  apply (aget_some_of_In _ (p_name k) (p_exact_name k)). apply in_map_iff. exists (p_exact_name k). split.
  - rewrite S3, S1. reflexivity.
  - apply filter_In. split; [apply list_templates_In; exact Hin|]. rewrite S3, S2, !str_eqb_refl, orb_true_r. reflexivity.
Qed.

Lemma in_root_concat (rs : list (list path)) p : (exists r, In r rs /\ has_file r p = true) <-> In p (concat rs).
Proof.
  rewrite in_concat. split.
  - intros [r [Hr Hf]]. exists r. split; [exact Hr | apply has_file_In; exact Hf].
  - intros [r [Hr Hp]]. exists r. split; [exact Hr | apply has_file_In; exact Hp].
Qed.

Lemma first_root_some_iff rs p : first_root rs p 0 <> None <-> In p (concat rs).
Proof.
  rewrite <- in_root_concat. split.
  - intros H. destruct (first_root rs p 0) as [i|] eqn:E; [|contradiction H; reflexivity].
    destruct (first_root_spec p rs 0%nat i E) as [j [r [_ [Hn [Hf _]]]]]. exists r. split; [apply (nth_error_In _ _ Hn) | exact Hf].
  - intros [r [Hr Hf]] E. rewrite first_root_none in E. rewrite (E r Hr) in Hf. discriminate Hf.
Qed.

Section Compose.
  Variables (rs : list (list path)) (pl : list path).
  Hypothesis Hflat : g_index_top_level_only = true \/ (forallb flatb rs = true /\ flatb pl = true).
  Let Hfr : g_index_top_level_only = true \/ flatb (concat rs) = true.
  Proof. destruct Hflat as [H|[H _]]; [left; exact H | right; apply flatb_concat; exact H]. Qed.
  Let Hfp : g_index_top_level_only = true \/ flatb pl = true.
  Proof. destruct Hflat as [H|[_ H]]; [left; exact H | right; exact H]. Qed.
  Let TF := p_idx (concat rs).
  Let TP := p_idx pl.

  Definition out_of (r : option path) : outcome :=
    match r with
    | None => NoTemplate
    | Some p => match get_source (Some rs) (Some pl) (basename p) with Some o => Rendered o (basename p) | None => NotFound (basename p) end
    end.
  Fixpoint spec_chain (l : list cls) : outcome :=
    match l with
    | [] => NoTemplate
    | k :: l' => match get_source (Some rs) (Some pl) (p_exact_name k) with
                 | Some o => Rendered o (p_exact_name k)
                 | None => spec_chain l'
                 end
    end.

  Lemma compose_chain : forall l, (forall k, In k l -> In k p_ids) -> out_of (nearest_any TF TP l) = spec_chain l.
  Proof.
    induction l as [|k l IH]; intros Hids; cbn [nearest_any spec_chain]; [reflexivity|].
    assert (Hk : In k p_ids) by (apply Hids; left; reflexivity).
    destruct (index_ok k Hk) as [_ [_ S3]].
    destruct (TF k) as [p|] eqn:Tf.
    - destruct (idx_fwd _ k p Hk Hfr Tf) as [-> Hin]. cbn [out_of]. rewrite S3.
      unfold get_source. destruct (first_root rs (p_exact_name k) 0) as [i|] eqn:E; [reflexivity|].
      exfalso. apply (proj2 (first_root_some_iff rs (p_exact_name k)) Hin). exact E.
    - assert (NoU : first_root rs (p_exact_name k) 0 = None).
      { destruct (first_root rs (p_exact_name k) 0) eqn:E; [|reflexivity]. exfalso.
        apply (idx_bwd (concat rs) k Hk); [|exact Tf]. apply first_root_some_iff. rewrite E. discriminate. }
      destruct (TP k) as [p|] eqn:Tp.
      + destruct (idx_fwd _ k p Hk Hfp Tp) as [-> Hin]. cbn [out_of]. rewrite S3. unfold get_source, pkg_source. rewrite NoU.
        rewrite (proj2 (has_file_In pl (p_exact_name k)) Hin). reflexivity.
      + unfold get_source at 1, pkg_source. rewrite NoU.
        destruct (has_file pl (p_exact_name k)) eqn:Hp.
        * exfalso. apply (idx_bwd pl k Hk); [apply has_file_In; exact Hp | exact Tp].
        * apply IH. intros x Hx. apply Hids. right. exact Hx.
  Qed.
End Compose.

Lemma spec_lookup_Tof fs pkg l :
  spec_lookup fs pkg l = match nearest (Tof fs) l with Some p => Some p | None => nearest (Tof pkg) l end.
Proof.
  unfold spec_lookup. destruct fs as [T|]; cbn [Tof].
  - destruct (nearest T l); [reflexivity|]. destruct pkg; cbn [Tof]; [reflexivity|]. symmetry. apply nearest_none. reflexivity.
  - rewrite (nearest_none (fun _ => None)) by reflexivity. destruct pkg; cbn [Tof]; [reflexivity|].
    symmetry. apply nearest_none. reflexivity.
Qed.

Definition roots_of (fs : option (list (list path))) : list (list path) := match fs with Some r => r | None => [] end.
Definition plist_of (pk : option (list path)) : list path := match pk with Some l => l | None => [] end.

Lemma Tof_fs fs k : Tof (p_index_fs fs) k = p_idx (concat (roots_of fs)) k.
Proof. destruct fs; reflexivity. Qed.
Lemma Tof_pk pk k : Tof (p_index_pkg pk) k = p_idx (plist_of pk) k.
Proof. destruct pk; reflexivity. Qed.

Lemma nearest_ext T T' : (forall k, T k = T' k) -> forall l, nearest T l = nearest T' l.
Proof. intros H. induction l as [|c l IH]; cbn [nearest]; [reflexivity|]. rewrite H, IH. reflexivity. Qed.
Lemma nearest_any_ext T T' U U' : (forall k, T k = T' k) -> (forall k, U k = U' k) -> forall l, nearest_any T U l = nearest_any T' U' l.
Proof. intros H H'. induction l as [|c l IH]; cbn [nearest_any]; [reflexivity|]. rewrite H, H', IH. reflexivity. Qed.
Lemma shadow_freeb_ext T T' U U' : (forall k, T k = T' k) -> (forall k, U k = U' k) -> forall l, shadow_freeb T U l = shadow_freeb T' U' l.
Proof.
  intros H H'. induction l as [|c l IH]; cbn [shadow_freeb]; [reflexivity|]. rewrite H, H', IH, (nearest_ext T T' H). reflexivity.
Qed.

Lemma get_source_norm fs pk n : get_source fs pk n = get_source (Some (roots_of fs)) (Some (plist_of pk)) n.
Proof. destruct fs, pk; reflexivity. Qed.

(* THE COMPOSED STATEMENT, partial: if no indexed template lives in a sub-directory and no built-in template of a nearer class is
   passed over for a user template of a more general class, the file rendered for class c is the file <k><suffix> of the first
   root that has it, k = the most specific class of c's chain with such a file in ANY root *)
Lemma p_rendered_partial pol dirs pkg c : In c p_ids ->
  p_flatb pol dirs pkg = true -> p_shadow_freeb pol dirs pkg c = true ->
  p_rendered_seq false pol dirs pkg [c] = [p_spec_rendered_code pol dirs pkg c].
Proof.
  intros Hc Hflat Hsh. unfold p_rendered_seq. rewrite p_cache_transparent.
  assert (PGS : forall n, p_get_source pol dirs pkg n = get_source (fst (mk_loaders pol dirs pkg)) (snd (mk_loaders pol dirs pkg)) n).
  { intros n. unfold p_get_source. destruct (mk_loaders pol dirs pkg); reflexivity. }
  unfold p_spec_seq, p_spec_rendered_code, p_flatb, p_shadow_freeb, p_outcome in *.
  destruct (mk_loaders pol dirs pkg) as [fs pk]. cbn [fst snd] in PGS. cbn [map]. f_equal.
  assert (HF : g_index_top_level_only = true \/ (forallb flatb (roots_of fs) = true /\ flatb (plist_of pk) = true)).
  { apply orb_prop in Hflat. destruct Hflat as [Ht|Hflat]; [left; exact Ht | right].
    apply andb_prop in Hflat. destruct Hflat as [Hf1 Hf2].
    split; [destruct fs; [exact Hf1 | reflexivity] | destruct pk; [exact Hf2 | reflexivity]]. }
  rewrite spec_lookup_Tof.
  change (match p_index_fs fs with Some T => T | None => fun _ => None end) with (Tof (p_index_fs fs)) in Hsh.
  change (match p_index_pkg pk with Some T => T | None => fun _ => None end) with (Tof (p_index_pkg pk)) in Hsh.
  rewrite <- (shadow_free_nearest _ _ _ Hsh).
  rewrite (nearest_any_ext _ _ _ _ (Tof_fs fs) (Tof_pk pk)).
  pose proof (compose_chain (roots_of fs) (plist_of pk) HF (chain_n p_bases p_fuel c) (chain_ids p_fuel c Hc)) as H.
  unfold out_of in H.
  transitivity (spec_chain (roots_of fs) (plist_of pk) (chain_n p_bases p_fuel c)).
  - rewrite <- H. destruct (nearest_any _ _ _) as [p|]; [|reflexivity]. rewrite PGS, get_source_norm. reflexivity.
  - clear - PGS. induction (chain_n p_bases p_fuel c) as [|k l IH]; cbn [spec_chain spec_rendered_chain]; [reflexivity|].
    rewrite PGS, <- get_source_norm. destruct (get_source fs pk (p_exact_name k)); [reflexivity | exact IH].
Qed.

(* ... and the two deviations of the code from that reading, on the real hierarchy *)
Definition f_struct : path := p_exact_name g_cls_StructureType.                    (* StructureType.j2 *)
Definition f_comp : path := p_exact_name g_cls_CompositeType.                      (* CompositeType.j2 *)
Definition f_sub_struct : path := [115; 117; 98; 47] ++ f_struct.                  (* sub/StructureType.j2 *)

(* (a) a user file sub/StructureType.j2 is CHOSEN by type_to_template (its stem matches) but .name drops the directory: under
   FIND_ALL the package's StructureType.j2 is rendered, under FIND_FIRST nothing is found -- although the user's CompositeType.j2,
   which the property designates, is right there *)
Lemma subdir_name_refuted : g_index_top_level_only = false ->
  p_lookup_seq false FIND_ALL (Some [[f_sub_struct; f_comp]]) (Some [f_struct]) [g_cls_StructureType] = [Some f_sub_struct] /\
  p_rendered_seq false FIND_ALL (Some [[f_sub_struct; f_comp]]) (Some [f_struct]) [g_cls_StructureType] = [Rendered OPkg f_struct] /\
  p_rendered_seq false FIND_FIRST (Some [[f_sub_struct; f_comp]]) (Some [f_struct]) [g_cls_StructureType] = [NotFound f_struct] /\
  p_spec_rendered FIND_FIRST (Some [[f_sub_struct; f_comp]]) (Some [f_struct]) g_cls_StructureType = Rendered (OUserDir 0) f_comp /\
  p_flatb FIND_FIRST (Some [[f_sub_struct; f_comp]]) (Some [f_struct]) = false.
Proof. intros H. vm_compute in H. first [discriminate H | (vm_compute; repeat split; reflexivity)]. Qed.

(* with the top-level-only index (the fix) the same inputs render what the property designates, under both policies *)
Lemma subdir_name_fixed : g_index_top_level_only = true ->
  p_lookup_seq false FIND_FIRST (Some [[f_sub_struct; f_comp]]) (Some [f_struct]) [g_cls_StructureType] = [Some f_comp] /\
  p_rendered_seq false FIND_FIRST (Some [[f_sub_struct; f_comp]]) (Some [f_struct]) [g_cls_StructureType] = [Rendered (OUserDir 0) f_comp] /\
  p_spec_rendered FIND_FIRST (Some [[f_sub_struct; f_comp]]) (Some [f_struct]) g_cls_StructureType = Rendered (OUserDir 0) f_comp.
Proof. intros H. vm_compute in H. first [discriminate H | (vm_compute; repeat split; reflexivity)]. Qed.

(* (b) a user CompositeType.j2 is rendered for a structure although the package has StructureType.j2 (FIND_ALL searches the user
   chain to its end before the package is consulted) *)
Lemma user_general_refuted :
  p_rendered_seq false FIND_ALL (Some [[f_comp]]) (Some [f_struct]) [g_cls_StructureType] = [Rendered (OUserDir 0) f_comp] /\
  p_spec_rendered FIND_ALL (Some [[f_comp]]) (Some [f_struct]) g_cls_StructureType = Rendered OPkg f_struct /\
  p_shadow_freeb FIND_ALL (Some [[f_comp]]) (Some [f_struct]) g_cls_StructureType = false /\
  p_flatb FIND_ALL (Some [[f_comp]]) (Some [f_struct]) = true.
Proof. vm_compute. repeat split; reflexivity. Qed.

(* non-vacuity of the partial theorem: two user search paths and the package, the more specific class only in the SECOND path *)
Lemma rendered_partial_example :
  let dirs := Some [[f_comp]; [f_struct; f_comp]] in
  p_flatb FIND_ALL dirs (Some [f_struct]) = true /\ p_shadow_freeb FIND_ALL dirs (Some [f_struct]) g_cls_StructureType = true /\
  p_rendered_seq false FIND_ALL dirs (Some [f_struct]) [g_cls_StructureType] = [Rendered (OUserDir 1) f_struct].
Proof. vm_compute. repeat split; reflexivity. Qed.

(* once the walk stops at Any the code's chain IS the property's chain, and the composed statement is about the property's spec *)
Lemma chain_n_ext (b b' : cls -> list cls) : (forall c, b c = b' c) -> forall n c, chain_n b n c = chain_n b' n c.
Proof. intros H. induction n as [|n IH]; intros c; cbn [chain_n]; [reflexivity|]. rewrite H. destruct (b' c); [reflexivity|]. rewrite IH. reflexivity. Qed.

Lemma p_spec_rendered_agree : g_chain_ends_at_any = true ->
  forall pol dirs pkg c, p_spec_rendered pol dirs pkg c = p_spec_rendered_code pol dirs pkg c.
Proof.
  intros H pol dirs pkg c. unfold p_spec_rendered, p_spec_rendered_code.
  rewrite (chain_n_ext prop_bases p_bases); [reflexivity|].
  intros k. unfold prop_bases, p_bases. rewrite H. reflexivity.
Qed.

Lemma p_rendered_property pol dirs pkg c : g_chain_ends_at_any = true -> In c p_ids ->
  p_flatb pol dirs pkg = true -> p_shadow_freeb pol dirs pkg c = true ->
  p_rendered_seq false pol dirs pkg [c] = [p_spec_rendered pol dirs pkg c].
Proof. intros H Hc Hf Hs. rewrite (p_spec_rendered_agree H). apply p_rendered_partial; assumption. Qed.

(* ---- the chain ends at pydsdl.Any (property text) -- depends on the regenerated fact g_chain_ends_at_any ------------------------ *)
Lemma chain_ends_at_any_fixed : g_chain_ends_at_any = true -> chain_end_ok = true.
Proof. intros H. vm_compute in H. first [discriminate H | (vm_compute; reflexivity)]. Qed.

(* as long as the walk continues past Any: a user ABC.j2 is chosen and rendered for EVERY type (F-LOOKUP-CHAIN-PAST-ANY) *)
Definition abc_id : cls := match find (fun c => str_eqb (p_name c) [65; 66; 67]) p_ids with Some a => a | None => 0 end.
Lemma chain_past_any_refuted : g_chain_ends_at_any = false ->
  chain_end_ok = false /\
  exists abc, p_name abc = [65; 66; 67] /\
    p_rendered_seq false FIND_FIRST (Some [[p_exact_name abc]]) None [g_cls_StructureType] = [Rendered (OUserDir 0) (p_exact_name abc)] /\
    p_spec_rendered FIND_FIRST (Some [[p_exact_name abc]]) None g_cls_StructureType = NoTemplate /\
    isinst p_bases p_fuel abc g_cls_Any = false.
Proof.
  intros H. vm_compute in H. first [discriminate H | (split; [vm_compute; reflexivity | exists abc_id; vm_compute; repeat split; reflexivity])].
Qed.

(* ---- the fix-state facts are REQUIRED (obligations, not hypotheses): reverting af716bd / 52035ba makes these fail ------------- *)
Lemma fact_index_top_level_only : g_index_top_level_only = true. Proof. reflexivity. Qed.
Lemma fact_chain_ends_at_any : g_chain_ends_at_any = true. Proof. reflexivity. Qed.

Lemma p_flatb_true pol dirs pkg : p_flatb pol dirs pkg = true.
Proof. unfold p_flatb. destruct (mk_loaders pol dirs pkg). rewrite fact_index_top_level_only. reflexivity. Qed.

(* the composed statement for the property's spec (chain ending at Any), single lookup and EVERY sequence of lookups *)
Lemma p_rendered_one pol dirs pkg c : In c p_ids -> p_shadow_freeb pol dirs pkg c = true ->
  p_rendered_seq false pol dirs pkg [c] = [p_spec_rendered pol dirs pkg c].
Proof. intros Hc Hs. apply (p_rendered_property pol dirs pkg c fact_chain_ends_at_any Hc (p_flatb_true pol dirs pkg) Hs). Qed.

Lemma p_rendered_seq_all pol dirs pkg : forall cs,
  (forall c, In c cs -> In c p_ids /\ p_shadow_freeb pol dirs pkg c = true) ->
  p_rendered_seq false pol dirs pkg cs = map (p_spec_rendered pol dirs pkg) cs.
Proof.
  intros cs H. unfold p_rendered_seq. rewrite p_cache_transparent.
  assert (E : forall c, In c cs -> p_outcome pol dirs pkg (hd None (p_spec_seq pol dirs pkg [c])) = p_spec_rendered pol dirs pkg c).
  { intros c Hc. destruct (H c Hc) as [Hi Hs]. pose proof (p_rendered_one pol dirs pkg c Hi Hs) as R.
    unfold p_rendered_seq in R. rewrite p_cache_transparent in R.
    unfold p_spec_seq in *. destruct (mk_loaders pol dirs pkg). cbn [map hd] in *. inversion R. reflexivity. }
  unfold p_spec_seq in *. destruct (mk_loaders pol dirs pkg) as [fs pk]. rewrite map_map. apply map_ext_in.
  intros c Hc. specialize (E c Hc). cbn [map hd] in E. exact E.
Qed.

(* FIND_FIRST (the only policy DSDLCodeGenerator uses): as soon as a templates directory is given the package loader does not
   exist -- built-in templates are unreachable, "user beats built-in of the same name" and the no-shadow premise are vacuous *)
Lemma find_first_builtins_unreachable (rs : list (list path)) pkg :
  (forall name, p_get_source FIND_FIRST (Some rs) pkg name <> Some OPkg) /\
  (forall c, p_shadow_freeb FIND_FIRST (Some rs) pkg c = true) /\
  (forall q cs, p_lookup_seq q FIND_FIRST (Some rs) pkg cs = p_lookup_seq q FIND_FIRST (Some rs) None cs).
Proof.
  assert (ML : forall pk : option (list path), mk_loaders FIND_FIRST (Some rs) pk = (Some rs, None)) by (intros [l|]; reflexivity).
  split; [|split].
  - intros name. unfold p_get_source. rewrite ML. unfold get_source, pkg_source. destruct (first_root rs name 0); discriminate.
  - intros c. unfold p_shadow_freeb. rewrite ML. cbn [p_index_pkg option_map].
    induction (chain_n p_bases p_fuel c) as [|k l IH]; cbn [shadow_freeb]; [reflexivity|].
    destruct (match p_index_fs (Some rs) with Some T => T | None => fun _ => None end k); [reflexivity | exact IH].
  - intros q cs. unfold p_lookup_seq. rewrite !ML. reflexivity.
Qed.
