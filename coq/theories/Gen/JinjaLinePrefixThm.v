(* C19 -- proofs about the translated do_lineprefix (Generated/Gen_JinjaScan.v) over the hand models of
   str.splitlines / str.join (Gen/JinjaScanBase.v) *)
From Verif Require Import JinjaScan.
From Coq Require Import Lia.
Open Scope N_scope.

Definition no_lf (l : str) : bool := forallb (fun c => negb (c =? 10)) l.
Definition no_break (l : str) : bool := forallb (fun c => negb (is_linebreak c)) l.

Lemma split_lf_no_lf : forall l, no_lf l = true -> split_lf l = [l].
Proof.
  induction l as [|c l IH]; intros H; [reflexivity|]. cbn in H. apply andb_prop in H as [Hc Hl].
  cbn [split_lf]. destruct (c =? 10); [discriminate|]. rewrite (IH Hl). reflexivity.
Qed.

Lemma split_lf_app : forall l rest, no_lf l = true -> split_lf (l ++ 10 :: rest) = l :: split_lf rest.
Proof.
  induction l as [|c l IH]; intros rest H; [reflexivity|]. cbn in H. apply andb_prop in H as [Hc Hl].
  cbn [app split_lf]. destruct (c =? 10); [discriminate|]. rewrite (IH rest Hl). reflexivity.
Qed.

Lemma split_lf_join : forall ls, ls <> [] -> Forall (fun l => no_lf l = true) ls -> split_lf (py_join [10] ls) = ls.
Proof.
  induction ls as [|l ls IH]; intros Hne Hall; [contradiction|]. inversion Hall as [|? ? Hl Hls]; subst.
  destruct ls as [|l2 ls].
  - cbn [py_join]. apply split_lf_no_lf. exact Hl.
  - change (py_join [10] (l :: l2 :: ls)) with (l ++ 10 :: py_join [10] (l2 :: ls)). rewrite split_lf_app by exact Hl. rewrite IH; [reflexivity|discriminate|exact Hls].
Qed.

Lemma no_break_no_lf l : no_break l = true -> no_lf l = true.
Proof.
  unfold no_break, no_lf. induction l as [|c l IH]; intros H; [reflexivity|]. cbn in *.
  apply andb_prop in H as [Hc Hl]. rewrite (IH Hl), andb_true_r.
  unfold is_linebreak in Hc. destruct (c =? 10); [discriminate|reflexivity].
Qed.

Lemma cons_first_no_break c ls :
  is_linebreak c = false -> Forall (fun l => no_break l = true) ls -> Forall (fun l => no_break l = true) (cons_first c ls).
Proof.
  intros Hc H. destruct ls as [|l ls]; cbn [cons_first].
  - constructor; [|constructor]. cbn. rewrite Hc. reflexivity.
  - inversion H; subst. constructor; [|assumption]. cbn. rewrite Hc. cbn. assumption.
Qed.

Lemma splitlines_no_break_n : forall n s, (length s <= n)%nat -> Forall (fun l => no_break l = true) (py_splitlines s).
Proof.
  induction n as [|n IH]; intros s Hn.
  - destruct s; [constructor|cbn in Hn; lia].
  - destruct s as [|c s]; [constructor|]. cbn in Hn. cbn [py_splitlines].
    destruct (is_linebreak c) eqn:Hc.
    + destruct s as [|d s]; [constructor; [reflexivity|constructor]|].
      destruct ((c =? 13) && (d =? 10)); (constructor; [reflexivity|apply IH; cbn in *; lia]).
    + apply cons_first_no_break; [exact Hc|apply IH; lia].
Qed.

Lemma splitlines_no_break : forall s, Forall (fun l => forallb (fun c => negb (is_linebreak c)) l = true) (py_splitlines s).
Proof. intros s. exact (splitlines_no_break_n (length s) s (le_n _)). Qed.

Lemma splitlines_nil_inv : forall s, py_splitlines s = [] -> s = [].
Proof.
  intros [|c s] H; [reflexivity|]. cbn [py_splitlines] in H. destruct (is_linebreak c).
  - destruct s as [|d s]; [discriminate|]. destruct ((c =? 13) && (d =? 10)); discriminate.
  - destruct (py_splitlines s); discriminate.
Qed.

Lemma prefix_line_no_lf p l : no_lf p = true -> no_lf l = true -> no_lf (prefix_line p l) = true.
Proof.
  intros Hp Hl. unfold prefix_line. destruct (py_truthy l); [|exact Hl]. unfold no_lf. rewrite forallb_app.
  unfold no_lf in Hp, Hl. rewrite Hp, Hl. reflexivity.
Qed.

(* what the translated filter is, in either state of /repo *)
Lemma do_lineprefix_is : do_lineprefix = lineprefix_m lineprefix_keepends.
Proof. reflexivity. Qed.

Lemma do_lineprefix_unfold s p : lineprefix_legacy s p = py_join [10] (map (prefix_line p) (py_splitlines s)).
Proof. reflexivity. Qed.

Lemma Forall_prefix_no_lf p ls :
  no_lf p = true -> Forall (fun l => no_break l = true) ls -> Forall (fun l => no_lf l = true) (map (prefix_line p) ls).
Proof.
  intros Hp H. induction H as [|l ls Hl Hls IH]; cbn [map]; constructor.
  - apply prefix_line_no_lf; [exact Hp|apply no_break_no_lf; exact Hl].
  - exact IH.
Qed.

Theorem lineprefix_spec_lemma : forall (s p : str),
    forallb (fun c => negb (c =? 10)) p = true ->
    py_splitlines s <> [] ->
    split_lf (lineprefix_legacy s p) = map (prefix_line p) (py_splitlines s).
Proof.
  intros s p Hp Hne. rewrite do_lineprefix_unfold. apply split_lf_join.
  - intro H. apply map_eq_nil in H. contradiction.
  - apply Forall_prefix_no_lf; [exact Hp|apply splitlines_no_break].
Qed.

(* the final terminator *)
Lemma splitlines_cons c s :
  py_splitlines (c :: s) =
  if is_linebreak c then
    match s with
    | d :: s'' => if (c =? 13) && (d =? 10) then [] :: py_splitlines s'' else [] :: py_splitlines s
    | [] => [[]]
    end
  else cons_first c (py_splitlines s).
Proof. reflexivity. Qed.

Lemma splitlines_final_n : forall n s b,
    (length s <= n)%nat -> s <> [] -> is_linebreak (last s 0) = false -> is_linebreak b = true ->
    py_splitlines (s ++ [b]) = py_splitlines s.
Proof.
  induction n as [|n IH]; intros s b Hn Hne Hlast Hb.
  - destruct s; [contradiction|cbn in Hn; lia].
  - destruct s as [|c s]; [contradiction|]. cbn in Hn.
    destruct s as [|d s].
    + cbn in Hlast. change ([c] ++ [b]) with (c :: [b]). rewrite (splitlines_cons c [b]), (splitlines_cons c []), Hlast.
      rewrite (splitlines_cons b []), Hb. reflexivity.
    + assert (Hlast' : is_linebreak (last (d :: s) 0) = false) by exact Hlast.
      change ((c :: d :: s) ++ [b]) with (c :: d :: (s ++ [b])).
      rewrite (splitlines_cons c (d :: s ++ [b])), (splitlines_cons c (d :: s)).
      destruct (is_linebreak c) eqn:Hc.
      * destruct ((c =? 13) && (d =? 10)) eqn:Hcd.
        -- destruct s as [|e s].
           ++ apply andb_prop in Hcd as [_ Hd]. apply N.eqb_eq in Hd. subst d. cbn in Hlast. discriminate.
           ++ f_equal. apply IH; [cbn in *; lia|discriminate|exact Hlast|exact Hb].
        -- f_equal. change (d :: s ++ [b]) with ((d :: s) ++ [b]).
           apply IH; [cbn in *; lia|discriminate|exact Hlast'|exact Hb].
      * f_equal. change (d :: s ++ [b]) with ((d :: s) ++ [b]).
        apply IH; [cbn in *; lia|discriminate|exact Hlast'|exact Hb].
Qed.

Theorem lineprefix_final_terminator : forall (s p : str) (b : N),
    s <> [] -> is_linebreak (last s 0) = false -> is_linebreak b = true ->
    lineprefix_legacy (s ++ [b]) p = lineprefix_legacy s p.
Proof.
  intros s p b Hne Hl Hb. rewrite !do_lineprefix_unfold.
  rewrite (splitlines_final_n (length s) s b (le_n _) Hne Hl Hb). reflexivity.
Qed.


(* ------------------------------------------------------------------------------------------ *)
(* the terminator-keeping shape (design_notes/C19_lineprefix_terminator_fix.patch)              *)
(* ------------------------------------------------------------------------------------------ *)
Lemma concat_cons_first c ls : concat (cons_first c ls) = c :: concat ls.
Proof. destruct ls; reflexivity. Qed.

Lemma join_nil_concat ls : py_join [] ls = concat ls.
Proof.
  induction ls as [|l ls IH]; [reflexivity|]. destruct ls as [|l2 ls]; [cbn; rewrite app_nil_r; reflexivity|].
  change (py_join [] (l :: l2 :: ls)) with (l ++ [] ++ py_join [] (l2 :: ls)). rewrite IH. reflexivity.
Qed.

Lemma splitlines_keep_cons c s :
  py_splitlines_keep (c :: s) =
  if is_linebreak c then
    match s with
    | d :: s'' => if (c =? 13) && (d =? 10) then [c; d] :: py_splitlines_keep s'' else [c] :: py_splitlines_keep s
    | [] => [[c]]
    end
  else cons_first c (py_splitlines_keep s).
Proof. reflexivity. Qed.

(* the lines with their terminators ARE the text: nothing is dropped, no terminator is rewritten *)
Lemma splitlines_keep_concat_n : forall n s, (length s <= n)%nat -> concat (py_splitlines_keep s) = s.
Proof.
  induction n as [|n IH]; intros s Hn.
  - destruct s; [reflexivity|cbn in Hn; lia].
  - destruct s as [|c s]; [reflexivity|]. cbn in Hn. rewrite splitlines_keep_cons. destruct (is_linebreak c).
    + destruct s as [|d s]; [reflexivity|]. destruct ((c =? 13) && (d =? 10)); cbn [concat app]; rewrite IH; (reflexivity || (cbn in *; lia)).
    + rewrite concat_cons_first, IH; [reflexivity|lia].
Qed.

Theorem lineprefix_keep_text_preserved : forall s : str, lineprefix_keep s [] = s.
Proof.
  intros s. unfold lineprefix_keep. rewrite join_nil_concat.
  replace (map (prefix_line_keep []) (py_splitlines_keep s)) with (py_splitlines_keep s).
  - exact (splitlines_keep_concat_n (length s) s (le_n _)).
  - symmetry. rewrite <- (map_id (py_splitlines_keep s)) at 2. apply map_ext. intros l. unfold prefix_line_keep. destruct (py_truthy _); reflexivity.
Qed.

(* the output is the concatenation of the input lines (terminators included), each preceded by the prefix iff its content is non-empty *)
Theorem lineprefix_keep_spec : forall s p : str,
    lineprefix_keep s p = concat (map (prefix_line_keep p) (py_splitlines_keep s)) /\ concat (py_splitlines_keep s) = s.
Proof. intros s p. split; [unfold lineprefix_keep; apply join_nil_concat | exact (splitlines_keep_concat_n (length s) s (le_n _))]. Qed.
