(* C09 -- soundness for EVERY configuration once _reverified applies the encoding rules to the whole token
   (sc_reverify = sc_full_check = true, the fix of F-STROP-ILLEGAL-AFFIX): no condition on the stropping prefix/suffix, the
   encoding prefix or the handlers.  What must hold of the configuration (chk_full, decidable, syntactic):
     - the `all` encoding rules contain  X a*  (e.g. X+) with X a negated plain class whose complement is within [A-Za-z0-9_]
       (then a token that passes the whole-token loop consists of identifier characters only);
     - a leading digit is dealt with by an `all` encoding rule or an `all` reserved pattern of the form ^X with 0-9 within X;
     - whitespace_encoding_char is not the empty string (otherwise " " is encoded to the empty token, which no check rejects). *)
From Verif Require Import Strop StropThmRe StropThmEnc StropThm.
Open Scope N_scope.

Lemma hex04_ne n : hex04 n <> [].
Proof.
  unfold hex04. intros H. apply (f_equal (@length _)) in H. rewrite app_length, repeat_length in H. cbn [length] in H. lia.
Qed.

Section Full.
  Variable u : uni.
  Variable sp : ranges.
  Variable cfg : strop_cfg.

  Definition ws_nonempty : bool := match sc_ws_char cfg with Some [] => false | _ => true end.
  Definition chk_full : bool :=
    existsb good_clsplus (rules_of cfg ty_all) && (rules_digit_guard u cfg || pats_digit_guard u cfg) && ws_nonempty.

  Hypothesis Hws : ws_nonempty = true.

  Lemma enc_char_ne c : encode_character sp cfg c <> [].
  Proof.
    unfold encode_character. unfold ws_nonempty in Hws.
    assert (H : sc_enc_prefix cfg ++ hex04 c <> []) by (intros E; apply app_eq_nil in E as [_ E]; exact (hex04_ne c E)).
    destruct (sc_ws_char cfg) as [[|w ws]|]; try discriminate; [|exact H].
    destruct (in_ranges sp c); [discriminate|exact H].
  Qed.

  Lemma filter_ne span : span <> [] -> encoding_filter sp cfg span <> [].
  Proof.
    intros Hne. unfold encoding_filter. destruct (sc_collapse cfg && span_isspace sp span).
    - pose proof Hws as H. unfold ws_nonempty in H. destruct (sc_ws_char cfg) as [[|w ws]|]; try discriminate. apply enc_char_ne.
    - destruct span as [|c span]; [congruence|]. cbn [flat_map]. intros E. apply app_eq_nil in E as [E _]. exact (enc_char_ne c E).
  Qed.

  Lemma filter_nil : encoding_filter sp cfg [] = [].
  Proof. unfold encoding_filter; cbn [span_isspace]. rewrite andb_false_r; reflexivity. Qed.

  Lemma re_sub_ne' r s : s <> [] -> re_sub u r (encoding_filter sp cfg) s <> [].
  Proof.
    intros Hs. unfold re_sub. destruct s as [|c s']; [congruence|]. cbn [length re_sub_from].
    destruct (mt u r (Strop.krest) true (c :: s')) as [rest|] eqn:E; [|discriminate].
    destruct (Nat.ltb (length rest) (S (length s'))) eqn:L.
    - intros E2. apply app_eq_nil in E2 as [E2 _]. revert E2. apply filter_ne.
      intros E3. apply (f_equal (@length _)) in E3. rewrite firstn_length in E3. apply Nat.ltb_lt in L. cbn [length] in E3. lia.
    - rewrite filter_nil. discriminate.
  Qed.

  Lemma encode_ne t ty : t <> [] -> match encode u sp cfg t ty false with TOk t' => t' <> [] | TKeyError => True | TRuntimeError => False end.
  Proof.
    intros Ht. unfold encode. destruct (lookup (sc_rules cfg) ty) as [rs|]; [|exact Ht].
    revert t Ht. induction rs as [|r rs IH]; intros t Ht; cbn [encode_rules]; [exact Ht|]. apply IH. apply re_sub_ne'; exact Ht.
  Qed.

  Lemma wrap_ne x : x <> [] -> wrap cfg x <> [].
  Proof. intros H E. unfold wrap in E. apply app_eq_nil in E as [_ E]. apply app_eq_nil in E as [E _]. contradiction. Qed.

  (* a failing search of  X a*  means no character of the token is in X *)
  Lemma search_clsplus k a : forall s at0 i, re_search_from u (Seq (Cls k) (Star a)) at0 i s = None -> forallb (fun c => negb (cls_mem u k c)) s = true.
  Proof.
    induction s as [|c s' IH]; intros at0 i H; [reflexivity|]. cbn [re_search_from] in H. cbn [forallb].
    destruct (cls_mem u k c) eqn:Hc.
    - destruct (clsplus_match u k a at0 c s' Hc) as (rest & E). rewrite E in H. discriminate.
    - rewrite (clsplus_nomatch u k a at0 c s' Hc) in H. cbn [negb andb]. exact (IH _ _ H).
  Qed.

  Lemma good_clsplus_search r t : good_clsplus r = true -> re_test u r t = false -> all_ident t = true.
  Proof.
    destruct r as [|?|[|k|? ?|? ?|?| |] [|?|? ?|? ?|a| |]|? ?|?| |]; cbn [good_clsplus]; try discriminate.
    intros H Ht. repeat (apply andb_prop in H as [H ?]). unfold re_test, re_search in Ht.
    destruct (re_search_from u (Seq (Cls k) (Star a)) true 0 t) eqn:E; [discriminate|].
    apply search_clsplus in E. unfold all_ident. rewrite forallb_forall in E. apply forallb_forall. intros c Hc.
    specialize (E c Hc). apply negb_true_iff in E. unfold cls_mem in E.
    destruct (c_neg k); [|discriminate]. destruct (c_space k); [discriminate|].
    destruct (c_digit k); [discriminate|]. destruct (c_word k); [discriminate|].
    cbn [andb orb xorb] in E. rewrite !orb_false_r in E. apply negb_false_iff in E.
    unfold ident_char. eapply ranges_sub_in; eassumption.
  Qed.

  Hypothesis Hrv : sc_reverify cfg = true.
  Hypothesis Hfc : sc_full_check cfg = true.
  Hypothesis Hchk : chk_full = true.

  Theorem strop_sound_full_gen ty tok t : tok <> [] -> strop u sp cfg ty tok = Ok t ->
    valid_ident t = true /\ is_reserved cfg t = false /\ matches_reserved_pattern u cfg ty t = false.
  Proof.
    intros Hne. unfold strop. set (tyl := lower ty). destruct (str_eqb tyl ty_all) eqn:Hty; [discriminate|].
    destruct (do_for_nd (encode u sp cfg) (fun x => x <> []) tok tyl (fun t0 ty0 => encode_ne t0 ty0) Hne) as (e & -> & He).
    assert (Hk : exists k, do_for_type_and_all (strop_by_keyword cfg) e tyl false = TOk k /\ k <> []).
    { apply do_for_nd; [|exact He]. intros x ty0 Hx. unfold strop_by_keyword. destruct (str_in x (sc_reserved cfg)); [apply wrap_ne|]; exact Hx. }
    destruct Hk as (k & -> & Hk).
    assert (Hp : exists p, do_for_type_and_all (strop_by_pattern u cfg) k tyl false = TOk p /\ p <> []).
    { apply do_for_nd; [|exact Hk]. intros x ty0 Hx. unfold strop_by_pattern.
      destruct (lookup (sc_patterns cfg) ty0) as [ps|]; [|exact I]. destruct (matches_pats u x ps); [apply wrap_ne|]; exact Hx. }
    destruct Hp as (p & -> & Hp).
    assert (Hstep : forall d h x y, x <> [] -> checked d h x = Ok y -> y <> []).
    { intros d h x y Hx Hc. apply checked_cases in Hc as [[_ ->]|[_ Hu]]; [exact Hx|].
      unfold handler_und in Hu. destruct x as [|c0 x0]; [discriminate|]. destruct (c0 =? 95); [|discriminate].
      injection Hu as <-. discriminate. }
    destruct (checked _ (sc_strop_handler cfg) p) as [s1| |] eqn:C1; try discriminate.
    destruct (checked _ (sc_strop_handler cfg) s1) as [s2| |] eqn:C2; try discriminate.
    destruct (checked _ (sc_enc_handler cfg) s2) as [s3| |] eqn:C3; try discriminate.
    pose proof (Hstep _ _ _ _ (Hstep _ _ _ _ (Hstep _ _ _ _ Hp C1) C2) C3) as Hs3.
    rewrite Hrv. unfold reverified. rewrite Hfc. cbn [negb orb].
    destruct (dry_ok (do_for_type_and_all (strop_by_pattern u cfg) s3 tyl true)) eqn:E1; [|discriminate].
    destruct (dry_ok (do_for_type_and_all (strop_by_keyword cfg) s3 tyl true)) eqn:E2; [|discriminate].
    destruct (dry_ok (do_for_type_and_all (encode u sp cfg) s3 tyl true)) eqn:E3; [|discriminate].
    destruct (full_ok u cfg tyl s3) eqn:E4; [|discriminate]. cbn [andb]. intros [= <-].
    assert (Hpat : pat_hit u cfg tyl s3 = false) by (apply (dry_pat u cfg tyl s3 Hty); intros E; rewrite E in E1; discriminate).
    pose proof Hchk as Hc. unfold chk_full in Hc. apply andb_prop in Hc as [Hc _]. apply andb_prop in Hc as [Hal Hdg].
    unfold full_ok in E4. apply andb_prop in E4 as [Fa _]. rewrite forallb_forall in Fa.
    assert (Hra : rules_for cfg ty_all = rules_of cfg ty_all) by reflexivity.
    assert (Hi : all_ident s3 = true).
    { apply existsb_exists in Hal as (r & Hr & Hg). apply (good_clsplus_search r s3 Hg).
      rewrite <- Hra in Hr. specialize (Fa r Hr). apply negb_true_iff in Fa; exact Fa. }
    split; [|split].
    - unfold valid_ident. destruct s3 as [|c0 tl]; [congruence|]. fold (all_ident (c0 :: tl)). rewrite Hi, andb_true_r.
      destruct (is_digit c0) eqn:Hd0; [exfalso|reflexivity]. apply orb_prop in Hdg as [Hg|Hg].
      + unfold rules_digit_guard in Hg. apply existsb_exists in Hg as (r & Hr & Hg).
        apply good_boldigit_mem in Hg as (kk & -> & Hkk). rewrite <- Hra in Hr. specialize (Fa _ Hr).
        apply negb_true_iff in Fa. unfold re_test, re_search in Fa. cbn [re_search_from] in Fa.
        rewrite bolcls_mt, (Hkk c0 Hd0) in Fa. discriminate.
      + unfold pats_digit_guard in Hg. apply existsb_exists in Hg as (r & Hr & Hg).
        apply good_boldigit_mem in Hg as (kk & -> & Hkk).
        unfold pat_hit in Hpat. apply orb_false_elim in Hpat as [Hpa _]. unfold matches_pats in Hpa.
        assert (Hm : re_matches u (Seq Bol (Cls kk)) (c0 :: tl) = true).
        { unfold re_matches, re_match. rewrite bolcls_mt, (Hkk c0 Hd0). reflexivity. }
        assert (Hx : existsb (fun r => re_matches u r (c0 :: tl)) (pats_of cfg ty_all) = true) by (apply existsb_exists; eauto).
        congruence.
    - apply (dry_kw cfg tyl). intros E; rewrite E in E2; discriminate.
    - exact Hpat.
  Qed.
End Full.
