(* C19: Python string primitives used by the translated `do_lineprefix` (hand models of CPython's
   str.splitlines / str.join / truthiness of a str; tied by the lineprefix correspondence run). *)
From Verif Require Export Str.
Open Scope N_scope.

(* the line boundaries of str.splitlines(): \n \r \v \f \x1c \x1d \x1e \x85 U+2028 U+2029 (and \r\n as one) *)
Definition is_linebreak (c : chr) : bool :=
  (c =? 10) || (c =? 13) || (c =? 11) || (c =? 12) || (c =? 28) || (c =? 29) || (c =? 30)
  || (c =? 133) || (c =? 8232) || (c =? 8233).

Definition cons_first (c : chr) (ls : list str) : list str :=
  match ls with
  | [] => [[c]]
  | l :: ls' => (c :: l) :: ls'
  end.

(* str.splitlines() (keepends=False): the terminator is dropped, a final terminator does not open a new line *)
Fixpoint py_splitlines (s : str) : list str :=
  match s with
  | [] => []
  | c :: s' =>
      if is_linebreak c then
        match s' with
        | d :: s'' => if (c =? 13) && (d =? 10) then [] :: py_splitlines s'' else [] :: py_splitlines s'
        | [] => [[]]
        end
      else cons_first c (py_splitlines s')
  end.

(* str.splitlines(True): every line keeps its terminator *)
Fixpoint py_splitlines_keep (s : str) : list str :=
  match s with
  | [] => []
  | c :: s' =>
      if is_linebreak c then
        match s' with
        | d :: s'' => if (c =? 13) && (d =? 10) then [c; d] :: py_splitlines_keep s'' else [c] :: py_splitlines_keep s'
        | [] => [[c]]
        end
      else cons_first c (py_splitlines_keep s')
  end.
(* <line>.splitlines()[0] for a non-empty line: the line without its terminator *)
Definition py_line_content (l : str) : str := match py_splitlines l with x :: _ => x | [] => [] end.

Fixpoint py_join (sep : str) (ls : list str) : str :=
  match ls with
  | [] => []
  | [l] => l
  | l :: ls' => l ++ sep ++ py_join sep ls'
  end.

Definition py_truthy (s : str) : bool := match s with [] => false | _ => true end.
