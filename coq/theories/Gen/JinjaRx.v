(* C19: a regular-expression matcher for EVERY root rule of the bundled lexer under every Environment option combination
   (re.M | re.S): multi-line ^, negative lookahead (?!..), one-character lookbehind (?<=[..]), classes with \S inside.
   Priority semantics of Python's `re` as in Common/Regex.v (leftmost, alternatives left to right, greedy star with progress).
   The previous character (None at the very start of the source) is threaded through for ^ and lookbehind.
   On top: the root-state scanner for an ARBITRARY rule list, the deletion of the auto-indent alternatives (`demark`) = the
   upstream rule list, and the exact "no marker alternative matches anywhere" predicate.  No proofs here. *)
From Verif Require Export Str Gen_Uni.
From Verif Require Export Regex.
Open Scope N_scope.

Record xcls := { x_neg : bool; x_ranges : ranges; x_space : bool; x_nonspace : bool; x_digit : bool; x_word : bool }.

Definition xcls_mem (u : uni) (k : xcls) (c : chr) : bool :=
  xorb (x_neg k)
       (in_ranges (x_ranges k) c
        || (x_space k && in_ranges (u_space u) c)
        || (x_nonspace k && negb (in_ranges (u_space u) c))
        || (x_digit k && in_ranges (u_digit u) c)
        || (x_word k && in_ranges (u_word u) c)).

Inductive rx :=
| XEps
| XCls (k : xcls)
| XSeq (a b : rx)
| XAlt (a b : rx)
| XStar (a : rx)
| XBolM                 (* ^ under re.M: at the start of the source or right after a \n *)
| XNotAhead (a : rx)    (* (?!a) *)
| XBehind (k : xcls).   (* (?<=[k]) *)

Fixpoint xstar_loop {A : Type} (m : (option N -> str -> option A) -> option N -> str -> option A)
         (k : option N -> str -> option A) (fuel : nat) (p : option N) (s : str) {struct fuel} : option A :=
  match fuel with
  | O => k p s
  | S f =>
      match m (fun p2 s2 => if Nat.ltb (length s2) (length s) then xstar_loop m k f p2 s2 else None) p s with
      | Some v => Some v
      | None => k p s
      end
  end.

Fixpoint mx (u : uni) (A : Type) (r : rx) (k : option N -> str -> option A) (p : option N) (s : str) {struct r} : option A :=
  match r with
  | XEps => k p s
  | XCls c => match s with [] => None | x :: s' => if xcls_mem u c x then k (Some x) s' else None end
  | XSeq a b => mx u A a (fun p1 s1 => mx u A b k p1 s1) p s
  | XAlt a b => match mx u A a k p s with Some v => Some v | None => mx u A b k p s end
  | XStar a => xstar_loop (mx u A a) k (S (length s)) p s
  | XBolM => match p with None => k p s | Some c => if c =? 10 then k p s else None end
  | XNotAhead a => match mx u unit a (fun _ _ => Some tt) p s with Some _ => None | None => k p s end
  | XBehind c => match p with Some x => if xcls_mem u c x then k p s else None | None => None end
  end.

Definition xrules := list (str * rx).     (* (group name, body) in alternation order *)
Definition xtok := (str * str)%type.

Section ScanX.
  Variable u : uni.

  (* first alternative that matches at (previous char p, remaining source s): (name, previous char after it, rest) *)
  Fixpoint first_altx (rs : xrules) (p : option N) (s : str) : option (str * option N * str) :=
    match rs with
    | [] => None
    | nr :: rs' =>
        match mx u _ (snd nr) (fun p' rest => Some (p', rest)) p s with
        | Some (p', rest) => Some (fst nr, p', rest)
        | None => first_altx rs' p s
        end
    end.

  (* (.*?)(?:...) *)
  Fixpoint root_searchx (rs : xrules) (data_rev : str) (p : option N) (s : str) : option (str * str * str * option N * str) :=
    match first_altx rs p s with
    | Some (n, p', rest) => Some (rev data_rev, n, firstn (length s - length rest) s, p', rest)
    | None => match s with [] => None | c :: s' => root_searchx rs (c :: data_rev) (Some c) s' end
    end.

  Definition lastp (p : option N) (w : str) : option N := match rev w with c :: _ => Some c | [] => p end.
  Definition xdata (d : str) : list xtok := match d with [] => [] | _ => [([100; 97; 116; 97], d)] end.

  (* tokeniter as far as the root state decides; `inner name prev rest` = tokens yielded by the pushed state and the number of
     characters it consumes (None: the lexer raises).  A parameter: those states carry no Nunavut change
     (C19_nonroot_rules_equal_stock, C19_marker_switch_is_root_only). *)
  Fixpoint scanx (rs : xrules) (inner : str -> option N -> str -> option (list xtok * nat)) (fuel : nat) (p : option N) (s : str)
    : option (list xtok) :=
    match fuel with
    | O => None
    | S f =>
        match root_searchx rs [] p s with
        | None => Some (xdata s)
        | Some (d, n, v, p', rest) =>
            match inner n p' rest with
            | None => None
            | Some (toks, k) =>
                match scanx rs inner f (lastp p' (firstn k rest)) (skipn k rest) with
                | None => None
                | Some r => Some (xdata d ++ (n, v) :: toks ++ r)
                end
            end
        end
    end.
  Definition scanx_all rs inner (s : str) := scanx rs inner (S (length s)) None s.

  (* one-rule lazy states (comment, raw): (.*?)(END) -> data kind / end kind; otherwise Failure *)
  Definition inner_lazyx (kdata kend : str) (r : rx) (p : option N) (s : str) : option (list xtok * nat) :=
    match s with
    | [] => Some ([], O)
    | _ => match root_searchx [(kend, r)] [] p s with
           | None => None
           | Some (d, n, v, _, rest) => Some ((match d with [] => [] | _ => [(kdata, d)] end) ++ [(n, v)], (length s - length rest)%nat)
           end
    end.

  (* the auto-indent alternative, recognised syntactically: [class]* ... \*   in second position of a three-way alternation *)
  Definition STARC : N := 42.
  Definition is_star_lit (r : rx) : bool :=
    match r with
    | XCls k => negb (x_neg k) && negb (x_space k) && negb (x_nonspace k) && negb (x_digit k) && negb (x_word k)
                && match x_ranges k with [(lo, hi)] => (lo =? STARC) && (hi =? STARC) | _ => false end
    | _ => false
    end.
  Fixpoint ends_in_star (r : rx) : bool :=
    match r with
    | XSeq _ b => ends_in_star b
    | _ => is_star_lit r
    end.
  Definition is_marker_alt (b : rx) : bool :=
    match b with
    | XSeq (XStar (XCls _)) t => ends_in_star t
    | _ => false
    end.
  Definition marker_of (r : rx) : option rx :=
    match r with
    | XAlt _ (XAlt b _) => if is_marker_alt b then Some b else None
    | XSeq (XAlt _ (XAlt b _)) _ => if is_marker_alt b then Some b else None
    | _ => None
    end.
  Definition demark_rx (r : rx) : rx :=
    match r with
    | XAlt a (XAlt b c) => if is_marker_alt b then XAlt a c else r
    | XSeq (XAlt a (XAlt b c)) t => if is_marker_alt b then XSeq (XAlt a c) t else r
    | _ => r
    end.
  Definition demarkx (rs : xrules) : xrules := map (fun nr => (fst nr, demark_rx (snd nr))) rs.

  (* some marker alternative matches at this position *)
  Definition marker_hit (rs : xrules) (p : option N) (s : str) : bool :=
    existsb (fun nr => match marker_of (snd nr) with
                       | Some b => match mx u unit b (fun _ _ => Some tt) p s with Some _ => true | None => false end
                       | None => false
                       end) rs.
  (* ... at no position of the source: the template does not use the auto-indent marker (exact, per rule set) *)
  Fixpoint marker_free (rs : xrules) (p : option N) (s : str) : bool :=
    negb (marker_hit rs p s) && match s with [] => true | c :: s' => marker_free rs (Some c) s' end.
End ScanX.
