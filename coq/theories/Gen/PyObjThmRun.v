(* C18: the round trip to_builtin / update_from_builtin composed with `run`: for an object a run has reached, the premises of
   builtin_roundtrip about the float elements being representable (f_round fixed points), about the default instances and about the
   shape contract are discharged; what remains is stated in `rest_ok`: the elements of arrays of composites are instances of the
   element class (the template does not check that) and, for the conformant element check only, float array elements of a type
   narrower than 64 bit lie within its range (the same-dtype fast path does not check that). *)
From Coq Require Import List NArith ZArith Bool Arith Lia ZifyBool.
From Verif Require Import PyObj Gen_PyObj PyObjThm PyObjThmRt PyObjThmRt2 PyObjThmStart PyObjThmRound PyObjThmRepr.
Import ListNotations.
Open Scope Z_scope.

Definition felem_rest (q : bool) (w : Z) (x : pyval) : bool :=
  match x with PFloat b => q || negb (w <? 64) || f_in_range w b || negb (f_isfinite b) | _ => true end.
Definition slot_rest (q : bool) (f : ftype) (s : pyval) : bool :=
  match f, s with
  | FArr _ _ _ (EComp t), PArr _ l => forallb (is_inst t) l
  | FArr _ _ _ (EPrim (KF w)), PArr _ l => forallb (felem_rest q w) l
  | _, _ => true
  end.
Fixpoint slots_rest (q : bool) (fs : list ftype) (sl : list pyval) : bool :=
  match fs, sl with
  | f :: fs', s :: sl' => slot_rest q f s && slots_rest q fs' sl'
  | _, _ => true
  end.
Fixpoint rest_ok (q : bool) (db : tdb) (v : pyval) : bool :=
  match v with
  | PArr _ l => forallb (rest_ok q db) l
  | PObj tid slots =>
      match nth_error db tid with
      | Some c => slots_rest q (c_fields c) slots && forallb (rest_ok q db) slots
      | None => false
      end
  | _ => true
  end.

Lemma slot_rt_compose : forall q u f s, fok false u f s = true -> float_repr_ok s = true -> slot_rest q f s = true ->
  slot_rt q f s = true.
Proof.
  intros q u f s Ho Fs Hr. destruct f as [e|fixed cap sl [k|t]]; try reflexivity; [|exact Hr].
  destruct k as [|w|w|w]; try reflexivity. destruct s as [| | | | | | | |dt l|]; try reflexivity.
  unfold fok in Ho. cbn [is_none] in Ho. rewrite andb_false_r in Ho. cbn [orb field_ok] in Ho.
  apply andb_true_iff in Ho. destruct Ho as [Ho _]. apply andb_true_iff in Ho. destruct Ho as [Hdt _].
  apply dtype_eqb_eq in Hdt. cbn [dtype_of] in Hdt. subst dt.
  cbn [slot_rt slot_rest float_repr_ok] in *. apply andb_true_iff in Fs. destruct Fs as [Fe _].
  rewrite forallb_forall in *. intros x Hx. specialize (Fe x Hx). specialize (Hr x Hx).
  destruct x; try reflexivity. cbn [felem_ok felem_rest frepr_elem] in *. rewrite Fe, Hr. reflexivity.
Qed.

Lemma slots_rt_compose : forall q u fs sl, fields_ok PW false u fs sl = true -> forallb float_repr_ok sl = true ->
  slots_rest q fs sl = true -> slots_rt q fs sl = true.
Proof.
  intros q u. induction fs as [|f fs IH]; intros [|s sl] Ho Fs Hr; try reflexivity.
  cbn [fields_ok forallb slots_rest slots_rt] in *.
  apply andb_true_iff in Ho. destruct Ho as [Ho0 Ho]. apply andb_true_iff in Fs. destruct Fs as [Fs0 Fs].
  apply andb_true_iff in Hr. destruct Hr as [Hr0 Hr].
  rewrite (slot_rt_compose q u f s Ho0 Fs0 Hr0), (IH sl Ho Fs Hr). reflexivity.
Qed.

Lemma rt_ok_compose : forall q db v, wfv PW db false v = true -> float_repr_ok v = true -> rest_ok q db v = true ->
  rt_ok q db v = true.
Proof.
  intros q db v. induction v using pyval_nested_ind; intros W F R; try reflexivity.
  - cbn [wfv float_repr_ok rest_ok rt_ok] in *. apply andb_true_iff in W. destruct W as [_ W].
    apply andb_true_iff in F. destruct F as [_ F].
    induction H as [|a r Ha _ IH]; [reflexivity|]. cbn [forallb] in *.
    apply andb_true_iff in W. destruct W as [Wa Wr]. apply andb_true_iff in F. destruct F as [Fa Fr].
    apply andb_true_iff in R. destruct R as [Ra Rr]. rewrite (Ha Wa Fa Ra), (IH Wr Fr Rr). reflexivity.
  - cbn [wfv float_repr_ok rest_ok rt_ok] in *. destruct (nth_error db t) as [c|]; [|discriminate].
    apply andb_true_iff in W. destruct W as [O W]. apply andb_true_iff in R. destruct R as [Rl R].
    unfold obj_ok in O. apply andb_true_iff in O. destruct O as [Of _].
    rewrite (slots_rt_compose q _ _ _ Of F Rl). cbn [andb]. clear Of Rl.
    induction H as [|a r Ha _ IH]; [reflexivity|]. cbn [forallb] in *.
    apply andb_true_iff in W. destruct W as [Wa Wr]. apply andb_true_iff in F. destruct F as [Fa Fr].
    apply andb_true_iff in R. destruct R as [Ra Rr]. rewrite (Ha Wa Fa Ra). cbn [andb].
    apply IH; auto.
Qed.

Lemma forallb_nth_all {A} (p : A -> bool) (d : A) : forall l, (forall j, (j < length l)%nat -> p (nth j l d) = true) -> forallb p l = true.
Proof.
  induction l as [|a l IH]; intros H; [reflexivity|]. cbn [forallb]. pose proof (H 0%nat) as H0. cbn [nth length] in H0. rewrite H0 by lia. cbn [andb].
  apply IH. intros j Hj. apply (H (Datatypes.S j)). cbn [length]. lia.
Qed.

(* the premise db_defaults_ok of builtin_roundtrip follows from the type-level premises of default_obj_exists *)
Theorem defaults_ok_derived : forall q db, db_ok_aux 0 db = true -> db_types_ok db = true -> db_defaults_ok q db = true.
Proof.
  intros q db Hok Hty. unfold db_defaults_ok. apply forallb_nth_all with (d := PNone). intros j Hj.
  rewrite defaults_length in Hj. destruct (nth_error db j) as [c|] eqn:Ec; [|apply nth_error_None in Ec; lia].
  destruct (default_obj_exists q db Hok Hty j c Ec) as (sl & E & _). unfold default_obj in E. rewrite E. reflexivity.
Qed.

Theorem builtin_roundtrip_run : forall q db tid c ops fuel b,
  db_wok db = true -> db_ok_aux 0 db = true -> db_types_ok db = true -> db_strok db = true ->
  nth_error db tid = Some c ->
  let o := run TG PW q db tid ops in
  (need_strict q -> wfv PW db true o = true) -> rest_ok q db o = true ->
  tb db o = Some b -> (vdepth o <= fuel)%nat ->
  ufb TG PW q db fuel (default_obj TG PW q db tid) b = (o, None).
Proof.
  intros q db tid c ops fuel b Wdb Hok Hty Hst Ec o Hs Hr Hb Hd.
  destruct (run_is_obj q db Hok Hty tid c ops Ec) as [sl E]. subst o. rewrite E in *.
  apply builtin_roundtrip; auto.
  - apply defaults_ok_derived; auto.
  - rewrite <- E. apply obj_invariant. exact Wdb.
  - apply rt_ok_compose; auto.
    + rewrite <- E. apply obj_invariant. exact Wdb.
    + rewrite <- E. apply float_repr_run.
Qed.

(* the code in /repo (conformant element check): the strict contract is an invariant, no premise about it is left *)
Corollary builtin_roundtrip_run_noquirk : forall db tid c ops fuel b,
  db_wok db = true -> db_ok_aux 0 db = true -> db_types_ok db = true -> db_strok db = true ->
  nth_error db tid = Some c ->
  let o := run TG PW false db tid ops in
  rest_ok false db o = true -> tb db o = Some b -> (vdepth o <= fuel)%nat ->
  ufb TG PW false db fuel (default_obj TG PW false db tid) b = (o, None).
Proof.
  intros db tid c ops fuel b Wdb Hok Hty Hst Ec o Hr Hb Hd.
  eapply builtin_roundtrip_run; eauto. intros _. apply obj_invariant_strict_noquirk. exact Wdb.
Qed.

(* rest_ok cannot be dropped for reachable objects either: a float64 ndarray holding 2^1000 is bound to a float40 array by the
   same-dtype fast path (nothing checks it), and the way back goes through the conversion path, which does *)
Theorem roundtrip_run_needs_float_range :
  let db := [ {| c_union := false; c_fields := [FArr false 2 false (EPrim (KF 40))] |} ] in
  let o := run TG PW false db 0 [OSet 0 (XNd (DF 64) [XVal (PFloat 9110782046170513408)])] in
  o = PObj 0 [PArr (DF 64) [PFloat 9110782046170513408]] /\ rest_ok false db o = false /\
  exists b, tb db o = Some b /\ snd (ufb TG PW false db 5 (default_obj TG PW false db 0) b) = Some ValueError.
Proof. cbv zeta. split; [vm_compute; reflexivity|]. split; [vm_compute; reflexivity|]. eexists. split; [vm_compute; reflexivity|]. vm_compute. reflexivity. Qed.
