(* C18: for every (name, major) of a namespace the alias is the type with the numerically greatest minor version *)
From Coq Require Import List Arith Bool Lia.
From Verif Require Import PyAlias Gen_PyAlias.
Import ListNotations.

Lemma py_max_by_spec : forall A (k : A -> nat) l m, py_max_by k l = Some m ->
  In m l /\ forall x, In x l -> k x <= k m.
Proof.
  induction l as [|a r IH]; cbn [py_max_by]; intros m H; [discriminate|].
  destruct (py_max_by k r) as [b|] eqn:E.
  - destruct (IH b eq_refl) as [Hin Hmax]. destruct (Nat.ltb (k a) (k b)) eqn:L; inversion H; subst m.
    + apply Nat.ltb_lt in L. split; [right; exact Hin|]. intros x [->|Hx]; [lia|auto].
    + apply Nat.ltb_ge in L. split; [left; reflexivity|]. intros x [->|Hx]; [lia|]. specialize (Hmax x Hx). lia.
  - inversion H; subst m. destruct r; [|cbn [py_max_by] in E; destruct (py_max_by k r); [destruct (Nat.ltb _ _)|]; discriminate].
    split; [left; reflexivity|]. intros x [->|[]]. lia.
Qed.

Lemma py_max_by_some : forall A (k : A -> nat) l, l <> [] -> exists m, py_max_by k l = Some m.
Proof.
  intros A k l H. destruct l as [|a r]; [congruence|]. cbn [py_max_by].
  destruct (py_max_by k r) as [b|]; [destruct (Nat.ltb (k a) (k b))|]; eauto.
Qed.

Lemma insert_pair_in : forall p q l, In q (insert_pair p l) <-> q = p \/ In q l.
Proof.
  induction l as [|x r IH]; cbn [insert_pair]; [cbn; intuition|].
  destruct (Nat.ltb (fst p) (fst x) || (Nat.eqb (fst p) (fst x) && Nat.ltb (snd p) (snd x))) eqn:A; [cbn; intuition|].
  destruct (Nat.eqb (fst p) (fst x) && Nat.eqb (snd p) (snd x)) eqn:B.
  - apply andb_true_iff in B. destruct B as [B1 B2]. apply Nat.eqb_eq in B1, B2.
    assert (p = x) by (destruct p, x; cbn in *; congruence). subst. cbn. intuition.
  - cbn [In]. rewrite IH. intuition.
Qed.

Lemma sorted_set_in : forall q l, In q (sorted_set l) <-> In q l.
Proof.
  induction l as [|p r IH]; cbn [sorted_set fold_right]; [reflexivity|].
  fold (sorted_set r). rewrite insert_pair_in, IH. cbn. intuition.
Qed.

(* soundness: every alias is bound to a type of that name and major whose minor is the greatest *)
Theorem alias_is_newest_minor : forall tys name major t,
  In (name, major, t) (aliases_gen tys) ->
  In t tys /\ v_name t = name /\ v_major t = major /\
  forall t', In t' tys -> v_name t' = name -> v_major t' = major -> v_minor t' <= v_minor t.
Proof.
  intros tys name major t H. unfold aliases_gen in H.
  apply in_flat_map in H. destruct H as ((n & mj) & _ & H). cbn [fst snd] in H.
  destruct (py_max_by _ _) as [m|] eqn:E; [|destruct H].
  destruct H as [H|[]]. inversion H; subst n mj m. clear H.
  destruct (py_max_by_spec _ _ _ _ E) as [Hin Hmax].
  apply filter_In in Hin. destruct Hin as [Hin Hp]. apply andb_true_iff in Hp. destruct Hp as [P1 P2].
  apply Nat.eqb_eq in P1, P2. repeat split; auto.
  intros t' Ht' N M. apply Hmax. apply filter_In. split; [exact Ht'|].
  apply andb_true_iff. split; apply Nat.eqb_eq; congruence.
Qed.

(* completeness: every (name, major) present in the namespace has its alias *)
Theorem alias_exists : forall tys t, In t tys -> exists t', In (v_name t, v_major t, t') (aliases_gen tys).
Proof.
  intros tys t Ht. unfold aliases_gen.
  assert (Hk : In (v_name t, v_major t) (sorted_set (map (fun x => (v_name x, v_major x)) tys))).
  { apply sorted_set_in. apply in_map_iff. exists t. auto. }
  destruct (py_max_by_some _ v_minor (filter (fun x => Nat.eqb (v_name x) (v_name t) && Nat.eqb (v_major x) (v_major t)) tys)) as [m E].
  { intro F. assert (In t (filter (fun x => Nat.eqb (v_name x) (v_name t) && Nat.eqb (v_major x) (v_major t)) tys)).
    { apply filter_In. split; [exact Ht|]. rewrite !Nat.eqb_refl. reflexivity. }
    rewrite F in H. destruct H. }
  exists m. apply in_flat_map. exists (v_name t, v_major t). split; [exact Hk|]. cbn [fst snd]. rewrite E. left. reflexivity.
Qed.

(* the case the lexicographic order gets wrong: minors 2, 9, 10, 11 *)
Example alias_minor_ten : forall t,
  In (0, 1, t) (aliases_gen [ {| v_name := 0; v_major := 1; v_minor := 9; v_id := 0 |}; {| v_name := 0; v_major := 1; v_minor := 10; v_id := 1 |};
                              {| v_name := 0; v_major := 1; v_minor := 2; v_id := 2 |}; {| v_name := 0; v_major := 1; v_minor := 11; v_id := 3 |} ]) ->
  v_id t = 3.
Proof. vm_compute. intros t [H|[]]. inversion H. reflexivity. Qed.
