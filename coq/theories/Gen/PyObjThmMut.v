(* C18: writes that bypass the generated setters (element writes into the ndarray a field holds, `+=`, writes through an alias the
   same-dtype fast path has bound, setters of nested instances).  What survives EVERY such sequence is the shape contract
   (storage dtype range, lengths, union bookkeeping); the DSDL range of array elements of non-standard width does not. *)
From Coq Require Import List NArith ZArith Bool Arith Lia ZifyBool.
From Verif Require Import PyObj Gen_PyObj PyObjThm PyObjThmStart.
Import ListNotations.
Open Scope Z_scope.

Definition xside (strict : bool) (db : tdb) : Prop := strict = false \/ db_std_elems PW db = true.

Lemma xside_side : forall strict q db, xside strict db -> side strict q db.
Proof. intros strict q db [H|H]; [left; exact H | right; right; exact H]. Qed.

Lemma xside_C : forall strict db t c, xside strict db -> db_wok db = true -> nth_error db t = Some c ->
  (strict = false \/ forallb (ftype_std PW) (c_fields c) = true) /\ forallb ftype_wok (c_fields c) = true.
Proof.
  intros strict db t c X Wdb Ec. destruct (side_C strict true db t c (xside_side _ _ _ X) Wdb Ec) as [S Sw]. split; [|exact Sw].
  destruct S as [S|[S|S]]; [left; exact S | discriminate | right; exact S].
Qed.

(* ================================================================ in-place array updates *)
Lemma mapM_length {A B} (f : A -> res B) : forall l l', mapM f l = Ok l' -> length l' = length l.
Proof. intros l l' H. apply mapM_Forall2 in H. induction H; cbn [length]; congruence. Qed.

Definition upd_ok (strict : bool) (db : tdb) (g : dtype -> list pyval -> res (list pyval)) : Prop :=
  forall dt l l', dt_wok dt -> forallb (fits dt) l = true -> forallb (wfv PW db strict) l = true -> g dt l = Ok l' ->
    length l' = length l /\ forallb (fits dt) l' = true /\ forallb (wfv PW db strict) l' = true.

Lemma np_setitem_ok : forall strict db j x, wfv PW db strict x = true -> upd_ok strict db (fun dt l => np_setitem dt l j x).
Proof.
  intros strict db j x Wx dt l l' _ F W H. unfold np_setitem in H. destruct (Nat.ltb j (length l)); [|discriminate].
  destruct (conv_leaf dt x) as [y|] eqn:C; cbn [bind] in H; [|discriminate]. inversion H; subst l'.
  apply conv_leaf_ok in C. destruct C as [Fy Hy]. split; [apply length_update_nth|].
  split; apply forallb_update_nth; auto. destruct Hy as [->|Hy]; auto using leafval_wf.
Qed.

Lemma np_iadd_ok : forall strict db z, upd_ok strict db (fun dt l => np_iadd dt l z).
Proof.
  intros strict db z dt l l' Hd F W H. unfold np_iadd in H.
  assert (G : forall l l', mapM (fun x => match x with PInt a => Ok (PInt (wrap_int dt (a + z))) | _ => Raise TypeError end) l = Ok l' ->
              (forall a, fits dt (PInt (wrap_int dt a)) = true) ->
              length l' = length l /\ forallb (fits dt) l' = true /\ forallb (wfv PW db strict) l' = true).
  { clear. intros l l' H Hf. apply mapM_Forall2 in H. induction H as [|x0 y0 r0 r1 Hab _ IH]; [auto|].
    destruct IH as (L & F & W). destruct x0; try discriminate. inversion Hab; subst y0.
    cbn [length forallb wfv]. rewrite L, Hf, F, W. auto. }
  destruct dt; try discriminate.
  - destruct (conv_leaf (DU w) (PInt z)); cbn [bind] in H; [|discriminate]. apply (G _ _ H).
    intros a0. cbn [fits wrap_int]. apply wrap_u_range. exact Hd.
  - destruct (conv_leaf (DS w) (PInt z)); cbn [bind] in H; [|discriminate]. apply (G _ _ H).
    intros a0. cbn [fits wrap_int]. apply wrap_s_range. exact Hd.
Qed.

Lemma field_at : forall strict u fs sl i s, fields_ok PW strict u fs sl = true -> nth_error sl i = Some s ->
  exists f, nth_error fs i = Some f /\ fok strict u f s = true.
Proof.
  intros strict u fs sl i s H E. apply fields_ok_nth in H. destruct H as [L Hn].
  destruct (nth_error fs i) as [f|] eqn:Ef.
  - exists f. split; [reflexivity|]. eapply Hn; eauto.
  - apply nth_error_None in Ef. assert (nth_error sl i <> None) by congruence. apply nth_error_Some in H. lia.
Qed.

Lemma arr_update_ok : forall strict db c slots i g s' r,
  (strict = false \/ forallb (ftype_std PW) (c_fields c) = true) -> forallb ftype_wok (c_fields c) = true ->
  upd_ok strict db g -> obj_ok PW strict c slots = true -> forallb (wfv PW db strict) slots = true ->
  arr_update slots i g = (s', r) -> obj_ok PW strict c s' = true /\ forallb (wfv PW db strict) s' = true.
Proof.
  intros strict db c slots i g s' r Sd Sw Hg O Ws H. unfold arr_update in H.
  destruct (nth_error slots i) as [s|] eqn:Es; [|inversion H; subst; auto].
  destruct s as [| | | | | | | |dt l|]; try (inversion H; subst; auto; fail).
  destruct (g dt l) as [l'|] eqn:G; inversion H; subst s' r; clear H; [|auto].
  pose proof O as O'. unfold obj_ok in O'. apply andb_true_iff in O'. destruct O' as [Of _].
  destruct (field_at _ _ _ _ _ _ Of Es) as (f & Ef & Fo). unfold fok in Fo. cbn [is_none] in Fo. rewrite andb_false_r in Fo.
  cbn [orb] in Fo. destruct f as [[k|t0]|fixed cap sl e]; [destruct k; discriminate | discriminate |]. cbn [field_ok] in Fo.
  apply andb_true_iff in Fo. destruct Fo as [Fo Fel]. apply andb_true_iff in Fo. destruct Fo as [Fdt Flen].
  apply dtype_eqb_eq in Fdt. subst dt.
  assert (Wl : wfv PW db strict (PArr (dtype_of PW e) l) = true).
  { rewrite forallb_forall in Ws. apply Ws. eapply nth_error_In; eauto. }
  cbn [wfv] in Wl. apply andb_true_iff in Wl. destruct Wl as [Fl Wl].
  assert (Fw : ftype_wok (FArr fixed cap sl e) = true) by (rewrite forallb_forall in Sw; apply Sw; eapply nth_error_In; eauto).
  destruct (Hg _ _ _ (dtype_of_wok _ _ _ _ Fw) Fl Wl G) as (L' & F' & W').
  split.
  - eapply obj_ok_update; [exact O | exact Ef | exact Es | reflexivity | reflexivity |].
    cbn [field_ok]. rewrite dtype_eqb_refl, L', Flen. cbn [andb].
    apply forallb_forall. intros y Hy. rewrite forallb_forall in F'. specialize (F' y Hy).
    destruct strict; [|rewrite <- fits_elem_ok_false; exact F'].
    destruct Sd as [Sd|Sd]; [discriminate|].
    assert (Fs : ftype_std PW (FArr fixed cap sl e) = true) by (rewrite forallb_forall in Sd; apply Sd; eapply nth_error_In; eauto).
    rewrite (elem_ok_std _ _ _ _ _ Fs), <- fits_elem_ok_false. exact F'.
  - apply forallb_update_nth; auto. cbn [wfv]. rewrite F', W'. reflexivity.
Qed.

(* ================================================================ nested access *)
Lemma field_ok_obj_slots : forall strict f t sl sl', field_ok PW strict f (PObj t sl) = field_ok PW strict f (PObj t sl').
Proof. intros strict f t sl sl'. destruct f as [[k|t']|fixed cap s e]; [destruct k| |]; reflexivity. Qed.

Definition g_ok (strict : bool) (db : tdb) (g : comp -> list pyval -> list pyval * option exc) : Prop :=
  forall t c sl sl' r, nth_error db t = Some c -> obj_ok PW strict c sl = true -> forallb (wfv PW db strict) sl = true ->
    g c sl = (sl', r) -> obj_ok PW strict c sl' = true /\ forallb (wfv PW db strict) sl' = true.

Lemma at_path_ok : forall strict db g, g_ok strict db g ->
  forall fuel tid slots path sl' r, wfv PW db strict (PObj tid slots) = true ->
  at_path db fuel tid slots path g = (sl', r) -> wfv PW db strict (PObj tid sl') = true.
Proof.
  intros strict db g Hg. induction fuel as [|fuel IH]; intros tid slots path sl' r W H; cbn [wfv] in W |- *;
    (destruct (nth_error db tid) as [c|] eqn:Ec; [|discriminate]);
    apply andb_true_iff in W; destruct W as [O Ws].
  - cbn [at_path] in H. rewrite Ec in H. destruct path as [|p rest].
    + destruct (Hg _ _ _ _ _ Ec O Ws H) as [O' W']. rewrite O', W'. reflexivity.
    + inversion H; subst. rewrite O, Ws. reflexivity.
  - cbn [at_path] in H. rewrite Ec in H. destruct path as [|p rest].
    + destruct (Hg _ _ _ _ _ Ec O Ws H) as [O' W']. rewrite O', W'. reflexivity.
    + destruct (nth_error slots p) as [s|] eqn:Es; [|inversion H; subst; rewrite O, Ws; reflexivity].
      destruct s as [| | | | | | | | |t sl]; try (inversion H; subst; rewrite O, Ws; reflexivity).
      destruct (at_path db fuel t sl rest g) as [sl2 r2] eqn:A. inversion H; subst sl' r; clear H.
      assert (Wt : wfv PW db strict (PObj t sl) = true) by (rewrite forallb_forall in Ws; apply Ws; eapply nth_error_In; eauto).
      pose proof (IH _ _ _ _ _ Wt A) as W2.
      pose proof O as O'. unfold obj_ok in O'. apply andb_true_iff in O'. destruct O' as [Of _].
      destruct (field_at _ _ _ _ _ _ Of Es) as (f & Ef & Fo). unfold fok in Fo. cbn [is_none] in Fo.
      rewrite andb_false_r in Fo. cbn [orb] in Fo.
      rewrite (obj_ok_update strict c slots p f (PObj t sl) (PObj t sl2) O Ef Es eq_refl eq_refl).
      * rewrite forallb_update_nth; auto.
      * rewrite <- (field_ok_obj_slots strict f t sl sl2). exact Fo.
Qed.

(* ================================================================ one extended operation *)
Lemma g_set_slot : forall strict q db i x, xside strict db -> db_wok db = true -> wfv PW db strict x = true ->
  g_ok strict db (fun c sl => set_slot TG PW q c sl i x).
Proof.
  intros strict q db i x X Wdb Wx t c sl sl' r Ec O Ws H.
  destruct (side_C strict q db t c (xside_side _ _ _ X) Wdb Ec) as [S Sw].
  exact (set_slot_ok q db c sl i x sl' r strict S Sw O Ws Wx H).
Qed.

Lemma g_arr_update : forall strict db i g, xside strict db -> db_wok db = true -> upd_ok strict db g ->
  g_ok strict db (fun _ sl => arr_update sl i g).
Proof.
  intros strict db i g X Wdb Hg t c sl sl' r Ec O Ws H. destruct (xside_C strict db t c X Wdb Ec) as [S Sw].
  exact (arr_update_ok strict db c sl i g sl' r S Sw Hg O Ws H).
Qed.

Lemma xstep_ok : forall strict q db, xside strict db -> db_wok db = true ->
  forall tid o p, wfv PW db strict o = true -> tid_ok tid o ->
  wfv PW db strict (fst (xstep TG PW q db tid o p)) = true /\ tid_ok tid (fst (xstep TG PW q db tid o p)).
Proof.
  intros strict q db X Wdb tid o p Wo To.
  pose proof (xside_side strict q db X) as Sd.
  destruct p as [b|path i e|path i j e|path i z|i a j e]; cbn [xstep].
  - apply step_ok; auto.
  - destruct (eval TG PW q db e) as [x|] eqn:Ee; [|cbn [fst]; auto].
    pose proof (eval_ok q db strict Sd Wdb _ _ Ee) as Wx.
    destruct o as [| | | | | | | | |t slots]; try (cbn [fst]; auto; fail).
    destruct (at_path db (length path) t slots path (fun c sl => set_slot TG PW q c sl i x)) as [s' r] eqn:A. cbn [fst].
    split; [|exact To]. eapply at_path_ok; [|exact Wo|exact A]. apply g_set_slot; auto.
  - destruct (eval TG PW q db e) as [x|] eqn:Ee; [|cbn [fst]; auto].
    pose proof (eval_ok q db strict Sd Wdb _ _ Ee) as Wx.
    destruct o as [| | | | | | | | |t slots]; try (cbn [fst]; auto; fail).
    destruct (at_path db (length path) t slots path (fun _ sl => arr_update sl i (fun dt l => np_setitem dt l j x))) as [s' r] eqn:A.
    cbn [fst]. split; [|exact To]. eapply at_path_ok; [|exact Wo|exact A]. apply g_arr_update; auto. apply np_setitem_ok; exact Wx.
  - destruct o as [| | | | | | | | |t slots]; try (cbn [fst]; auto; fail).
    destruct (at_path db (length path) t slots path (fun _ sl => arr_update sl i (fun dt l => np_iadd dt l z))) as [s' r] eqn:A.
    cbn [fst]. split; [|exact To]. eapply at_path_ok; [|exact Wo|exact A]. apply g_arr_update; auto. apply np_iadd_ok.
  - destruct (eval TG PW q db a) as [xa|] eqn:Ea; [|cbn [fst]; auto].
    destruct (eval TG PW q db e) as [x|] eqn:Ee; [|cbn [fst]; auto].
    pose proof (eval_ok q db strict Sd Wdb _ _ Ea) as Wxa. pose proof (eval_ok q db strict Sd Wdb _ _ Ee) as Wx.
    destruct o as [| | | | | | | | |t slots]; try (cbn [fst]; auto; fail).
    destruct (nth_error db tid) as [c|] eqn:Ec; [|cbn [fst]; auto].
    cbn [tid_ok] in To. subst t. cbn [wfv] in Wo. rewrite Ec in Wo. apply andb_true_iff in Wo. destruct Wo as [O Ws].
    destruct (set_slot TG PW q c slots i xa) as [s' r1] eqn:SS.
    destruct (side_C strict q db tid c Sd Wdb Ec) as [S Sw].
    destruct (set_slot_ok q db c slots i xa s' r1 strict S Sw O Ws Wxa SS) as [O1 W1].
    assert (Fin : forall s2, obj_ok PW strict c s2 = true -> forallb (wfv PW db strict) s2 = true ->
                             wfv PW db strict (PObj tid s2) = true /\ tid_ok tid (PObj tid s2)).
    { intros s2 O2 W2. cbn [wfv tid_ok]. rewrite Ec, O2, W2. auto. }
    destruct r1 as [ex|]; [cbn [fst]; apply Fin; auto|].
    destruct (is_fast_bind PW c i xa); [|cbn [fst]; apply Fin; auto].
    destruct (arr_update s' i (fun dt l => np_setitem dt l j x)) as [s2 r2] eqn:AU. cbn [fst].
    destruct (xside_C strict db tid c X Wdb Ec) as [S' Sw'].
    destruct (arr_update_ok strict db c s' i _ s2 r2 S' Sw' (np_setitem_ok strict db j x Wx) O1 W1 AU) as [O2 W2].
    apply Fin; auto.
Qed.

Lemma xrun_ok : forall strict q db, xside strict db -> db_wok db = true ->
  forall tid ops, wfv PW db strict (xrun TG PW q db tid ops) = true.
Proof.
  intros strict q db X Wdb tid ops. unfold xrun.
  assert (G : forall ops o, wfv PW db strict o = true -> tid_ok tid o ->
              wfv PW db strict (fold_left (fun o p => fst (xstep TG PW q db tid o p)) ops o) = true).
  { clear ops. induction ops as [|p ops IH]; intros o Wo To; cbn [fold_left]; [exact Wo|].
    destruct (xstep_ok strict q db X Wdb tid o p Wo To) as [W' T']. apply IH; auto. }
  apply G; [apply default_obj_ok; auto using xside_side | apply default_obj_tid].
Qed.

(* the shape contract survives every sequence of operations, in place writes, aliased writes and nested setters included *)
Theorem xobj_invariant : forall q db tid ops, db_wok db = true -> wfv PW db false (xrun TG PW q db tid ops) = true.
Proof. intros q db tid ops Wdb. apply xrun_ok; auto. left; reflexivity. Qed.

(* standard element widths only: storage range = DSDL range, so the full contract survives as well (for either element check) *)
Theorem xobj_invariant_strict_std : forall q db tid ops, db_wok db = true -> db_std_elems PW db = true ->
  wfv PW db true (xrun TG PW q db tid ops) = true.
Proof. intros q db tid ops Wdb Hs. apply xrun_ok; auto. right; exact Hs. Qed.

(* ... and it is an instance of its class *)
Lemma xstep_keeps_obj : forall q db tid sl p, exists sl', fst (xstep TG PW q db tid (PObj tid sl) p) = PObj tid sl'.
Proof.
  intros q db tid sl p. destruct p as [b|path i e|path i j e|path i z|i a j e]; cbn [xstep].
  - apply step_keeps_obj.
  - destruct (eval TG PW q db e) as [x|]; [|cbn [fst]; eauto].
    destruct (at_path _ _ _ _ _ _) as [s' r]. cbn [fst]. eauto.
  - destruct (eval TG PW q db e) as [x|]; [|cbn [fst]; eauto].
    destruct (at_path _ _ _ _ _ _) as [s' r]. cbn [fst]. eauto.
  - destruct (at_path _ _ _ _ _ _) as [s' r]. cbn [fst]. eauto.
  - destruct (eval TG PW q db a) as [xa|]; [|cbn [fst]; eauto].
    destruct (eval TG PW q db e) as [x|]; [|cbn [fst]; eauto].
    destruct (nth_error db tid) as [c|]; [|cbn [fst]; eauto].
    destruct (set_slot TG PW q c sl i xa) as [s' [ex|]]; [cbn [fst]; eauto|].
    destruct (is_fast_bind PW c i xa); [|cbn [fst]; eauto].
    destruct (arr_update _ _ _) as [s2 r2]. cbn [fst]. eauto.
Qed.

Theorem xrun_is_obj : forall q db, db_ok_aux 0 db = true -> db_types_ok db = true ->
  forall tid c ops, nth_error db tid = Some c -> exists sl, xrun TG PW q db tid ops = PObj tid sl.
Proof.
  intros q db Hok Hty tid c ops Ec. unfold xrun.
  destruct (default_obj_exists q db Hok Hty tid c Ec) as (sl0 & -> & _).
  apply (fold_keeps_obj (fun o p => fst (xstep TG PW q db tid o p))). intros sl p. apply xstep_keeps_obj.
Qed.

Theorem xobj_invariant_total : forall q db tid c ops,
  db_wok db = true -> db_ok_aux 0 db = true -> db_types_ok db = true -> nth_error db tid = Some c ->
  exists sl, xrun TG PW q db tid ops = PObj tid sl /\ obj_ok PW false c sl = true /\ forallb (wfv PW db false) sl = true.
Proof.
  intros q db tid c ops Wdb Hok Hty Ec. destruct (xrun_is_obj q db Hok Hty tid c ops Ec) as [sl E]. exists sl. split; [exact E|].
  pose proof (xobj_invariant q db tid ops Wdb) as W. rewrite E in W. cbn [wfv] in W. rewrite Ec in W. apply andb_true_iff in W. exact W.
Qed.

(* objects reached through constructors, documented setters and update_from_builtin only: exactly the runs of PyObjThm.v *)
Theorem xobj_invariant_setters_only : forall q db tid ops, xrun TG PW q db tid (map XBase ops) = run TG PW q db tid ops.
Proof.
  intros q db tid ops. unfold xrun, run. generalize (default_obj TG PW q db tid).
  induction ops as [|p ops IH]; intros o; cbn [map fold_left xstep]; [reflexivity|apply IH].
Qed.

(* ================================================================ what does NOT survive: the DSDL range of the elements *)
(* uint4[<=3], the code in /repo (q = false: every generated path checks the element range): a write into the ndarray the
   property returned, an in-place addition, and a write through the caller's array the fast path has bound *)
Definition db_u4 : tdb := [ {| c_union := false; c_fields := [FArr false 3 false (EPrim (KU 4))] |} ].

Theorem inplace_elem_range_refuted : exists db tid ops,
  db_wok db = true /\ wfv PW db true (xrun TG PW false db tid ops) = false.
Proof.
  exists db_u4, 0%nat, [XBase (OSet 0 (XVal (PList [PInt 1]))); XMutElem [] 0 0 (XVal (PInt 200))].
  split; vm_compute; reflexivity.
Qed.

Theorem inplace_iadd_range_refuted : exists db tid ops,
  db_wok db = true /\ wfv PW db true (xrun TG PW false db tid ops) = false.
Proof.
  exists db_u4, 0%nat, [XBase (OSet 0 (XVal (PList [PInt 1]))); XIAdd [] 0 100].
  split; vm_compute; reflexivity.
Qed.

Theorem alias_elem_range_refuted : exists db tid ops,
  db_wok db = true /\ wfv PW db true (xrun TG PW false db tid ops) = false.
Proof.
  exists db_u4, 0%nat, [XAliasMut 0 (XNd (DU 8) [XVal (PInt 1)]) 0 (XVal (PInt 200))].
  split; vm_compute; reflexivity.
Qed.

Theorem inplace_refuted_states :
  xrun TG PW false db_u4 0 [XBase (OSet 0 (XVal (PList [PInt 1]))); XMutElem [] 0 0 (XVal (PInt 200))] = PObj 0 [PArr (DU 8) [PInt 200]] /\
  xrun TG PW false db_u4 0 [XBase (OSet 0 (XVal (PList [PInt 1]))); XIAdd [] 0 100] = PObj 0 [PArr (DU 8) [PInt 101]] /\
  xrun TG PW false db_u4 0 [XAliasMut 0 (XNd (DU 8) [XVal (PInt 1)]) 0 (XVal (PInt 200))] = PObj 0 [PArr (DU 8) [PInt 200]] /\
  xrun TG PW false db_u4 0 [XBase (OSet 0 (XVal (PList [PInt 1]))); XMutElem [] 0 0 (XVal (PInt 256))] = PObj 0 [PArr (DU 8) [PInt 1]].
Proof. split; [|split; [|split]]; vm_compute; reflexivity. Qed.

(* ================================================================ aliasing is decided by the fast path *)
Theorem alias_copy_decided : forall q db tid sl c i a j e xa x,
  nth_error db tid = Some c -> eval TG PW q db a = Ok xa -> eval TG PW q db e = Ok x ->
  is_fast_bind PW c i xa = false ->
  fst (xstep TG PW q db tid (PObj tid sl) (XAliasMut i a j e)) = fst (step TG PW q db tid (PObj tid sl) (OSet i a)).
Proof.
  intros q db tid sl c i a j e xa x Ec Ea Ee Hf. cbn [xstep step]. rewrite Ea, Ee, Ec.
  destruct (set_slot TG PW q c sl i xa) as [s' [ex|]]; [reflexivity|]. rewrite Hf. reflexivity.
Qed.

(* a uint8 ndarray into uint4[<=3] is bound as it is, so the later write through the caller's name is visible in the object;
   an int64 ndarray is converted (copied), the later write is not visible *)
Theorem alias_fast_bind_visible :
  xrun TG PW false db_u4 0 [XAliasMut 0 (XNd (DU 8) [XVal (PInt 1)]) 0 (XVal (PInt 2))] = PObj 0 [PArr (DU 8) [PInt 2]] /\
  run TG PW false db_u4 0 [OSet 0 (XNd (DU 8) [XVal (PInt 1)])] = PObj 0 [PArr (DU 8) [PInt 1]] /\
  xrun TG PW false db_u4 0 [XAliasMut 0 (XNd (DS 64) [XVal (PInt 1)]) 0 (XVal (PInt 2))] = PObj 0 [PArr (DU 8) [PInt 1]].
Proof. split; [|split]; vm_compute; reflexivity. Qed.
