(* C18: the start state is an instance.  `run` starts from default_obj tid = T(); the model stores None when a default constructor
   raises, and every invariant is trivially true of None.  Here: under decidable type-level premises every default constructor
   succeeds, every run stays an instance of its class, and the invariants are restated with that in the conclusion. *)
From Coq Require Import List NArith ZArith Bool Arith Lia ZifyBool.
From Verif Require Import PyObj Gen_PyObj PyObjThm PyObjThmRt PyObjThmRt2.
Import ListNotations.
Open Scope Z_scope.

(* integer widths for which 0 is a value of the type: uintW needs W >= 0, intW needs W >= 1 (pydsdl: 1..64 resp. 2..64) *)
Definition etype_dok (e : etype) : bool :=
  match e with EPrim (KU w) => 0 <=? w | EPrim (KS w) => 1 <=? w | _ => true end.
Definition ftype_dok (f : ftype) : bool := match f with FScalar e | FArr _ _ _ e => etype_dok e end.
Definition db_types_ok (db : tdb) : bool := forallb (fun c => forallb ftype_dok (c_fields c)) db.

Lemma urange_0 : forall w, 0 <= w -> urange w 0 = true.
Proof. intros w H. unfold urange. assert (0 < 2 ^ w) by (apply Z.pow_pos_nonneg; lia). lia. Qed.
Lemma srange_0 : forall w, 1 <= w -> srange w 0 = true.
Proof. intros w H. unfold srange. assert (0 < 2 ^ (w - 1)) by (apply Z.pow_pos_nonneg; lia). lia. Qed.

Lemma default_elem_dsdl : forall defs e, etype_dok e = true -> elem_in_dsdl_range e (default_elem defs e) = true.
Proof.
  intros defs e H. destruct e as [[|w|w|w]|t]; cbn [default_elem elem_in_dsdl_range etype_dok] in *; try reflexivity.
  - apply urange_0. lia.
  - apply srange_0. lia.
Qed.

(* every default argument is accepted by the setter of its field *)
Lemma default_arg_accepted : forall q defs f, ftype_dok f = true ->
  (forall t, f = FScalar (EComp t) -> exists sl, nth t defs PNone = PObj t sl) ->
  exists v, field_value TG PW q f (default_arg PW defs f) = Ok v.
Proof.
  intros q defs f Hd Hc. destruct f as [[k|t]|fixed cap sl e]; cbn [field_value default_arg].
  - rewrite set_prim_gen. cbn [ftype_dok etype_dok] in Hd. destruct k as [|w|w|w]; cbn [default_elem py_int py_float bind int_in_range].
    + eexists; reflexivity.
    + rewrite urange_0 by lia. eexists; reflexivity.
    + rewrite srange_0 by lia. eexists; reflexivity.
    + assert (f_in_range w 0 = true) as -> by (unfold f_in_range, f_maxw; destruct (w =? 16); reflexivity).
      cbn [orb]. destruct (w <? 64); eexists; reflexivity.
  - destruct (Hc t eq_refl) as [sl0 E]. cbn [default_elem]. rewrite E, set_comp_gen, Nat.eqb_refl. eexists; reflexivity.
  - rewrite assign_array_gen. cbn [ftype_dok] in Hd.
    assert (Chk : forall l, forallb (elem_in_dsdl_range e) l = true -> exists v, chkG q e l = Ok v).
    { intros l Hl. unfold chkG. rewrite Hl, orb_true_r. eexists; reflexivity. }
    destruct fixed.
    + replace (strconv sl (PArr (dtype_of PW e) (repeat (default_elem defs e) cap)))
        with (PArr (dtype_of PW e) (repeat (default_elem defs e) cap)) by (destruct sl; reflexivity).
      cbn [assignG]. rewrite dtype_eqb_refl. cbn [andb lenG]. rewrite repeat_length, Nat.eqb_refl.
      apply Chk. apply forallb_repeat. apply default_elem_dsdl. exact Hd.
    + replace (strconv sl (PArr (dtype_of PW e) [])) with (PArr (dtype_of PW e) []) by (destruct sl; reflexivity).
      cbn [assignG]. rewrite dtype_eqb_refl. cbn [andb lenG length Nat.leb]. apply Chk. reflexivity.
Qed.

Section Ctor.
  Variable q : bool.
  Variable db : tdb.
  Variable defs : list pyval.
  Variable c : comp.
  Hypothesis Hdok : forallb ftype_dok (c_fields c) = true.
  Hypothesis Hcomp : forall t, In (FScalar (EComp t)) (c_fields c) -> exists sl, nth t defs PNone = PObj t sl.

  Lemma field_default_accepted : forall i f, nth_error (c_fields c) i = Some f ->
    exists v, field_value TG PW q f (default_arg PW defs f) = Ok v.
  Proof.
    intros i f Ef. pose proof (nth_error_In _ _ Ef) as Hin. apply default_arg_accepted.
    - pose proof Hdok as Hd. rewrite forallb_forall in Hd. auto.
    - intros t ->. auto.
  Qed.

  Lemma ctor_struct_succeeds : c_union c = false -> forall fs i slots,
    (forall j, nth_error fs j = nth_error (c_fields c) (i + j)) ->
    exists out, ctor_struct TG PW q defs c fs i [] slots = Ok out /\ length out = length slots.
  Proof.
    intros U. induction fs as [|f fs IH]; intros i slots Hfs.
    - cbn [ctor_struct]. eauto.
    - rewrite ctor_struct_cons. unfold kwarg. rewrite nth_nil_none.
      assert (Ef : nth_error (c_fields c) i = Some f).
      { specialize (Hfs 0%nat). cbn [nth_error] in Hfs. rewrite Nat.add_0_r in Hfs. auto. }
      destruct (field_default_accepted i f Ef) as [v V]. rewrite set_slot_gen, Ef, V, U.
      destruct (IH (Datatypes.S i) (update_nth i v slots)) as (out & E & L).
      { intros j. specialize (Hfs (Datatypes.S j)). cbn [nth_error] in Hfs. rewrite Hfs. f_equal. clear; lia. }
      exists out. split; [exact E|]. rewrite L. apply length_update_nth.
  Qed.

  Lemma construct_default_succeeds : forall tid, nth_error db tid = Some c ->
    exists sl, construct_with TG PW q db defs tid [] = Ok (PObj tid sl) /\ length sl = length (c_fields c).
  Proof.
    intros tid Ec. unfold construct_with. rewrite Ec. destruct (c_union c) eqn:U.
    - rewrite ctor_union_nil. cbn [bind]. case_eq (c_fields c); [intros F | intros f0 fs F].
      + eexists. split; reflexivity.
      + assert (Ef : nth_error (c_fields c) 0 = Some f0) by (rewrite F; reflexivity).
        destruct (field_default_accepted 0%nat f0 Ef) as [v V].
        rewrite <- F. rewrite set_slot_gen, Ef, V, U. eexists. split; [reflexivity|].
        rewrite length_clear_others, length_update_nth. apply map_length.
    - destruct (ctor_struct_succeeds U (c_fields c) 0%nat (map (fun _ => PNone) (c_fields c)) (fun j => eq_refl))
        as (out & E & L).
      rewrite E. cbn [bind]. exists out. split; [reflexivity|]. rewrite L. apply map_length.
  Qed.
End Ctor.

(* the prefix of the defaults a constructor sees is the final one *)
Lemma defaults_aux_spec2 : forall q db n tid acc, length acc = tid ->
  length (defaults_aux TG PW q db n tid acc) = (tid + n)%nat /\
  (forall j, (j < tid)%nat -> nth j (defaults_aux TG PW q db n tid acc) PNone = nth j acc PNone) /\
  (forall j, (tid <= j < tid + n)%nat -> exists defs,
      (forall t, (t < j)%nat -> nth t defs PNone = nth t (defaults_aux TG PW q db n tid acc) PNone) /\
      nth j (defaults_aux TG PW q db n tid acc) PNone =
        match construct_with TG PW q db defs j [] with Ok o => o | Raise _ => PNone end).
Proof.
  intros q db. induction n as [|n IH]; intros tid acc L; cbn [defaults_aux].
  - split; [clear - L; lia|]. split; [auto|]. intros j Hj. exfalso. clear - Hj. lia.
  - set (d := match construct_with TG PW q db acc tid [] with Ok o => o | Raise _ => PNone end).
    assert (L' : length (acc ++ [d]) = Datatypes.S tid) by (rewrite app_length; cbn [length]; clear - L; lia).
    destruct (IH (Datatypes.S tid) (acc ++ [d]) L') as (H1 & H2 & H3).
    assert (P : forall j, (j < tid)%nat -> nth j (defaults_aux TG PW q db n (Datatypes.S tid) (acc ++ [d])) PNone = nth j acc PNone).
    { intros j Hj. rewrite H2 by (clear - Hj; lia). apply app_nth1. rewrite L. exact Hj. }
    split; [rewrite H1; clear; lia|]. split; [exact P|].
    intros j Hj. destruct (Nat.eq_dec j tid) as [->|Hne].
    + exists acc. split.
      * intros t Ht. symmetry. apply P. exact Ht.
      * rewrite H2 by (clear; lia). rewrite app_nth2 by (rewrite L; clear; lia). rewrite L, Nat.sub_diag. reflexivity.
    + apply H3. clear - Hj Hne. lia.
Qed.

Lemma db_ok_below : forall cs n k c, db_ok_aux n cs = true -> nth_error cs k = Some c ->
  forallb (ftype_below (n + k)) (c_fields c) = true.
Proof.
  induction cs as [|c0 cs IH]; intros n k c H E; [destruct k; discriminate|].
  cbn [db_ok_aux] in H. apply andb_true_iff in H. destruct H as [H Hr]. apply andb_true_iff in H. destruct H as [Hb _].
  destruct k as [|k]; cbn [nth_error] in E.
  - inversion E; subst. rewrite Nat.add_0_r. exact Hb.
  - replace (n + Datatypes.S k)%nat with (Datatypes.S n + k)%nat by lia. eapply IH; eauto.
Qed.

Theorem default_obj_exists : forall q db, db_ok_aux 0 db = true -> db_types_ok db = true ->
  forall tid c, nth_error db tid = Some c ->
  exists sl, default_obj TG PW q db tid = PObj tid sl /\ length sl = length (c_fields c).
Proof.
  intros q db Hok Hty tid. induction tid as [tid IH] using lt_wf_ind. intros c Ec.
  assert (Ht : (tid < length db)%nat) by (apply nth_error_Some; congruence).
  unfold default_obj, defaults in *.
  destruct (defaults_aux_spec2 q db (length db) 0 [] eq_refl) as (_ & _ & H3).
  destruct (H3 tid) as (defs & Hdefs & E); [clear - Ht; lia|]. rewrite E.
  destruct (construct_default_succeeds q db defs c) with (tid := tid) as (sl & C & L); auto.
  - unfold db_types_ok in Hty. rewrite forallb_forall in Hty. apply Hty. eapply nth_error_In; eauto.
  - intros t Hin. pose proof (db_ok_below db 0 tid c Hok Ec) as Hb. rewrite forallb_forall in Hb.
    specialize (Hb _ Hin). cbn [ftype_below etype_below] in Hb. apply Nat.ltb_lt in Hb. cbn [Nat.add] in Hb.
    assert (exists c', nth_error db t = Some c') as [c' Ec'].
    { destruct (nth_error db t) eqn:E'; [eauto|]. apply nth_error_None in E'. clear - E' Hb Ht. lia. }
    destruct (IH t Hb c' Ec') as (sl & Es & _). exists sl. rewrite Hdefs by exact Hb. exact Es.
  - rewrite C. exists sl. auto.
Qed.

(* ================================================================ runs stay instances of their class *)
Lemma step_keeps_obj : forall q db tid sl p, exists sl', fst (step TG PW q db tid (PObj tid sl) p) = PObj tid sl'.
Proof.
  intros q db tid sl p. destruct p as [i e|fuel e|kw]; cbn [step].
  - destruct (eval TG PW q db e) as [x|]; [|cbn [fst]; eauto].
    destruct (nth_error db tid) as [c|]; [|cbn [fst]; eauto].
    destruct (set_slot TG PW q c sl i x) as [s' r]. cbn [fst]. eauto.
  - destruct (eval TG PW q db e) as [x|]; [|cbn [fst]; eauto]. apply ufb_keeps_tid.
  - destruct (eval TG PW q db (XNew tid kw)) as [o'|] eqn:Ee; cbn [fst]; [|eauto].
    rewrite eval_XNew in Ee. destruct (ev_list q db kw) as [vs|]; cbn [bind] in Ee; [|discriminate].
    apply construct_tid in Ee. exact Ee.
Qed.

Lemma fold_keeps_obj {P : Type} (stepf : pyval -> P -> pyval) (tid : nat) :
  (forall sl p, exists sl', stepf (PObj tid sl) p = PObj tid sl') ->
  forall ops sl, exists sl', fold_left stepf ops (PObj tid sl) = PObj tid sl'.
Proof.
  intros H. induction ops as [|p ops IH]; intros sl; cbn [fold_left]; [eauto|].
  destruct (H sl p) as [sl' ->]. apply IH.
Qed.

Theorem run_is_obj : forall q db, db_ok_aux 0 db = true -> db_types_ok db = true ->
  forall tid c ops, nth_error db tid = Some c -> exists sl, run TG PW q db tid ops = PObj tid sl.
Proof.
  intros q db Hok Hty tid c ops Ec. unfold run.
  destruct (default_obj_exists q db Hok Hty tid c Ec) as (sl0 & -> & _).
  apply (fold_keeps_obj (fun o p => fst (step TG PW q db tid o p))). intros sl p. apply step_keeps_obj.
Qed.

Lemma obj_total : forall strict q db, side strict q db -> db_wok db = true -> db_ok_aux 0 db = true -> db_types_ok db = true ->
  forall tid c ops, nth_error db tid = Some c ->
  exists sl, run TG PW q db tid ops = PObj tid sl /\ obj_ok PW strict c sl = true /\ forallb (wfv PW db strict) sl = true.
Proof.
  intros strict q db Sd Wdb Hok Hty tid c ops Ec.
  destruct (run_is_obj q db Hok Hty tid c ops Ec) as [sl E]. exists sl. split; [exact E|].
  pose proof (run_ok strict q db Sd Wdb tid ops) as W. rewrite E in W. cbn [wfv] in W. rewrite Ec in W.
  apply andb_true_iff in W. exact W.
Qed.

(* the invariants with the totalisation removed *)
Theorem obj_invariant_total : forall q db tid c ops,
  db_wok db = true -> db_ok_aux 0 db = true -> db_types_ok db = true -> nth_error db tid = Some c ->
  exists sl, run TG PW q db tid ops = PObj tid sl /\ obj_ok PW false c sl = true /\ forallb (wfv PW db false) sl = true.
Proof. intros. apply obj_total; auto. left; reflexivity. Qed.

Theorem obj_invariant_strict_noquirk_total : forall db tid c ops,
  db_wok db = true -> db_ok_aux 0 db = true -> db_types_ok db = true -> nth_error db tid = Some c ->
  exists sl, run TG PW false db tid ops = PObj tid sl /\ obj_ok PW true c sl = true /\ forallb (wfv PW db true) sl = true.
Proof. intros. apply obj_total; auto. right; left; reflexivity. Qed.

Theorem obj_invariant_live_total : forall db tid c ops,
  db_wok db = true -> db_ok_aux 0 db = true -> db_types_ok db = true ->
  (arrelem_quirk_gen = false \/ db_std_elems PW db = true) -> nth_error db tid = Some c ->
  exists sl, run TG PW arrelem_quirk_gen db tid ops = PObj tid sl /\ obj_ok PW true c sl = true /\
             forallb (wfv PW db true) sl = true.
Proof.
  intros db tid c ops Wdb Hok Hty H Ec. apply obj_total; auto.
  destruct H as [H|H]; [right; left; exact H | right; right; exact H].
Qed.

(* neither premise of default_obj_exists can be dropped: the default is None *)
Theorem default_needs_order : forall q,
  let db := [ {| c_union := false; c_fields := [FScalar (EComp 1)] |}; {| c_union := false; c_fields := [] |} ] in
  db_wok db = true /\ db_types_ok db = true /\ db_ok_aux 0 db = false /\ default_obj TG PW q db 0 = PNone /\
  forall ops, exists o, run TG PW q db 0 (OSet 0 (XVal (PInt 1)) :: ops) = o.
Proof.
  intros q db. subst db. do 4 (split; [destruct q; vm_compute; reflexivity|]). intros; eauto.
Qed.

Theorem default_needs_types : forall q,
  let db := [ {| c_union := false; c_fields := [FScalar (EPrim (KS 0))] |} ] in
  db_wok db = true /\ db_ok_aux 0 db = true /\ db_types_ok db = false /\ default_obj TG PW q db 0 = PNone.
Proof. intros q db. subst db. do 3 (split; [vm_compute; reflexivity|]). destruct q; vm_compute; reflexivity. Qed.
