(* Configuration values and Python-dict primitives shared by the C13 models
   (src/nunavut/_utilities.py deep_update / DefaultValue, src/nunavut/lang/_config.py).
   Executable definitions only; proofs live in ConfigThm.v.

   A configuration document is a tree: a leaf is any non-Mapping Python value (scalar,
   list, None, ...) together with the flag "wrapped in nunavut.DefaultValue"; a node is a
   Python dict, modelled as an insertion-ordered association list. *)
From Verif Require Export Str.
Open Scope N_scope.

Notation key := (list N) (only parsing).          (* dict keys are strings *)

Inductive atom :=
| ANone
| ABool (b : bool)
| AInt (z : Z)
| AStr (s : list N)
| AOpaque (id : N)         (* floats, ...: compared by identity of their canonical text *)
| AList (id : N).          (* a Python list, identified by its canonical text; id 0 is the empty list [] *)

Inductive cv :=
| Leaf (dflt : bool) (a : atom)      (* dflt = true: DefaultValue(a) *)
| Node (kvs : list (list N * cv)).

Notation dict := (list (list N * cv)) (only parsing).

Definition atom_eqb (a b : atom) : bool :=
  match a, b with
  | ANone, ANone => true
  | ABool x, ABool y => Bool.eqb x y
  | AInt x, AInt y => Z.eqb x y
  | AStr x, AStr y => str_eqb x y
  | AOpaque x, AOpaque y => N.eqb x y
  | AList x, AList y => N.eqb x y
  | _, _ => false
  end.

Fixpoint cv_eqb (a b : cv) {struct a} : bool :=
  match a, b with
  | Leaf d x, Leaf e y => Bool.eqb d e && atom_eqb x y
  | Node m, Node n =>
      (fix go (m n : list (list N * cv)) {struct m} : bool :=
         match m, n with
         | [], [] => true
         | (k, v) :: m', (k', v') :: n' => str_eqb k k' && cv_eqb v v' && go m' n'
         | _, _ => false
         end) m n
  | _, _ => false
  end.

(* ---- Python dict operations on association lists (polymorphic in the value) ---- *)
Section Dict.
  Context {A : Type}.

  (* d[k] / d.get(k): first binding *)
  Fixpoint dget (k : key) (m : list (key * A)) : option A :=
    match m with
    | [] => None
    | (k', v) :: m' => if str_eqb k k' then Some v else dget k m'
    end.

  (* d[k] = v: replace in place when the key exists (position kept), append otherwise *)
  Fixpoint dset (k : key) (v : A) (m : list (key * A)) : list (key * A) :=
    match m with
    | [] => [(k, v)]
    | (k', v') :: m' => if str_eqb k k' then (k', v) :: m' else (k', v') :: dset k v m'
    end.

  Definition dmem (k : key) (m : list (key * A)) : bool :=
    match dget k m with Some _ => true | None => false end.

  (* d.update(other) *)
  Definition dupdate (m other : list (key * A)) : list (key * A) :=
    fold_left (fun acc kv => dset (fst kv) (snd kv) acc) other m.

  (* keys are unique (a Python dict always satisfies this) *)
  Fixpoint dnodup (m : list (key * A)) : bool :=
    match m with
    | [] => true
    | (k, _) :: m' => negb (dmem k m') && dnodup m'
    end.
End Dict.

(* ---- the primitives the translated Python code is expressed with ---- *)

(* isinstance(v, DefaultValue) *)
Definition is_default (v : cv) : bool :=
  match v with Leaf d _ => d | Node _ => false end.

(* isinstance(v, collections.abc.Mapping) *)
Definition is_mapping (v : cv) : bool :=
  match v with Node _ => true | Leaf _ _ => false end.

(* v.items(); only ever evaluated on a Mapping by the translated code (a non-Mapping has
   no .items(): Python raises AttributeError, see `is_doc` below) *)
Definition cv_items (v : cv) : list (key * cv) :=
  match v with Node m => m | Leaf _ _ => [] end.

(* target[key]  (None = KeyError) *)
Definition cv_getitem (t : cv) (k : key) : option cv := dget k (cv_items t).

(* target.get(key, dflt) *)
Definition cv_get_or (t : cv) (k : key) (dflt : cv) : cv :=
  match cv_getitem t k with Some v => v | None => dflt end.

(* target[key] = v   (only evaluated on a Mapping) *)
Definition cv_setitem (t : cv) (k : key) (v : cv) : cv :=
  match t with Node m => Node (dset k v m) | Leaf _ _ => t end.

(* copy.copy(v): a value-level no-op; its aliasing behaviour is what ConfigAlias.v models *)
Definition cv_copy (v : cv) : cv := v.
(* copy.deepcopy(v): likewise *)
Definition cv_deepcopy (v : cv) : cv := v.

(* no_default_value: unwrap a DefaultValue *)
Definition unwrap_default (v : cv) : cv :=
  match v with Leaf _ a => Leaf false a | Node _ => v end.

(* ---- primitives used by the translated cpp _validate_language_options ---- *)

(* a value used as a dict key / compared with a str: only str values (DefaultValue hashes and compares as its value) *)
Definition cv_str (v : cv) : option key :=
  match v with Leaf _ (AStr s) => Some s | _ => None end.

(* bool(v) *)
Definition atom_truthy (a : atom) : bool :=
  match a with
  | ANone => false
  | ABool b => b
  | AInt z => negb (Z.eqb z 0)
  | AStr s => match s with [] => false | _ => true end
  | AOpaque _ => true
  | AList id => negb (N.eqb id 0)
  end.

Definition cv_truthy (v : cv) : bool :=
  match v with Leaf _ a => atom_truthy a | Node m => match m with [] => false | _ => true end end.

(* s.lower().replace("_", "-") on ASCII *)
Definition lower_dash (s : list N) : list N :=
  map (fun c => if (65 <=? c) && (c <=? 90) then c + 32 else if c =? 95 then 45 else c) s.

(* ---- Python values and exceptions for the translated getters of LanguageConfig ---- *)
Inductive cfg_result (A : Type) :=
| CfgOk (a : A)
| CfgKeyError
| CfgTypeError
| CfgUnmodelled.           (* text of a list/float/dict, attribute of a non-str: outside the model *)
Arguments CfgOk {A} a.
Arguments CfgKeyError {A}.
Arguments CfgTypeError {A}.
Arguments CfgUnmodelled {A}.

Definition rbind {A B : Type} (r : cfg_result A) (f : A -> cfg_result B) : cfg_result B :=
  match r with CfgOk a => f a | CfgKeyError => CfgKeyError | CfgTypeError => CfgTypeError | CfgUnmodelled => CfgUnmodelled end.

(* a Python value handled by the getters: the _UNSET sentinel or a configuration value (None = Leaf false ANone,
   a str = Leaf false (AStr s), a bool = Leaf false (ABool b), DefaultValue(x) = Leaf true x) *)
Inductive pyv := PUnset | PV (v : cv).

Fixpoint digit_codes (u : Decimal.uint) : list N :=
  match u with
  | Decimal.Nil => []
  | Decimal.D0 r => 48 :: digit_codes r | Decimal.D1 r => 49 :: digit_codes r | Decimal.D2 r => 50 :: digit_codes r
  | Decimal.D3 r => 51 :: digit_codes r | Decimal.D4 r => 52 :: digit_codes r | Decimal.D5 r => 53 :: digit_codes r
  | Decimal.D6 r => 54 :: digit_codes r | Decimal.D7 r => 55 :: digit_codes r | Decimal.D8 r => 56 :: digit_codes r
  | Decimal.D9 r => 57 :: digit_codes r
  end.

(* str(z) *)
Definition py_str_int (z : Z) : list N :=
  match Z.to_int z with
  | Decimal.Pos u => digit_codes u
  | Decimal.Neg u => 45 :: digit_codes u
  end.

(* str(x) of a leaf value *)
Definition py_str (a : atom) : option (list N) :=
  match a with
  | ANone => Some [78; 111; 110; 101]
  | ABool true => Some [84; 114; 117; 101]
  | ABool false => Some [70; 97; 108; 115; 101]
  | AInt z => Some (py_str_int z)
  | AStr s => Some s
  | AOpaque _ => None
  | AList _ => None
  end.

(* s.lower(): ASCII; no non-ASCII character lower-cases to a letter of "false", so comparing with "false" is exact *)
Definition ascii_lower (s : list N) : list N := map (fun c => if (65 <=? c) && (c <=? 90) then c + 32 else c) s.

(* x is None   (DefaultValue(None) is not None) *)
Definition py_is_none (v : pyv) : bool := match v with PV (Leaf false ANone) => true | _ => false end.
(* x is self._UNSET *)
Definition py_is_unset (v : pyv) : bool := match v with PUnset => true | PV _ => false end.
(* bool(x) *)
Definition py_truthy (v : pyv) : bool := match v with PUnset => true | PV x => cv_truthy x end.
(* isinstance(x, DefaultValue) / x.value *)
Definition py_is_default (v : pyv) : bool := match v with PV x => is_default x | PUnset => false end.
Definition py_default_value (v : pyv) : pyv := match v with PV x => PV (unwrap_default x) | PUnset => PUnset end.
(* isinstance(x, list) / isinstance(x, dict) *)
Definition py_is_list (v : pyv) : bool := match v with PV (Leaf false (AList _)) => true | _ => false end.
Definition py_is_dict (v : pyv) : bool := match v with PV (Node _) => true | _ => false end.
(* a == b for the comparisons the getters make (str against a str constant) *)
Definition py_eq (a b : pyv) : bool :=
  match a, b with PV (Leaf false x), PV (Leaf false y) => atom_eqb x y | _, _ => false end.
(* str(x) *)
Definition py_str_v (v : pyv) : cfg_result pyv :=
  match v with
  | PV (Leaf false a) => match py_str a with Some s => CfgOk (PV (Leaf false (AStr s))) | None => CfgUnmodelled end
  | _ => CfgUnmodelled
  end.
(* x.lower() *)
Definition py_lower (v : pyv) : cfg_result pyv :=
  match v with PV (Leaf false (AStr s)) => CfgOk (PV (Leaf false (AStr (ascii_lower s)))) | _ => CfgUnmodelled end.
(* d[k] on a dict with a str key: KeyError when absent; a non-dict container is outside the model *)
Definition py_getitem (d k : pyv) : cfg_result pyv :=
  match d, k with
  | PV (Node m), PV (Leaf false (AStr s)) => match dget s m with Some v => CfgOk (PV v) | None => CfgKeyError end
  | _, _ => CfgUnmodelled
  end.

(* a well-formed document: unique keys at every level *)
Fixpoint wf (v : cv) : bool :=
  match v with
  | Leaf _ _ => true
  | Node m =>
      dnodup m &&
      (fix go (m : list (list N * cv)) : bool :=
         match m with [] => true | (_, x) :: m' => wf x && go m' end) m
  end.

(* the sources of deep_update are documents (mappings) *)
Definition is_doc (v : cv) : bool := is_mapping v && wf v.

Definition path := list (list N).

(* the value found by following a path of keys *)
Fixpoint lookup (p : path) (v : cv) : option cv :=
  match p with
  | [] => Some v
  | k :: p' =>
      match v with
      | Node m => match dget k m with Some x => lookup p' x | None => None end
      | Leaf _ _ => None
      end
  end.
