(* C08 proofs: generic in the translated `code`.  Every theorem takes the decidable conditions chk_* / guards_ok on the code as
   hypotheses; Gen/ListingInst.v discharges them for Generated/Gen_Listing.the_code by computation over all flag combinations. *)
From Coq Require Import List NArith Bool Lia.
From Verif Require Import Str Listing.
Import ListNotations.
Open Scope N_scope.

(* ---- basics -------------------------------------------------------------------------------- *)
Lemma path_eqb_spec a b : reflect (a = b) (path_eqb a b).
Proof.
  revert b; induction a as [|x a IH]; intros [|y b]; cbn; try (constructor; congruence).
  destruct (str_eqb_spec x y) as [->|Hne]; cbn.
  - destruct (IH b) as [->|Hne]; constructor; congruence.
  - constructor; congruence.
Qed.

Lemma fs_write_spec f p q : fs_write f p q = true <-> (q = p \/ f q = true).
Proof.
  unfold fs_write. destruct (path_eqb_spec q p) as [->|Hne]; split; auto.
  intros [H|H]; [congruence|assumption].
Qed.

Lemma genid_eqb_spec a b : genid_eqb a b = true <-> a = b.
Proof. destruct a, b; cbn; split; congruence. Qed.

Lemma pair_eqb_spec a b : pair_eqb a b = true <-> a = b.
Proof.
  destruct a as [g o], b as [g' o']; unfold pair_eqb; cbn. rewrite andb_true_iff, genid_eqb_spec, eqb_true_iff.
  split; [intros [-> ->]; reflexivity | intros H; inversion H; auto].
Qed.

Lemma pairs_incl_spec a b : pairs_incl a b = true -> forall x, In x a -> In x b.
Proof.
  unfold pairs_incl, pair_mem. rewrite forallb_forall. intros H x Hx. specialize (H x Hx).
  rewrite existsb_exists in H. destruct H as (y & Hy & He). apply pair_eqb_spec in He. subst; assumption.
Qed.

Lemma in_bools b : In b bools.
Proof. destruct b; cbn; auto. Qed.

Lemma chk_stable_spec k fl d o i : chk_stable k fl = true ->
  beval (set_modes fl d o i) false false false (k_read k) = beval fl false false false (k_read k)
  /\ beval (set_modes fl d o i) false false false (k_reject k) = beval fl false false false (k_reject k).
Proof.
  unfold chk_stable. rewrite forallb_forall. intros H. specialize (H d (in_bools d)).
  rewrite forallb_forall in H. specialize (H o (in_bools o)). rewrite forallb_forall in H. specialize (H i (in_bools i)).
  rewrite andb_true_iff, !eqb_true_iff in H. exact H.
Qed.

(* ---- one generator -------------------------------------------------------------------------- *)
Section OneGenerator.
Variables (k : code) (c : cfg).
Hypothesis HG : guards_ok k = true.

Lemma leaf_guard_true g it : leaf_guard k g it = true.
Proof.
  unfold guards_ok in HG. rewrite !andb_true_iff in HG. destruct HG as [[H1 H2] H3].
  unfold leaf_guard. destruct g; [assumption|]. destruct (it_j2 it); assumption.
Qed.

Lemma gen_all_dry_fs g aow its : forall f acc, fst (fst (gen_all k c g true aow its f acc)) = f.
Proof.
  induction its as [|it r IH]; intros f acc; cbn [gen_all]; [reflexivity|].
  destruct (negb (item_template_ok c g it)); [reflexivity|].
  rewrite leaf_guard_true. cbn [negb]. apply IH.
Qed.

Lemma gen_all_dry_ok g aow its : forall f acc,
  (forall it, In it its -> item_template_ok c g it = true) ->
  gen_all k c g true aow its f acc = (f, acc ++ map it_path its, Ok).
Proof.
  induction its as [|it r IH]; intros f acc H; cbn [gen_all map].
  - rewrite app_nil_r. reflexivity.
  - rewrite (H it (or_introl eq_refl)). cbn [negb]. rewrite leaf_guard_true. cbn [negb].
    rewrite IH by (intros x Hx; apply H; right; assumption).
    rewrite <- app_assoc. reflexivity.
Qed.

Lemma gen_all_real g aow its : forall f acc f' gen,
  gen_all k c g false aow its f acc = (f', gen, Ok) ->
  (forall it, In it its -> item_template_ok c g it = true)
  /\ gen = acc ++ map it_path its
  /\ (forall p, f' p = true <-> (f p = true \/ In p (map it_path its))).
Proof.
  induction its as [|it r IH]; intros f acc f' gen H; cbn [gen_all map] in *.
  - inversion H; subst. rewrite app_nil_r. split; [intros ? []|]. split; [reflexivity|]. intros p. cbn [In]. tauto.
  - destruct (item_template_ok c g it) eqn:Et; cbn [negb] in H; [|discriminate].
    rewrite leaf_guard_true in H. cbn [negb] in H.
    destruct (f (it_path it) && negb aow); [discriminate|].
    apply IH in H. destruct H as (Ha & Hb & Hc). split; [|split].
    + intros x [<-|Hx]; [assumption | apply Ha; assumption].
    + rewrite Hb, <- app_assoc. reflexivity.
    + intros p. rewrite Hc, fs_write_spec. cbn [In]. intuition congruence.
Qed.
End OneGenerator.

(* ---- traces --------------------------------------------------------------------------------- *)
Section Folds.
Variables (k : code) (c : cfg) (i : inputs).
Hypothesis HG : guards_ok k = true.

Lemma fold_failed t : forall f out r, is_ok r = false -> fold_left (step k c i) t (f, out, r) = (f, out, r).
Proof.
  induction t as [|a t IH]; intros f out r Hr; cbn [fold_left]; [reflexivity|].
  unfold step at 2. rewrite Hr. cbn [negb]. apply IH. assumption.
Qed.

Lemma step_pure a st : is_pure_eact a = true -> fst (fst (step k c i st a)) = fst (fst st).
Proof.
  destruct st as [[f out] r]. unfold step. destruct (is_ok r); cbn [negb]; [|reflexivity].
  destruct a as [g dry o|g o|al|g dry aow o e| |]; cbn [is_pure_eact]; intros Hp; try reflexivity; subst dry.
  - pose proof (gen_all_dry_fs k c HG g true (items k c i g o) f []) as E.
    destruct (gen_all k c g true true (items k c i g o) f []) as [[f1 g1] r1]. exact E.
  - pose proof (gen_all_dry_fs k c HG g aow (items k c i g o) f []) as E.
    destruct (gen_all k c g true aow (items k c i g o) f []) as [[f1 g1] r1]. exact E.
Qed.

Lemma fold_pure t : forallb is_pure_eact t = true -> forall st, fst (fst (fold_left (step k c i) t st)) = fst (fst st).
Proof.
  induction t as [|a t IH]; intros H st; cbn [fold_left]; [reflexivity|].
  cbn [forallb] in H. apply andb_true_iff in H. destruct H as [Ha Ht].
  rewrite IH by assumption. apply step_pure. assumption.
Qed.

Definition paths_of (go : genid * bool) : list path := map it_path (items k c i (fst go) (snd go)).
Definition templates_ok (go : genid * bool) : Prop :=
  forall it, In it (items k c i (fst go) (snd go)) -> item_template_ok c (fst go) it = true.

Lemma fold_real t : forallb is_real_gen t = true -> forall f out f' out',
  fold_left (step k c i) t (f, out, Ok) = (f', out', Ok) ->
  out' = out
  /\ (forall go, In go (gen_pairs t) -> templates_ok go)
  /\ (forall p, f' p = true <-> (f p = true \/ exists go, In go (gen_pairs t) /\ In p (paths_of go))).
Proof.
  induction t as [|a t IH]; intros Hall f out f' out' H; cbn [fold_left] in H.
  - inversion H; subst. cbn. repeat split; try tauto. intros [?|(go & [] & _)]; assumption.
  - cbn [forallb] in Hall. apply andb_true_iff in Hall. destruct Hall as [Ha Ht].
    destruct a as [g dry o|g o|al|g dry aow o e| |]; cbn [is_real_gen] in Ha; try discriminate.
    destruct dry; [discriminate|].
    unfold step at 2 in H. cbn [is_ok negb] in H.
    destruct (gen_all k c g false aow (items k c i g o) f []) as [[f1 g1] r1] eqn:E.
    destruct r1; try (rewrite fold_failed in H by reflexivity; discriminate).
    apply (gen_all_real k c HG) in E. destruct E as (Ea & _ & Ec).
    apply IH in H; [|assumption]. destruct H as (-> & Hb & Hc). split; [reflexivity|]. split.
    + cbn [gen_pairs flat_map app]. intros go [<-|Hgo]; [exact Ea | apply Hb; assumption].
    + intros p. rewrite Hc, Ec. cbn [gen_pairs flat_map app]. split.
      * intros [[Hf|Hin]|(go & Hgo & Hp)].
        -- left; assumption.
        -- right. exists (g, o). split; [left; reflexivity | exact Hin].
        -- right. exists go. split; [right; assumption | assumption].
      * intros [Hf|(go & [<-|Hgo] & Hp)].
        -- left; left; assumption.
        -- left; right; exact Hp.
        -- right. exists go. split; assumption.
Qed.

Lemma fold_list t : forallb is_list_gen t = true ->
  (forall go, In go (gen_pairs t) -> templates_ok go) ->
  forall f out, fold_left (step k c i) t (f, out, Ok) = (f, out ++ flat_map paths_of (gen_pairs t), Ok).
Proof.
  induction t as [|a t IH]; intros Hall Hok f out; cbn [fold_left].
  - cbn. rewrite app_nil_r. reflexivity.
  - cbn [forallb] in Hall. apply andb_true_iff in Hall. destruct Hall as [Ha Ht].
    destruct a as [g dry o|g o|al|g dry aow o e| |]; cbn [is_list_gen] in Ha; try discriminate. subst dry.
    unfold step at 2. cbn [is_ok negb].
    rewrite (gen_all_dry_ok k c HG g true (items k c i g o) f []) by (apply (Hok (g, o)); cbn; left; reflexivity).
    cbn [is_ok app]. rewrite IH; [|assumption|intros go Hgo; apply Hok; cbn; right; assumption].
    cbn [gen_pairs flat_map app]. rewrite <- app_assoc. reflexivity.
Qed.

Definition listed_by (a : eact) : list path :=
  match a with
  | EListTemplates g o => listed_templates k c g o
  | EListSources al => listed_sources k c i al
  | EListDepSources => listed_dep_sources k c i
  | _ => []
  end.

Lemma fold_inputs t : forallb is_list_input t = true ->
  forall f out, fold_left (step k c i) t (f, out, Ok) = (f, out ++ flat_map listed_by t, Ok).
Proof.
  induction t as [|a t IH]; intros Hall f out; cbn [fold_left].
  - cbn. rewrite app_nil_r. reflexivity.
  - cbn [forallb] in Hall. apply andb_true_iff in Hall. destruct Hall as [Ha Ht].
    destruct a as [g dry o|g o|al|g dry aow o e| |]; cbn [is_list_input] in Ha; try discriminate;
      unfold step at 2; cbn [is_ok negb]; rewrite IH by assumption; cbn [flat_map listed_by]; rewrite <- app_assoc; reflexivity.
Qed.
End Folds.

(* ---- mode variants of a configuration see the same world ------------------------------------ *)
Lemma items_modes k c i d o li g om : chk_stable k (c_flags c) = true ->
  items k (with_flags c (set_modes (c_flags c) d o li)) i g om = items k c i g om.
Proof.
  intros H. destruct (chk_stable_spec k (c_flags c) d o li H) as [Hr _].
  destruct g; cbn [items]; [|reflexivity].
  unfold type_items, types_read. cbn [c_flags with_flags]. rewrite Hr. reflexivity.
Qed.

Lemma trace_of_modes k c d o li :
  trace_of k (with_flags c (set_modes (c_flags c) d o li)) = tr k (set_modes (c_flags c) d o li) (nse_of k c).
Proof. reflexivity. Qed.

Lemma reject_modes k c d o li : chk_stable k (c_flags c) = true ->
  beval (c_flags (with_flags c (set_modes (c_flags c) d o li))) false false false (k_reject k)
  = beval (c_flags c) false false false (k_reject k).
Proof. intros H. destruct (chk_stable_spec k (c_flags c) d o li H) as [_ Hr]. exact Hr. Qed.

(* ---- theorem 1: listing and dry-run modes leave every file system unchanged ------------------ *)
Theorem list_modes_pure_gen k : guards_ok k = true -> (forall fl nse, chk_pure k fl nse = true) ->
  forall c i f, (f_lo (c_flags c) || f_li (c_flags c) || f_lc (c_flags c) || f_dry (c_flags c)) = true ->
  fst (fst (run k c i f)) = f.
Proof.
  intros HG Hchk c i f Hm. unfold run. destruct (beval (c_flags c) false false false (k_reject k)); [reflexivity|].
  rewrite fold_pure; [reflexivity|assumption|].
  specialize (Hchk (c_flags c) (nse_of k c)). unfold chk_pure in Hchk. rewrite Hm in Hchk. exact Hchk.
Qed.

(* ---- theorem 2: the output listing is exactly what a successful real run creates ------------- *)
Theorem list_outputs_exact_gen k : guards_ok k = true -> (forall fl nse, chk_outputs k fl nse = true) ->
  (forall fl, chk_stable k fl = true) ->
  forall c i, f_lc (c_flags c) = false ->
  forall f' out', run k (real_of c) i fs_empty = (f', out', Ok) ->
  forall f, exists out, run k (lo_of c) i f = (f, out, Ok) /\ (forall p, In p out <-> f' p = true).
Proof.
  intros HG Hchk Hst c i Hlc f' out' Hreal f.
  specialize (Hchk (c_flags c) (nse_of k c)). unfold chk_outputs in Hchk. rewrite Hlc in Hchk.
  rewrite !andb_true_iff in Hchk. destruct Hchk as [[[Hr Hl] Hi1] Hi2].
  pose proof (Hst (c_flags c)) as Hs.
  unfold run in Hreal. unfold real_of in Hreal. rewrite (reject_modes k c false false false Hs) in Hreal.
  unfold run, lo_of. rewrite (reject_modes k c _ true _ Hs).
  destruct (beval (c_flags c) false false false (k_reject k)); [discriminate|].
  rewrite trace_of_modes in *.
  apply (fold_real k _ i HG _ Hr) in Hreal. destruct Hreal as (_ & Hok & Hfs).
  eexists. split.
  - apply (fold_list k _ i HG _ Hl).
    intros go Hgo. apply (pairs_incl_spec _ _ Hi2) in Hgo. specialize (Hok go Hgo).
    unfold templates_ok in *. intros it Hit. rewrite items_modes in Hit by assumption.
    rewrite items_modes in Hok by assumption. apply Hok in Hit. exact Hit.
  - intros p. rewrite Hfs. cbn [app]. rewrite in_flat_map. unfold fs_empty. split.
    + intros (go & Hgo & Hp). right. exists go. split; [apply (pairs_incl_spec _ _ Hi2); assumption|].
      unfold paths_of in *. rewrite items_modes in Hp by assumption. rewrite items_modes by assumption. exact Hp.
    + intros [Hf|(go & Hgo & Hp)]; [discriminate|]. exists go. split; [apply (pairs_incl_spec _ _ Hi1); assumption|].
      unfold paths_of in *. rewrite items_modes in Hp by assumption. rewrite items_modes by assumption. exact Hp.
Qed.

(* ---- theorem 3: list-inputs is complete away from the three triggers ------------------------- *)
Lemma resolve_name_in ch n f : resolve_name ch n = Some f -> exists d, In d ch /\ In f d.
Proof.
  induction ch as [|d r IH]; cbn [resolve_name]; [discriminate|].
  destruct (find_name d n) eqn:E.
  - intros H; inversion H; subst. exists d. split; [left; reflexivity|]. unfold find_name in E. apply find_some in E. apply E.
  - intros H. destruct (IH H) as (d' & Hd & Hf). exists d'. split; [right; assumption|assumption].
Qed.

Lemma find_root i key d : is_root_key i key = true -> find_type i key = Some d -> In d (i_roots i).
Proof.
  unfold is_root_key, find_type, all_types. generalize (i_roots i) as rs. induction rs as [|t r IH]; cbn; [discriminate|].
  destruct (t_key t =? key) eqn:E; cbn.
  - intros _ H. inversion H. left; reflexivity.
  - intros H1 H2. right. apply IH; assumption.
Qed.

Lemma closure_roots i : trig_lookup i = false -> forall fuel t, In t (i_roots i) -> forall d, In d (closure i fuel t) -> In d (i_roots i).
Proof.
  intros Htr. unfold trig_lookup in Htr. apply negb_false_iff in Htr. rewrite forallb_forall in Htr.
  induction fuel as [|n IH]; intros t Ht d Hd; cbn [closure] in Hd.
  - destruct Hd as [<-|[]]. assumption.
  - destruct Hd as [<-|Hd]; [assumption|]. apply in_flat_map in Hd. destruct Hd as (key & Hk & Hd).
    specialize (Htr t Ht). rewrite forallb_forall in Htr. specialize (Htr key Hk).
    destruct (find_type i key) as [d'|] eqn:E; [|destruct Hd].
    apply (IH d'); [apply (find_root i key); assumption | assumption].
Qed.

Lemma path_in_spec p l : path_in p l = true <-> In p l.
Proof.
  unfold path_in. rewrite existsb_exists. split.
  - intros (q & Hq & He). destruct (path_eqb_spec p q); [subst; assumption|discriminate].
  - intros H. exists p. split; [assumption|]. destruct (path_eqb_spec p p); congruence.
Qed.

Lemma types_read_modes k c i d o li : chk_stable k (c_flags c) = true ->
  types_read k (with_flags c (set_modes (c_flags c) d o li)) i = types_read k c i.
Proof.
  intros H. destruct (chk_stable_spec k (c_flags c) d o li H) as [Hr _].
  unfold types_read. cbn [c_flags with_flags]. rewrite Hr. reflexivity.
Qed.

Lemma listed_sources_modes k c i d o li al : chk_stable k (c_flags c) = true ->
  listed_sources k (with_flags c (set_modes (c_flags c) d o li)) i al = listed_sources k c i al.
Proof. intros H. unfold listed_sources. rewrite types_read_modes by assumption. reflexivity. Qed.

Lemma listed_dep_sources_modes k c i d o li : chk_stable k (c_flags c) = true ->
  listed_dep_sources k (with_flags c (set_modes (c_flags c) d o li)) i = listed_dep_sources k c i.
Proof. intros H. unfold listed_dep_sources, dsdl_influences. rewrite types_read_modes by assumption. reflexivity. Qed.

Lemma loaded_not (P : tfile -> bool) ch names n tf :
  existsb (fun n => match resolve_name ch n with Some f => P f | None => false end) names = false ->
  In n names -> resolve_name ch n = Some tf -> P tf = false.
Proof.
  intros H Hn E. destruct (P tf) eqn:Ep; [|reflexivity]. exfalso.
  assert (existsb (fun n => match resolve_name ch n with Some f => P f | None => false end) names = true).
  { apply existsb_exists. exists n. split; [assumption|]. rewrite E. exact Ep. }
  congruence.
Qed.

Theorem list_inputs_partial_gen k : (forall fl nse, chk_inputs k fl nse = true) -> (forall fl, chk_stable k fl = true) ->
  forall c i, f_lc (c_flags c) = false ->
  beval (c_flags c) false false false (k_reject k) = false ->
  eff_trig_lookup k i = false -> eff_trig_tpl k c i = false -> eff_trig_sup k c = false ->
  (k_fix_suptpl k || support_consistent c) = true ->
  forall x, In x (influence_set k c i) ->
  forall f, exists out, run k (li_of c) i f = (f, out, Ok) /\ In x out.
Proof.
  intros Hchk Hst c i Hlc Hrej Hlk Hnj Hso Hsc x Hx f.
  specialize (Hchk (c_flags c) (nse_of k c)). unfold chk_inputs in Hchk. rewrite Hlc in Hchk.
  apply andb_true_iff in Hchk. destruct Hchk as [Hshape Hcov].
  pose proof (Hst (c_flags c)) as Hs.
  unfold run, li_of. rewrite (reject_modes k c _ false true Hs), Hrej. rewrite trace_of_modes.
  rewrite (fold_inputs k _ i _ Hshape). eexists. split; [reflexivity|]. cbn [app].
  unfold influence_set, real_of in Hx. rewrite trace_of_modes in Hx. apply in_flat_map in Hx. destruct Hx as (a & Ha & Hx).
  rewrite forallb_forall in Hcov. specialize (Hcov a Ha).
  destruct a as [g dry o|g o|al|g dry aow o e| |]; cbn [influences_of] in Hx; try (destruct Hx).
  apply andb_true_iff in Hcov. destruct Hcov as [Hlt Hls].
  unfold lists_templates in Hlt. rewrite existsb_exists in Hlt. destruct Hlt as (b & Hb & Hbe).
  destruct b as [g' dry' o'|g' o'|al'|g' dry' aow' o' e'| |]; try discriminate.
  apply andb_true_iff in Hbe. destruct Hbe as [Hg Ho]. apply genid_eqb_spec in Hg. apply eqb_prop in Ho. subst g' o'.
  destruct g.
  - (* type generator *)
    apply andb_true_iff in Hls. destruct Hls as [Hls Hld].
    apply in_app_or in Hx. destruct Hx as [Hx|Hx].
    + (* a loaded template *)
      apply in_flat_map. exists (EListTemplates GTypes o). split; [assumption|]. cbn [listed_by listed_templates].
      unfold resolved_paths in Hx. apply in_flat_map in Hx. destruct Hx as (n & Hn & Hx).
      change (chain (with_flags c (set_modes (c_flags c) (f_dry (c_flags c)) false true)) GTypes) with (chain c GTypes).
      destruct (resolve_name (chain c GTypes) n) as [tf|] eqn:E; [|destruct Hx]. destruct Hx as [<-|[]].
      assert (Hl : listable k tf = true).
      { unfold eff_trig_tpl in Hnj. unfold listable. destruct (k_fix_nonj2 k).
        - unfold trig_py in Hnj. rewrite (loaded_not tf_py _ _ n tf Hnj Hn E). reflexivity.
        - unfold trig_nonj2 in Hnj. pose proof (loaded_not (fun f => negb (tf_j2 f)) _ _ n tf Hnj Hn E) as H0.
          cbn beta in H0. apply negb_false_iff in H0. exact H0. }
      apply resolve_name_in in E. destruct E as (d & Hd & Hf).
      apply in_flat_map. exists d. split; [exact Hd|]. unfold listable_paths. apply in_map. apply filter_In. split; assumption.
    + (* a DSDL source *)
      unfold lists_sources in Hls. rewrite existsb_exists in Hls. destruct Hls as (b & Hb' & Hbe).
      destruct b as [|?|al|?| |]; try discriminate.
      unfold dsdl_influences in Hx. apply in_flat_map in Hx. destruct Hx as (t & Ht & Hx).
      apply in_map_iff in Hx. destruct Hx as (d & <- & Hd).
      destruct (path_in (t_src d) (map t_src (types_read k c i))) eqn:Ein.
      * apply in_flat_map. exists (EListSources al). split; [assumption|]. cbn [listed_by].
        rewrite listed_sources_modes by assumption. unfold listed_sources. apply in_or_app. right. apply path_in_spec. exact Ein.
      * unfold eff_trig_lookup in Hlk. destruct (k_fix_lookup k); cbn [negb orb andb] in Hlk, Hld.
        -- unfold lists_deps in Hld. rewrite existsb_exists in Hld. destruct Hld as (b & Hb2 & Hbe2).
           destruct b; try discriminate.
           apply in_flat_map. exists EListDepSources. split; [assumption|]. cbn [listed_by].
           rewrite listed_dep_sources_modes by assumption. unfold listed_dep_sources. apply filter_In. split.
           ++ unfold dsdl_influences. apply in_flat_map. exists t. split; [assumption|]. apply in_map. exact Hd.
           ++ rewrite Ein. reflexivity.
        -- exfalso. unfold types_read in Ht, Ein.
           destruct (beval (c_flags c) false false false (k_read k)); [|destruct Ht].
           pose proof (closure_roots i Hlk _ t Ht d Hd) as Hroot.
           assert (path_in (t_src d) (map t_src (i_roots i)) = true) by (apply path_in_spec; apply in_map; exact Hroot).
           congruence.
  - (* support generator *)
    apply in_flat_map. exists (EListTemplates GSupport o). split; [assumption|]. cbn [listed_by listed_templates].
    unfold resolved_paths in Hx. apply in_flat_map in Hx. destruct Hx as (n & Hn & Hx).
    unfold support_loaded in Hn. apply in_map_iff in Hn. destruct Hn as (r & <- & Hr). apply filter_In in Hr. destruct Hr as [Hr Hj].
    change (chain (with_flags c (set_modes (c_flags c) false false false)) GSupport) with (chain c GSupport) in Hx.
    change (support_resources k (with_flags c (set_modes (c_flags c) false false false)) o) with (support_resources k c o) in Hr.
    change (support_resources k (with_flags c (set_modes (c_flags c) (f_dry (c_flags c)) false true)) o) with (support_resources k c o).
    apply in_map_iff. exists r. split; [|exact Hr]. unfold sup_listed_path.
    change (chain (with_flags c (set_modes (c_flags c) (f_dry (c_flags c)) false true)) GSupport) with (chain c GSupport).
    unfold eff_trig_sup in Hso. destruct (k_fix_suptpl k); cbn [negb andb orb] in Hso, Hsc |- *.
    + rewrite Hj. destruct (resolve_name (chain c GSupport) (sr_name r)) as [tf|]; [|destruct Hx].
      destruct Hx as [<-|[]]. reflexivity.
    + assert (Hmem : In r (l_sup_ser (c_lang c) ++ l_sup_type (c_lang c))).
      { unfold support_resources in Hr. apply in_flat_map in Hr. destruct Hr as (gr & _ & Hr).
        destruct (fst gr && o); [destruct Hr|]. apply in_or_app. destruct (snd gr); [left|right]; assumption. }
      unfold support_consistent in Hsc. rewrite forallb_forall in Hsc. specialize (Hsc r Hmem).
      assert (Hres : resolve_name (chain c GSupport) (sr_name r) = find_name (l_support_dir (c_lang c)) (sr_name r)).
      { unfold chain. unfold trig_support_override in Hso. destruct (c_support_templates c) as [d|].
        - cbn [resolve_name]. destruct (find_name d (sr_name r)) eqn:E.
          + exfalso. assert (existsb (fun r0 => match find_name d (sr_name r0) with Some _ => true | None => false end)
                                     (l_sup_ser (c_lang c) ++ l_sup_type (c_lang c)) = true).
            { apply existsb_exists. exists r. split; [assumption|]. rewrite E. reflexivity. }
            congruence.
          + destruct (find_name (l_support_dir (c_lang c)) (sr_name r)); reflexivity.
        - cbn [resolve_name]. destruct (find_name (l_support_dir (c_lang c)) (sr_name r)); reflexivity. }
      rewrite Hres in Hx. destruct (find_name (l_support_dir (c_lang c)) (sr_name r)) as [tf|]; [|discriminate].
      destruct Hx as [<-|[]]. destruct (path_eqb_spec (tf_path tf) (sr_path r)) as [->|]; [reflexivity|discriminate].
Qed.

(* the full statement for a code that has the three repairs *)
Theorem list_inputs_complete_gen k : (forall fl nse, chk_inputs k fl nse = true) -> (forall fl, chk_stable k fl = true) ->
  k_fix_lookup k = true -> k_fix_nonj2 k = true -> k_fix_suptpl k = true ->
  forall c i, f_lc (c_flags c) = false -> beval (c_flags c) false false false (k_reject k) = false -> trig_py c i = false ->
  forall x, In x (influence_set k c i) ->
  forall f, exists out, run k (li_of c) i f = (f, out, Ok) /\ In x out.
Proof.
  intros Hchk Hst H1 H2 H3 c i Hlc Hrej Hpy. apply (list_inputs_partial_gen k Hchk Hst c i Hlc Hrej).
  - unfold eff_trig_lookup. rewrite H1. reflexivity.
  - unfold eff_trig_tpl. rewrite H2. exact Hpy.
  - unfold eff_trig_sup. rewrite H3. reflexivity.
  - rewrite H3. reflexivity.
Qed.

(* ---- theorem 4: what --list-inputs prints for a generator is a set of PATHS ------------------- *)
(* type generator: exactly the paths of the listable files (template suffix; after the repair of F-LIST-INPUTS-NONJ2 every file
   that is not a Python package file) in the directories of its loader chain -- two files with the same name in different
   directories are two entries *)
Theorem listed_templates_servable_gen k c o p :
  In p (listed_templates k c GTypes o) <-> exists d f, In d (chain c GTypes) /\ In f d /\ listable k f = true /\ tf_path f = p.
Proof.
  cbn [listed_templates]. rewrite in_flat_map. split.
  - intros (d & Hd & Hp). unfold listable_paths in Hp. apply in_map_iff in Hp. destruct Hp as (f & Hf & Hin).
    apply filter_In in Hin. destruct Hin as [Hin Hj]. exists d, f. auto.
  - intros (d & f & Hd & Hf & Hj & Hp). exists d. split; [assumption|]. unfold listable_paths. apply in_map_iff. exists f.
    split; [assumption|]. apply filter_In. auto.
Qed.

(* support generator: the packaged resources SupportGenerator.get_templates enumerates, each as the path sup_listed_path gives *)
Theorem listed_support_resources_gen k c o p :
  In p (listed_templates k c GSupport o) <-> exists r, In r (support_resources k c o) /\ sup_listed_path k c r = p.
Proof. cbn [listed_templates]. rewrite in_map_iff. split; intros (r & H1 & H2); exists r; auto. Qed.
