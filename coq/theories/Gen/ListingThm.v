(* C08 proofs: generic in the translated `code`.  Every theorem takes the decidable conditions chk_* / guards_ok on the code as
   hypotheses; Gen/ListingInst.v discharges them for Generated/Gen_Listing.the_code by computation over all flag combinations. *)
From Coq Require Import List NArith Bool Lia.
From Verif Require Import Str Listing.
Import ListNotations.
Open Scope N_scope.

(* ---- basics -------------------------------------------------------------------------------- *)
Lemma path_eqb_spec a b : reflect (a = b) (path_eqb a b).
Proof.
  revert b; induction a as [|x a IH]; intros [|y b]; cbn; try (constructor; congruence).
  destruct (str_eqb_spec x y) as [->|Hne]; cbn.
  - destruct (IH b) as [->|Hne]; constructor; congruence.
  - constructor; congruence.
Qed.

Lemma fs_write_files f p q : is_file (fs_write f p q) = true <-> (q = p \/ is_file (f q) = true).
Proof.
  unfold fs_write. destruct (path_eqb_spec q p) as [->|Hne]; cbn [is_file].
  - split; auto.
  - destruct (f q) as [e|]; [tauto|]. destruct (path_in q (parents p)); cbn [is_file]; split; try tauto; try discriminate;
      intros [H|H]; congruence.
Qed.

(* a directory after a write was a directory before or is a parent of the written path *)
Lemma fs_write_dirs f p q : is_dir (fs_write f p q) = true -> is_dir (f q) = true \/ path_in q (parents p) = true.
Proof.
  unfold fs_write. destruct (path_eqb_spec q p) as [->|Hne]; cbn [is_dir]; [discriminate|].
  destruct (f q) as [e|]; [tauto|]. destruct (path_in q (parents p)); cbn [is_dir]; [tauto|discriminate].
Qed.

Lemma genid_eqb_spec a b : genid_eqb a b = true <-> a = b.
Proof. destruct a, b; cbn; split; congruence. Qed.

Lemma pair_eqb_spec a b : pair_eqb a b = true <-> a = b.
Proof.
  destruct a as [g o], b as [g' o']; unfold pair_eqb; cbn. rewrite andb_true_iff, genid_eqb_spec, eqb_true_iff.
  split; [intros [-> ->]; reflexivity | intros H; inversion H; auto].
Qed.

Lemma pairs_incl_spec a b : pairs_incl a b = true -> forall x, In x a -> In x b.
Proof.
  unfold pairs_incl, pair_mem. rewrite forallb_forall. intros H x Hx. specialize (H x Hx).
  rewrite existsb_exists in H. destruct H as (y & Hy & He). apply pair_eqb_spec in He. subst; assumption.
Qed.

Lemma in_bools b : In b bools.
Proof. destruct b; cbn; auto. Qed.

Lemma chk_stable_spec k fl d o i : chk_stable k fl = true ->
  beval (set_modes fl d o i) false false false (k_read k) = beval fl false false false (k_read k)
  /\ beval (set_modes fl d o i) false false false (k_reject k) = beval fl false false false (k_reject k).
Proof.
  unfold chk_stable. rewrite forallb_forall. intros H. specialize (H d (in_bools d)).
  rewrite forallb_forall in H. specialize (H o (in_bools o)). rewrite forallb_forall in H. specialize (H i (in_bools i)).
  rewrite andb_true_iff, !eqb_true_iff in H. exact H.
Qed.

(* ---- one generator -------------------------------------------------------------------------- *)
Section OneGenerator.
Variables (k : code) (c : cfg).
Hypothesis HG : guards_ok k = true.

Lemma leaf_guard_true g it : leaf_guard k g it = true.
Proof.
  unfold guards_ok in HG. rewrite !andb_true_iff in HG. destruct HG as [[[H1 H2] H3] _].
  unfold leaf_guard. destruct g; [assumption|]. destruct (it_j2 it); assumption.
Qed.

Lemma gen_all_dry_fs g aow its : forall f acc, fst (fst (gen_all k c g true aow its f acc)) = f.
Proof.
  induction its as [|it r IH]; intros f acc; cbn [gen_all]; [reflexivity|].
  destruct (negb (item_template_ok c g it)); [reflexivity|].
  rewrite leaf_guard_true. cbn [negb]. apply IH.
Qed.

Lemma gen_all_dry_ok g aow its : forall f acc,
  (forall it, In it its -> item_template_ok c g it = true) ->
  gen_all k c g true aow its f acc = (f, acc ++ map it_path its, Ok).
Proof.
  induction its as [|it r IH]; intros f acc H; cbn [gen_all map].
  - rewrite app_nil_r. reflexivity.
  - rewrite (H it (or_introl eq_refl)). cbn [negb]. rewrite leaf_guard_true. cbn [negb].
    rewrite IH by (intros x Hx; apply H; right; assumption).
    rewrite <- app_assoc. reflexivity.
Qed.

Lemma gen_all_real g aow its : forall f acc f' gen,
  gen_all k c g false aow its f acc = (f', gen, Ok) ->
  (forall it, In it its -> item_template_ok c g it = true)
  /\ gen = acc ++ map it_path its
  /\ (forall p, is_file (f' p) = true <-> (is_file (f p) = true \/ In p (map it_path its)))
  /\ (forall q, is_dir (f' q) = true -> is_dir (f q) = true \/ exists p, In p (map it_path its) /\ path_in q (parents p) = true).
Proof.
  induction its as [|it r IH]; intros f acc f' gen H; cbn [gen_all map] in *.
  - inversion H; subst. rewrite app_nil_r. split; [intros ? []|]. split; [reflexivity|]. split; [intros p; cbn [In]; tauto|].
    intros q Hq. left; assumption.
  - destruct (item_template_ok c g it) eqn:Et; cbn [negb] in H; [|discriminate].
    rewrite leaf_guard_true in H. cbn [negb] in H.
    destruct (is_some (f (it_path it)) && negb aow); [discriminate|].
    destruct (write_blocked f (it_path it)); [discriminate|].
    apply IH in H. destruct H as (Ha & Hb & Hc & Hd). split; [|split; [|split]].
    + intros x [<-|Hx]; [assumption | apply Ha; assumption].
    + rewrite Hb, <- app_assoc. reflexivity.
    + intros p. rewrite Hc, fs_write_files. cbn [In]. intuition congruence.
    + intros q Hq. apply Hd in Hq. destruct Hq as [Hq|(p & Hp & Hq)].
      * apply fs_write_dirs in Hq. destruct Hq as [Hq|Hq]; [left; assumption|].
        right. exists (it_path it). split; [left; reflexivity|assumption].
      * right. exists p. split; [right; assumption|assumption].
Qed.
End OneGenerator.

(* ---- traces --------------------------------------------------------------------------------- *)
Section Folds.
Variables (k : code) (c : cfg) (i : inputs).
Hypothesis HG : guards_ok k = true.

Lemma fold_failed t : forall f out r, is_ok r = false -> fold_left (step k c i) t (f, out, r) = (f, out, r).
Proof.
  induction t as [|a t IH]; intros f out r Hr; cbn [fold_left]; [reflexivity|].
  unfold step at 2. rewrite Hr. cbn [negb]. apply IH. assumption.
Qed.

Lemma step_pure a st : is_pure_eact a = true -> fst (fst (step k c i st a)) = fst (fst st).
Proof.
  destruct st as [[f out] r]. unfold step. destruct (is_ok r); cbn [negb]; [|reflexivity].
  destruct a as [g dry o|g o|al|g dry aow o e| |]; cbn [is_pure_eact]; intros Hp; try reflexivity; subst dry.
  - pose proof (gen_all_dry_fs k c HG g true (items k c i g o) f []) as E.
    destruct (gen_all k c g true true (items k c i g o) f []) as [[f1 g1] r1]. exact E.
  - pose proof (gen_all_dry_fs k c HG g aow (items k c i g o) f []) as E.
    destruct (gen_all k c g true aow (items k c i g o) f []) as [[f1 g1] r1]. exact E.
Qed.

Lemma fold_pure t : forallb is_pure_eact t = true -> forall st, fst (fst (fold_left (step k c i) t st)) = fst (fst st).
Proof.
  induction t as [|a t IH]; intros H st; cbn [fold_left]; [reflexivity|].
  cbn [forallb] in H. apply andb_true_iff in H. destruct H as [Ha Ht].
  rewrite IH by assumption. apply step_pure. assumption.
Qed.

Definition paths_of (go : genid * bool) : list path := map it_path (items k c i (fst go) (snd go)).
Definition templates_ok (go : genid * bool) : Prop :=
  forall it, In it (items k c i (fst go) (snd go)) -> item_template_ok c (fst go) it = true.

Lemma fold_real t : forallb is_real_gen t = true -> forall f out f' out',
  fold_left (step k c i) t (f, out, Ok) = (f', out', Ok) ->
  out' = out
  /\ (forall go, In go (gen_pairs t) -> templates_ok go)
  /\ (forall p, is_file (f' p) = true <-> (is_file (f p) = true \/ exists go, In go (gen_pairs t) /\ In p (paths_of go)))
  /\ (forall q, is_dir (f' q) = true ->
        is_dir (f q) = true \/ exists go p, In go (gen_pairs t) /\ In p (paths_of go) /\ path_in q (parents p) = true).
Proof.
  induction t as [|a t IH]; intros Hall f out f' out' H; cbn [fold_left] in H.
  - inversion H; subst. cbn. split; [reflexivity|]. split; [intros ? []|]. split.
    + intros p. split; [tauto|]. intros [?|(go & [] & _)]; assumption.
    + intros q Hq. left; assumption.
  - cbn [forallb] in Hall. apply andb_true_iff in Hall. destruct Hall as [Ha Ht].
    destruct a as [g dry o|g o|al|g dry aow o e| |]; cbn [is_real_gen] in Ha; try discriminate.
    destruct dry; [discriminate|].
    unfold step at 2 in H. cbn [is_ok negb] in H.
    destruct (gen_all k c g false aow (items k c i g o) f []) as [[f1 g1] r1] eqn:E.
    destruct r1; try (rewrite fold_failed in H by reflexivity; discriminate).
    apply (gen_all_real k c HG) in E. destruct E as (Ea & _ & Ec & Ed).
    apply IH in H; [|assumption]. destruct H as (-> & Hb & Hc & Hd). split; [reflexivity|]. split; [|split].
    + cbn [gen_pairs flat_map app]. intros go [<-|Hgo]; [exact Ea | apply Hb; assumption].
    + intros p. rewrite Hc, Ec. cbn [gen_pairs flat_map app]. split.
      * intros [[Hf|Hin]|(go & Hgo & Hp)].
        -- left; assumption.
        -- right. exists (g, o). split; [left; reflexivity | exact Hin].
        -- right. exists go. split; [right; assumption | assumption].
      * intros [Hf|(go & [<-|Hgo] & Hp)].
        -- left; left; assumption.
        -- left; right; exact Hp.
        -- right. exists go. split; assumption.
    + intros q Hq. apply Hd in Hq. cbn [gen_pairs flat_map app]. destruct Hq as [Hq|(go & p & Hgo & Hp & Hq)].
      * apply Ed in Hq. destruct Hq as [Hq|(p & Hp & Hq)]; [left; assumption|].
        right. exists (g, o), p. split; [left; reflexivity|]. split; assumption.
      * right. exists go, p. split; [right; assumption|]. split; assumption.
Qed.

Lemma fold_list t : forallb is_list_gen t = true ->
  (forall go, In go (gen_pairs t) -> templates_ok go) ->
  forall f out, fold_left (step k c i) t (f, out, Ok) = (f, out ++ flat_map paths_of (gen_pairs t), Ok).
Proof.
  induction t as [|a t IH]; intros Hall Hok f out; cbn [fold_left].
  - cbn. rewrite app_nil_r. reflexivity.
  - cbn [forallb] in Hall. apply andb_true_iff in Hall. destruct Hall as [Ha Ht].
    destruct a as [g dry o|g o|al|g dry aow o e| |]; cbn [is_list_gen] in Ha; try discriminate. subst dry.
    unfold step at 2. cbn [is_ok negb].
    rewrite (gen_all_dry_ok k c HG g true (items k c i g o) f []) by (apply (Hok (g, o)); cbn; left; reflexivity).
    cbn [is_ok app]. rewrite IH; [|assumption|intros go Hgo; apply Hok; cbn; right; assumption].
    cbn [gen_pairs flat_map app]. rewrite <- app_assoc. reflexivity.
Qed.

Definition listed_by (a : eact) : list path :=
  match a with
  | EListTemplates g o => listed_templates k c g o
  | EListSources al => listed_sources k c i al
  | EListDepSources => listed_dep_sources k c i
  | _ => []
  end.

Lemma fold_inputs t : forallb is_list_input t = true ->
  forall f out, fold_left (step k c i) t (f, out, Ok) = (f, out ++ flat_map listed_by t, Ok).
Proof.
  induction t as [|a t IH]; intros Hall f out; cbn [fold_left].
  - cbn. rewrite app_nil_r. reflexivity.
  - cbn [forallb] in Hall. apply andb_true_iff in Hall. destruct Hall as [Ha Ht].
    destruct a as [g dry o|g o|al|g dry aow o e| |]; cbn [is_list_input] in Ha; try discriminate;
      unfold step at 2; cbn [is_ok negb]; rewrite IH by assumption; cbn [flat_map listed_by]; rewrite <- app_assoc; reflexivity.
Qed.
End Folds.

(* ---- mode variants of a configuration see the same world ------------------------------------ *)
Lemma items_modes k c i d o li g om : chk_stable k (c_flags c) = true ->
  items k (with_flags c (set_modes (c_flags c) d o li)) i g om = items k c i g om.
Proof.
  intros H. destruct (chk_stable_spec k (c_flags c) d o li H) as [Hr _].
  destruct g; cbn [items]; [|reflexivity].
  unfold type_items, types_read. cbn [c_flags with_flags]. rewrite Hr. reflexivity.
Qed.

Lemma trace_of_modes k c d o li :
  trace_of k (with_flags c (set_modes (c_flags c) d o li)) = tr k (set_modes (c_flags c) d o li) (nse_of k c).
Proof. reflexivity. Qed.

Lemma reject_modes k c d o li : chk_stable k (c_flags c) = true ->
  beval (c_flags (with_flags c (set_modes (c_flags c) d o li))) false false false (k_reject k)
  = beval (c_flags c) false false false (k_reject k).
Proof. intros H. destruct (chk_stable_spec k (c_flags c) d o li H) as [_ Hr]. exact Hr. Qed.

Lemma ns_clash_modes k c i d o li : chk_stable k (c_flags c) = true ->
  ns_clash k (with_flags c (set_modes (c_flags c) d o li)) i = ns_clash k c i.
Proof.
  intros H. destruct (chk_stable_spec k (c_flags c) d o li H) as [Hr _].
  unfold ns_clash, types_read. cbn [c_flags with_flags]. rewrite Hr. reflexivity.
Qed.

Lemma path_effect_pure k c f : guards_ok k = true -> path_effect k c f = f.
Proof.
  intros HG. unfold guards_ok in HG. rewrite !andb_true_iff in HG. destruct HG as [_ H]. unfold path_effect. rewrite H. reflexivity.
Qed.

(* ---- theorem 1: listing and dry-run modes leave every file system unchanged ------------------ *)
Theorem list_modes_pure_gen k : guards_ok k = true -> (forall fl nse, chk_pure k fl nse = true) ->
  forall c i f, (f_lo (c_flags c) || f_li (c_flags c) || f_lc (c_flags c) || f_dry (c_flags c)) = true ->
  fst (fst (run k c i f)) = f.
Proof.
  intros HG Hchk c i f Hm. unfold run. destruct (beval (c_flags c) false false false (k_reject k)); [reflexivity|].
  destruct (ns_clash k c i); [reflexivity|].
  rewrite fold_pure; [cbn [fst]; apply path_effect_pure; assumption|assumption|].
  specialize (Hchk (c_flags c) (nse_of k c)). unfold chk_pure in Hchk. rewrite Hm in Hchk. exact Hchk.
Qed.

(* ---- theorem 2: the output listing is exactly what a successful real run creates ------------- *)
Theorem list_outputs_exact_gen k : guards_ok k = true -> (forall fl nse, chk_outputs k fl nse = true) ->
  (forall fl, chk_stable k fl = true) ->
  forall c i, f_lc (c_flags c) = false ->
  forall f' out', run k (real_of c) i fs_empty = (f', out', Ok) ->
  forall f, exists out, run k (lo_of c) i f = (f, out, Ok)
    /\ (forall p, In p out <-> is_file (f' p) = true)
    /\ (forall q, is_dir (f' q) = true -> exists p, In p out /\ path_in q (parents p) = true).
Proof.
  intros HG Hchk Hst c i Hlc f' out' Hreal f.
  specialize (Hchk (c_flags c) (nse_of k c)). unfold chk_outputs in Hchk. rewrite Hlc in Hchk.
  rewrite !andb_true_iff in Hchk. destruct Hchk as [[[Hr Hl] Hi1] Hi2].
  pose proof (Hst (c_flags c)) as Hs.
  unfold run in Hreal. unfold real_of in Hreal. rewrite (reject_modes k c false false false Hs) in Hreal.
  unfold run, lo_of. rewrite (reject_modes k c _ true _ Hs).
  destruct (beval (c_flags c) false false false (k_reject k)); [discriminate|].
  rewrite (ns_clash_modes k c i _ _ _ Hs) in Hreal. rewrite (ns_clash_modes k c i _ _ _ Hs).
  destruct (ns_clash k c i); [discriminate|].
  rewrite trace_of_modes in *.
  rewrite (path_effect_pure k _ _ HG) in Hreal. rewrite (path_effect_pure k _ _ HG).
  apply (fold_real k _ i HG _ Hr) in Hreal. destruct Hreal as (_ & Hok & Hfs & Hdirs).
  eexists. split; [|split].
  - apply (fold_list k _ i HG _ Hl).
    intros go Hgo. apply (pairs_incl_spec _ _ Hi2) in Hgo. specialize (Hok go Hgo).
    unfold templates_ok in *. intros it Hit. rewrite items_modes in Hit by assumption.
    rewrite items_modes in Hok by assumption. apply Hok in Hit. exact Hit.
  - intros p. rewrite Hfs. cbn [app]. rewrite in_flat_map. unfold fs_empty. split.
    + intros (go & Hgo & Hp). right. exists go. split; [apply (pairs_incl_spec _ _ Hi2); assumption|].
      unfold paths_of in *. rewrite items_modes in Hp by assumption. rewrite items_modes by assumption. exact Hp.
    + intros [Hf|(go & Hgo & Hp)]; [discriminate|]. exists go. split; [apply (pairs_incl_spec _ _ Hi1); assumption|].
      unfold paths_of in *. rewrite items_modes in Hp by assumption. rewrite items_modes by assumption. exact Hp.
  - intros q Hq. apply Hdirs in Hq. destruct Hq as [Hq|(go & p & Hgo & Hp & Hq)]; [discriminate|].
    exists p. split; [|assumption]. cbn [app]. rewrite in_flat_map. exists go.
    split; [apply (pairs_incl_spec _ _ Hi1); assumption|].
    unfold paths_of in *. rewrite items_modes in Hp by assumption. rewrite items_modes by assumption. exact Hp.
Qed.

(* ---- theorem 3: list-inputs is complete away from the three triggers ------------------------- *)
Lemma resolve_name_in ch n f : resolve_name ch n = Some f -> exists d, In d ch /\ In f d.
Proof.
  induction ch as [|d r IH]; cbn [resolve_name]; [discriminate|].
  destruct (find_name d n) eqn:E.
  - intros H; inversion H; subst. exists d. split; [left; reflexivity|]. unfold find_name in E. apply find_some in E. apply E.
  - intros H. destruct (IH H) as (d' & Hd & Hf). exists d'. split; [right; assumption|assumption].
Qed.

Lemma find_root i key d : is_root_key i key = true -> find_type i key = Some d -> In d (i_roots i).
Proof.
  unfold is_root_key, find_type, all_types. generalize (i_roots i) as rs. induction rs as [|t r IH]; cbn; [discriminate|].
  destruct (t_key t =? key) eqn:E; cbn.
  - intros _ H. inversion H. left; reflexivity.
  - intros H1 H2. right. apply IH; assumption.
Qed.

(* without expression-only references the front end reads exactly what the composite fields reach *)
Lemma closure_all_deps i : trig_constref i = false ->
  forall fuel t, In t (all_types i) -> closure_by t_all i fuel t = closure_by t_deps i fuel t.
Proof.
  intros Htr. induction fuel as [|n IH]; intros t Ht; cbn [closure_by]; [reflexivity|]. f_equal.
  assert (Hc : t_crefs t = []).
  { unfold trig_constref in Htr. destruct (t_crefs t) eqn:E; [reflexivity|]. exfalso.
    assert (existsb (fun t => nonempty_keys (t_crefs t)) (all_types i) = true).
    { apply existsb_exists. exists t. split; [assumption|]. rewrite E. reflexivity. }
    congruence. }
  unfold t_all at 2. rewrite Hc, app_nil_r. apply flat_map_ext. intros key.
  destruct (find_type i key) as [d|] eqn:E; [|reflexivity]. apply IH. unfold find_type in E. apply find_some in E. apply E.
Qed.

Lemma closure_roots i : trig_lookup i = false -> forall fuel t, In t (i_roots i) -> forall d, In d (closure i fuel t) -> In d (i_roots i).
Proof.
  intros Htr. unfold trig_lookup in Htr. apply negb_false_iff in Htr. rewrite forallb_forall in Htr.
  induction fuel as [|n IH]; intros t Ht d Hd; cbn [closure] in Hd.
  - destruct Hd as [<-|[]]. assumption.
  - destruct Hd as [<-|Hd]; [assumption|]. apply in_flat_map in Hd. destruct Hd as (key & Hk & Hd).
    specialize (Htr t Ht). rewrite forallb_forall in Htr. specialize (Htr key Hk).
    destruct (find_type i key) as [d'|] eqn:E; [|destruct Hd].
    apply (IH d'); [apply (find_root i key); assumption | assumption].
Qed.

Lemma path_in_spec p l : path_in p l = true <-> In p l.
Proof.
  unfold path_in. rewrite existsb_exists. split.
  - intros (q & Hq & He). destruct (path_eqb_spec p q); [subst; assumption|discriminate].
  - intros H. exists p. split; [assumption|]. destruct (path_eqb_spec p p); congruence.
Qed.

Lemma types_read_modes k c i d o li : chk_stable k (c_flags c) = true ->
  types_read k (with_flags c (set_modes (c_flags c) d o li)) i = types_read k c i.
Proof.
  intros H. destruct (chk_stable_spec k (c_flags c) d o li H) as [Hr _].
  unfold types_read. cbn [c_flags with_flags]. rewrite Hr. reflexivity.
Qed.

Lemma listed_sources_modes k c i d o li al : chk_stable k (c_flags c) = true ->
  listed_sources k (with_flags c (set_modes (c_flags c) d o li)) i al = listed_sources k c i al.
Proof. intros H. unfold listed_sources. rewrite types_read_modes by assumption. reflexivity. Qed.

Lemma listed_dep_sources_modes k c i d o li : chk_stable k (c_flags c) = true ->
  listed_dep_sources k (with_flags c (set_modes (c_flags c) d o li)) i = listed_dep_sources k c i.
Proof. intros H. unfold listed_dep_sources, sources_by. rewrite types_read_modes by assumption. reflexivity. Qed.

(* ---- the derived template closure stays inside the loader chain -------------------------------- *)
Lemma in_concat_chain (ch : list (list tfile)) f : In f (concat ch) <-> exists d, In d ch /\ In f d.
Proof. rewrite in_concat. split; intros (d & H1 & H2); exists d; auto. Qed.

Lemma resolve_names_in ch names f : In f (resolve_names ch names) -> In f (concat ch).
Proof.
  unfold resolve_names. rewrite in_flat_map. intros (n & _ & H).
  destruct (resolve_name ch n) as [g|] eqn:E; [|destruct H]. destruct H as [<-|[]].
  apply resolve_name_in in E. apply in_concat_chain. exact E.
Qed.

Lemma class_files_in ch f : In f (class_files ch) -> In f (concat ch).
Proof. unfold class_files. intros H. apply filter_In in H. apply H. Qed.

Lemma step_refs_in ch f g : In g (step_refs ch f) -> In g (concat ch).
Proof.
  unfold step_refs. intros H. apply in_app_or in H. destruct H as [H|H]; [apply (resolve_names_in _ _ _ H)|].
  destruct (tf_dyn f); [apply class_files_in; assumption|destruct H].
Qed.

Lemma closure_go_in ch : forall fuel todo visited,
  (forall f, In f todo -> In f (concat ch)) -> (forall f, In f visited -> In f (concat ch)) ->
  forall f, In f (closure_go ch fuel todo visited) -> In f (concat ch).
Proof.
  induction fuel as [|n IH]; intros todo visited Ht Hv f Hf; cbn [closure_go] in Hf; [apply Hv; assumption|].
  destruct todo as [|g r]; [apply Hv; assumption|].
  destruct (tfile_mem g visited).
  - apply (IH r visited); auto. intros x Hx. apply Ht. right; assumption.
  - apply (IH (step_refs ch g ++ r) (g :: visited)); auto.
    + intros x Hx. apply in_app_or in Hx. destruct Hx as [Hx|Hx]; [apply (step_refs_in ch g x Hx) | apply Ht; right; assumption].
    + intros x [<-|Hx]; [apply Ht; left; reflexivity | apply Hv; assumption].
Qed.

Lemma tpl_closure_in ch entries : (forall f, In f entries -> In f (concat ch)) ->
  forall f, In f (tpl_closure ch entries) -> In f (concat ch).
Proof. intros H f Hf. unfold tpl_closure in Hf. revert Hf. apply closure_go_in; auto. intros ? []. Qed.

Lemma step_refs_none ch f : has_refs f = false -> step_refs ch f = [].
Proof.
  unfold has_refs, step_refs. destruct (tf_refs f); [|discriminate]. intros ->. reflexivity.
Qed.

(* templates without references load nothing further *)
Lemma closure_go_norefs ch : forall fuel todo visited,
  (forall f, In f todo -> has_refs f = false) ->
  forall x, In x (closure_go ch fuel todo visited) -> In x todo \/ In x visited.
Proof.
  induction fuel as [|n IH]; intros todo visited Ht x Hx; cbn [closure_go] in Hx; [right; assumption|].
  destruct todo as [|g r]; [right; assumption|].
  destruct (tfile_mem g visited).
  - destruct (IH r visited (fun f Hf => Ht f (or_intror Hf)) x Hx); [left; right; assumption | right; assumption].
  - rewrite (step_refs_none ch g (Ht g (or_introl eq_refl))) in Hx. cbn [app] in Hx.
    destruct (IH r (g :: visited) (fun f Hf => Ht f (or_intror Hf)) x Hx) as [H|[<-|H]];
      [left; right; assumption | left; left; reflexivity | right; assumption].
Qed.

Lemma existsb_false_all {A} (P : A -> bool) l x : existsb P l = false -> In x l -> P x = false.
Proof.
  intros H Hx. destruct (P x) eqn:E; [|reflexivity]. exfalso.
  assert (existsb P l = true) by (apply existsb_exists; exists x; auto). congruence.
Qed.

Lemma type_entries_in k c i f : In f (type_entries k c i) -> In f (concat (chain c GTypes)).
Proof. unfold type_entries. intros H. apply filter_In in H. apply class_files_in. apply H. Qed.

Theorem list_inputs_partial_gen k : guards_ok k = true -> (forall fl nse, chk_inputs k fl nse = true) ->
  (forall fl, chk_stable k fl = true) ->
  forall c i, f_lc (c_flags c) = false ->
  beval (c_flags c) false false false (k_reject k) = false -> ns_clash k c i = false ->
  eff_trig_lookup k i = false -> eff_trig_tpl k c i = false -> eff_trig_sup k c = false ->
  (k_fix_suptpl k || support_consistent c) = true ->
  forall x, In x (influence_set k c i) ->
  forall f, exists out, run k (li_of c) i f = (f, out, Ok) /\ In x out.
Proof.
  intros HG Hchk Hst c i Hlc Hrej Hclash Hlk Hnj Hso Hsc x Hx f.
  specialize (Hchk (c_flags c) (nse_of k c)). unfold chk_inputs in Hchk. rewrite Hlc in Hchk.
  apply andb_true_iff in Hchk. destruct Hchk as [Hshape Hcov].
  pose proof (Hst (c_flags c)) as Hs.
  unfold run, li_of. rewrite (reject_modes k c _ false true Hs), Hrej. rewrite (ns_clash_modes k c i _ _ _ Hs), Hclash.
  rewrite trace_of_modes. rewrite (path_effect_pure k _ _ HG).
  rewrite (fold_inputs k _ i _ Hshape). eexists. split; [reflexivity|]. cbn [app].
  unfold influence_set, real_of in Hx. rewrite trace_of_modes in Hx. apply in_flat_map in Hx. destruct Hx as (a & Ha & Hx).
  rewrite forallb_forall in Hcov. specialize (Hcov a Ha).
  destruct a as [g dry o|g o|al|g dry aow o e| |]; cbn [influences_of] in Hx; try (destruct Hx).
  apply andb_true_iff in Hcov. destruct Hcov as [Hlt Hls].
  unfold lists_templates in Hlt. rewrite existsb_exists in Hlt. destruct Hlt as (b & Hb & Hbe).
  destruct b as [g' dry' o'|g' o'|al'|g' dry' aow' o' e'| |]; try discriminate.
  apply andb_true_iff in Hbe. destruct Hbe as [Hg Ho]. apply genid_eqb_spec in Hg. apply eqb_prop in Ho. subst g' o'.
  destruct g.
  - (* type generator *)
    apply andb_true_iff in Hls. destruct Hls as [Hls Hld].
    apply in_app_or in Hx. destruct Hx as [Hx|Hx].
    + (* a template of the derived closure *)
      apply in_flat_map. exists (EListTemplates GTypes o). split; [assumption|]. cbn [listed_by listed_templates].
      apply in_map_iff in Hx. destruct Hx as (tf & <- & Htf).
      change (chain (with_flags c (set_modes (c_flags c) (f_dry (c_flags c)) false true)) GTypes) with (chain c GTypes).
      assert (Hl : listable k tf = true).
      { unfold eff_trig_tpl in Hnj. pose proof (existsb_false_all _ _ tf Hnj Htf) as H0.
        cbn beta in H0. apply negb_false_iff in H0. exact H0. }
      unfold type_templates in Htf. apply (tpl_closure_in _ _ (type_entries_in k c i)) in Htf.
      apply in_concat_chain in Htf. destruct Htf as (d & Hd & Hf).
      apply in_flat_map. exists d. split; [exact Hd|]. unfold listable_paths. apply in_map. apply filter_In. split; assumption.
    + (* a DSDL source *)
      unfold lists_sources in Hls. rewrite existsb_exists in Hls. destruct Hls as (b & Hb' & Hbe).
      destruct b as [|?|al|?| |]; try discriminate.
      unfold dsdl_influences, sources_by in Hx. apply in_flat_map in Hx. destruct Hx as (t & Ht & Hx).
      apply in_map_iff in Hx. destruct Hx as (d & <- & Hd).
      assert (Hall : In t (all_types i)).
      { unfold types_read in Ht. destruct (beval (c_flags c) false false false (k_read k)); [|destruct Ht].
        unfold all_types. apply in_or_app. left; assumption. }
      destruct (path_in (t_src d) (map t_src (types_read k c i))) eqn:Ein.
      * apply in_flat_map. exists (EListSources al). split; [assumption|]. cbn [listed_by].
        rewrite listed_sources_modes by assumption. unfold listed_sources. apply in_or_app. right. apply path_in_spec. exact Ein.
      * unfold eff_trig_lookup in Hlk. destruct (k_fix_lookup k); cbn [negb orb andb] in Hlk, Hld.
        -- (* the dependency listing is there *)
           unfold lists_deps in Hld. rewrite existsb_exists in Hld. destruct Hld as (b & Hb2 & Hbe2).
           destruct b; try discriminate.
           apply in_flat_map. exists EListDepSources. split; [assumption|]. cbn [listed_by].
           rewrite listed_dep_sources_modes by assumption. unfold listed_dep_sources. apply filter_In. split; [|rewrite Ein; reflexivity].
           unfold sources_by. apply in_flat_map. exists t. split; [assumption|]. apply in_map.
           destruct (k_fix_constref k); [exact Hd|].
           rewrite orb_false_r in Hlk. rewrite (closure_all_deps i Hlk _ t Hall) in Hd. exact Hd.
        -- exfalso. apply orb_false_iff in Hlk. destruct Hlk as [Hcr Hlk].
           rewrite (closure_all_deps i Hcr _ t Hall) in Hd.
           unfold types_read in Ht, Ein.
           destruct (beval (c_flags c) false false false (k_read k)); [|destruct Ht].
           pose proof (closure_roots i Hlk _ t Ht d Hd) as Hroot.
           assert (path_in (t_src d) (map t_src (i_roots i)) = true) by (apply path_in_spec; apply in_map; exact Hroot).
           congruence.
  - (* support generator *)
    apply in_flat_map. exists (EListTemplates GSupport o). split; [assumption|]. cbn [listed_by listed_templates].
    change (support_resources k (with_flags c (set_modes (c_flags c) (f_dry (c_flags c)) false true)) o) with (support_resources k c o).
    apply in_app_or in Hx. destruct Hx as [Hx|Hx].
    2:{ (* a resource copied verbatim *)
      unfold support_copied in Hx.
      change (support_resources k (with_flags c (set_modes (c_flags c) false false false)) o) with (support_resources k c o) in Hx.
      apply in_map_iff in Hx. destruct Hx as (r & <- & Hr). apply filter_In in Hr. destruct Hr as [Hr Hj].
      apply in_map_iff. exists r. split; [|exact Hr]. unfold sup_listed_path.
      apply negb_true_iff in Hj. rewrite Hj, andb_false_r. reflexivity. }
    apply in_map_iff in Hx. destruct Hx as (tf & <- & Htf).
    unfold eff_trig_sup in Hso. apply orb_false_iff in Hso. destruct Hso as [Hso Hrefs].
    unfold trig_sup_refs in Hrefs. apply orb_false_iff in Hrefs. destruct Hrefs as [Hr0 Hr1].
    unfold support_templates, tpl_closure in Htf.
    change (chain (with_flags c (set_modes (c_flags c) false false false)) GSupport) with (chain c GSupport) in Htf.
    assert (Hent : In tf (support_entries k c o)).
    { change (support_entries k (with_flags c (set_modes (c_flags c) false false false)) o) with (support_entries k c o) in Htf.
      apply closure_go_norefs in Htf.
      - destruct Htf as [H|[]]; exact H.
      - intros g Hg. destruct o; [apply (existsb_false_all _ _ g Hr1 Hg) | apply (existsb_false_all _ _ g Hr0 Hg)]. }
    unfold support_entries, resolve_names in Hent. apply in_flat_map in Hent. destruct Hent as (n & Hn & Hx).
    apply in_map_iff in Hn. destruct Hn as (r & <- & Hr). apply filter_In in Hr. destruct Hr as [Hr Hj].
    apply in_map_iff. exists r. split; [|exact Hr]. unfold sup_listed_path.
    change (chain (with_flags c (set_modes (c_flags c) (f_dry (c_flags c)) false true)) GSupport) with (chain c GSupport).
    destruct (k_fix_suptpl k); cbn [negb andb orb] in Hso, Hsc |- *.
    + rewrite Hj. destruct (resolve_name (chain c GSupport) (sr_name r)) as [tf'|]; [|destruct Hx].
      destruct Hx as [<-|[]]. reflexivity.
    + assert (Hmem : In r (l_sup_ser (c_lang c) ++ l_sup_type (c_lang c))).
      { unfold support_resources in Hr. apply in_flat_map in Hr. destruct Hr as (gr & _ & Hr).
        destruct (fst gr && o); [destruct Hr|]. apply in_or_app. destruct (snd gr); [left|right]; assumption. }
      unfold support_consistent in Hsc. rewrite forallb_forall in Hsc. specialize (Hsc r Hmem).
      assert (Hres : resolve_name (chain c GSupport) (sr_name r) = find_name (l_support_dir (c_lang c)) (sr_name r)).
      { unfold chain. unfold trig_support_override in Hso. destruct (c_support_templates c) as [d|].
        - cbn [resolve_name]. destruct (find_name d (sr_name r)) eqn:E.
          + exfalso. assert (existsb (fun r0 => match find_name d (sr_name r0) with Some _ => true | None => false end)
                                     (l_sup_ser (c_lang c) ++ l_sup_type (c_lang c)) = true).
            { apply existsb_exists. exists r. split; [assumption|]. rewrite E. reflexivity. }
            congruence.
          + destruct (find_name (l_support_dir (c_lang c)) (sr_name r)); reflexivity.
        - cbn [resolve_name]. destruct (find_name (l_support_dir (c_lang c)) (sr_name r)); reflexivity. }
      rewrite Hres in Hx. destruct (find_name (l_support_dir (c_lang c)) (sr_name r)) as [tf'|]; [|discriminate].
      destruct Hx as [<-|[]]. destruct (path_eqb_spec (tf_path tf') (sr_path r)) as [->|]; [reflexivity|discriminate].
Qed.

(* the full statement for a code that has the three repairs, over ALL inputs that influence the output including the
   configuration files, which are excluded explicitly (they are neither templates nor DSDL files and are not listed) *)
Theorem list_inputs_complete_gen k : guards_ok k = true -> (forall fl nse, chk_inputs k fl nse = true) ->
  (forall fl, chk_stable k fl = true) ->
  k_fix_lookup k = true -> k_fix_constref k = true -> k_fix_nonj2 k = true -> k_fix_suptpl k = true ->
  forall c i, f_lc (c_flags c) = false -> beval (c_flags c) false false false (k_reject k) = false -> ns_clash k c i = false ->
  eff_trig_tpl k c i = false -> trig_sup_refs k c = false ->
  forall x, In x (all_influences k c i) -> is_config_input c x = false ->
  forall f, exists out, run k (li_of c) i f = (f, out, Ok) /\ In x out.
Proof.
  intros HG Hchk Hst H1 H1c H2 H3 c i Hlc Hrej Hclash Hpy Hrefs x Hx Hcfg.
  unfold all_influences in Hx. apply in_app_or in Hx. destruct Hx as [Hx|Hx].
  2:{ exfalso. unfold is_config_input in Hcfg. apply path_in_spec in Hx. congruence. }
  clear Hcfg. revert x Hx. apply (list_inputs_partial_gen k HG Hchk Hst c i Hlc Hrej Hclash).
  - unfold eff_trig_lookup. rewrite H1, H1c. reflexivity.
  - exact Hpy.
  - unfold eff_trig_sup. rewrite H3, Hrefs. reflexivity.
  - rewrite H3. reflexivity.
Qed.

(* ---- theorem 4: what --list-inputs prints for a generator is a set of PATHS ------------------- *)
(* type generator: exactly the paths of the listable files (template suffix; after the repair of F-LIST-INPUTS-NONJ2 every file
   that is not a Python package file) in the directories of its loader chain -- two files with the same name in different
   directories are two entries *)
Theorem listed_templates_servable_gen k c o p :
  In p (listed_templates k c GTypes o) <-> exists d f, In d (chain c GTypes) /\ In f d /\ listable k f = true /\ tf_path f = p.
Proof.
  cbn [listed_templates]. rewrite in_flat_map. split.
  - intros (d & Hd & Hp). unfold listable_paths in Hp. apply in_map_iff in Hp. destruct Hp as (f & Hf & Hin).
    apply filter_In in Hin. destruct Hin as [Hin Hj]. exists d, f. auto.
  - intros (d & f & Hd & Hf & Hj & Hp). exists d. split; [assumption|]. unfold listable_paths. apply in_map_iff. exists f.
    split; [assumption|]. apply filter_In. auto.
Qed.

(* support generator: the packaged resources SupportGenerator.get_templates enumerates, each as the path sup_listed_path gives *)
Theorem listed_support_resources_gen k c o p :
  In p (listed_templates k c GSupport o) <-> exists r, In r (support_resources k c o) /\ sup_listed_path k c r = p.
Proof. cbn [listed_templates]. rewrite in_map_iff. split; intros (r & H1 & H2); exists r; auto. Qed.
