(* C09 -- lemmas about the regex matcher `mt` (Common/Regex.v) used by the stropping proofs:
   (1) a successful match hands the continuation a suffix of the subject;
   (2) a sound two-character look-ahead analysis `rch`: decides, for a regex AST, that it cannot
       match (anchored) any string  c1 :: tl  with  tl = [] \/ hd tl in C2  -- all finite, so the
       side conditions of the C09 theorems over the *regenerated* patterns are closed by vm_compute;
   (3) the two "must match" shapes the encoding rules rely on:  X+  and  ^X. *)
From Verif Require Import Strop.
Open Scope N_scope.

Section MtCont.
  Variable u : uni.
  Context {A : Type}.

  (* (at1, s1) is reachable from (at0, s) by consuming a prefix *)
  Definition sfx (at0 : bool) (s : str) (at1 : bool) (s1 : str) : Prop :=
    (at1 = at0 /\ s1 = s) \/ (at1 = false /\ exists pre, pre <> [] /\ s = pre ++ s1).

  Lemma sfx_trans a s b s1 c s2 : sfx a s b s1 -> sfx b s1 c s2 -> sfx a s c s2.
  Proof.
    intros [[-> ->]|[-> (p & Hp & ->)]] [[-> ->]|[-> (q & Hq & ->)]].
    - left; split; reflexivity.
    - right; split; [reflexivity|]. exists q; split; [assumption|reflexivity].
    - right; split; [reflexivity|]. exists p; split; [assumption|reflexivity].
    - right; split; [reflexivity|]. exists (p ++ q); split.
      + destruct p; [congruence|discriminate].
      + rewrite app_assoc; reflexivity.
  Qed.

  Lemma sfx_app a s b s1 : sfx a s b s1 -> exists pre, s = pre ++ s1.
  Proof. intros [[_ ->]|[_ (p & _ & ->)]]; [exists []|exists p]; reflexivity. Qed.

  Lemma sfx_len a s b s1 : sfx a s b s1 -> (length s1 <= length s)%nat.
  Proof. intros H; apply sfx_app in H as (p & ->). rewrite app_length; lia. Qed.

  Lemma star_cont (m : (bool -> str -> option A) -> bool -> str -> option A) (k : bool -> str -> option A) :
    (forall k' at0 s v, m k' at0 s = Some v -> exists at1 s1, sfx at0 s at1 s1 /\ k' at1 s1 = Some v) ->
    forall fuel at0 s v, star_loop m k fuel at0 s = Some v ->
                         exists at1 s1, sfx at0 s at1 s1 /\ k at1 s1 = Some v.
  Proof.
    intros Hm; induction fuel as [|f IH]; intros at0 s v H; cbn [star_loop] in H.
    - exists at0, s; split; [left; split; reflexivity|assumption].
    - destruct (m _ at0 s) as [v0|] eqn:E.
      + injection H as ->. apply Hm in E as (at1 & s1 & Hs & Hk).
        destruct (Nat.ltb (length s1) (length s)); [|discriminate].
        apply IH in Hk as (at2 & s2 & Hs2 & Hk2).
        exists at2, s2; split; [eapply sfx_trans; eassumption|assumption].
      + exists at0, s; split; [left; split; reflexivity|assumption].
  Qed.

  Lemma mt_cont r : forall (k : bool -> str -> option A) at0 s v,
      mt u r k at0 s = Some v -> exists at1 s1, sfx at0 s at1 s1 /\ k at1 s1 = Some v.
  Proof.
    induction r as [|c|a IHa b IHb|a IHa b IHb|a IHa| |]; intros k at0 s v H; cbn [mt] in H.
    - exists at0, s; split; [left; split; reflexivity|assumption].
    - destruct s as [|x s']; [discriminate|]. destruct (cls_mem u c x); [|discriminate].
      exists false, s'; split; [|assumption]. right; split; [reflexivity|].
      exists [x]; split; [discriminate|reflexivity].
    - apply IHa in H as (at1 & s1 & Hs & H). apply IHb in H as (at2 & s2 & Hs2 & H).
      exists at2, s2; split; [eapply sfx_trans; eassumption|assumption].
    - destruct (mt u a k at0 s) as [v0|] eqn:E.
      + injection H as ->. exact (IHa _ _ _ _ E).
      + exact (IHb _ _ _ _ H).
    - eapply star_cont; [|exact H]. intros k' a0 s0 v0; apply IHa.
    - destruct at0; [|discriminate]. exists true, s; split; [left; split; reflexivity|assumption].
    - exists at0, s; split; [left; split; reflexivity|].
      destruct s as [|c [|d s']]; [assumption| |discriminate].
      destruct (c =? LF); [assumption|discriminate].
  Qed.
End MtCont.

(* star with the always-succeeding continuation of re.match / re.sub never fails *)
Lemma star_krest_some (m : (bool -> str -> option str) -> bool -> str -> option str) fuel at0 s :
  exists rest, star_loop m (fun _ rest => Some rest) fuel at0 s = Some rest.
Proof.
  destruct fuel as [|f]; cbn [star_loop]; [eexists; reflexivity|].
  destruct (m _ at0 s); eexists; reflexivity.
Qed.

(* must-match shape 1:  X a*  (in particular X+ = X X* ) matches wherever the first character is in X *)
Lemma clsplus_match u k a at0 c s :
  cls_mem u k c = true -> exists rest, mt u (Seq (Cls k) (Star a)) (fun _ rest => Some rest) at0 (c :: s) = Some rest.
Proof.
  intros H; cbn [mt]; rewrite H. apply star_krest_some.
Qed.

Lemma clsplus_nomatch u k a at0 c s :
  cls_mem u k c = false -> mt u (Seq (Cls k) (Star a)) (fun _ rest => Some rest) at0 (c :: s) = None.
Proof. intros H; cbn [mt]; rewrite H; reflexivity. Qed.

(* must-match shape 2:  ^X *)
Lemma bolcls_mt u k at0 c s :
  mt u (Seq Bol (Cls k)) (fun _ rest => Some rest) at0 (c :: s) = if at0 && cls_mem u k c then Some s else None.
Proof. cbn [mt]; destruct at0; cbn; [destruct (cls_mem u k c)|]; reflexivity. Qed.

(* ------------------------------------------------------------------------------------------- *)
(* two-character look-ahead analysis                                                           *)
(* ------------------------------------------------------------------------------------------- *)
Inductive pos := P0 | P1 | P2.
(* sets of positions as data (three booleans), so that vm_compute shares the work *)
Record pset := PS { ps0 : bool; ps1 : bool; ps2 : bool }.
Definition pin (S : pset) (p : pos) : bool := match p with P0 => ps0 S | P1 => ps1 S | P2 => ps2 S end.
Definition pempty : pset := PS false false false.
Definition ptop : pset := PS true true true.
Definition psingle (p : pos) : pset :=
  match p with P0 => PS true false false | P1 => PS false true false | P2 => PS false false true end.
Definition punion (a b : pset) : pset := PS (ps0 a || ps0 b) (ps1 a || ps1 b) (ps2 a || ps2 b).
Definition pbind (S : pset) (f : pos -> pset) : pset :=
  punion (if ps0 S then f P0 else pempty) (punion (if ps1 S then f P1 else pempty) (if ps2 S then f P2 else pempty)).
Definition psub (a b : pset) : bool := implb (ps0 a) (ps0 b) && implb (ps1 a) (ps1 b) && implb (ps2 a) (ps2 b).

Lemma pin_single p q : pin (psingle p) q = true <-> p = q.
Proof. destruct p, q; cbn; split; congruence. Qed.

Lemma pin_union a b q : pin (punion a b) q = pin a q || pin b q.
Proof. destruct q; reflexivity. Qed.

Lemma pin_empty q : pin pempty q = false.
Proof. destruct q; reflexivity. Qed.

Lemma pbind_in S f q : pin (pbind S f) q = true <-> exists p, pin S p = true /\ pin (f p) q = true.
Proof.
  unfold pbind; rewrite !pin_union; split.
  - intros H. apply orb_prop in H as [H|H]; [|apply orb_prop in H as [H|H]].
    + destruct (ps0 S) eqn:E; [exists P0; auto|rewrite pin_empty in H; discriminate].
    + destruct (ps1 S) eqn:E; [exists P1; auto|rewrite pin_empty in H; discriminate].
    + destruct (ps2 S) eqn:E; [exists P2; auto|rewrite pin_empty in H; discriminate].
  - intros ([| |] & H1 & H2); cbn [pin] in H1; rewrite H1, H2; rewrite ?orb_true_r; reflexivity.
Qed.

Lemma psub_in a b : psub a b = true -> forall p, pin a p = true -> pin b p = true.
Proof.
  unfold psub; intros H p Hp. apply andb_prop in H as [H H2]; apply andb_prop in H as [H0 H1].
  destruct p; cbn [pin] in *; [rewrite Hp in H0|rewrite Hp in H1|rewrite Hp in H2]; assumption.
Qed.

Section Reach.
  Variable u : uni.
  Variable a0 : bool.          (* is the subject's first character at index 0 of the whole string? *)
  Variable c1 : chr.           (* first character of the subject *)
  Variable C2 : list chr.      (* the second character, if there is one, is one of these *)

  Fixpoint rch (r : re) (p : pos) : pset :=
    match r with
    | Eps => psingle p
    | Cls k =>
        match p with
        | P0 => if cls_mem u k c1 then psingle P1 else pempty
        | P1 => if existsb (cls_mem u k) C2 then psingle P2 else pempty
        | P2 => psingle P2
        end
    | Seq a b => pbind (rch a p) (rch b)
    | Alt a b => punion (rch a p) (rch b p)
    | Star a =>
        let step := fun T : pset => punion T (pbind T (rch a)) in
        let T := step (step (step (psingle p))) in
        if psub (pbind T (rch a)) T then T else ptop
    | Bol => match p with P0 => if a0 then psingle P0 else pempty | _ => pempty end
    | Eol => psingle p
    end.

  Definition rch_none (r : re) : bool := let S := rch r P0 in negb (ps0 S || ps1 S || ps2 S).

  Variable tl : str.
  Hypothesis Htl : tl = [] \/ exists c2 tl', tl = c2 :: tl' /\ In c2 C2.

  Definition gam (p : pos) (at1 : bool) (cur : str) : Prop :=
    match p with
    | P0 => at1 = a0 /\ cur = c1 :: tl
    | P1 => at1 = false /\ cur = tl
    | P2 => at1 = false /\ exists pre, pre <> [] /\ tl = pre ++ cur
    end.

  Context {A : Type}.

  Lemma rch_star_sound (a : re) (k : bool -> str -> option A) (T : pset) :
    (forall (k' : bool -> str -> option A) p at1 cur v, gam p at1 cur -> mt u a k' at1 cur = Some v ->
                            exists p' at' cur', pin (rch a p) p' = true /\ gam p' at' cur' /\ k' at' cur' = Some v) ->
    (forall q q', pin T q = true -> pin (rch a q) q' = true -> pin T q' = true) ->
    forall fuel p at1 cur v, pin T p = true -> gam p at1 cur ->
                             star_loop (mt u a) k fuel at1 cur = Some v ->
                             exists p' at' cur', pin T p' = true /\ gam p' at' cur' /\ k at' cur' = Some v.
  Proof.
    intros Ha Hclosed; induction fuel as [|f IH]; intros p at1 cur v HT Hg H; cbn [star_loop] in H.
    - exists p, at1, cur; auto.
    - destruct (mt u a _ at1 cur) as [v0|] eqn:E.
      + injection H as ->. apply (Ha _ p) in E as (p' & at' & cur' & Hr & Hg' & Hk); [|assumption].
        destruct (Nat.ltb (length cur') (length cur)); [|discriminate].
        apply (IH p') in Hk; [assumption| |assumption]. eapply Hclosed; eassumption.
      + exists p, at1, cur; auto.
  Qed.

  Lemma rch_sound r : forall (k : bool -> str -> option A) p at1 cur v,
      gam p at1 cur -> mt u r k at1 cur = Some v ->
      exists p' at' cur', pin (rch r p) p' = true /\ gam p' at' cur' /\ k at' cur' = Some v.
  Proof.
    induction r as [|c|a IHa b IHb|a IHa b IHb|a IHa| |]; intros k p at1 cur v Hg H; cbn [mt] in H; cbn [rch].
    - exists p, at1, cur; repeat split; try assumption. apply pin_single; reflexivity.
    - destruct cur as [|x cur']; [discriminate|]. destruct (cls_mem u c x) eqn:Hx; [|discriminate].
      destruct p; cbn [gam] in Hg.
      + destruct Hg as [-> Hc]; injection Hc as -> ->. rewrite Hx.
        exists P1, false, tl; repeat split; assumption || reflexivity.
      + destruct Hg as [-> Hc].
        assert (Hin : In x C2).
        { destruct Htl as [E|(c2 & tl' & E & Hin)]; rewrite E in Hc; [discriminate|].
          injection Hc as -> _. exact Hin. }
        assert (He : existsb (cls_mem u c) C2 = true) by (apply existsb_exists; exists x; auto).
        rewrite He. exists P2, false, cur'; repeat split; try assumption || reflexivity.
        exists [x]; split; [discriminate|symmetry; exact Hc].
      + destruct Hg as [-> (pre & Hp & Hc)].
        exists P2, false, cur'; repeat split; try assumption || reflexivity.
        exists (pre ++ [x]); split; [destruct pre; discriminate|rewrite <- app_assoc; exact Hc].
    - apply (IHa _ p) in H as (p1 & at2 & cur2 & Hr1 & Hg1 & H); [|assumption].
      apply (IHb _ p1) in H as (p2 & at3 & cur3 & Hr2 & Hg2 & H); [|assumption].
      exists p2, at3, cur3; repeat split; try assumption. apply pbind_in; exists p1; auto.
    - destruct (mt u a k at1 cur) as [v0|] eqn:E.
      + injection H as ->. apply (IHa _ p) in E as (p' & at' & cur' & Hr & Hg' & Hk); [|assumption].
        exists p', at', cur'; repeat split; try assumption. rewrite pin_union, Hr; reflexivity.
      + apply (IHb _ p) in H as (p' & at' & cur' & Hr & Hg' & Hk); [|assumption].
        exists p', at', cur'; repeat split; try assumption. rewrite pin_union, Hr, orb_true_r; reflexivity.
    - set (step := fun T : pset => punion T (pbind T (rch a))).
      set (T := step (step (step (psingle p)))).
      assert (HTp : pin T p = true).
      { unfold T, step. rewrite !pin_union. replace (pin (psingle p) p) with true by (symmetry; apply pin_single; reflexivity).
        reflexivity. }
      change (exists p' at' cur', pin (if psub (pbind T (rch a)) T then T else ptop) p' = true
                                  /\ gam p' at' cur' /\ k at' cur' = Some v).
      destruct (psub (pbind T (rch a)) T) eqn:Hsub.
      + eapply (rch_star_sound a k T); [intros; eapply IHa; eassumption| |exact HTp|exact Hg|exact H].
        intros q q' Hq Hqq. eapply psub_in; [exact Hsub|]. apply pbind_in; exists q; auto.
      + eapply (rch_star_sound a k ptop) with (p := p);
          [intros; eapply IHa; eassumption|intros ? q' ? ?; destruct q'; reflexivity|destruct p; reflexivity|exact Hg|exact H].
    - destruct at1; [|discriminate]. destruct p; cbn [gam] in Hg.
      + destruct Hg as [<- Hc]. exists P0, true, cur; repeat split; try assumption || reflexivity.
      + destruct Hg; discriminate.
      + destruct Hg; discriminate.
    - exists p, at1, cur; repeat split; try assumption; [apply pin_single; reflexivity|].
      destruct cur as [|c [|d s']]; [assumption| |discriminate].
      destruct (c =? LF); [assumption|discriminate].
  Qed.

  Lemma rch_none_sound r (k : bool -> str -> option A) :
    rch_none r = true -> mt u r k a0 (c1 :: tl) = None.
  Proof.
    unfold rch_none; intros Hn. destruct (mt u r k a0 (c1 :: tl)) as [v|] eqn:E; [|reflexivity].
    apply (rch_sound r k P0) in E as (p' & _ & _ & Hr & _); [|cbn; auto].
    destruct p'; cbn [pin] in Hr; rewrite Hr in Hn; cbn in Hn; rewrite ?orb_true_r in Hn; discriminate.
  Qed.
End Reach.
