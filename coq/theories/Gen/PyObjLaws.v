(* C18: the laws of NumPy's conversion `np.array(src, dtype).flatten()` that the proofs about assign_array rely on, as a record;
   the array soundness and the length exactness are re-proved for `assign_array_with conv` from the laws ONLY, and the model
   `np_array` of PyObj.v is shown to satisfy them.  The laws are the trusted base about NumPy (the correspondence run sweeps each
   of them at the dtype edges); everything else about assign_array is proved from the generated template facts. *)
From Coq Require Import List NArith ZArith Bool Arith Lia ZifyBool.
From Verif Require Import PyObj Gen_PyObj PyObjThm PyObjThmWrap.
Import ListNotations.
Open Scope Z_scope.

Record np_laws (conv : dtype -> pyval -> res (list pyval)) : Prop := {
  (* law_sound: every element of the result can be held by the dtype (no out-of-range value is ever stored), and converting a value
     whose embedded instances honour the contract gives such values (object arrays keep their elements) *)
  law_sound : forall db s dt y l, dt_wok dt -> wfv PW db s y = true -> conv dt y = Ok l ->
              forallb (fits dt) l = true /\ forallb (wfv PW db s) l = true;
  (* law_pyint_id: a flat list of Python ints inside an unsigned dtype is converted to itself (same length, same values) *)
  law_pyint_id : forall W zs, Forall (fun z => urange W z = true) zs -> conv (DU W) (PList (map PInt zs)) = Ok (map PInt zs);
  (* law_pyint_overflow: a Python int outside an integer dtype is never accepted (NumPy 2: OverflowError), nothing is wrapped *)
  law_pyint_overflow : forall dt zs l, (exists W, dt = DU W \/ dt = DS W) -> conv dt (PList (map PInt zs)) = Ok l ->
              l = map PInt zs /\ Forall (fun z => fits dt (PInt z) = true) zs;
  (* law_foreign_wrap: the integer elements of an ndarray (of another dtype) are cast like C: they wrap around, nothing is raised *)
  law_foreign_wrap : forall dt dt' zs, (exists W, dt = DU W \/ dt = DS W) ->
              conv dt (PArr dt' (map PInt zs)) = Ok (map (fun z => PInt (wrap_int dt z)) zs)
}.

Theorem np_array_laws : np_laws np_array.
Proof.
  constructor.
  - intros db s dt y l Hd W H. exact (np_array_ok dt s db y l Hd W H).
  - intros W zs H. rewrite np_array_pylist by apply pyatom_ints. apply mapM_conv_ints. exact H.
  - intros dt zs l Hdt H. rewrite np_array_pylist in H by apply pyatom_ints. apply mapM_conv_ints_inv; assumption.
  - intros dt dt' zs [W Hdt]. cbn [np_array]. induction zs as [|z r IH]; [reflexivity|].
    cbn [map mapM]. rewrite IH. destruct Hdt as [->| ->]; reflexivity.
Qed.

Section FromLaws.
  Variable conv : dtype -> pyval -> res (list pyval).
  Hypothesis L : np_laws conv.

  Definition slowW (q fixed : bool) (cap : nat) (e : etype) (y : pyval) : res pyval :=
    if int_src_ok TG e y then
      l <- conv (dtype_of PW e) y ;;
      if lenG fixed (length l) cap then (if float_src_ok TG q e y then chkG q e l else Raise ValueError) else Raise ValueError
    else Raise ValueError.
  Definition assignW (q fixed : bool) (cap : nat) (e : etype) (x1 : pyval) : res pyval :=
    match x1 with
    | PBytes s => if fast_bytesG e && lenG fixed (length s) cap
                  then chkG q e (map (fun c => PInt (Z.of_N (c mod 256))) s)
                  else if t_text_guard TG then Raise ValueError else slowW q fixed cap e x1
    | PStr _ => if t_text_guard TG then Raise ValueError else slowW q fixed cap e x1
    | PArr dt' l => if dtype_eqb dt' (dtype_of PW e) && lenG fixed (length l) cap then chkG q e l else slowW q fixed cap e x1
    | _ => slowW q fixed cap e x1
    end.

  (* the generated template facts, computed *)
  Lemma assign_array_with_gen : forall q fixed cap sl e x,
    assign_array_with TG PW q conv fixed cap sl e x = assignW q fixed cap e (strconv sl x).
  Proof. intros. destruct fixed; reflexivity. Qed.

  Lemma slowW_ok : forall strict q db fixed cap sl e y v,
    sideF strict q (FArr fixed cap sl e) -> wfv PW db strict y = true -> slowW q fixed cap e y = Ok v ->
    field_ok PW strict (FArr fixed cap sl e) v = true /\ wfv PW db strict v = true /\ is_none v = false.
  Proof.
    intros strict q db fixed cap sl e y v S W H. unfold slowW in H.
    destruct (int_src_ok TG e y); [|discriminate].
    destruct (conv (dtype_of PW e) y) as [l|] eqn:M; cbn [bind] in H; [|discriminate].
    destruct (lenG fixed (length l) cap) eqn:Ll; [|discriminate].
    destruct (float_src_ok TG q e y); [|discriminate].
    destruct (law_sound conv L db strict _ y l (dtype_of_wok _ _ _ _ (proj2 S)) W M) as (F & W').
    exact (chkG_ok _ _ _ _ _ _ _ _ _ S Ll F W' H).
  Qed.

  (* soundness of the array setter, from the laws only *)
  Theorem assign_array_with_ok : forall strict q db fixed cap sl e x v,
    sideF strict q (FArr fixed cap sl e) -> wfv PW db strict x = true ->
    assign_array_with TG PW q conv fixed cap sl e x = Ok v ->
    field_ok PW strict (FArr fixed cap sl e) v = true /\ wfv PW db strict v = true /\ is_none v = false.
  Proof.
    intros strict q db fixed cap sl e x v S W H. rewrite assign_array_with_gen in H.
    assert (W1 : wfv PW db strict (strconv sl x) = true).
    { unfold strconv. destruct sl; auto. destruct x; auto. }
    destruct (strconv sl x) as [| | | | |s| | |dt' l|] eqn:X; cbn [assignW] in H; try (eapply slowW_ok; eauto; fail);
      try (destruct (t_text_guard TG); [discriminate|]; eapply slowW_ok; eauto; fail).
    - destruct (fast_bytesG e && lenG fixed (length s) cap) eqn:C;
        [|destruct (t_text_guard TG); [discriminate|]; eapply slowW_ok; eauto].
      apply andb_true_iff in C. destruct C as [Cb Cl].
      destruct e as [[|w|w|w]|t]; cbn [fast_bytesG] in Cb; try discriminate.
      eapply chkG_ok; [exact S| | | |exact H].
      + rewrite map_length. exact Cl.
      + cbn [dtype_of]. apply byte_fits. lia.
      + apply forallb_forall. intros y Hy. apply in_map_iff in Hy. destruct Hy as (c & <- & _). reflexivity.
    - destruct (dtype_eqb dt' (dtype_of PW e) && lenG fixed (length l) cap) eqn:C; [|eapply slowW_ok; eauto].
      apply andb_true_iff in C. destruct C as [Cd Cl]. apply dtype_eqb_eq in Cd. subst dt'.
      cbn [wfv] in W1. apply andb_true_iff in W1. destruct W1 as [F Wl].
      exact (chkG_ok _ _ _ _ _ _ _ _ _ S Cl F Wl H).
  Qed.

  (* exactness of the length check for a list of in-range Python ints, from the laws only *)
  Theorem array_length_exact_with : forall q fixed cap sl w zs, 1 <= w <= 64 -> Forall (fun z => urange w z = true) zs ->
    assign_array_with TG PW q conv fixed cap sl (EPrim (KU w)) (PList (map PInt zs)) =
    if (if fixed then Nat.eqb (length zs) cap else Nat.leb (length zs) cap)
    then Ok (PArr (DU (pwd PW w)) (map PInt zs)) else Raise ValueError.
  Proof.
    intros q fixed cap sl w zs Hw Hz. rewrite assign_array_with_gen.
    replace (strconv sl (PList (map PInt zs))) with (PList (map PInt zs)) by (destruct sl; reflexivity).
    cbn [assignW]. unfold slowW. rewrite (int_src_ok_ints w zs Hz). cbn [dtype_of].
    rewrite (law_pyint_id conv L) by (eapply Forall_impl; [|exact Hz]; intros; apply urange_pwd; auto).
    cbn [bind]. rewrite map_length. unfold lenG.
    destruct (if fixed then Nat.eqb (length zs) cap else Nat.leb (length zs) cap); [|reflexivity].
    rewrite float_src_ok_other by exact I. unfold chkG.
    assert (forallb (elem_in_dsdl_range (EPrim (KU w))) (map PInt zs) = true) as ->.
    { apply forallb_forall. intros y Hy. apply in_map_iff in Hy. destruct Hy as (z & <- & Hin).
      cbn [elem_in_dsdl_range]. rewrite Forall_forall in Hz. auto. }
    rewrite orb_true_r. reflexivity.
  Qed.

  (* without the source check the wrap of law_foreign_wrap reaches the field; with it nothing outside the field's range is cast *)
  Theorem foreign_wrap_stored : forall q fixed cap w dt' zs,
    dtype_eqb dt' (DU (pwd PW w)) = false -> lenG fixed (length zs) cap = true ->
    int_src_ok TG (EPrim (KU w)) (PArr dt' (map PInt zs)) = true ->
    (q = true \/ Forall (fun z => urange w (z mod 2 ^ pwd PW w) = true) zs) ->
    assign_array_with TG PW q conv fixed cap false (EPrim (KU w)) (PArr dt' (map PInt zs)) =
    Ok (PArr (DU (pwd PW w)) (map (fun z => PInt (z mod 2 ^ pwd PW w)) zs)).
  Proof.
    intros q fixed cap w dt' zs Hd Hl Hi Hq. rewrite assign_array_with_gen. cbn [strconv assignW dtype_of]. rewrite Hd. cbn [andb].
    unfold slowW. rewrite Hi. cbn [dtype_of]. rewrite (law_foreign_wrap conv L) by (eexists; left; reflexivity).
    cbn [bind wrap_int]. rewrite map_length, Hl, float_src_ok_other by exact I. unfold chkG.
    assert ((q || forallb (elem_in_dsdl_range (EPrim (KU w))) (map (fun z => PInt (z mod 2 ^ pwd PW w)) zs)) = true) as ->; [|reflexivity].
    destruct Hq as [->|Hq]; [reflexivity|]. apply orb_true_iff. right. apply forallb_forall. intros y Hy.
    apply in_map_iff in Hy. destruct Hy as (z & <- & Hin). cbn [elem_in_dsdl_range]. rewrite Forall_forall in Hq. auto.
  Qed.
End FromLaws.

(* instances for the model of NumPy in PyObj.v: exactly the statements of PyObjThm.v *)
Corollary assign_array_ok_from_laws : forall strict q db fixed cap sl e x v,
  sideF strict q (FArr fixed cap sl e) -> wfv PW db strict x = true -> assign_array TG PW q fixed cap sl e x = Ok v ->
  field_ok PW strict (FArr fixed cap sl e) v = true /\ wfv PW db strict v = true /\ is_none v = false.
Proof. exact (assign_array_with_ok np_array np_array_laws). Qed.

Corollary array_length_exact_from_laws : forall q fixed cap sl w zs, 1 <= w <= 64 -> Forall (fun z => urange w z = true) zs ->
  assign_array TG PW q fixed cap sl (EPrim (KU w)) (PList (map PInt zs)) =
  if (if fixed then Nat.eqb (length zs) cap else Nat.leb (length zs) cap)
  then Ok (PArr (DU (pwd PW w)) (map PInt zs)) else Raise ValueError.
Proof. exact (array_length_exact_with np_array np_array_laws). Qed.
