(* C19: the regenerated shape digests of the WHOLE vendored Jinja2 (Generated/Gen_JinjaVendor.v) against the committed table *)
From Coq Require Import String.
From Verif Require Import JinjaVendorPins JinjaPins Gen_JinjaVendor.
Open Scope N_scope.

(* every function / method / module remainder of all 27 vendored modules has the committed shape: any edit anywhere in the
   vendored copy breaks this and has to be classified in Gen/JinjaVendorPins.v *)
Lemma vendored_all_pinned_lemma : pairs_eqb vendored_digests expected_vendored = true.
Proof. vm_compute. reflexivity. Qed.

(* the delta sites the tree documents itself (marker comments / docstrings / identifiers, package rename strings, commits of the
   directory's git log) are exactly the committed documented deltas *)
Lemma documented_sites_lemma : map fst documented_sites = documented_delta_keys.
Proof. vm_compute. reflexivity. Qed.

Definition digest_of (k : str) (t : list (str * str)) : option str := assoc k t.
Definition eq_stock31 (kd : str * str) : bool :=
  match assoc (fst kd) stock31_digests with Some d => str_eqb d (snd kd) | None => false end.

(* structural reference (3.1.x, version caveat): a documented delta is a real difference from the reference, never a function the
   reference has verbatim *)
Lemma documented_deltas_differ_from_reference_lemma :
  forallb (fun k => match assoc k vendored_digests with Some d => negb (eq_stock31 (k, d)) | None => false end) documented_delta_keys = true.
Proof. vm_compute. reflexivity. Qed.

(* how much of the vendored copy is verbatim (by shape) the installed stock release: these functions carry no Nunavut change
   unless upstream made the identical change *)
Lemma verbatim_reference_count_lemma :
  (length (filter eq_stock31 vendored_digests) >= 270)%nat /\ length vendored_digests = 774%nat.
Proof. vm_compute. split; [repeat constructor|reflexivity]. Qed.
